#!/usr/bin/env python3
"""Tie A, function level: translate C FUNCTION BODIES of /repo's current sources into Lean 4 definitions.

usage (library): c2lean.translate_unit(repo, builddir, unit_name, c_file, [function names], opts) -> Lean source text

The translation is syntax directed (one Lean construct per C construct, no pattern recognition, no simplification), from
clang's typed AST (`clang-14 -Xclang -ast-dump=json`).  The result is a SHALLOW embedding in the style of Aeneas:

  * every C function `f` gets a state structure `f.St` with one field per parameter / local scalar (`Int`), one field per
    array it indexes (`List Int`; `p[i]`, `*p`, `ddims[i].field` -> field `ddims_field`, `info->field` -> `info_field`,
    `info->arr[i]` -> `info_arr`), plus
       ub  : Bool   an access outside its array, a division by zero, a negative shift or bitwise operand happened
       oof : Bool   a loop ran out of fuel (the C loop would still be running)
       ret : Int    value of the `return` statement,  done : Bool  a `return` was executed
  * statements are state transformers composed with `let s := …`; `if` is `if … then … else …`;
    every loop is a structurally recursive function on a `fuel : Nat` argument (the entry point takes `fuel`);
  * C integers are Lean `Int`s WITHOUT wrap-around (assumption "no int32 overflow", stated in the trusted base), `/` and `%`
    are C's truncating operators (`Int.tdiv`, `Int.tmod`); a cast to an 8/16-bit type reduces modulo its width;
  * arrays passed through different parameters are assumed not to overlap (trusted base).

Everything outside the supported subset makes the translator FAIL loudly (it never guesses): goto, switch, pointer arithmetic
on non-byte pointers, calls (unless listed in `opts['calls']` as translated functions of the same unit), address-of, floating point,
side effects inside expressions other than the statement-level forms listed below.
Statement forms: declarations, `x = e`, `a[i] = e`, `*p = e`, `x op= e`, `a[i] op= e`, `x++/x--/++x/--x`, `if/else`, `for`, `while`,
`do-while`, blocks, `return e`, `break`, `continue`; empty statements.
"""
import json, os, re, subprocess, sys

KEYWORDS = {"done", "end", "from", "at", "in", "fun", "open", "then", "else", "if", "do", "let", "have", "show", "match", "with", "where",
            "ub", "oof", "ret", "s", "fuel", "by", "local", "section", "namespace", "def", "theorem", "instance", "class", "structure",
            "mut", "for", "return", "break", "continue", "prefix", "infix", "notation", "macro", "syntax", "import", "export", "universe",
            "variable", "set_option", "attribute", "deriving", "extends", "Type", "Prop", "Sort", "true", "false", "brk", "cnt"}

SIGNED = {"char": 8, "signed char": 8, "short": 16, "int": 32, "long": 64, "long long": 64, "int8": 8, "int16": 16, "int32": 32, "intn": 32,
          "int8_t": 8, "int16_t": 16, "int32_t": 32, "int64_t": 64, "ssize_t": 64, "intf": 32}
UNSIGNED = {"unsigned char": 8, "unsigned short": 16, "unsigned int": 32, "unsigned": 32, "unsigned long": 64, "unsigned long long": 64,
            "uint8": 8, "uint16": 16, "uint32": 32, "uintn": 32, "uint8_t": 8, "uint16_t": 16, "uint32_t": 32, "uint64_t": 64, "size_t": 64,
            "uchar8": 8, "char8": 8}


class Unsupported(Exception):
    pass


def fail(msg):
    raise Unsupported(msg)


def lname(n):
    return n + "_" if n in KEYWORDS else n


def clang_ast(cfile, fn, incs):
    cmd = ["clang-14", "-fsyntax-only", "-w", "-DH4_VERIF", "-Xclang", "-ast-dump=json", "-Xclang", "-ast-dump-filter=" + fn] + incs + [cfile]
    r = subprocess.run(cmd, capture_output=True, text=True)
    if r.returncode != 0:
        fail("clang cannot parse %s: %s" % (cfile, r.stderr[-1500:]))
    dec, i, txt, docs = json.JSONDecoder(), 0, r.stdout, []
    while i < len(txt):
        while i < len(txt) and txt[i].isspace():
            i += 1
        if i >= len(txt):
            break
        o, i = dec.raw_decode(txt, i)
        docs.append(o)
    cands = [d for d in docs if d.get("kind") == "FunctionDecl" and d.get("name") == fn and any(c.get("kind") == "CompoundStmt" for c in d.get("inner", []))]
    if len(cands) != 1:
        fail("function %s: %d definitions found in %s" % (fn, len(cands), cfile))
    return cands[0]


def qt(n):
    t = n.get("type", {})
    return t.get("desugaredQualType", t.get("qualType", ""))


def base_type(t):
    t = re.sub(r"\b(const|volatile|restrict|register)\b", "", t).strip()
    return re.sub(r"\s+", " ", t)


def int_width(t):
    """(signed?, bits) of an integer type name, or None"""
    t = base_type(t)
    if t in SIGNED:
        return True, SIGNED[t]
    if t in UNSIGNED:
        return False, UNSIGNED[t]
    if t.startswith("enum "):
        return True, 32
    return None


class Fn:
    def __init__(self, ast, unit, opts):
        self.ast, self.unit, self.opts = ast, unit, opts
        self.name = ast["name"]
        self.scalars = []        # state fields : Int   (in order of appearance)
        self.arrays = []         # state fields : List Int
        self.params = []         # entry point parameters: (lean field, kind) in C order, struct parameters expanded on first use
        self.struct_params = {}  # C name -> 'array' | 'single'
        self.ptr_params = set()
        self.loops = []          # generated loop definitions (text)
        self.nloops = 0
        self.has_ret = False
        self.has_brk = False
        self.decl_of = {}        # clang id -> lean scalar name
        self.field_order = {}    # struct param -> [fields in order of first use]
        self.calls = opts.get("calls", {})

    # ---------------------------------------------------------------- state fields
    def scalar(self, n):
        n = lname(n)
        if n not in self.scalars:
            self.scalars.append(n)
        return n

    def array(self, n):
        n = lname(n)
        if n not in self.arrays:
            self.arrays.append(n)
        return n

    # ---------------------------------------------------------------- expressions
    # an expression translates to (lean Int term, [checks]) ; a check is a Lean Prop (decidable) that must hold, else ub
    def strip(self, n):
        while n.get("kind") in ("ParenExpr", "ImplicitCastExpr", "ConstantExpr") and not (
                n.get("kind") == "ImplicitCastExpr" and n.get("castKind") == "IntegralCast" and self.narrowing(n)):
            n = n["inner"][0]
        return n

    def narrowing(self, n):
        w = int_width(qt(n))
        return w is not None and w[1] < 32

    def lvalue(self, n):
        """-> ('scalar', field) | ('elem', array field, index term, checks)"""
        n = self.strip(n)
        k = n.get("kind")
        if k == "DeclRefExpr":
            d = n["referencedDecl"]
            nm = d["name"]
            if d.get("kind") not in ("VarDecl", "ParmVarDecl"):
                fail("%s: reference to %s %s" % (self.name, d.get("kind"), nm))
            if nm in self.ptr_params or nm in self.struct_params:
                fail("%s: pointer %s used as a value" % (self.name, nm))
            if nm not in [p for p in self.scalars]:
                # a global or enum constant would be handled in rvalue(); as an lvalue it must be a local/param
                if lname(nm) not in self.scalars:
                    fail("%s: assignment to unknown variable %s" % (self.name, nm))
            return ("scalar", lname(nm))
        if k == "UnaryOperator" and n.get("opcode") == "*":
            b = self.strip(n["inner"][0])
            if b.get("kind") == "DeclRefExpr" and b["referencedDecl"]["name"] in self.ptr_params:
                a = self.array(b["referencedDecl"]["name"])
                return ("elem", a, "0", ["0 < s.%s.length" % a])
            fail("%s: dereference of a computed pointer" % self.name)
        if k == "ArraySubscriptExpr":
            b, i = self.strip(n["inner"][0]), n["inner"][1]
            it, ic = self.rvalue(i)
            if b.get("kind") == "DeclRefExpr":
                nm = b["referencedDecl"]["name"]
                if nm in self.ptr_params:
                    a = self.array(nm)
                    return ("elem", a, it, ic + ["0 ≤ %s ∧ %s < s.%s.length" % (it, it, a)])
                fail("%s: subscript of %s, which is not a pointer parameter" % (self.name, nm))
            if b.get("kind") == "MemberExpr":
                a = self.member_array(b)
                return ("elem", a, it, ic + ["0 ≤ %s ∧ %s < s.%s.length" % (it, it, a)])
            fail("%s: subscript of %s" % (self.name, b.get("kind")))
        if k == "MemberExpr":
            b = self.strip(n["inner"][0])
            fld = n["name"]
            if b.get("kind") == "ArraySubscriptExpr":
                bb, i = self.strip(b["inner"][0]), b["inner"][1]
                if bb.get("kind") == "DeclRefExpr" and self.struct_params.get(bb["referencedDecl"]["name"]) is not None:
                    pn = bb["referencedDecl"]["name"]
                    a = self.struct_field(pn, fld, True)
                    it, ic = self.rvalue(i)
                    return ("elem", a, it, ic + ["0 ≤ %s ∧ %s < s.%s.length" % (it, it, a)])
            if b.get("kind") == "DeclRefExpr" and n.get("isArrow") and self.struct_params.get(b["referencedDecl"]["name"]) is not None:
                pn = b["referencedDecl"]["name"]
                if int_width(qt(n)) is None:
                    fail("%s: member %s->%s is not an integer" % (self.name, pn, fld))
                f = self.struct_field(pn, fld, False)
                return ("scalar", f)
            fail("%s: member access %s on %s" % (self.name, fld, b.get("kind")))
        fail("%s: unsupported lvalue %s" % (self.name, k))

    def member_array(self, m):
        """`info->arr` used as an array"""
        b = self.strip(m["inner"][0])
        if b.get("kind") == "DeclRefExpr" and m.get("isArrow") and self.struct_params.get(b["referencedDecl"]["name"]) is not None:
            return self.struct_field(b["referencedDecl"]["name"], m["name"], True)
        fail("%s: array member %s of %s" % (self.name, m.get("name"), b.get("kind")))

    def struct_field(self, pn, fld, is_array):
        f = lname("%s_%s" % (pn, fld))
        lst = self.field_order.setdefault(pn, [])
        if (f, is_array) not in lst:
            if (f, not is_array) in lst:
                fail("%s: %s->%s used both as scalar and as array" % (self.name, pn, fld))
            lst.append((f, is_array))
        return self.array(f) if is_array else self.scalar(f)

    def rvalue(self, n):
        n0 = n
        n = self.strip(n)
        k = n.get("kind")
        if k == "IntegerLiteral":
            return str(int(n["value"])), []
        if k == "CharacterLiteral":
            return str(int(n["value"])), []
        if k in ("ImplicitCastExpr", "CStyleCastExpr"):
            w = int_width(qt(n))
            if w is None:
                fail("%s: cast to non-integer type %s" % (self.name, qt(n)))
            t, c = self.rvalue(n["inner"][0])
            return self.wrap(t, w), c
        if k == "DeclRefExpr":
            d = n["referencedDecl"]
            if d.get("kind") == "EnumConstantDecl":
                return self.const(d["name"]), []
            nm = d["name"]
            if lname(nm) in self.scalars and nm not in self.ptr_params:
                return "s.%s" % lname(nm), []
            fail("%s: read of %s (%s) outside the subset" % (self.name, nm, d.get("kind")))
        if k in ("ArraySubscriptExpr", "MemberExpr") or (k == "UnaryOperator" and n.get("opcode") == "*"):
            lv = self.lvalue(n)
            if lv[0] == "scalar":
                return "s.%s" % lv[1], []
            return "(s.%s.getD (Int.toNat (%s)) 0)" % (lv[1], lv[2]), lv[3]
        if k == "UnaryOperator":
            op = n["opcode"]
            t, c = self.rvalue(n["inner"][0])
            if op == "-":
                return "(- %s)" % t, c
            if op == "+":
                return t, c
            if op == "!":
                return "(if %s = 0 then 1 else 0)" % t, c
            if op == "~":
                w = int_width(qt(n))
                return "(-(%s) - 1)" % t, c
            fail("%s: unary %s inside an expression" % (self.name, op))
        if k == "BinaryOperator":
            op = n["opcode"]
            if op in ("&&", "||", "<", "<=", ">", ">=", "==", "!="):
                b, c = self.cond(n)
                return "(if %s then 1 else 0)" % b, c
            if op == ",":
                fail("%s: comma operator" % self.name)
            if op == "=":
                fail("%s: assignment inside an expression" % self.name)
            a, ca = self.rvalue(n["inner"][0])
            b, cb = self.rvalue(n["inner"][1])
            return self.binop(op, a, b, ca + cb, n)
        if k == "ConditionalOperator":
            c, cc = self.cond(n["inner"][0])
            a, ca = self.rvalue(n["inner"][1])
            b, cb = self.rvalue(n["inner"][2])
            return "(if %s then %s else %s)" % (c, a, b), cc + ["¬(%s) ∨ (%s)" % (c, x) for x in ca] + ["(%s) ∨ (%s)" % (c, x) for x in cb]
        if k == "UnaryExprOrTypeTraitExpr" and n.get("name") == "sizeof":
            at = n.get("argType", {}).get("qualType")
            w = int_width(at) if at else None
            if w is None:
                fail("%s: sizeof of %s" % (self.name, at))
            return str(w[1] // 8), []
        if k == "CallExpr":
            return self.call(n)
        fail("%s: unsupported expression %s" % (self.name, k))

    def const(self, name):
        v = self.opts.get("consts", {}).get(name)
        if v is None:
            fail("%s: constant %s not provided" % (self.name, name))
        return str(v)

    def wrap(self, t, w):
        signed, bits = w
        if bits >= 32:
            return t
        m = 2 ** bits
        if signed:
            return "(((%s) + %d) %% %d - %d)" % (t, m // 2, m, m // 2)
        return "((%s) %% %d)" % (t, m)

    def binop(self, op, a, b, c, n):
        if op == "+":
            return "(%s + %s)" % (a, b), c
        if op == "-":
            return "(%s - %s)" % (a, b), c
        if op == "*":
            return "(%s * %s)" % (a, b), c
        if op == "/":
            return "(Int.tdiv %s %s)" % (a, b), c + ["%s ≠ 0" % b]
        if op == "%":
            return "(Int.tmod %s %s)" % (a, b), c + ["%s ≠ 0" % b]
        if op in ("&", "|", "^"):
            f = {"&": "&&&", "|": "|||", "^": "^^^"}[op]
            return "(Int.ofNat (Int.toNat (%s) %s Int.toNat (%s)))" % (a, f, b), c + ["0 ≤ %s ∧ 0 ≤ %s" % (a, b)]
        if op == "<<":
            return "(%s * 2 ^ Int.toNat (%s))" % (a, b), c + ["0 ≤ %s ∧ 0 ≤ %s ∧ %s < 32" % (a, b, b)]
        if op == ">>":
            return "(%s / 2 ^ Int.toNat (%s))" % (a, b), c + ["0 ≤ %s ∧ 0 ≤ %s ∧ %s < 32" % (a, b, b)]
        fail("%s: binary operator %s" % (self.name, op))

    def cond(self, n):
        """C expression used as a truth value -> (Lean decidable Prop, checks)"""
        n = self.strip(n)
        k = n.get("kind")
        if k == "BinaryOperator":
            op = n["opcode"]
            if op in ("<", "<=", ">", ">=", "==", "!="):
                a, ca = self.rvalue(n["inner"][0])
                b, cb = self.rvalue(n["inner"][1])
                lop = {"<": "<", "<=": "≤", ">": ">", ">=": "≥", "==": "=", "!=": "≠"}[op]
                return "(%s %s %s)" % (a, lop, b), ca + cb
            if op == "&&":
                a, ca = self.cond(n["inner"][0])
                b, cb = self.cond(n["inner"][1])
                return "(%s ∧ %s)" % (a, b), ca + ["¬%s ∨ (%s)" % (a, x) for x in cb]
            if op == "||":
                a, ca = self.cond(n["inner"][0])
                b, cb = self.cond(n["inner"][1])
                return "(%s ∨ %s)" % (a, b), ca + ["%s ∨ (%s)" % (a, x) for x in cb]
        if k == "UnaryOperator" and n.get("opcode") == "!":
            a, ca = self.cond(n["inner"][0])
            return "(¬%s)" % a, ca
        t, c = self.rvalue(n)
        return "(%s ≠ 0)" % t, c

    def call(self, n):
        fail("%s: call expression" % self.name)

    # ---------------------------------------------------------------- statements
    # a statement translates to a list of Lean lines, each `let s := …` (the state variable is always `s`)
    def checks(self, cs, ind):
        out = []
        seen = []
        for c in cs:
            if c not in seen:
                seen.append(c)
                out.append("%slet s := %s.chk s (%s)" % (ind, self.name, c))
        return out

    def assign(self, lv, term, ind):
        if lv[0] == "scalar":
            return ["%slet s := { s with %s := %s }" % (ind, lv[1], term)]
        return ["%slet s := { s with %s := s.%s.set (Int.toNat (%s)) (%s) }" % (ind, lv[1], lv[1], lv[2], term)]

    def guard(self, lines, ind):
        """statements after a return/break/continue in the same region are skipped"""
        return lines

    def stmt(self, n, ind):
        k = n.get("kind")
        if k is None or k == "NullStmt":
            return []
        if k == "CompoundStmt":
            out = []
            for c in n.get("inner", []):
                out += self.wrapskip(self.stmt(c, ind + ("  " if self.has_ret or self.has_brk else "")), ind)
            return out
        if k == "DeclStmt":
            out = []
            for d in n.get("inner", []):
                if d.get("kind") != "VarDecl":
                    fail("%s: declaration of %s" % (self.name, d.get("kind")))
                if int_width(qt(d)) is None:
                    fail("%s: local %s of type %s" % (self.name, d["name"], qt(d)))
                if d.get("storageClass") == "static":
                    fail("%s: static local %s" % (self.name, d["name"]))
                nm = self.scalar(d["name"])
                init = [c for c in d.get("inner", []) if c.get("kind") not in (None,)]
                if init:
                    t, c = self.rvalue(init[0])
                    out += self.checks(c, ind) + self.assign(("scalar", nm), self.wrap(t, int_width(qt(d))), ind)
            return out
        if k == "BinaryOperator" and n["opcode"] == "=":
            rhs = self.strip(n["inner"][1])
            if rhs.get("kind") == "BinaryOperator" and rhs.get("opcode") == "=":
                # chained assignment a = b = e
                inner = self.stmt(rhs, ind)
                lv = self.lvalue(n["inner"][0])
                t, c = self.rvalue(rhs["inner"][0])
                return inner + self.checks((lv[3] if lv[0] == "elem" else []) + c, ind) + self.assign(lv, t, ind)
            t, c = self.rvalue(n["inner"][1])
            lv = self.lvalue(n["inner"][0])
            w = int_width(qt(n))
            if w is None:
                fail("%s: assignment of type %s" % (self.name, qt(n)))
            return self.checks(c + (lv[3] if lv[0] == "elem" else []), ind) + self.assign(lv, self.wrap(t, w), ind)
        if k == "CompoundAssignOperator":
            op = n["opcode"][:-1]
            lv = self.lvalue(n["inner"][0])
            cur = "s.%s" % lv[1] if lv[0] == "scalar" else "(s.%s.getD (Int.toNat (%s)) 0)" % (lv[1], lv[2])
            t, c = self.rvalue(n["inner"][1])
            v, c2 = self.binop(op, cur, t, c, n)
            w = int_width(qt(n))
            return self.checks(c2 + (lv[3] if lv[0] == "elem" else []), ind) + self.assign(lv, self.wrap(v, w), ind)
        if k == "UnaryOperator" and n.get("opcode") in ("++", "--"):
            lv = self.lvalue(n["inner"][0])
            cur = "s.%s" % lv[1] if lv[0] == "scalar" else "(s.%s.getD (Int.toNat (%s)) 0)" % (lv[1], lv[2])
            v = "(%s %s 1)" % (cur, "+" if n["opcode"] == "++" else "-")
            return self.checks(lv[3] if lv[0] == "elem" else [], ind) + self.assign(lv, v, ind)
        if k == "ParenExpr" or (k in ("ImplicitCastExpr", "CStyleCastExpr") and base_type(qt(n)) == "void"):
            return self.stmt(n["inner"][0], ind)
        if k == "IfStmt":
            inner = n["inner"]
            c, cc = self.cond(inner[0])
            th = self.stmt(inner[1], ind + "    ")
            el = self.stmt(inner[2], ind + "    ") if len(inner) > 2 else []
            out = self.checks(cc, ind)
            out.append("%slet s := if %s then" % (ind, c))
            out += th + ["%s    s" % ind, "%s  else" % ind] + el + ["%s    s" % ind]
            return out
        if k in ("ForStmt", "WhileStmt", "DoStmt"):
            return self.loop(n, ind)
        if k == "ReturnStmt":
            out = []
            if n.get("inner"):
                t, c = self.rvalue(n["inner"][0])
                out += self.checks(c, ind) + ["%slet s := { s with ret := %s }" % (ind, t)]
            if self.has_ret:
                out.append("%slet s := { s with done := true }" % ind)
            return out
        if k == "BreakStmt":
            return ["%slet s := { s with brk := true }" % ind]
        if k == "ContinueStmt":
            return ["%slet s := { s with cnt := true }" % ind]
        fail("%s: unsupported statement %s" % (self.name, k))

    def wrapskip(self, lines, ind):
        if not lines or not (self.has_ret or self.has_brk):
            return lines
        cond = " ∨ ".join((["s.done"] if self.has_ret else []) + (["s.brk ∨ s.cnt"] if self.has_brk else []))
        body = [("  " + l) if False else l for l in lines]
        return ["%slet s := if %s then s else" % (ind, cond)] + body + ["%s  s" % ind]

    def loop(self, n, ind):
        k = n["kind"]
        inner = n["inner"]
        if k == "ForStmt":
            init, cond, inc, body = inner[0], inner[2], inner[3], inner[4]
        elif k == "WhileStmt":
            init, cond, inc, body = None, inner[0], None, inner[1]
        else:
            init, cond, inc, body = None, inner[1], None, inner[0]
        out = []
        if init is not None and init.get("kind"):
            out += self.stmt(init, ind)
        idx = self.nloops
        self.nloops += 1
        lname_ = "%s.loop%d" % (self.name, idx)
        if cond is not None and cond.get("kind"):
            c, cc = self.cond(cond)
        else:
            c, cc = "True", []
        bl = self.stmt(body, "      ")
        il = self.stmt(inc, "      ") if inc is not None and inc.get("kind") else []
        stop = ""
        if self.has_ret or self.has_brk:
            stop = " ∧ ¬(" + " ∨ ".join((["s.done"] if self.has_ret else []) + (["s.brk"] if self.has_brk else [])) + ")"
        reset = ["      let s := { s with cnt := false }"] if self.has_brk else []
        d = ["def %s (fuel : Nat) (s : %s.St) : %s.St :=" % (lname_, self.name, self.name), "  match fuel with", "  | 0 =>"]
        d += self.checks(cc, "      ")
        d += ["      if %s%s then { s with oof := true } else s" % (c, stop), "  | fuel' + 1 =>"]
        d += self.checks(cc, "      ")
        d += ["      if %s%s then" % (c, stop)]
        d += ["  " + l for l in bl] + ["  " + l for l in reset] + ["  " + l for l in il]
        d += ["        %s fuel' s" % lname_, "      else s", ""]
        # nested loops were appended to self.loops while translating the body: this one goes after them
        self.loops.append("\n".join(d).replace("%s fuel s" % "\0", ""))
        if k == "DoStmt":
            out += [l.replace("      ", ind, 1) if l.startswith("      ") else l for l in bl]
            out += ["%slet s := { s with cnt := false }" % ind] if self.has_brk else []
        out.append("%slet s := %s fuel s" % (ind, lname_))
        if self.has_brk:
            out.append("%slet s := { s with brk := false }" % ind)
        return out

    # ---------------------------------------------------------------- whole function
    def scan_flags(self, n):
        k = n.get("kind")
        if k == "ReturnStmt":
            self._rets.append(n)
        if k in ("BreakStmt", "ContinueStmt"):
            self.has_brk = True
        if k in ("GotoStmt", "SwitchStmt", "LabelStmt"):
            fail("%s: %s" % (self.name, k))
        for c in n.get("inner", []):
            self.scan_flags(c)

    def translate(self):
        ast = self.ast
        body = [c for c in ast["inner"] if c.get("kind") == "CompoundStmt"][0]
        plist = []
        for p in [c for c in ast["inner"] if c.get("kind") == "ParmVarDecl"]:
            t = base_type(qt(p))
            nm = p["name"]
            if int_width(t) is not None:
                self.scalar(nm)
                plist.append(("scalar", nm))
            elif t.endswith("*"):
                el = base_type(t[:-1])
                if int_width(el) is not None:
                    self.ptr_params.add(nm)
                    plist.append(("array", nm))
                elif el.endswith("*"):
                    fail("%s: parameter %s of type %s" % (self.name, nm, t))
                else:
                    self.struct_params[nm] = "struct"
                    plist.append(("struct", nm))
            else:
                fail("%s: parameter %s of type %s" % (self.name, nm, t))
        self._rets = []
        self.scan_flags(body)
        # a single return as the LAST statement of the body needs no `done` flag
        last = body.get("inner", [None])[-1] if body.get("inner") else None
        self.has_ret = any(r is not last for r in self._rets)
        lines = self.stmt(body, "  ")
        # entry point parameters
        params, inits = ["(fuel : Nat)"], []
        for kind, nm in plist:
            if kind == "scalar":
                params.append("(%s : Int)" % lname(nm))
                inits.append("%s := %s" % (lname(nm), lname(nm)))
            elif kind == "array":
                if lname(nm) in self.arrays:
                    params.append("(%s : List Int)" % lname(nm))
                    inits.append("%s := %s" % (lname(nm), lname(nm)))
            else:
                for f, is_arr in self.field_order.get(nm, []):
                    params.append("(%s : %s)" % (f, "List Int" if is_arr else "Int"))
                    inits.append("%s := %s" % (f, f))
        given = set(i.split(" := ")[0] for i in inits)
        st = ["structure %s.St where" % self.name]
        for f in self.scalars:
            st.append("  %s : Int%s" % (f, "" if f in given else " := 0"))
        for f in self.arrays:
            st.append("  %s : List Int%s" % (f, "" if f in given else " := []"))
        st += ["  ub : Bool := false", "  oof : Bool := false", "  ret : Int := 0"]
        if self.has_ret:
            st.append("  done : Bool := false")
        if self.has_brk:
            st += ["  brk : Bool := false", "  cnt : Bool := false"]
        st.append("deriving Repr, DecidableEq")
        st.append("")
        st.append("/-- records undefined behaviour: `c` is what the C standard requires at this point -/")
        st.append("def %s.chk (s : %s.St) (c : Prop) [Decidable c] : %s.St := { s with ub := s.ub || !decide c }" % (self.name, self.name, self.name))
        st.append("")
        out = st + self.loops
        out.append("/-- `%s` of `%s`, translated statement by statement -/" % (self.name, self.opts.get("cfile", "?")))
        out.append("def %s %s : %s.St :=" % (self.name, " ".join(params), self.name))
        out.append("  let s : %s.St := { %s }" % (self.name, ", ".join(inits)))
        out += lines
        out.append("  s")
        out.append("")
        return "\n".join(out), params


def translate_unit(repo, bdir, unit, cfile, fns, opts=None):
    opts = dict(opts or {})
    opts["cfile"] = cfile
    incs = ["-I" + os.path.join(repo, "hdf/src"), "-I" + os.path.join(repo, "mfhdf/src"), "-I" + os.path.join(repo, "mfhdf/hdiff"),
            "-I" + os.path.join(repo, "mfhdf/hrepack")]
    if bdir:
        incs += ["-I" + bdir, "-I" + os.path.join(bdir, "hdf/src"), "-I" + os.path.join(bdir, "mfhdf/src")]
    out = ["/- GENERATED by /verif/gen/c2lean.py from `%s` of /repo's current tree (Tie A, function level). Do not edit.\n"
           "   Each definition is the statement-by-statement translation of the C function of the same name\n"
           "   (see the header of gen/c2lean.py for the translation scheme and its assumptions). -/\n" % cfile,
           "set_option linter.unusedVariables false\nnamespace H4.Gen.Fn.%s\n" % unit]
    sigs = {}
    for fn in fns:
        ast = clang_ast(os.path.join(repo, cfile), fn, incs)
        f = Fn(ast, unit, opts)
        txt, params = f.translate()
        out.append(txt)
        sigs[fn] = params
    out.append("end H4.Gen.Fn.%s\n" % unit)
    return "\n".join(out), sigs


if __name__ == "__main__":
    repo, bdir, unit, cfile = sys.argv[1:5]
    try:
        txt, _ = translate_unit(repo, bdir, unit, cfile, sys.argv[5:])
    except Unsupported as e:
        print("C2LEAN FAILURE:", e)
        sys.exit(1)
    print(txt)
