#!/usr/bin/env python3
"""Tie A, function level: translate C FUNCTION BODIES of /repo's current sources into Lean 4 definitions.

usage (library): c2lean.translate_unit(repo, builddir, unit_name, c_file, [function names], opts) -> Lean source text

The translation is syntax directed (one Lean construct per C construct, no pattern recognition, no simplification), from
clang's typed AST (`clang-14 -Xclang -ast-dump=json`).  The result is a SHALLOW embedding in the style of Aeneas:

  * every C function `f` gets a state structure `f.St` with
      - one field per integer parameter / local (`Int`);
      - one field (`List Int`) per memory REGION the function touches: an integer-pointer parameter `p` is the region `p`
        (`p[i]`, `*p`), `ddims[i].field` is the region `ddims_field`, `info->arr` is `info_arr`, `info->row[k]` (a pointer
        taken from an array of pointers) is the region `info_row` (the caller passes that row), a local array is its own
        region, pointer parameters listed in opts['flat'] share the single region `mem` and carry their ADDRESS in an
        `Int` field (so that `source == dest`, overlapping and in-place use are faithful);
      - one `Int` field per pointer local: its INDEX into its region.  The region of a pointer local is determined
        statically (every assignment to it must stay in one region, otherwise the translator fails);
      - `info->field` (integer member of a struct parameter) is the field `info_field`; `<region>_null : Bool` is the
        answer to a comparison of that parameter / member with NULL;
      - ub  : Bool   an access outside its region, a division by zero, a bad shift, overlapping memcpy happened
        oof : Bool   a loop ran out of fuel (the C loop would still be running)
        ret : Int    value of the `return` statement (for a pointer result: the index in its region, `retnull` for NULL),
        done : Bool  a `return` was executed;  brk / cnt : Bool  a `break` / `continue` is pending
  * statements are state transformers composed with `let s := …`; `if` is `if … then … else …`;
    every loop is a structurally recursive function on a `fuel : Nat` argument (the entry point takes `fuel`);
  * C integers are Lean `Int`s.  Arithmetic in an UNSIGNED type and conversions to an unsigned type reduce modulo 2^width
    (defined behaviour in C, modelled exactly); conversions to signed types narrower than 32 bits wrap; signed 32/64-bit
    arithmetic is NOT wrapped (signed overflow is undefined behaviour; assumption "no signed overflow", trusted base);
    `/` and `%` are C's truncating operators (`Int.tdiv`, `Int.tmod`);
  * side effects inside expressions are supported in the forms `x++ x-- ++x --x` (also on pointers, also under `*`),
    with C's sequencing: the value of the expression is computed in the old state, the updates are applied after the
    statement (or after the evaluation of a loop / if condition);
  * regions passed through different parameters are assumed not to overlap (trusted base), except the `flat` ones;
  * an ARRAY OF STRUCTS that is a member of a struct parameter (`p->a.arr[i].fld`) is one region per field (`p_a_arr_fld`).  A struct-pointer
    local that is bound to such an array (`q = &(p->a.arr[e])`, `q = p->a.arr`) and MOVES over it (`q++`, re-assignment to another element of
    the same array) is a CURSOR: an `Int` field holding its index; `q->fld` is the cell `[q]` of the region `p_a_arr_fld` (bounds-checked like
    `p->a.arr[i].fld`).  `memset(p->a.arr, 0, sizeof(p->a.arr))` on such an array sets every cell of every field region to 0 (the field list
    of the record comes from clang's record-layout dump of the C file, never from a hand-written list; any other memset of an array of
    structs is rejected);
  * `HDmemfill(dest, src, item_size, num_items)` is a builtin like memcpy (hdfalloc.c: `num_items` copies of the first `item_size` cells of
    `src`, nothing when a count is 0; bounds of both regions are checked; source and destination must be different regions).

  * a pointer LOCAL that is assigned NULL somewhere (or declared `= NULL` and NULL-tested) carries its NULLness in the Bool field `<p>_null`;
    arithmetic on / comparison of / access through it while NULL is recorded in `ub`.  `p = f(…)` with f in opts['assume_ptr_calls']
    (name -> Bool entry parameter) gives a pointer that can only be NULL-tested (its NULLness is that parameter);
  * `(*dp)->fld`, `dp` a pointer into an array of POINTERS TO STRUCTS (region R, e.g. `(NC_dim **)dims->values + i`): cell `dp` of the region
    `R_fld` (the caller passes the members `fld` of the pointed-to structs as that list; the access is checked against both R and R_fld);
  * `p->m = q`, `q` the start of a block this function allocated (malloc): the member is RE-SEATED; the Bool field `p_m_seat` records it and
    the member's new content is the block's region (the translation fails when the function also accesses the member's old memory);
    `p->m = NULL` sets the (entry) Bool `p_m_null` and clears `p_m_seat`;
  * a switch group may fall through into a following group that consists of `break` alone (`case A: stmts  default: break;`);
    opts['unmodelled_cases'] (macro / enum names, resolved by compiling): the statements of the switch groups with these labels are NOT
    translated - reaching such a group is recorded in `ub` (stated in the generated doc comment);
  * a scalar assignment on the right of `&&` (`a && (x = e) >= 0`) becomes a conditional store (`x := if a then e else x`);
  * opts['c_names'] (Lean/source name -> symbol after preprocessing) for functions renamed by a macro (`#define NC_var_shape H4_NC_var_shape`).
Extensions used by unit Hfiledd (each one only takes effect when its option is given, so the text of the other units is unchanged):
  * opts['object_calls'] = [names]: a struct-pointer local whose single binding is the result of these calls (`p = f(x)`, also through
    `c ? (T *)f(x) : NULL` whose condition consults only such calls, and `(pp = f(x)) == NULL` for a pointer to pointer, `q = *pp`) IS an object
    outside the function, like a struct parameter: its integer members are entry fields `p_<member>`, `p_null : Bool` answers the NULL test.
    The calls are assumed to leave the modelled state unchanged.  A struct-pointer local that is only ever NULL (`dd_t *d = NULL`, its address
    handed to an assumed call) is accepted; any dereference of it still fails.
  * opts['assume_calls'][f] = 'table:k': the call of `f` (ONE call site) leaves the modelled state unchanged and returns `f_ret[a]`, a cell of the
    entry region `f_ret : List Int` selected by the value of argument number k (an integer, or a cursor: its index); 0 outside the table.
  * opts['use_units'] = {unit: [c file, [functions], opts]}: functions of a unit translated elsewhere may be called; the call names the
    definitions of that unit (`H4.Gen.Fn.<unit>.<f>`, imported), so its theorems apply to the callee.
  * opts['fragments'][name] = {'of': function, 'from': text, 'to': text | 'count': n}: `name` (listed among the unit's functions) is the run of
    consecutive statements of ONE block of `function` from the statement whose source text starts with `from` to the first following sibling
    that starts with `to`.  Variables of the enclosing function used by the fragment become parameters (integers whose incoming value may be
    read, arrays, pointers it does not assign) or locals (first use is a plain top-level assignment); see `fragment_ast`.  A `goto` to a label
    outside leaves `gto = true` in the final state; `break` / `continue` that would leave the fragment are rejected.
  * cursors: a struct-pointer local bound by `q = &p->arr[e]` or (when it is moved with ++ -- += -=) by `q = p->arr` moves over the array of
    structs `p->arr`: an `Int` index field `q`; `q->m` is cell `q` of the region `p_arr_m` (the convention of `p->arr[i].m`), `q++` moves it.
  * opts['io_args'][f] = [position of the byte count, position of the pointer] for the stream functions of opts['io'] (HP_read / HP_write have
    the buffer before the count); opts['ignore_members'] = [m]: a store into the POINTER member `m` (a back pointer) is not translated;
    opts['wrap_int_conv']: a conversion to int32 / int64 from an integer type that does not fit (uint32 -> int32, 64 -> 32 bits) wraps
    (implementation-defined in C, two's complement on every supported target) instead of being assumed representable.
Extensions used by unit Hfile (C16: the physical I/O layer; each one only takes effect when its option is given / its construct occurs):
  * opts['io'][f] = 'stdio_fseek' | 'stdio_fread' | 'stdio_fwrite' | 'stdio_ferror' (f = the stdio function after preprocessing: the HI_SEEK /
    HI_READ_AVAIL / HI_WRITE macros are translated in their expanded form): the call is a REQUEST to the world outside the function.
    Its result is NOT computed: it is the next cell of the result tape `io_res : List Int` (entry region; cell number `io_cnt`, an entry field
    that the call increments; 0 beyond the end of the tape), so that a theorem about the translated function quantifies over every outcome
    of every call.  Every request appends one record of three cells to the log `io_log` (entry region, so that calls compose):
        fseek(f, off, whence)   [1 + 10 * whence, off, result]      (whence must be an integer literal)
        fread(p, 1, n, f)       [2, n, result]                       (the item size must be the literal 1)
        fwrite(p, 1, n, f)      [3, n, result]
        ferror(f)               [4, 0, result]
    fread stores the first min(result, n) cells (fewer when the stream holds fewer) that follow position `io_pos` of the input stream `io_in`
    at p and advances `io_pos` by the number stored; fwrite appends the n cells at p to the output stream `io_out` (the payload of the
    request: how many of them reach the file is the result's business).  The buffer must hold n cells (recorded in `ub` otherwise).
    A translated function called from another one shares `io_res`, `io_cnt`, `io_log` (and the streams) with its caller.
  * the comma operator inside an expression: the left operand is executed as a statement BEFORE the statement that contains the expression
    (sequence point), the value is the right operand's.  Rejected in a conditionally evaluated position (right of && / ||, branch of ?:)
    unless the left operand translates to nothing (a call in opts['ignore_calls']);
  * `*&x` is `x`; `(void)x;` is nothing; `&x` (x an integer local) as the argument for an array parameter of a translated callee that
    does not store through it is the one-cell region `[x]`.

  Extensions for the Vdata schema functions of vsfld.c (unit Vsfld; all opt-in through what the C text / the options contain):
  * opts['assume_calls'][f] = 'object': `w = (T *)f(…)` binds the struct-pointer local `w` to an object outside the function: `w` acts as a
    struct parameter (its members are entry fields `w_…`, also through further struct-pointer locals `vs = w->vs`, `wl = &(vs->wlist)`),
    `(w = f(…)) == NULL` / `w == NULL` are answered by the entry Bool `w_null`; NULL tests of such alias locals (`vs == NULL`) by `w_vs_null`;
  * a local handed to an assumed call as `&x` (`scanattrs(fields, &ac, &av)`) is an ENTRY PARAMETER holding from the start what the call
    stores: an integer `x`, or for `char **x` a read-only array of rows (`av[i]` = row i); such a local must have no initialiser and no
    other assignment (reading it where C would read an uninitialised variable is therefore not flagged);
  * arrays of structs with a pointer member: `p->arr[i].name` (pointer to integers) is row i of the array of rows `p_arr_name` (beside the
    integer members `p_arr_fld`, one region each); a global array of structs is read through opts['globals']['<name>.<member>'] (integer
    members: generated `List Nat` tables, pointer members: generated `List (List Int)` tables of NUL-terminated rows);
  * `q = p->arr` (struct-array local), `q = malloc(bytes)` / `q = realloc(q, bytes)`, `p->arr = q`: every member region of the array gets
    bytes / sizeof(struct) cells (old cells kept, new integer cells hold the poison value 170, new rows are NULL rows `[]`), `p_arr_null`
    becomes false; the member list is settled by a second translation pass; using `p->arr` between the reallocation and `p->arr = q` fails;
  * `strcmp(a, b)` -> `(strcmpC A B).getD 0` with the check `(strcmpC A B).isSome` (`strcmpC`, emitted into the unit: cells compared as
    unsigned chars up to the first difference / NUL, -1/0/1; running past the end of a region = undefined behaviour);
  * a row of an array of rows (`p->name[i]`, `p->arr[i].name`) := `strdup(s)` (the cells of `s` up to and including its NUL; checked: a NUL
    exists) or `NULL` (the empty row: every access through it is undefined behaviour); `(row = strdup(…)) == NULL` is False;
  * opts['null_empties'] (this unit's form of member allocation; WITHOUT the option member_malloc / the member NULL flags of the
    vunpackvg / vunpackvs units apply): `p->m = malloc(bytes)` for an integer-pointer or `T **` member: checked `0 ≤ bytes / sizeof(elem)`,
    a fresh region of that many poison cells resp. NULL rows, `p_m_null` := false, `(p->m = malloc(…)) == NULL` is False;
    `p->m = NULL` also empties the region (not only `p_m_null` := true);
  * pointer members seated INSIDE the block of another member (`p->type = (int16 *)p->bptr; p->off = (uint16 *)p->type + n`): found in the
    text and resolved statically like pointer locals; the member is the cursor `p_m_i` (an entry parameter) into that member's region.
    (opts['member_cursors'] of the vunpackvs unit NAMES such members instead - index field `p_m`; when that option is given the detection
    in the text is off.  Two forms of one feature: to be unified, which renames the fields of one of the two units);
  * (calls of `DFKNTsize`, translated in unit Dfconv, go through opts['use_units']);
  * `sizeof(T)` of a typedef'd struct and `sizeof(global array)` are compiled against the headers and printed (like enum constants);
  * `x++` / `x--` on a SIGNED type narrower than int wraps like every conversion to such a type (was left unconverted).

Extensions used by unit Hfile2 (the access-record functions of hfile.c; each one only takes effect when its option is given):
  * opts['call_specs'][f] = {ret, log, out, set}: an ASSUMED call with a written CONTRACT (trusted base; printed in the doc comment).  `ret`: the
    result is the entry parameter of this name (the same at every call).  `log`: code - the row `[code, values of the integer arguments]` is
    appended to the call log `calls : List (List Int)` (an entry parameter: the log so far).  `out`: {k: field} - unless the result is FAIL (-1)
    the callee stores the state field `field` through its k-th argument: `&x` (x an integer local) -> x := field; NULL -> nothing; an
    integer-pointer PARAMETER p of this function -> p[0] := field unless `p_null` (checked: p has a cell).  `set`: [[field, term]] - unless the
    result is FAIL, field := term (Lean text; `$k` = the value of argument k, `s.<field>` = a state field before the call).  All effects of one
    call refer to the state before the statement; `&&` is a sequence point: the right operand reads the scalars stored by the left one with
    their new value, and its own stores (also into the log / an output array) are conditional on the left operand.
  * opts['unmodelled_indirect_calls']: a call through a function pointer (`(*p->funcs->f)(...)`) is outside the translated text: reaching it is
    recorded in `ub` (like opts['unmodelled_cases']), its value is 0.
  * opts['check_object_null']: `p->m` with `p` an object local (opts['object_calls']) requires `p_null = false` (recorded in `ub` otherwise).
  * opts['share_fields']: in a call of a translated function of the unit, the callee's entry fields that do not belong to one of its C parameters
    (members of its object locals, contract fields of assumed calls, the call log) are the caller's fields of the same name; checked: every
    object local of the callee is bound to the same calls as the caller's object of that name and is resolved from the id the caller hands over
    (callee `o = f(param_i)`, caller `o = f(v)` and argument i is `v`) or from the same member of a shared object.  A struct PARAMETER of the
    callee may be an object local of the caller.
  * `sizeof(a)` of a local integer array `a`: its declared size in bytes.
Extensions used by unit Repack (hrepack's option parser; each one only takes effect when its option is given):
  * `strcmp(a, b)` / `strncmp(a, b, n)` -> `(strcmpC A B).getD 0` / `(strncmpC n A B).getD 0` with the check `….isSome` (`strcmpC`, `strncmpC` are
    emitted into the unit: cells compared as unsigned chars up to the first difference / NUL / n cells, result -1 / 0 / 1 (C fixes only the
    sign); running past the end of a region = undefined behaviour).  An argument may be a STRING LITERAL: the list of its bytes and its NUL.
  * opts['libc_builtins']: `atoi(p)` -> `(atoiC P).getD 0` with the check `(atoiC P).isSome` (`atoiC`, emitted: white space, optional sign,
    decimal digits up to the first other cell; `none` = the scan leaves the region or the value does not fit in an int - both undefined in C);
    `isdigit(x)` -> `if 48 ≤ x ∧ x ≤ 57 then 1 else 0` with the check `-1 ≤ x ∧ x ≤ 255` (C11 7.4p1: any other argument value, e.g. a
    negative plain char, is undefined behaviour; the unit is parsed with -D__NO_CTYPE so that glibc's table macro does not replace the call);
    `sizeof` of an expression / of an integer array type `T[N]`.
  * opts['row_structs'] = [T]: `T` is a struct whose ONLY member is an array of K integers (`typedef struct { char obj[K]; } obj_list_t`, member
    and K read from clang's record layout).  A pointer local `T *p` is treated like an integer pointer whose region has K cells per element:
    `p = malloc(bytes)` gives bytes / sizeof(cell) poison cells, `p[i].m` is the pointer to cell `i*K`, `sizeof(T)` = K * sizeof(cell).
  * opts['poison_locals']: local arrays start with the poison value 170 in every cell (indeterminate in C) instead of 0, so that a function
    that relies on zero-initialised stack memory breaks its refinement theorem.
  * the functions of this unit `return NULL` on rejection (no `exit`): `retnull = true`, `done = true`; `printf` is in opts['ignore_calls'].
Options used by the bit-I/O layer (unit Hbitio2; all opt-in, the other units do not change):
  * opts['struct_locals'] = [names]: a struct-pointer LOCAL that the function obtains by a table lookup (`rec = HAatom_object(id)`) is
    treated like a struct parameter: its members are entry parameters `<name>_<member>` (listed after the C parameters), the lookup
    assignment itself is not translated, `<name> == NULL` is the entry parameter `<name>_null` (trusted base: the lookup returns that record);
  * opts['cursors'] = {member field: region field}: a pointer MEMBER that moves inside the buffer another member points to
    (`rec->bytep`, `rec->bytez` inside `rec->bytea`) is an `Int` index into that region (`*rec->bytep++`, `++rec->bytep == rec->bytez`,
    `rec->bytez - rec->bytea`, `rec->bytez = n + (rec->bytep = rec->bytea)`);
  * compound assignments used as values (`x << (rec->count -= n)`): value = the new value of the left side, the store is a pending effect;
  * opts['io'] kinds `eread` / `ewrite` / `eseek`: Hread / Hwrite / Hseek on ONE random-access element `io_elt : List Int` with position
    `io_epos` and flag `io_enew` (1 = created by Hstartwrite, nothing written yet): Hread fails on a new element, otherwise delivers
    min(n, bytes left) bytes (n = 0: all bytes left; 0 bytes at the end is NOT a failure); Hwrite overwrites / extends at the position and
    never fails (appendable element); Hseek(DF_START) to an offset >= 0 always succeeds.  These are exactly `hRead/hWrite/hSeek` of the
    hand model lean/H4/BitIO.lean;
  * opts['variants'] = {new name: {"of": C function, options…}}: a second translation of the same C text under another name;
    opts['trap_calls'] = [callee names]: such a call is not followed, REACHING it sets `ub` (a refinement theorem with `ub = false` proves
    the call is never reached on the inputs it covers); opts['call_map'] = {callee: variant}: calls of `callee` run the variant.  Together
    they cut a cycle of the static call graph that the executions never close (Hbitwrite -> HIread2write -> Hbitseek -> HIbitflush -> Hbitwrite);
  * a callee whose record is a `struct_local` receives the caller's record of the same name (the id it looks up is the id of that record:
    trusted base) and `<name>_null = false`;
  * opts['segments']: when the function body has top-level statements that hold a loop or a call of a translated function, the runs of
    statements before / between / after them are definitions of their own (`f.seg0`, `f.seg1`, …, each a state transformer; such a statement is a segment by itself)
    and `f` is their composition - only a presentation of the same statement list, so that theorems can be stated per segment;
  * opts['const_narrowing']: a conversion to `int`/`int32` of a term that does not depend on the state (`(int32)LONG_MIN`, `(int)DATANUM`)
    is the exact two's-complement reduction (gcc's implementation-defined behaviour); state-dependent ones stay under "value representable".

Everything outside the supported subset makes the translator FAIL loudly (it never guesses): goto, switch, calls other
than memcpy and the names in opts['ignore_calls'] (error reporting that does not touch the modelled state),
address-of other than `&a[i]`, floating point, struct assignment, pointer-to-pointer arithmetic.
"""
import json, os, re, subprocess, sys

KEYWORDS = {"done", "end", "from", "at", "in", "fun", "open", "then", "else", "if", "do", "let", "have", "show", "match", "with", "where",
            "ub", "oof", "ret", "s", "fuel", "gto", "by", "local", "section", "namespace", "def", "theorem", "instance", "class", "structure",
            "mut", "for", "return", "break", "continue", "prefix", "infix", "notation", "macro", "syntax", "import", "export", "universe",
            "variable", "set_option", "attribute", "deriving", "extends", "Type", "Prop", "Sort", "true", "false", "brk", "cnt",
            "retnull", "private", "protected", "partial", "unsafe", "noncomputable", "abbrev", "example", "inductive", "mutual", "calc", "using",
            "c", "v", "ix"}

SIGNED = {"char": 8, "signed char": 8, "short": 16, "int": 32, "long": 64, "long long": 64, "int8": 8, "int16": 16, "int32": 32, "intn": 32,
          "int8_t": 8, "int16_t": 16, "int32_t": 32, "int64_t": 64, "ssize_t": 64, "intf": 32, "ptrdiff_t": 64, "__ptrdiff_t": 64}
UNSIGNED = {"unsigned char": 8, "unsigned short": 16, "unsigned int": 32, "unsigned": 32, "unsigned long": 64, "unsigned long long": 64,
            "uint8": 8, "uint16": 16, "uint32": 32, "uintn": 32, "uint8_t": 8, "uint16_t": 16, "uint32_t": 32, "uint64_t": 64, "size_t": 64,
            "uchar8": 8, "char8": 8, "_Bool": 8}


EXTRA_INT_TYPES = {}      # typedef'd enums etc. named by a unit's options: name -> (signed, bits)


class Unsupported(Exception):
    pass


def fail(msg):
    raise Unsupported(msg)


def lname(n):
    return n + "_" if n in KEYWORDS else n


def clang_ast(cfile, fn, incs):
    cmd = ["clang-14", "-fsyntax-only", "-w", "-DH4_VERIF", "-Xclang", "-ast-dump=json", "-Xclang", "-ast-dump-filter=" + fn] + incs + [cfile]
    r = subprocess.run(cmd, capture_output=True, text=True)
    if r.returncode != 0:
        fail("clang cannot parse %s: %s" % (cfile, r.stderr[-1500:]))
    dec, i, txt, docs = json.JSONDecoder(), 0, r.stdout, []
    while i < len(txt):
        while i < len(txt) and txt[i].isspace():
            i += 1
        if i >= len(txt):
            break
        o, i = dec.raw_decode(txt, i)
        docs.append(o)
    cands = [d for d in docs if d.get("kind") == "FunctionDecl" and d.get("name") == fn and any(c.get("kind") == "CompoundStmt" for c in d.get("inner", []))]
    if len(cands) != 1:
        fail("function %s: %d definitions found in %s" % (fn, len(cands), cfile))
    return cands[0]


def qt(n):
    t = n.get("type", {})
    return t.get("desugaredQualType", t.get("qualType", ""))


def base_type(t):
    t = re.sub(r"\b(const|volatile|restrict|register|struct)\b", "", t).strip()
    return re.sub(r"\s+", " ", t)


def int_width(t):
    """(signed?, bits) of an integer type name, or None"""
    t = base_type(t)
    if t in SIGNED:
        return True, SIGNED[t]
    if t in UNSIGNED:
        return False, UNSIGNED[t]
    if t.startswith("enum"):
        return False, 32
    if t in EXTRA_INT_TYPES:
        return EXTRA_INT_TYPES[t]
    return None


def ptr_elem(t):
    """element type string if t is a pointer (or array) type, else None"""
    t = base_type(t)
    m = re.match(r"^(.*)\[\d*\]$", t)
    if m:
        return base_type(m.group(1))
    if t.endswith("*"):
        return base_type(t[:-1])
    return None


class Eff:
    """a pending side effect of an expression: lvalue := term (term refers to the state BEFORE the statement)"""
    def __init__(self, lv, term, var):
        self.lv, self.term, self.var = lv, term, var


class Fn:
    def __init__(self, ast, unit, opts):
        self.ast, self.unit, self.opts = ast, unit, opts
        self.name = opts.get("_name") or ast["name"]
        self.struct_locals = set(opts.get("struct_locals", []))
        self.bcursors = dict(opts.get("cursors", {}))     # pointer member field -> region field it moves in (unit Hbitio2)
        self.scalars = []        # Int fields
        self.bools = []          # Bool fields that are inputs (`_null`)
        self.regions = []        # List Int fields
        self.local_regions = {}  # local arrays: region -> size
        self.entry = []          # entry point parameters (lean name, type) in order
        self.ptr = {}            # C pointer variable -> region (params: own region or 'mem'; locals: resolved)
        self.ptr_is_param_region = set()   # pointer params that ARE a region (index 0, not assignable)
        self.flat = set(opts.get("flat", []))
        self.structs = set()     # struct-pointer parameters
        self.loops = []
        self.nloops = 0
        self.has_ret = False
        self.has_brk = False
        self.has_goto = False     # forward `goto` to the single top-level label of the function (the `done:` idiom)
        self.label = None
        self.ret_region = None
        self.ignore = set(opts.get("ignore_calls", []))
        self.globals = opts.get("globals", {})
        self.statics = []
        self.pidx = {}
        self.esz = {}            # region -> size in bytes of one cell (for realloc / malloc byte counts)
        self.alias_locals = set()
        self.aliases = {}        # struct-pointer locals: name -> (struct parameter, member path); set by their (single) assignment `q = &(p->a.b)`
        self.cursors = {}        # struct-pointer locals that MOVE over an array of structs `p->a.arr`: name -> (struct parameter, member path of the array)
        self.pre_lines = []      # lines to emit before the statement being translated (calls of translated functions)
        self.ncalls = 0
        self.uses_join = False
        self.rowsets = []        # members that are arrays of rows (List (List Int))
        self.rows_written = set()
        self.loop_assigned = set()
        self.setters = []
        self.owner = None        # struct parameter whose member is being registered (entry parameters are grouped per C parameter)
        self.lbools = []         # Bool state fields that are not inputs: `<p>_null` of a pointer local that can be NULL, `<member>_seat`
        self.nullable = set()    # pointer locals that are assigned / initialised with NULL: their NULLness is the field `<p>_null`
        self.seats = {}          # pointer members re-seated to a block the function allocated: member region name -> block region
        self.used_names = set()
        self.plist = []
        self.obj_locals = {}     # struct-pointer locals bound to the result of an assumed call (opts['assume_calls'][f] = 'object'): local -> callee
        self.rowlocals = set()   # `char **` locals filled in by an assumed call through `&x`: read-only arrays of rows, entry parameters
        self.outvars = set()     # integer locals filled in by an assumed call through `&x`: entry parameters
        self.mcursor = {}        # pointer members seated inside ANOTHER member's block (`p->type = p->bptr + k`): member field -> region
        self.sa_fields = {k_: list(v_) for k_, v_ in opts.get("_sa_fields", {}).items()}   # array-of-struct members: base field -> [(member, kind)]
        self.sa_resized = False
        self.detached = set()    # struct-array locals between `q = realloc(q, …)` and `p->m = q`
        self.struct_arrays = {}  # `<p>_<arr>` (a member pointing to structs) -> its field regions `<p>_<arr>_<fld>`, in order of first access
        self.cursors = {}        # struct-pointer locals that move over an array of structs: name -> (struct parameter, member path); index in field `name`
        self.notes = list(opts.get("_frag_notes", []))
        self.objects = {}        # struct-pointer locals bound to the result of opts['object_calls'] functions: an object outside the function
        self.oracle_sites = {}   # assumed call answered from a table: function -> id of its (single) call site
        self.call_specs = opts.get("call_specs", {})   # assumed calls with a written CONTRACT (result, logged arguments, stores): see call_spec
        self.subst = {}          # scalar field -> term: its value after the pending effects of the left operand of `&&` (a sequence point)
        self.object_keys = {}    # object local -> the id expression its object calls are handed: ('var', name) | ('mem', object, [path])
        self.rowptr = {}         # pointer locals to a row struct (opts['row_structs']): name -> (member, cells per element, bytes per cell)

    # ---------------------------------------------------------------- fields
    def add_entry(self, n, ty):
        self.entry.append((n, ty, self.owner))

    def scalar(self, n, entry=False):
        n = lname(n)
        if n not in self.scalars:
            self.scalars.append(n)
            if entry:
                self.add_entry(n, "Int")
        return n

    def boolf(self, n):
        n = lname(n)
        if n not in self.bools:
            self.bools.append(n)
            self.add_entry(n, "Bool")
        return n

    def region(self, n, entry=True):
        n = lname(n)
        if n in self.local_regions:
            return n
        if n not in self.regions:
            self.regions.append(n)
            if entry:
                self.add_entry(n, "List Int")
        return n

    def owned(self, p, f, *a, **kw):
        old, self.owner = self.owner, p
        try:
            return f(*a, **kw)
        finally:
            self.owner = old

    # ---------------------------------------------------------------- types and conversions
    def conv(self, term, frm, to):
        """integer conversion frm -> to ((signed, bits) pairs)"""
        if frm is None or to is None:
            fail("%s: conversion with a non-integer type" % self.name)
        fs, fb = frm
        ts, tb = to
        if not ts:
            if not fs and fb <= tb:
                return term
            return "((%s) %% %d)" % (term, 2 ** tb)
        if fs and fb <= tb:
            return term
        if (not fs) and fb < tb:
            return term
        if tb < 32 or (self.opts.get("wrap_int_conv") and ((not fs and fb >= tb) or (fs and fb > tb))):
            # (with opts['wrap_int_conv'] also to int32 / int64 from a type that does not fit: implementation-defined in C, two's complement
            # wrap-around on every supported target)
            m = 2 ** tb
            return "(((%s) + %d) %% %d - %d)" % (term, m // 2, m, m // 2)
        if self.opts.get("const_narrowing") and fb > tb and not re.search(r"\bs\.", term):
            m = 2 ** tb
            return "(((%s) + %d) %% %d - %d)" % (term, m // 2, m, m // 2)
        return term      # assumption: value representable (no signed overflow)

    # ---------------------------------------------------------------- pointer expressions -> (region, index term, checks, effects)
    def skip(self, n):
        """strip parentheses and value-preserving casts"""
        while True:
            k = n.get("kind")
            if k in ("ParenExpr", "ConstantExpr"):
                n = n["inner"][0]
            elif k == "ImplicitCastExpr" and n.get("castKind") in ("LValueToRValue", "NoOp", "ArrayToPointerDecay", "BitCast", "FunctionToPointerDecay"):
                n = n["inner"][0]
            elif k == "CStyleCastExpr" and ptr_elem(qt(n)) is not None and n.get("castKind") in ("BitCast", "NoOp", "LValueToRValue"):
                n = n["inner"][0]
            else:
                return n

    def is_null(self, n):
        while n.get("kind") in ("ParenExpr", "ImplicitCastExpr", "CStyleCastExpr"):
            if n.get("castKind") == "NullToPointer":
                return True
            n = n["inner"][0]
        return False

    def pexpr(self, n):
        n = self.skip(n)
        k = n.get("kind")
        if k == "DeclRefExpr":
            d = n["referencedDecl"]
            nm = d["name"]
            if nm in self.globals:
                return ("@" + nm, "0", [], [])
            if nm not in self.ptr:
                fail("%s: pointer %s is not a known pointer variable" % (self.name, nm))
            reg = self.ptr[nm]
            if reg is None:
                fail("%s: region of pointer %s could not be determined" % (self.name, nm))
            if reg == "!opaque":
                fail("%s: pointer %s (result of an assumed call) is used other than in a NULL test" % (self.name, nm))
            own = reg if reg in [lname(x) for x in self.plist] else None
            if nm in self.ptr_is_param_region or lname(nm) in self.local_regions:
                return (self.owned(own, self.region, reg), "0", [], [])
            if nm in self.nullable:
                # arithmetic on / comparison of / access through a pointer that is NULL is undefined
                return (self.owned(own, self.region, reg), "s.%s" % self.pix(nm), ["s.%s = false" % self.nullf(nm)], [])
            return (self.owned(own, self.region, reg), "s.%s" % self.pix(nm), [], [])
        if k == "MemberExpr" and self.opts.get("row_structs"):
            b_ = self.skip(n["inner"][0])
            bb_ = self.skip(b_["inner"][0]) if b_.get("kind") == "ArraySubscriptExpr" else {}
            if bb_.get("kind") == "DeclRefExpr" and bb_["referencedDecl"]["name"] in self.rowptr:
                # p[i].m, `p` a pointer to row structs: the cells i*K .. of the region of p (an access through it is checked as usual)
                fld_, k_, _ = self.rowptr[bb_["referencedDecl"]["name"]]
                if n["name"] != fld_:
                    fail("%s: member %s of a row struct" % (self.name, n["name"]))
                r, bi, c, e = self.pexpr(b_["inner"][0])
                it, ic, ie = self.rvalue(b_["inner"][1])
                return (r, "(%s * %d)" % (it, k_) if bi == "0" else "(%s + %s * %d)" % (bi, it, k_), c + ic, e + ie)
        if k == "MemberExpr" and self.cursor_of(n) is not None:
            cur = self.cursor_of(n)
            return (cur[1], "s.%s" % cur[0], [], [])
        if k == "MemberExpr":
            cur_ = self.member_cursor(n)
            if cur_ is not None:
                return (self.owned(cur_[2], self.region, cur_[0]), "s.%s" % self.owned(cur_[2], self.scalar, cur_[1], entry=True), [], [])
            row = self.sa_row(n)
            if row is not None:
                return row
            cur = self.seated_member(n)
            if cur is not None:
                return cur
            return (self.member_region(n), "0", [], [])
        if k == "ArraySubscriptExpr" and ptr_elem(qt(n)) is not None:
            # element of an array of pointers: info->row[k]  -> the region info_row (the caller passes that row)
            b = self.skip(n["inner"][0])
            if b.get("kind") == "DeclRefExpr" and b["referencedDecl"]["name"] in self.rowlocals:
                # row of the array of rows an assumed call handed back through `&x` (read-only entry parameter)
                fld = lname(b["referencedDecl"]["name"])
                it, ic, ie = self.rvalue(n["inner"][1])
                return ("#%s#%s" % (fld, it), "0", ic + ["0 ≤ %s ∧ %s < s.%s.length" % (it, it, fld)], ie)
            if b.get("kind") == "DeclRefExpr" and b["referencedDecl"]["name"] in self.ptr and self.ptr[b["referencedDecl"]["name"]] in self.local_regions:
                # element of an array of pointers the function allocated: an address of the flat memory
                lv = self.lvalue(n)
                if "mem" not in self.regions:
                    fail("%s: array of pointers without flat memory" % self.name)
                return ("mem", self.read(lv[1], lv[2]), lv[3], lv[4])
            if b.get("kind") == "MemberExpr":
                it, ic, ie = self.rvalue(n["inner"][1])
                p_, path_ = self.member_chain(b)
                if p_ is None:
                    fail("%s: array of pointers that is not a member of a struct parameter" % self.name)
                fld = lname("%s_%s" % (p_, "_".join(path_)))
                used = set(re.findall(r"\bs\.(\w+)", it))
                if fld in self.rowsets or (used & self.loop_assigned):
                    # the selected row varies (the index is modified inside a loop): the member is an array of rows, read-only
                    if fld in self.regions:
                        fail("%s: %s is used both as one selected row and as an array of rows" % (self.name, fld))
                    if fld not in self.rowsets:
                        self.rowsets.append(fld)
                        self.owned(p_, self.add_entry, fld, "List (List Int)")
                    return ("#%s#%s" % (fld, it), "0", ic + ["0 ≤ %s ∧ %s < s.%s.length" % (it, it, fld)], ie)
                reg = self.member_region(b)
                note = "region `%s` is the row the C code selects with `[%s]`" % (reg, it)
                if note not in self.notes:
                    self.notes.append(note)
                return (reg, "0", ic, ie)
            fail("%s: element of an array of pointers that is not a struct member" % self.name)
        if k == "BinaryOperator" and n["opcode"] in ("+", "-"):
            a, b = n["inner"]
            if ptr_elem(qt(a)) is not None and int_width(qt(b)) is not None:
                r, i, c, e = self.pexpr(a)
                t, c2, e2 = self.rvalue(b)
                return (r, "(%s %s %s)" % (i, n["opcode"], t), c + c2, e + e2)
            if n["opcode"] == "+" and ptr_elem(qt(b)) is not None and int_width(qt(a)) is not None:
                r, i, c, e = self.pexpr(b)
                t, c2, e2 = self.rvalue(a)
                return (r, "(%s + %s)" % (i, t), c + c2, e + e2)
            fail("%s: pointer arithmetic %s" % (self.name, n["opcode"]))
        if k == "UnaryOperator" and n["opcode"] == "&":
            lv = self.lvalue(n["inner"][0])
            if lv[0] != "elem":
                fail("%s: address of a scalar" % self.name)
            # &a[i] itself is not an access (one-past-the-end is legal); the access through it is checked
            return (lv[1], lv[2], lv[3][:-1], lv[4])
        if k == "UnaryOperator" and n["opcode"] in ("++", "--") and self.skip(n["inner"][0]).get("kind") == "MemberExpr" and self.cursor_of(self.skip(n["inner"][0])) is not None:
            fld, reg = self.cursor_of(self.skip(n["inner"][0]))
            i = "s.%s" % fld
            new = "(%s %s 1)" % (i, "+" if n["opcode"] == "++" else "-")
            eff = Eff(("scalar", fld), new, fld)
            if n.get("isPostfix"):
                return (reg, i, [], [eff])
            return (reg, new, [], [eff])
        if k == "UnaryOperator" and n["opcode"] in ("++", "--") and self.skip(n["inner"][0]).get("kind") == "DeclRefExpr" \
                and self.skip(n["inner"][0])["referencedDecl"]["name"] in self.cursors:
            # a cursor over an array of structs moves by one element: its index field changes by one
            cn = lname(self.skip(n["inner"][0])["referencedDecl"]["name"])
            new = "(s.%s %s 1)" % (cn, "+" if n["opcode"] == "++" else "-")
            return ("%" + cn, ("s.%s" % cn) if n.get("isPostfix") else new, [], [Eff(("scalar", cn), new, cn)])
        if k == "UnaryOperator" and n["opcode"] in ("++", "--"):
            sub = self.skip(n["inner"][0])
            if sub.get("kind") != "DeclRefExpr" or sub["referencedDecl"]["name"] not in self.ptr or sub["referencedDecl"]["name"] in self.ptr_is_param_region:
                fail("%s: ++/-- on a pointer expression" % self.name)
            nm = sub["referencedDecl"]["name"]
            r, i, c, e = self.pexpr(sub)
            new = "(%s %s 1)" % (i, "+" if n["opcode"] == "++" else "-")
            eff = Eff(("scalar", self.pix(nm)), new, self.pix(nm))
            if n.get("isPostfix"):
                return (r, i, c, e + [eff])
            return (r, new, c, e + [eff])
        if k == "CallExpr":
            callee = self.skip(n["inner"][0])
            nm = callee.get("referencedDecl", {}).get("name")
            if nm in ("realloc", "HDrealloc"):
                # realloc(p, n): the region of p is cut / extended to n cells; new cells hold the poison value 170 (indeterminate in C:
                # a function that relies on them breaks its refinement theorem); allocation never fails (trusted base: malloc never fails)
                r, i, c, e = self.pexpr(n["inner"][1])
                nt, nc, ne = self.rvalue(n["inner"][2])
                if e or ne or r.startswith("#") or r.startswith("@"):
                    fail("%s: unsupported realloc" % self.name)
                if self.esz.get(r, 1) != 1:
                    nt = "(Int.tdiv %s %d)" % (nt, self.esz[r])       # the byte count in cells of the region
                eff = Eff(("whole", r), "((s.%s.take (Int.toNat (%s))) ++ List.replicate (Int.toNat (%s) - s.%s.length) 170)" % (r, nt, nt, r), r)
                return (r, "0", c + nc + ["%s = 0" % i, "(0 : Int) ≤ %s" % nt], [eff])
            fail("%s: pointer-valued call of %s" % (self.name, nm))
        if k == "BinaryOperator" and n.get("opcode") == "=":
            # pointer assignment used as a value (`(p = realloc(p, n)) == NULL`): the store happens, the value is the right-hand side
            lines = self.assignment(n, "")
            self.pre_lines += lines
            return self.pexpr(n["inner"][0])
        fail("%s: unsupported pointer expression %s" % (self.name, k))

    def cursor_target(self, rhs):
        """`&(p->a.arr[e])` / `p->a.arr` (array of structs) -> (MemberExpr of the array, index node | None); else (None, None)"""
        r = self.skip(rhs)
        if r.get("kind") == "UnaryOperator" and r.get("opcode") == "&":
            r = self.skip(r["inner"][0])
        if r.get("kind") == "ArraySubscriptExpr":
            a = self.skip(r["inner"][0])
            if a.get("kind") == "MemberExpr" and re.search(r"\[\d+\]$", base_type(qt(a))) and int_width(ptr_elem(qt(a)) or "") is None:
                return a, r["inner"][1]
            return None, None
        if r.get("kind") == "MemberExpr" and re.search(r"\[\d+\]$", base_type(qt(r))) and int_width(ptr_elem(qt(r)) or "") is None \
                and ptr_elem(ptr_elem(qt(r)) or "") is None:
            return r, None
        return None, None

    def cursor_index(self, cn, rhs):
        """index term stored into the cursor `cn` by `cn = &(p->a.arr[e])` (e) / `cn = p->a.arr` (0)"""
        a, ix = self.cursor_target(rhs)
        if a is None or self.member_chain(a) != self.cursors[cn]:
            fail("%s: struct cursor %s is assigned something that is not an element of its array" % (self.name, cn))
        if ix is None:
            return "0", [], []
        return self.rvalue(ix)

    def member_chain(self, n):
        """`p->a->b` / `p->a.b` -> ('p', ['a','b']);  through an alias local `q = &(p->a)`: `q->b` -> ('p', ['a','b'])"""
        path = []
        while n.get("kind") == "MemberExpr":
            path.append(n["name"])
            n = self.skip(n["inner"][0])
        if n.get("kind") == "DeclRefExpr" and n["referencedDecl"]["name"] in self.structs:
            return n["referencedDecl"]["name"], list(reversed(path))
        if n.get("kind") == "DeclRefExpr" and n["referencedDecl"]["name"] in self.aliases:
            p0, path0 = self.aliases[n["referencedDecl"]["name"]]
            return p0, path0 + list(reversed(path))
        return None, None

    def member_cursor(self, m):
        """opts['member_cursors'] = {member: block}: the pointer member `<p>_<member>` points INTO the block `<p>_<block>` (another member,
        allocated by the function); like a pointer local it is an `Int` field `<p>_<member>` holding its INDEX into the region `<p>_<block>`.
        -> (region, index field, struct parameter) or None"""
        p, path = self.member_chain(m)
        if p is None:
            return None
        nm_ = "_".join(path)
        blk = self.opts.get("member_cursors", {}).get(nm_)
        if blk is None:
            return None
        return lname("%s_%s" % (p, blk)), lname("%s_%s" % (p, nm_)), p

    def cursor_of(self, m):
        """(index field, region field) when the member expression `m` is a pointer member listed in opts['cursors'], else None"""
        if not self.bcursors or m.get("kind") != "MemberExpr":
            return None
        p, path = self.member_chain(m)
        if p is None:
            return None
        fld = lname("%s_%s" % (p, "_".join(path)))
        if fld not in self.bcursors:
            return None
        reg = self.owned(p, self.region, self.bcursors[fld])
        self.esz.setdefault(reg, 1)
        self.owned(p, self.scalar, fld, entry=True)
        return fld, reg

    def member_region(self, m):
        p, path = self.member_chain(m)
        if p is None:
            fail("%s: member %s of something that is not a struct parameter" % (self.name, m.get("name")))
        reg = self.owned(p, self.region, "%s_%s" % (p, "_".join(path)))
        w = int_width(ptr_elem(qt(m)) or "")
        if w is not None:
            self.esz[reg] = w[1] // 8
        return reg

    def sa_base(self, b):
        """`b` = `X[i]` with X an array of structs: a member chain `p->…->arr` -> ('m', field, p); a global whose members are listed in
        opts['globals'] as '<name>.<member>' -> ('g', name, None); otherwise None"""
        if b.get("kind") != "ArraySubscriptExpr":
            return None
        bb = self.skip(b["inner"][0])
        if bb.get("kind") == "MemberExpr":
            p2, path2 = self.member_chain(bb)
            if p2 is not None:
                if (p2, tuple(path2)) in self.detached:
                    fail("%s: %s->%s is used between the reallocation through a local and the store of the new block" % (self.name, p2, ".".join(path2)))
                return ("m", lname("%s_%s" % (p2, "_".join(path2))), p2)
        if bb.get("kind") == "DeclRefExpr":
            nm = bb["referencedDecl"]["name"]
            if any(k_.startswith(nm + ".") for k_ in self.globals):
                return ("g", nm, None)
        return None

    def sa_note(self, base, member, kind):
        l = self.sa_fields.setdefault(base, [])
        if (member, kind) not in l:
            l.append((member, kind))

    def sa_row(self, n):
        """`arr[i].name` with a pointer member: row i of the array of rows `<arr>_name` (for a global: of the generated table)"""
        b = self.skip(n["inner"][0])
        sb = self.sa_base(b)
        if sb is None:
            return None
        if int_width(ptr_elem(qt(n)) or "") is None:
            fail("%s: member %s of an array of structs is not a pointer to integers" % (self.name, n["name"]))
        it, ic, ie = self.rvalue(b["inner"][1])
        if sb[0] == "g":
            key = "%s.%s" % (sb[1], n["name"])
            if key not in self.globals:
                fail("%s: member %s of the global %s is not listed in opts['globals']" % (self.name, n["name"], sb[1]))
            return ("#@%s#%s" % (key, it), "0", ic + ["0 ≤ %s ∧ %s < (%s).length" % (it, it, self.globals[key])], ie)
        fld = lname("%s_%s" % (sb[1], n["name"]))
        if fld in self.regions:
            fail("%s: %s is used both as a region and as an array of rows" % (self.name, fld))
        if fld not in self.rowsets:
            self.rowsets.append(fld)
            self.owned(sb[2], self.add_entry, fld, "List (List Int)")
        self.sa_note(sb[1], n["name"], "rows")
        return ("#%s#%s" % (fld, it), "0", ic + ["0 ≤ %s ∧ %s < s.%s.length" % (it, it, fld)], ie)

    def member_field(self, m):
        p, path = self.member_chain(m)
        return (p, lname("%s_%s" % (p, "_".join(path)))) if p is not None else (None, None)

    def seated_member(self, m):
        """a pointer member that this function seats inside another member's block (`p->type = p->bptr + k`): the region is that block,
        the index is the state field `<member>_i` (an entry parameter: where the member points at entry)"""
        p, fld = self.member_field(m)
        if p is None or fld not in self.mcursor:
            return None
        reg = self.mcursor[fld]
        self.owned(p, self.region, reg)
        ix = self.owned(p, self.scalar, fld + "_i", entry=True)
        return (reg, "s.%s" % ix, [], [])

    def is_rows_member_type(self, m):
        t = base_type(qt(m))
        return t.endswith("**") and int_width(ptr_elem(ptr_elem(t) or "") or "") is not None

    def is_rows_member(self, m):
        """a member of type `T **` (not `T *[N]`) that is registered as an array of rows"""
        p, fld = self.member_field(m)
        return p is not None and fld in self.rowsets

    def row_target(self, n):
        """the row an lvalue of pointer type denotes (`p->name[i]`, `p->arr[i].name`, `av[i]`): ('#field#index', checks, effects), or None"""
        n = self.skip(n)
        k = n.get("kind")
        if k == "MemberExpr" and self.sa_base(self.skip(n["inner"][0])) is not None:
            r, i, c, e = self.sa_row(n)
            return r, c, e
        if k == "ArraySubscriptExpr" and ptr_elem(qt(n)) is not None and int_width(ptr_elem(qt(n))) is not None:
            b = self.skip(n["inner"][0])
            if b.get("kind") == "DeclRefExpr" and b["referencedDecl"]["name"] in self.rowlocals:
                r, i, c, e = self.pexpr(n)
                return r, c, e
            if b.get("kind") == "MemberExpr" and self.is_rows_member(b):
                r, i, c, e = self.pexpr(n)
                if r.startswith("#"):
                    return r, c, e
        return None

    def string_at(self, r, i):
        """the NUL-terminated string that starts at cell i of region r, INCLUDING its NUL: (term, checks)"""
        src = self.rt(r) if i == "0" else "(%s.drop (Int.toNat (%s)))" % (self.rt(r), i)
        chk = ["(0 : Int) ∈ %s" % src] if i == "0" else ["0 ≤ %s ∧ (0 : Int) ∈ %s" % (i, src)]
        return "(%s.take ((%s.takeWhile (· ≠ 0)).length + 1))" % (src, src), chk

    # ---------------------------------------------------------------- lvalues
    def lvalue(self, n):
        """-> ('scalar', field, type) | ('elem', region, index term, checks, effects, type)"""
        n = self.skip(n)
        k = n.get("kind")
        ty = int_width(qt(n))
        if k == "DeclRefExpr":
            d = n["referencedDecl"]
            nm = d["name"]
            if d.get("kind") not in ("VarDecl", "ParmVarDecl"):
                fail("%s: reference to %s %s" % (self.name, d.get("kind"), nm))
            if nm in self.ptr:
                if nm in self.ptr_is_param_region or lname(nm) in self.local_regions:
                    fail("%s: assignment to array/pointer parameter %s" % (self.name, nm))
                return ("scalar", self.pix(nm), "ptr")
            if lname(nm) not in self.scalars:
                fail("%s: unknown variable %s" % (self.name, nm))
            return ("scalar", lname(nm), ty)
        if k == "UnaryOperator" and n.get("opcode") == "*":
            sub_ = self.skip(n["inner"][0])
            if sub_.get("kind") == "UnaryOperator" and sub_.get("opcode") == "&" and int_width(qt(sub_["inner"][0])) is not None \
                    and self.skip(sub_["inner"][0]).get("kind") == "DeclRefExpr" and self.skip(sub_["inner"][0])["referencedDecl"]["name"] not in self.ptr:
                return self.lvalue(sub_["inner"][0])      # `*&x` is `x`
            r, i, c, e = self.pexpr(n["inner"][0])
            return ("elem", r, i, c + [self.inb(r, i)], e, ty)
        if k == "ArraySubscriptExpr":
            b, i = n["inner"][0], n["inner"][1]
            r, bi, c, e = self.pexpr(b)
            it, ic, ie = self.rvalue(i)
            idx = it if bi == "0" else "(%s + %s)" % (bi, it)
            return ("elem", r, idx, c + ic + [self.inb(r, idx)], e + ie, ty)
        if k == "MemberExpr":
            b = self.skip(n["inner"][0])
            fld = n["name"]
            if b.get("kind") == "DeclRefExpr" and b["referencedDecl"]["name"] in self.cursors:
                # q->fld where q moves over the array of structs p->arr: the region p_arr_fld at index q
                qn = b["referencedDecl"]["name"]
                p_, path_ = self.cursors[qn]
                if ty is None:
                    fail("%s: member %s->%s is not an integer" % (self.name, qn, fld))
                reg = self.owned(p_, self.region, "%s_%s_%s" % (p_, "_".join(path_), fld))
                idx = "s.%s" % lname(qn)
                return ("elem", reg, idx, [self.inb(reg, idx)], [], ty)
            if b.get("kind") == "ArraySubscriptExpr":
                bb = self.skip(b["inner"][0])
                if bb.get("kind") == "DeclRefExpr" and bb["referencedDecl"]["name"] in self.structs:
                    pn = bb["referencedDecl"]["name"]
                    if ty is None:
                        fail("%s: member %s[].%s is not an integer" % (self.name, pn, fld))
                    reg = self.owned(pn, self.region, "%s_%s" % (pn, fld))
                    it, ic, ie = self.rvalue(b["inner"][1])
                    return ("elem", reg, it, ic + [self.inb(reg, it)], ie, ty)
            if b.get("kind") == "ArraySubscriptExpr":
                bb = self.skip(b["inner"][0])
                p2, path2 = self.member_chain(bb) if bb.get("kind") == "MemberExpr" else (None, None)
                if p2 is not None:
                    # info->arr[i].fld : the region info_arr_fld
                    if ty is None:
                        fail("%s: member %s->%s[].%s is not an integer" % (self.name, p2, ".".join(path2), fld))
                    if (p2, tuple(path2)) in self.detached:
                        fail("%s: %s->%s is used between the reallocation through a local and the store of the new block" % (self.name, p2, ".".join(path2)))
                    self.sa_note(lname("%s_%s" % (p2, "_".join(path2))), fld, "int")
                    reg = self.owned(p2, self.region, "%s_%s_%s" % (p2, "_".join(path2), fld))
                    sa_ = self.struct_arrays.setdefault(lname("%s_%s" % (p2, "_".join(path2))), [])
                    if reg not in sa_:
                        sa_.append(reg)
                    it, ic, ie = self.rvalue(b["inner"][1])
                    return ("elem", reg, it, ic + [self.inb(reg, it)], ie, ty)
            if b.get("kind") == "ArraySubscriptExpr":
                bb = self.skip(b["inner"][0])
                if bb.get("kind") == "DeclRefExpr" and ("%s.%s" % (bb["referencedDecl"]["name"], fld)) in self.globals:
                    # tab[i].fld of a global array of structs: the generated table `<tab>.<fld>` (read-only)
                    if ty is None:
                        fail("%s: member %s[].%s is not an integer" % (self.name, bb["referencedDecl"]["name"], fld))
                    reg = "@%s.%s" % (bb["referencedDecl"]["name"], fld)
                    it, ic, ie = self.rvalue(b["inner"][1])
                    return ("elem", reg, it, ic + [self.inb(reg, it)], ie, ty)
            cur = self.cursor_of(n)
            if cur is not None:
                return ("scalar", cur[0], "ptr")
            p, path = self.member_chain(n)
            if p is not None:
                if ty is None:
                    fail("%s: member %s->%s is not an integer" % (self.name, p, ".".join(path)))
                return ("scalar", self.owned(p, self.scalar, "%s_%s" % (p, "_".join(path)), entry=True), ty)
            if b.get("kind") == "UnaryOperator" and b.get("opcode") == "*" and ptr_elem(qt(b)) is not None and ty is not None:
                # (*dp)->fld, `dp` a pointer into an array of POINTERS TO STRUCTS (region R): the member `fld` of the struct the cell
                # points to is cell `dp` of the region R_fld (the caller passes the members of the pointed-to structs as that list)
                r, i, c, e = self.pexpr(b["inner"][0])
                if r.startswith("#") or r.startswith("@") or r == "mem" or r in self.local_regions:
                    fail("%s: member %s of a struct reached through region %s" % (self.name, fld, r))
                own = [o for (n_, t_, o) in self.entry if n_ == r]
                reg = self.owned(own[0] if own else None, self.region, "%s_%s" % (r, fld))
                note = "region `%s` holds the member `%s` of the structs the pointers in `%s` point to" % (reg, fld, r)
                if note not in self.notes:
                    self.notes.append(note)
                return ("elem", reg, i, c + [self.inb(r, i), self.inb(reg, i)], e, ty)
            fail("%s: member access %s" % (self.name, fld))
        fail("%s: unsupported lvalue %s" % (self.name, k))

    def objchk(self, n):
        """opts['check_object_null']: `p->m` with `p` an object local (the result of opts['object_calls'] functions) requires p != NULL"""
        if not self.opts.get("check_object_null"):
            return []
        n = self.skip(n)
        if n.get("kind") != "MemberExpr":
            return []
        p_, _ = self.member_chain(n)
        if p_ is None or p_ not in self.objects:
            return []
        return ["s.%s = false" % self.owned(p_, self.boolf, "%s_null" % p_)]

    def object_key(self, n):
        """the id expression handed to the first opts['object_calls'] call inside the binding expression of an object local"""
        oc = set(self.opts.get("object_calls", []))
        if n.get("kind") == "CallExpr" and self.skip(n["inner"][0]).get("referencedDecl", {}).get("name") in oc and len(n["inner"]) > 1:
            a = self.skip(n["inner"][1])
            if a.get("kind") == "DeclRefExpr":
                return ("var", a["referencedDecl"]["name"])
            if a.get("kind") == "MemberExpr":
                p_, path_ = self.member_chain(a)
                if p_ is not None:
                    return ("mem", p_, tuple(path_))
            return None
        for c_ in n.get("inner", []):
            r_ = self.object_key(c_)
            if r_ is not None:
                return r_
        return None

    def nullf(self, nm):
        """Bool state field: pointer local `nm` (one that is assigned or initialised with NULL somewhere) is NULL"""
        f = lname(nm) + "_null"
        if f not in self.lbools:
            self.lbools.append(f)
        return f

    def seatf(self, mname):
        f = mname + "_seat"
        if f not in self.lbools:
            self.lbools.append(f)
        return f

    def chain_null(self, n):
        """`a = b = NULL` (the value of the assignment expression is NULL)"""
        while n.get("kind") in ("ParenExpr", "ImplicitCastExpr", "CStyleCastExpr"):
            if n.get("castKind") == "NullToPointer":
                return True
            n = n["inner"][0]
        return n.get("kind") == "BinaryOperator" and n.get("opcode") == "=" and (self.is_null(n["inner"][1]) or self.chain_null(n["inner"][1]))

    def pix(self, nm):
        """state field holding the index of pointer variable `nm` (a moved pointer PARAMETER `p` is region `p` + index `p_i`)"""
        return self.pidx.get(nm, lname(nm))

    def use_io(self, which):
        if which == "stdio":
            if "io_res" not in self.regions:
                self.owner = None
                self.region("io_res")
                self.scalar("io_cnt", entry=True)
                self.region("io_log")
            return
        if which == "elt":
            if "io_elt" not in self.regions:
                self.owned(None, self.region, "io_elt")
                self.owned(None, self.scalar, "io_epos", entry=True)
                self.owned(None, self.scalar, "io_enew", entry=True)
        elif which == "in":
            if "io_in" not in self.regions:
                self.owner = None
                self.region("io_in")
                self.scalar("io_pos", entry=True)
        else:
            if "io_out" not in self.regions:
                self.owner = None
                self.region("io_out")

    def int_literal(self, n):
        while n.get("kind") in ("ParenExpr", "ImplicitCastExpr", "CStyleCastExpr", "ConstantExpr"):
            n = n["inner"][0]
        return int(n["value"]) if n.get("kind") == "IntegerLiteral" else None

    def stdio_call(self, n, nm, io):
        """a stdio call as a request to the outside world (see the header): result from the tape io_res, one record appended to io_log"""
        self.use_io("stdio")
        res = "(s.io_res.getD (Int.toNat s.io_cnt) 0)"
        effs = [Eff(("scalar", "io_cnt"), "(s.io_cnt + 1)", "io_cnt")]
        a = n["inner"]
        checks = []
        if io == "stdio_fseek":
            ot, oc, oe = self.rvalue(a[2])
            w = self.int_literal(a[3])
            if oe or w is None:
                fail("%s: %s with a side effect in the offset or a whence that is not a literal" % (self.name, nm))
            rec, checks = [str(1 + 10 * w), ot, res], oc
        elif io == "stdio_ferror":
            rec = ["4", "0", res]
        else:
            if self.int_literal(a[2]) != 1:
                fail("%s: %s with an item size other than the literal 1" % (self.name, nm))
            nt, nc, ne = self.rvalue(a[3])
            rr, ri, rc, re_ = self.pexpr(a[1])
            if ne or re_:
                fail("%s: side effect in %s arguments" % (self.name, nm))
            checks = nc + rc + ["(0 : Int) ≤ %s" % nt, "0 ≤ %s ∧ %s + %s ≤ %s.length" % (ri, ri, nt, self.rt(rr))]
            if io == "stdio_fwrite":
                self.use_io("out")
                rec = ["3", nt, res]
                effs.append(Eff(("whole", "io_out"), "(s.io_out ++ ((%s.drop (Int.toNat (%s))).take (Int.toNat (%s))))" % (self.rt(rr), ri, nt), "io_out"))
            else:
                self.use_io("in")
                if rr.startswith("#") or rr.startswith("@"):
                    fail("%s: %s into a read-only region" % (self.name, nm))
                rec = ["2", nt, res]
                d = "((s.io_in.drop (Int.toNat s.io_pos)).take (min (Int.toNat %s) (Int.toNat (%s))))" % (res, nt)
                effs.append(Eff(("whole", rr), "((s.%s.take (Int.toNat (%s))) ++ %s ++ (s.%s.drop (Int.toNat (%s) + %s.length)))" % (rr, ri, d, rr, ri, d), rr))
                effs.append(Eff(("scalar", "io_pos"), "(s.io_pos + Int.ofNat %s.length)" % d, "io_pos"))
        effs.append(Eff(("whole", "io_log"), "(s.io_log ++ [%s])" % ", ".join(rec), "io_log"))
        note = "the stdio calls are requests to the world outside: the result of each one is the next cell of the tape `io_res` (cell `io_cnt`), the request and its result are appended to `io_log`"
        if note not in self.notes:
            self.notes.append(note)
        return res, checks, effs

    def rt(self, r):
        """Lean term of a region: a state field, or (read-only) one row of an array of rows `#field#index`"""
        if r.startswith("#"):
            _, f, ix = r.split("#", 2)
            if f.startswith("@"):
                return "((%s).getD (Int.toNat (%s)) [])" % (self.globals[f[1:]], ix)
            return "(s.%s.getD (Int.toNat (%s)) [])" % (f, ix)
        return "s.%s" % r

    def inb(self, r, i):
        if i == "0" and not r.startswith("@"):
            return "0 < %s.length" % self.rt(r)
        if r.startswith("@"):
            return "0 ≤ %s ∧ %s < (%s).length" % (i, i, self.globals[r[1:]])
        return "0 ≤ %s ∧ %s < %s.length" % (i, i, self.rt(r))

    def read(self, r, i):
        if r.startswith("@"):
            return "(Int.ofNat ((%s).getD (Int.toNat (%s)) 0))" % (self.globals[r[1:]], i)
        return "(%s.getD (Int.toNat (%s)) 0)" % (self.rt(r), i)

    def row_struct(self, tname):
        """opts['row_structs'] = [typedef names]: a struct whose ONLY member is an array of K integers (`typedef struct { char obj[K]; } T`).
        An array of such structs is one region of K cells per element; `p[i].m` is the pointer to cell i*K of the region of `p`.
        -> (member, K, bytes per cell) or None.  The member and K come from clang's record layout."""
        if tname not in self.opts.get("row_structs", []):
            return None
        fl = record_fields_forced(self.opts, tname)
        m = re.match(r"^(.*\S)\s*\[(\d+)\]$", fl[0][1]) if len(fl) == 1 else None
        if not m or int_width(m.group(1)) is None:
            fail("%s: %s is not a struct with a single integer-array member" % (self.name, tname))
        return fl[0][0], int(m.group(2)), int_width(m.group(1))[1] // 8

    def cstr_arg(self, a, fn):
        """string argument of strcmp / strncmp / atoi: (Lean term of the cells from the pointer on, checks).  A string literal is the list of
        its bytes followed by its NUL."""
        x = self.skip(a)
        if x.get("kind") == "StringLiteral":
            return "([%s] : List Int)" % ", ".join(str(b) for b in c_string_bytes(x["value"], self.name) + [0]), []
        r, i, c, e = self.pexpr(a)
        if e:
            fail("%s: side effect in %s arguments" % (self.name, fn))
        if r.startswith("@"):
            fail("%s: %s on a global integer table" % (self.name, fn))
        if i == "0":
            return self.rt(r), c
        return "(%s.drop (Int.toNat (%s)))" % (self.rt(r), i), c + ["0 ≤ %s" % i]

    # ---------------------------------------------------------------- integer expressions -> (term, checks, effects)
    def rvalue(self, n):
        k = n.get("kind")
        if k in ("ParenExpr", "ConstantExpr"):
            return self.rvalue(n["inner"][0])
        if k == "IntegerLiteral" or k == "CharacterLiteral":
            return str(int(n["value"])), [], []
        if k in ("ImplicitCastExpr", "CStyleCastExpr"):
            ck = n.get("castKind")
            if ck in ("LValueToRValue", "NoOp", "ToVoid"):
                return self.rvalue(n["inner"][0])
            if ck == "IntegralCast":
                t, c, e = self.rvalue(n["inner"][0])
                return self.conv(t, int_width(qt(n["inner"][0])), int_width(qt(n))), c, e
            if ck == "IntegralToBoolean":
                t, c, e = self.rvalue(n["inner"][0])
                return "(if %s ≠ 0 then 1 else 0)" % t, c, e
            fail("%s: cast kind %s" % (self.name, ck))
        if k == "DeclRefExpr":
            d = n["referencedDecl"]
            if d.get("kind") == "EnumConstantDecl":
                return self.const(d["name"]), [], []
            nm = d["name"]
            if nm in self.ptr:
                fail("%s: pointer %s used as an integer" % (self.name, nm))
            if lname(nm) in self.scalars:
                if lname(nm) in self.subst:
                    return self.subst[lname(nm)], [], []
                return "s.%s" % lname(nm), [], []
            fail("%s: read of %s (%s) outside the subset" % (self.name, nm, d.get("kind")))
        if k in ("ArraySubscriptExpr", "MemberExpr") or (k == "UnaryOperator" and n.get("opcode") == "*"):
            lv = self.lvalue(n)
            if lv[0] == "scalar":
                return "s.%s" % lv[1], self.objchk(n), []
            return self.read(lv[1], lv[2]), lv[3], lv[4]
        if k == "UnaryOperator":
            op = n["opcode"]
            if op in ("++", "--"):
                lv = self.lvalue(n["inner"][0])
                if lv[0] != "scalar" or lv[2] == "ptr":
                    fail("%s: ++/-- on a memory cell or pointer inside an integer expression" % self.name)
                ty = lv[2]
                cur = "s.%s" % lv[1]
                new = self.narrow(self.arith("+" if op == "++" else "-", cur, "1", ty), ty)
                eff = Eff(lv, new, lv[1])
                return (cur if n.get("isPostfix") else new), [], [eff]
            ty = int_width(qt(n))
            if op == "!":
                b, c, e = self.cond(n["inner"][0])
                return "(if %s then 0 else 1)" % b, c, e
            t, c, e = self.rvalue(n["inner"][0])
            if op == "-":
                return self.wrapu("(- %s)" % t, ty), c, e
            if op == "+":
                return t, c, e
            if op == "~":
                return self.wrapu("(-(%s) - 1)" % t, ty), c, e
            fail("%s: unary %s inside an expression" % (self.name, op))
        if k == "BinaryOperator":
            op = n["opcode"]
            if op in ("&&", "||", "<", "<=", ">", ">=", "==", "!="):
                b, c, e = self.cond(n)
                return "(if %s then 1 else 0)" % b, c, e
            if op == "=":
                # assignment used as a value: the value is the (converted) right-hand side, the store is a pending effect
                a_, b_ = n["inner"]
                if ptr_elem(qt(a_)) is not None:
                    fail("%s: pointer assignment inside an expression" % self.name)
                tv, cv, ev = self.rvalue(b_)
                lv = self.lvalue(a_)
                if lv[0] == "scalar":
                    return tv, cv, ev + [Eff(lv, tv, lv[1])]
                return tv, cv + lv[3], ev + lv[4] + [Eff(("elem", lv[1], lv[2]), tv, lv[1])]
            if op == ",":
                # sequence point: the left operand is executed as a statement before the statement that contains this expression
                a_, b_ = n["inner"]
                lines = self.stmt(a_, "")
                if lines and getattr(self, "cond_ctx", 0) > 0:
                    fail("%s: operator `,` with an effect in a conditionally evaluated position" % self.name)
                self.pre_lines += lines
                return self.rvalue(b_)
            a, b = n["inner"]
            if op == "-" and ptr_elem(qt(a)) is not None and ptr_elem(qt(b)) is not None:
                ra, ia, ca, ea = self.pexpr(a)
                rb, ib, cb, eb = self.pexpr(b)
                if ra != rb:
                    fail("%s: difference of pointers into different regions (%s, %s)" % (self.name, ra, rb))
                return "(%s - %s)" % (ia, ib), ca + cb, ea + eb
            ta, ca, ea = self.rvalue(a)
            tb, cb, eb = self.rvalue(b)
            t, c = self.binop(op, ta, tb, int_width(qt(n)))
            return t, ca + cb + c, ea + eb
        if k == "CompoundAssignOperator":
            # compound assignment used as a value: the value is the new (converted) value of the left side, the store is a pending effect
            lhs_, rhs_ = n["inner"]
            if ptr_elem(qt(lhs_)) is not None:
                fail("%s: pointer compound assignment inside an expression" % self.name)
            lv = self.lvalue(lhs_)
            if lv[0] != "scalar":
                fail("%s: compound assignment to a memory cell inside an expression" % self.name)
            op_ = n["opcode"][:-1]
            t_, c_, e_ = self.rvalue(rhs_)
            comp = n.get("computeResultType", {})
            cty = int_width(comp.get("desugaredQualType", comp.get("qualType", ""))) or int_width(qt(n))
            lty = int_width(qt(lhs_))
            v_, c2_ = self.binop(op_, self.conv("s.%s" % lv[1], lty, cty), t_, cty)
            v_ = self.conv(v_, cty, lty)
            return v_, c_ + c2_, e_ + [Eff(lv, v_, lv[1])]
        if k == "ConditionalOperator":
            c, cc, ce = self.cond(n["inner"][0])
            self.cond_ctx = getattr(self, "cond_ctx", 0) + 1
            try:
                a, ca, ea = self.rvalue(n["inner"][1])
                b, cb, eb = self.rvalue(n["inner"][2])
            finally:
                self.cond_ctx -= 1
            if ea or eb:
                fail("%s: side effect inside ?:" % self.name)
            return "(if %s then %s else %s)" % (c, a, b), cc + ["¬(%s) ∨ (%s)" % (c, x) for x in ca] + ["(%s) ∨ (%s)" % (c, x) for x in cb], ce
        if k == "CallExpr":
            callee = self.skip(n["inner"][0])
            nm = callee.get("referencedDecl", {}).get("name")
            if nm in ("strlen", "HDstrlen", "__builtin_strlen"):
                # length of the NUL-terminated string that starts at the pointer: number of cells before the first 0 (ub when there is none)
                r, i, c, e = self.pexpr(n["inner"][1])
                if r.startswith("@"):
                    fail("%s: strlen of a global" % self.name)
                if e:
                    fail("%s: side effect in strlen argument" % self.name)
                rest = "(%s.drop (Int.toNat (%s)))" % (self.rt(r), i)
                return "(Int.ofNat (%s.takeWhile (· ≠ 0)).length)" % rest, c + ["0 ≤ %s ∧ (0 : Int) ∈ %s" % (i, rest)], []
            if nm in ("strncmp", "HDstrncmp", "__builtin_strncmp") or (nm in ("strcmp", "HDstrcmp", "__builtin_strcmp") and any(
                    self.skip(a_).get("kind") == "StringLiteral" for a_ in n["inner"][1:3])):
                # compares the NUL-terminated strings that start at the two pointers (a string literal is the list of its bytes and its NUL):
                # -1 / 0 / 1 (C fixes only the sign); a read past the end of either region (no NUL before it, while the strings agree) is
                # undefined behaviour.  strncmp(a, b, n) looks at no more than n cells.
                A, ca = self.cstr_arg(n["inner"][1], nm)
                B, cb = self.cstr_arg(n["inner"][2], nm)
                self.opts["_uses"].add("strcmp")
                if "strncmp" in nm:
                    nt, nc, ne = self.rvalue(n["inner"][3])
                    if ne:
                        fail("%s: side effect in %s arguments" % (self.name, nm))
                    self.opts["_uses"].add("strncmp")
                    call = "(strncmpC (Int.toNat (%s)) %s %s)" % (nt, A, B)
                    return "(%s.getD 0)" % call, ca + cb + nc + ["(0 : Int) ≤ %s" % nt, "%s.isSome = true" % call], []
                return "((strcmpC %s %s).getD 0)" % (A, B), ca + cb + ["(strcmpC %s %s).isSome = true" % (A, B)], []
            if nm in ("atoi", "__builtin_atoi") and self.opts.get("libc_builtins"):
                # atoi(p) = (int)strtol(p, NULL, 10): white space, an optional sign, decimal digits up to the first other cell.  Undefined
                # behaviour (checked): the scan runs past the end of the region, or the value is not representable in an int (C11 7.22.1p1)
                A, ca = self.cstr_arg(n["inner"][1], nm)
                self.opts["_uses"].add("atoi")
                return "((atoiC %s).getD 0)" % A, ca + ["(atoiC %s).isSome = true" % A], []
            if nm in ("isdigit", "__builtin_isdigit") and self.opts.get("libc_builtins"):
                # isdigit(x): 1 for '0'..'9', else 0 (C fixes only zero / non-zero).  C11 7.4p1: the argument must be representable as an
                # unsigned char or equal EOF, anything else is undefined behaviour (checked) - a negative plain `char` is such a value
                t, c, e = self.rvalue(n["inner"][1])
                return "(if 48 ≤ %s ∧ %s ≤ 57 then 1 else 0)" % (t, t), c + ["-1 ≤ %s ∧ %s ≤ 255" % (t, t)], e
            if nm in ("strcmp", "HDstrcmp", "__builtin_strcmp"):
                # compares the NUL-terminated strings that start at the two pointers: -1 / 0 / 1 (C fixes only the sign); a read past the
                # end of either region (no NUL before it, while the strings agree) is undefined behaviour
                ra, ia, ca, ea = self.pexpr(n["inner"][1])
                rb, ib, cb, eb = self.pexpr(n["inner"][2])
                if ea or eb:
                    fail("%s: side effect in strcmp arguments" % self.name)
                def from_(r, i):
                    return (self.rt(r) if not r.startswith("@") else "(%s)" % self.globals[r[1:]]) if i == "0" else "(%s.drop (Int.toNat (%s)))" % (self.rt(r), i)
                if ra.startswith("@") or rb.startswith("@"):
                    fail("%s: strcmp on a global integer table" % self.name)
                A, B = from_(ra, ia), from_(rb, ib)
                self.opts["_uses"].add("strcmp")
                pos = [("0 ≤ %s" % i) for i in (ia, ib) if i != "0"]
                return "((strcmpC %s %s).getD 0)" % (A, B), ca + cb + pos + ["(strcmpC %s %s).isSome = true" % (A, B)], []
            if nm in self.opts.get("trap_calls", []):
                note = "a call of `%s` is not followed: reaching it sets `ub`" % nm
                if note not in self.notes:
                    self.notes.append(note)
                return "0", ["False"], []
            nm = self.opts.get("call_map", {}).get(nm, nm)
            if nm in self.opts.get("_fns", {}):
                return self.call_translated(n, nm)
            if nm in self.call_specs:
                return self.call_spec(n, nm)
            if nm is None and self.opts.get("unmodelled_indirect_calls") and callee.get("kind") != "DeclRefExpr":
                # a call through a function pointer (`(*p->funcs->f)(…)`): its target is outside the translated text; reaching it is recorded
                # in `ub` (like a switch group of opts['unmodelled_cases']) and the value is 0
                note = "a call through a function pointer is outside the translated subset (opts['unmodelled_indirect_calls']): reaching one is recorded as `ub`"
                if note not in self.notes:
                    self.notes.append(note)
                return "0", ["False"], []
            if nm in self.opts.get("pure_calls", []):
                if len(n["inner"]) != 2:
                    fail("%s: pure call %s must have one argument" % (self.name, nm))
                ta_, ca_, ea_ = self.rvalue(n["inner"][1])
                if ea_:
                    fail("%s: side effect in the argument of %s" % (self.name, nm))
                aty_ = int_width(qt(n["inner"][1]))
                return "(%s (%s))" % (lname(nm), ta_), ca_, []
            if nm in self.opts.get("assume_calls", {}):
                # a call whose effect is outside the modelled state and which is ASSUMED to return this value (trusted base)
                val = str(self.opts["assume_calls"][nm])
                if val == "object":
                    fail("%s: result of %s (an object outside the function) used as an integer" % (self.name, nm))
                if val.startswith("table:"):
                    # the answer is read from a table given at entry, indexed by the value of argument number k (1-based); one call site only
                    # (its other arguments are the same expressions at every execution); the modelled state is left unchanged
                    karg = int(val[6:])
                    site = n.get("id")
                    if self.oracle_sites.setdefault(nm, site) != site:
                        fail("%s: more than one call site of %s, which is answered from a table" % (self.name, nm))
                    a_ = n["inner"][karg]
                    if ptr_elem(qt(a_)) is not None:
                        sa = self.skip(a_)
                        if sa.get("kind") == "DeclRefExpr" and sa["referencedDecl"]["name"] in getattr(self, "cursors", {}):
                            ta, ca, ea = "s.%s" % lname(sa["referencedDecl"]["name"]), [], []
                        else:
                            fail("%s: table argument of %s is a pointer that is not a cursor" % (self.name, nm))
                    else:
                        ta, ca, ea = self.rvalue(a_)
                    if ea:
                        fail("%s: side effect in the table argument of %s" % (self.name, nm))
                    self.owner = None
                    tab = self.region("%s_ret" % nm)
                    note = "call of `%s` is assumed to leave the modelled state unchanged and to return `%s[a]`, where `a` is the value of its argument number %d (0 outside the table)" % (nm, tab, karg)
                    if note not in self.notes:
                        self.notes.append(note)
                    return "(s.%s.getD (Int.toNat (%s)) 0)" % (tab, ta), ca, []
                if val.startswith("param:"):
                    # the result is an entry parameter (the same value at every call site: the calls must have equal arguments)
                    f_ = self.scalar(val[6:], entry=True) if lname(val[6:]) not in self.scalars else lname(val[6:])
                    note = "every call of `%s` returns the entry parameter `%s`" % (nm, f_)
                    if note not in self.notes:
                        self.notes.append(note)
                    return "s.%s" % f_, [], []
                note = "call of `%s` is assumed to return %s" % (nm, val)
                if note not in self.notes:
                    self.notes.append(note)
                return val, [], []
            io = self.opts.get("io", {}).get(nm)
            if io == "getc":
                # next byte of the input stream, FAIL (-1) at its end; the stream position advances when a byte was delivered
                self.use_io("in")
                v = "(if s.io_pos < s.io_in.length then (s.io_in.getD (Int.toNat s.io_pos) 0) else -1)"
                eff = Eff(("scalar", "io_pos"), "(if s.io_pos < s.io_in.length then s.io_pos + 1 else s.io_pos)", "io_pos")
                return v, [], [eff]
            if io == "bitwrite":
                # Hbitwrite(bitid, count, data): appends the pair (count, data) to the output stream (two cells), returns count
                self.use_io("out")
                ct, cc, ce = self.rvalue(n["inner"][2])
                dt, dc, de = self.rvalue(n["inner"][3])
                if ce or de:
                    fail("%s: side effect in %s arguments" % (self.name, nm))
                return ct, cc + dc, [Eff(("whole", "io_out"), "(s.io_out ++ [%s, %s])" % (ct, dt), "io_out")]
            if io == "bitread":
                # Hbitread(bitid, count, &var): the next `count` cells of the input stream are bits (0/1), most significant first;
                # returns count, or FAIL (-1, nothing changes) when fewer are left
                self.use_io("in")
                ct, cc, ce = self.rvalue(n["inner"][2])
                tgt = self.skip(n["inner"][3])
                if ce or tgt.get("kind") != "UnaryOperator" or tgt.get("opcode") != "&":
                    fail("%s: %s target must be &variable" % (self.name, nm))
                lv = self.lvalue(tgt["inner"][0])
                if lv[0] != "scalar":
                    fail("%s: %s target must be a scalar variable" % (self.name, nm))
                ok = "(s.io_pos + %s ≤ s.io_in.length)" % ct
                val = "(((s.io_in.drop (Int.toNat s.io_pos)).take (Int.toNat (%s))).foldl (fun acc b => acc * 2 + b) 0)" % ct
                return "(if %s then %s else -1)" % (ok, ct), cc + ["(0 : Int) ≤ %s" % ct], [Eff(lv, "(if %s then %s else s.%s)" % (ok, val, lv[1]), lv[1]), Eff(("scalar", "io_pos"), "(if %s then s.io_pos + %s else s.io_pos)" % (ok, ct), "io_pos")]
            if io == "putc":
                # appends one byte to the output stream and returns it (the output never fails: assumption, C16 owns I/O failures)
                self.use_io("out")
                ct, cc, ce = self.rvalue(n["inner"][1])
                if ce:
                    fail("%s: side effect in %s argument" % (self.name, nm))
                return "((%s) %% 256)" % ct, cc, [Eff(("whole", "io_out"), "(s.io_out ++ [(%s) %% 256])" % ct, "io_out")]
            if io == "write":
                # Hwrite(aid, n, ptr): appends n bytes to the output stream, returns n
                self.use_io("out")
                an_, ap_ = self.opts.get("io_args", {}).get(nm, [2, 3])      # positions of the byte count and of the pointer (Hwrite: 2, 3)
                nt, nc, ne = self.rvalue(n["inner"][an_])
                rr, ri, rc, re_ = self.pexpr(n["inner"][ap_])
                if ne or re_:
                    fail("%s: side effect in %s arguments" % (self.name, nm))
                chk = ["(0 : Int) ≤ %s" % nt, "0 ≤ %s ∧ %s + %s ≤ %s.length" % (ri, ri, nt, self.rt(rr))]
                return nt, nc + rc + chk, [Eff(("whole", "io_out"), "(s.io_out ++ ((%s.drop (Int.toNat (%s))).take (Int.toNat (%s))))" % (self.rt(rr), ri, nt), "io_out")]
            if io == "read":
                # Hread(aid, n, ptr): delivers n bytes of the input stream, or FAIL (-1, nothing changes) when fewer are left
                self.use_io("in")
                an_, ap_ = self.opts.get("io_args", {}).get(nm, [2, 3])      # positions of the byte count and of the pointer (Hread: 2, 3)
                nt, nc, ne = self.rvalue(n["inner"][an_])
                rr, ri, rc, re_ = self.pexpr(n["inner"][ap_])
                if ne or re_:
                    fail("%s: side effect in %s arguments" % (self.name, nm))
                if rr.startswith("#") or rr.startswith("@"):
                    fail("%s: %s into a read-only region" % (self.name, nm))
                ok = "(s.io_pos + %s ≤ s.io_in.length)" % nt
                chk = ["(0 : Int) ≤ %s" % nt, "0 ≤ %s ∧ %s + %s ≤ s.%s.length" % (ri, ri, nt, rr)]
                new_reg = "(if %s then (s.%s.take (Int.toNat (%s))) ++ ((s.io_in.drop (Int.toNat s.io_pos)).take (Int.toNat (%s))) ++ (s.%s.drop (Int.toNat (%s + %s))) else s.%s)" % (ok, rr, ri, nt, rr, ri, nt, rr)
                return "(if %s then %s else -1)" % (ok, nt), nc + rc + chk, [Eff(("whole", rr), new_reg, rr), Eff(("scalar", "io_pos"), "(if %s then s.io_pos + %s else s.io_pos)" % (ok, nt), "io_pos")]
            if io in ("stdio_fseek", "stdio_fread", "stdio_fwrite", "stdio_ferror"):
                return self.stdio_call(n, nm, io)
            if io == "eseek":
                # Hseek(aid, off, DF_START) on the random-access element: position := off; fails (nothing changes) for a negative offset
                self.use_io("elt")
                ot, oc, oe = self.rvalue(n["inner"][2])
                wt, wc, we = self.rvalue(n["inner"][3])
                if oe or we or wt != "0":
                    fail("%s: %s: only side-effect free seeks from DF_START are supported" % (self.name, nm))
                return "(if 0 ≤ %s then 0 else -1)" % ot, oc, [Eff(("scalar", "io_epos"), "(if 0 ≤ %s then %s else s.io_epos)" % (ot, ot), "io_epos")]
            if io == "ewrite":
                # Hwrite(aid, n, ptr) on the random-access (appendable) element: overwrite / extend at the position; returns n
                self.use_io("elt")
                nt, nc, ne = self.rvalue(n["inner"][2])
                rr, ri, rc, re_ = self.pexpr(n["inner"][3])
                if ne or re_:
                    fail("%s: side effect in %s arguments" % (self.name, nm))
                chk = ["(0 : Int) ≤ %s" % nt, "0 ≤ %s ∧ %s + %s ≤ %s.length" % (ri, ri, nt, self.rt(rr)), "0 ≤ s.io_epos"]
                data = "((%s.drop (Int.toNat (%s))).take (Int.toNat (%s)))" % (self.rt(rr), ri, nt)
                new_elt = "((s.io_elt.take (Int.toNat s.io_epos)) ++ %s ++ (s.io_elt.drop (Int.toNat (s.io_epos + %s))))" % (data, nt)
                return nt, nc + rc + chk, [Eff(("whole", "io_elt"), new_elt, "io_elt"), Eff(("scalar", "io_epos"), "(s.io_epos + %s)" % nt, "io_epos"),
                                           Eff(("scalar", "io_enew"), "0", "io_enew")]
            if io == "eread":
                # Hread(aid, n, ptr) on the random-access element: FAIL (-1) on a new element; else k = n, clipped to the bytes left (n = 0: all
                # the bytes left) are copied to ptr, the position advances by k, the result is k (0 at the end of the element, not a failure)
                self.use_io("elt")
                nt, nc, ne = self.rvalue(n["inner"][2])
                rr, ri, rc, re_ = self.pexpr(n["inner"][3])
                if ne or re_:
                    fail("%s: side effect in %s arguments" % (self.name, nm))
                if rr.startswith("#") or rr.startswith("@"):
                    fail("%s: %s into a read-only region" % (self.name, nm))
                kk = "(if (%s : Int) = 0 ∨ %s + s.io_epos > s.io_elt.length then Int.ofNat (Int.toNat (s.io_elt.length - s.io_epos)) else %s)" % (nt, nt, nt)
                ok = "(s.io_enew = 0)"
                chk = ["(0 : Int) ≤ %s" % nt, "0 ≤ s.io_epos", "¬%s ∨ (0 ≤ %s ∧ %s + %s ≤ s.%s.length)" % (ok, ri, ri, kk, rr)]
                new_reg = "(if %s then (s.%s.take (Int.toNat (%s))) ++ ((s.io_elt.drop (Int.toNat s.io_epos)).take (Int.toNat %s)) ++ (s.%s.drop (Int.toNat (%s + %s))) else s.%s)" % (ok, rr, ri, kk, rr, ri, kk, rr)
                return "(if %s then %s else -1)" % (ok, kk), nc + rc + chk, [Eff(("whole", rr), new_reg, rr), Eff(("scalar", "io_epos"), "(if %s then s.io_epos + %s else s.io_epos)" % (ok, kk), "io_epos")]
            fail("%s: call of %s inside an expression" % (self.name, nm))
        if k == "UnaryExprOrTypeTraitExpr" and n.get("name") == "sizeof":
            at = n.get("argType", {}).get("qualType")
            if not at and n.get("inner"):
                # sizeof(expression) of a LOCAL array of integers: its declared size (globals: compiled and printed, below)
                se = self.skip(n["inner"][0])
                m_ = re.match(r"^(.*)\[(\d+)\]$", base_type(qt(se)))
                if m_ and int_width(m_.group(1)) is not None and se.get("kind") == "DeclRefExpr" and lname(se["referencedDecl"]["name"]) in self.local_regions:
                    return str(int(m_.group(2)) * (int_width(m_.group(1))[1] // 8)), [], []
            if self.opts.get("libc_builtins"):
                # sizeof of an expression (its type), of an integer array type `T[N]`, of a row struct (opts['row_structs'])
                if not at and n.get("inner"):
                    at = qt(n["inner"][0])
                ma = re.match(r"^(.*\S)\s*\[(\d+)\]$", base_type(at or ""))
                if ma and int_width(ma.group(1)) is not None:
                    return str(int(ma.group(2)) * (int_width(ma.group(1))[1] // 8)), [], []
                rs = self.row_struct(base_type(at or ""))
                if rs:
                    return str(rs[1] * rs[2]), [], []
            w = int_width(at) if at else None
            if w is None and at and ptr_elem(at) is not None:
                return "8", [], []      # a pointer (LP64 host, as recorded in the trusted base)
            if w is None and at and re.match(r"^\w+$", base_type(at)):
                return self.const("sizeof(%s)" % base_type(at)), [], []      # a struct typedef: compiled and printed like the other constants
            if w is None and not at and n.get("inner"):
                e0 = self.skip(n["inner"][0])
                if e0.get("kind") == "DeclRefExpr" and re.match(r"^\w+$", e0["referencedDecl"]["name"]):
                    return self.const("sizeof(%s)" % e0["referencedDecl"]["name"]), [], []    # sizeof(global array): compiled and printed
            if w is None:
                fail("%s: sizeof of %s" % (self.name, at))
            return str(w[1] // 8), [], []
        fail("%s: unsupported expression %s" % (self.name, k))

    def use_calls(self):
        """the call log `calls : List (List Int)` (an entry parameter: the log so far)"""
        if "calls" not in self.rowsets:
            self.rowsets.append("calls")
            self.owner = None
            self.add_entry("calls", "List (List Int)")

    def call_spec(self, n, nm):
        """an ASSUMED call with a written contract, opts['call_specs'][f] = {ret, log, out, set} (trusted base; printed in the doc comment):
             ret: the result is the entry parameter of this name (the same at every call);
             log: code - the row [code, values of the integer arguments in order] is appended to the call log `calls`;
             out: {k: field} - when the result is not FAIL (-1) the callee stores the state field `field` (an entry parameter, possibly
                  changed by `set` clauses since) through its k-th argument: `&x` (x an integer local): x := field; NULL: nothing;
                  an integer-pointer PARAMETER p of this function: p[0] := field unless p is NULL (`p_null`);
             set: [[field, term]] - when the result is not FAIL the state field is set to the term (Lean text; `$k` = value of argument k,
                  `s.<field>` = a state field before the call)."""
        spec = self.call_specs[nm]
        args = n["inner"][1:]
        old_owner, self.owner = self.owner, None
        try:
            retf = self.scalar(spec["ret"], entry=True)
            ok = "(s.%s ≠ (- 1))" % retf
            vals, checks, ints = {}, [], []
            for k_, a in enumerate(args, 1):
                if ptr_elem(qt(a)) is None and int_width(qt(a)) is not None:
                    t, c, e = self.rvalue(a)
                    if e:
                        fail("%s: side effect in an argument of %s" % (self.name, nm))
                    vals[k_] = t
                    checks += c
                    ints.append(t)
            effs, doc = [], ["returns the entry parameter `%s`" % retf]
            if "log" in spec:
                self.use_calls()
                effs.append(Eff(("whole", "calls"), "(s.calls ++ [[%s]])" % ", ".join([str(int(spec["log"]))] + ints), "calls"))
                doc.append("appends `[%d, integer arguments]` to `calls`" % int(spec["log"]))
            for k_, fld in sorted((int(a_), b_) for a_, b_ in spec.get("out", {}).items()):
                f_ = self.scalar(fld, entry=True)
                a = args[k_ - 1]
                doc.append("unless it FAILs (-1) stores `%s` through argument %d" % (f_, k_))
                if self.is_null(a):
                    continue
                sa = self.skip(a)
                if sa.get("kind") == "UnaryOperator" and sa.get("opcode") == "&":
                    lv = self.lvalue(sa["inner"][0])
                    if lv[0] != "scalar" or lv[2] == "ptr":
                        fail("%s: output argument %d of %s is not `&integer variable`" % (self.name, k_, nm))
                    effs.append(Eff(lv, "(if %s then s.%s else s.%s)" % (ok, f_, lv[1]), lv[1]))
                elif sa.get("kind") == "DeclRefExpr" and sa["referencedDecl"]["name"] in self.ptr_is_param_region and sa["referencedDecl"]["name"] in self.plist:
                    pn = sa["referencedDecl"]["name"]
                    reg = self.owned(pn, self.region, pn)
                    nf = self.owned(pn, self.boolf, "%s_null" % pn)
                    checks.append("s.%s = true ∨ s.%s = (- 1) ∨ 0 < s.%s.length" % (nf, retf, reg))
                    effs.append(Eff(("whole", reg), "(if %s ∧ s.%s = false then s.%s.set 0 (s.%s) else s.%s)" % (ok, nf, reg, f_, reg), reg))
                else:
                    fail("%s: output argument %d of %s is neither `&variable`, NULL nor a pointer parameter" % (self.name, k_, nm))
            for fld, term in spec.get("set", []):
                f_ = self.scalar(fld, entry=True)
                for m_ in re.findall(r"s\.(\w+)", term):
                    self.scalar(m_, entry=True)
                t_ = re.sub(r"\$(\d+)", lambda m_: "(%s)" % vals[int(m_.group(1))], term)
                effs.append(Eff(("scalar", f_, None), "(if %s then %s else s.%s)" % (ok, t_, f_), f_))
                doc.append("unless it FAILs sets `%s := %s`" % (f_, term))
            note = "call of `%s` is ASSUMED (contract opts['call_specs']): %s" % (nm, "; ".join(doc))
            if note not in self.notes:
                self.notes.append(note)
            return "s.%s" % retf, checks, effs
        finally:
            self.owner = old_owner

    def const(self, name):
        v = self.opts.get("consts", {}).get(name)
        if v is None:
            # resolved by translate_unit: the name is compiled against /repo's headers and printed (never guessed)
            self.opts.setdefault("_missing_consts", set()).add(name)
            return "0"
        return str(v)

    def wrapu(self, t, ty):
        if ty is not None and not ty[0]:
            return "((%s) %% %d)" % (t, 2 ** ty[1])
        return t

    def narrow(self, t, ty):
        """x++ / x-- on a SIGNED type narrower than int: computed in int, then converted back (wraps, as `conv` does for every such conversion)"""
        if ty is not None and ty[0] and ty[1] < 32:
            return self.conv(t, (True, 32), ty)
        return t

    def arith(self, op, a, b, ty):
        return self.wrapu("(%s %s %s)" % (a, op, b), ty)

    def binop(self, op, a, b, ty):
        if op in ("+", "-", "*"):
            return self.arith(op, a, b, ty), []
        if op == "/":
            return "(Int.tdiv %s %s)" % (a, b), ["%s ≠ 0" % b]
        if op == "%":
            return "(Int.tmod %s %s)" % (a, b), ["%s ≠ 0" % b]
        if op in ("&", "|", "^") and self.opts.get("twos_complement_bitops"):
            # two's complement at the width of the computation type: operands reduced modulo 2^W (so negative values, e.g. `~mask`, are
            # faithful), the Nat operation, and for a signed type the result mapped back to [-2^(W-1), 2^(W-1))
            f = {"&": "&&&", "|": "|||", "^": "^^^"}[op]
            sg, w = ty if ty else (True, 32)
            m = 2 ** w
            r = "(Int.ofNat (Int.toNat ((%s) %% %d) %s Int.toNat ((%s) %% %d)))" % (a, m, f, b, m)
            if sg:
                r = "(if %s ≥ %d then %s - %d else %s)" % (r, m // 2, r, m, r)
            return r, []
        if op in ("&", "|", "^"):
            f = {"&": "&&&", "|": "|||", "^": "^^^"}[op]
            return "(Int.ofNat (Int.toNat (%s) %s Int.toNat (%s)))" % (a, f, b), ["(0 : Int) ≤ %s ∧ (0 : Int) ≤ %s" % (a, b)]
        if op == "<<":
            return self.wrapu("(%s * 2 ^ Int.toNat (%s))" % (a, b), ty), ["(0 : Int) ≤ %s ∧ (0 : Int) ≤ %s ∧ %s < (%d : Int)" % (a, b, b, ty[1] if ty else 32)]
        if op == ">>":
            return "(%s / 2 ^ Int.toNat (%s))" % (a, b), ["(0 : Int) ≤ %s ∧ (0 : Int) ≤ %s ∧ %s < (%d : Int)" % (a, b, b, ty[1] if ty else 32)]
        fail("%s: binary operator %s" % (self.name, op))

    def cond(self, n):
        """C expression used as a truth value -> (Lean decidable Prop, checks, effects)"""
        k = n.get("kind")
        if k in ("ParenExpr", "ConstantExpr"):
            return self.cond(n["inner"][0])
        if k == "ImplicitCastExpr" and n.get("castKind") == "PointerToBoolean":
            return self.nulltest(n["inner"][0], False)
        if k == "ImplicitCastExpr" and n.get("castKind") == "IntegralToBoolean":
            return self.cond(n["inner"][0])
        if k == "BinaryOperator":
            op = n["opcode"]
            a, b = n["inner"]
            if op in ("<", "<=", ">", ">=", "==", "!="):
                lop = {"<": "<", "<=": "≤", ">": ">", ">=": "≥", "==": "=", "!=": "≠"}[op]
                if ptr_elem(qt(a)) is not None or ptr_elem(qt(b)) is not None:
                    if op in ("==", "!=") and (self.is_null(a) or self.is_null(b)):
                        return self.nulltest(b if self.is_null(a) else a, op == "==")
                    ra, ia, ca, ea = self.pexpr(a)
                    rb, ib, cb, eb = self.pexpr(b)
                    if ra != rb:
                        fail("%s: comparison of pointers into different regions (%s, %s)" % (self.name, ra, rb))
                    return "(%s %s %s)" % (ia, lop, ib), ca + cb, ea + eb
                ta, ca, ea = self.rvalue(a)
                tb, cb, eb = self.rvalue(b)
                return "(%s %s %s)" % (ta, lop, tb), ca + cb, ea + eb
            if op == "&&":
                ta, ca, ea = self.cond(a)
                npre = len(self.pre_lines)
                # `&&` is a sequence point: the right operand reads the scalars the left operand stores into (the stores of an assumed call
                # with a contract, opts['call_specs']) with their NEW value
                saved_subst = self.subst
                if self.call_specs and ea:
                    self.subst = dict(self.subst, **{x.lv[1]: x.term for x in ea if x.lv[0] == "scalar"})
                self.cond_ctx = getattr(self, "cond_ctx", 0) + 1
                try:
                    tb, cb, eb = self.cond(b)
                finally:
                    self.cond_ctx -= 1
                    self.subst = saved_subst
                if len(self.pre_lines) != npre:
                    fail("%s: call of a translated function on the right of &&" % self.name)
                if eb:
                    # the right operand is evaluated only when the left one is true: its (scalar) stores become conditional ones
                    # (with opts['call_specs'] also the stores of an assumed call into whole fields: the call log, an output array)
                    if ea or any(x.lv[0] != "scalar" and not (self.call_specs and x.lv[0] == "whole") for x in eb):
                        fail("%s: side effect on the right of &&" % self.name)
                    eb = [Eff(x.lv, "(if %s then %s else s.%s)" % (ta, x.term, x.lv[1]), x.var) for x in eb]
                return "(%s ∧ %s)" % (ta, tb), ca + ["¬%s ∨ (%s)" % (ta, x) for x in cb], ea + eb
            if op == "||":
                ta, ca, ea = self.cond(a)
                npre = len(self.pre_lines)
                self.cond_ctx = getattr(self, "cond_ctx", 0) + 1
                try:
                    tb, cb, eb = self.cond(b)
                finally:
                    self.cond_ctx -= 1
                if len(self.pre_lines) != npre:
                    fail("%s: call of a translated function on the right of ||" % self.name)
                if eb:
                    fail("%s: side effect on the right of ||" % self.name)
                return "(%s ∨ %s)" % (ta, tb), ca + ["%s ∨ (%s)" % (ta, x) for x in cb], ea
        if k == "UnaryOperator" and n.get("opcode") == "!":
            a, ca, ea = self.cond(n["inner"][0])
            return "(¬%s)" % a, ca, ea
        if ptr_elem(qt(n)) is not None:
            return self.nulltest(n, False)
        t, c, e = self.rvalue(n)
        return "(%s ≠ 0)" % t, c, e

    def nulltest(self, n, want_null):
        """p == NULL (want_null) / p != NULL"""
        n = self.skip(n)
        k = n.get("kind")
        f = None
        if k == "DeclRefExpr":
            nm = n["referencedDecl"]["name"]
            if nm in self.structs or nm in self.ptr_is_param_region:
                f = self.owned(nm, self.boolf, "%s_null" % nm)
            elif nm in self.aliases:
                p, path = self.aliases[nm]
                f = self.owned(p, self.boolf, "%s_%s_null" % (p, "_".join(path)))
        if k == "BinaryOperator" and n.get("opcode") == "=":
            l_ = self.skip(n["inner"][0])
            if l_.get("kind") == "DeclRefExpr" and l_["referencedDecl"]["name"] in self.struct_locals:
                f = self.owned(l_["referencedDecl"]["name"], self.boolf, "%s_null" % l_["referencedDecl"]["name"])
        if f is None and k == "BinaryOperator" and n.get("opcode") == "=":
            lhs = self.skip(n["inner"][0])
            if lhs.get("kind") == "DeclRefExpr" and lhs["referencedDecl"]["name"] in self.objects:
                pass    # object_calls: handled below
            elif lhs.get("kind") == "DeclRefExpr" and lhs["referencedDecl"]["name"] in self.obj_locals:
                # `(w = assumed_call(…)) == NULL`: the answer is the entry parameter `w_null`
                f = self.owned(lhs["referencedDecl"]["name"], self.boolf, "%s_null" % lhs["referencedDecl"]["name"])
            elif (lhs.get("kind") == "DeclRefExpr" and lhs["referencedDecl"]["name"] in self.alias_locals) \
                    or (self.row_target(lhs) is not None and self.static_region(n["inner"][1]) != "!malloc") \
                    or (lhs.get("kind") == "MemberExpr" and self.is_rows_member_type(lhs) and self.opts.get("null_empties")):
                # the store happens before the statement; malloc / realloc / strdup never fail (trusted base)
                self.pre_lines += self.assignment(n, "")
                return ("False" if want_null else "True"), [], []
        if k == "MemberExpr":
            p, path = self.member_chain(n)
            if p is not None:
                f = self.owned(p, self.boolf, "%s_%s_null" % (p, "_".join(path)))
        if f is None and k == "BinaryOperator" and n.get("opcode") == "=" and self.skip(n["inner"][0]).get("kind") == "MemberExpr" \
                and self.member_chain(self.skip(n["inner"][0]))[0] is not None and self.static_region(n["inner"][1]) == "!malloc" \
                and not self.opts.get("null_empties"):
            # `(p->m = malloc(n)) == NULL`: the assignment happens first, the test reads the member's NULL flag
            self.pre_lines += self.assignment(n, "")
            p, path = self.member_chain(self.skip(n["inner"][0]))
            f = self.owned(p, self.boolf, "%s_%s_null" % (p, "_".join(path)))
            return ("(s.%s = true)" if want_null else "(s.%s = false)") % f, [], []
        if f is None and k == "BinaryOperator" and n.get("opcode") == "=" and self.skip(n["inner"][0]).get("kind") == "ArraySubscriptExpr" \
                and self.skip(self.skip(n["inner"][0])["inner"][0]).get("kind") == "MemberExpr" and self.static_region(n["inner"][1]) == "!malloc":
            # `(p->rows[i] = malloc(k)) == NULL`: the assignment happens first; NULL exactly when the request was refused
            self.pre_lines += self.assignment(n, "")
            srhs_ = n["inner"][1]
            while srhs_.get("kind") in ("ParenExpr", "ImplicitCastExpr", "CStyleCastExpr"):
                srhs_ = srhs_["inner"][0]
            a1, c1, e1 = self.rvalue(srhs_["inner"][1])
            if self.opts.get("malloc_null_above_ptrdiff_max"):
                huge_ = "(%s > 9223372036854775807)" % a1
                return (huge_ if want_null else "(¬%s)" % huge_), [], []
            return ("False" if want_null else "True"), [], []
        if f is None and k == "BinaryOperator" and n.get("opcode") == "=":
            l_ = self.skip(n["inner"][0])
            if l_.get("kind") == "DeclRefExpr" and l_["referencedDecl"]["name"] in self.objects:
                # `(q = call(…)) == NULL`: q is the object the call returns (bound statically), the test reads `q_null`
                nm = l_["referencedDecl"]["name"]
                f = self.owned(nm, self.boolf, "%s_null" % nm)
                return ("(s.%s = true)" if want_null else "(s.%s = false)") % f, [], []
            r, i, c, e = self.pexpr(n)      # performs the assignment (pre-lines / effects)
            return ("False" if want_null else "True"), c, e
        if f is None and k == "DeclRefExpr" and n["referencedDecl"]["name"] in self.nullable:
            f = self.nullf(n["referencedDecl"]["name"])
        if f is None and k == "DeclRefExpr" and n["referencedDecl"]["name"] in self.ptr:
            # a pointer local that was bound to a region: non-NULL (regions exist)
            return ("False" if want_null else "True"), [], []
        if f is None:
            fail("%s: NULL test of %s" % (self.name, k))
        return ("(s.%s = true)" if want_null else "(s.%s = false)") % f, [], []

    # ---------------------------------------------------------------- statements
    def checks(self, cs, ind):
        out, seen = [], []
        for c in cs:
            if c not in seen:
                seen.append(c)
                out.append("%s%s s : %s.St := %s.chk s (%s)" % (ind, self.bind(), self.name, self.name, c))
        return out

    def bind(self):
        """`let` in the first style (opts['inline_body']); otherwise `have`: the value of a `have`-bound state is not visible to the
        elaborator (no zeta-delta), which keeps elaboration linear in the number of statements (with `let` it is exponential)"""
        return "let" if self.opts.get("inline_body") else "have"

    def upd(self, field, term, ind):
        """s := { s with field := term }.  Written through a per-field setter DEFINITION (unless opts['inline_body'], the first style):
        a literal `{ s with … }` whose source is a let-bound constructor application makes Lean copy the field terms, and a chain of
        n such updates grows exponentially"""
        if self.opts.get("inline_body"):
            return "%slet s : %s.St := { s with %s := %s }" % (ind, self.name, field, term)
        if field not in self.setters:
            self.setters.append(field)
        return "%shave s : %s.St := %s.St.set_%s s (%s)" % (ind, self.name, self.name, field, term)

    def assign(self, lv, term, ind):
        if lv[0] == "scalar":
            return [self.upd(lv[1], term, ind)]
        if lv[0] == "whole":
            return [self.upd(lv[1], term, ind)]
        if lv[1].startswith("@"):
            fail("%s: store into a global" % self.name)
        if lv[1].startswith("#"):
            _, f, ix = lv[1].split("#", 2)
            self.rows_written.add(f)
            return ["%slet rw : Int := %s" % (ind, ix),
                    self.upd(f, "s.%s.set (Int.toNat rw) ((s.%s.getD (Int.toNat rw) []).set (Int.toNat (%s)) (%s))" % (f, f, lv[2], term), ind)]
        return [self.upd(lv[1], "s.%s.set (Int.toNat (%s)) (%s)" % (lv[1], lv[2], term), ind)]

    def effects(self, effs, ind, also=()):
        """apply pending ++/-- effects; their right-hand sides denote values in the state before the statement, so when another
        assignment happens first (or several are pending) they are bound to names in that state"""
        if not effs:
            return []
        vars_ = [e.var for e in effs] + list(also)
        if len(set(vars_)) != len(vars_):
            fail("%s: a variable is modified twice (or modified and assigned) in one expression" % self.name)
        if len(effs) == 1 and not also:
            return self.assign(effs[0].lv, effs[0].term, ind)
        fail("%s: internal: effects need pre-binding" % self.name)

    def with_effects(self, pre_checks, main, effs, ind):
        """main: list of (lv, term) assignments whose terms (and index terms) refer to the old state; effs: pending ++/--"""
        out = self.checks(pre_checks, ind)
        if not effs:
            for lv, t in main:
                out += self.assign(lv, t, ind)
            return out
        vars_ = [e.var for e in effs] + [lv[1] for lv, _ in main if lv[0] == "scalar"]
        if len(set(vars_)) != len(vars_):
            fail("%s: a variable is modified twice in one statement" % self.name)
        k = 0
        bound = []
        for lv, t in main:
            out.append("%slet v%d : Int := %s" % (ind, k, t))
            if lv[0] == "elem":
                out.append("%slet ix%d : Int := %s" % (ind, k, lv[2]))
                bound.append((("elem", lv[1], "ix%d" % k), "v%d" % k))
            else:
                bound.append((lv, "v%d" % k))
            k += 1
        for i, e in enumerate(effs):
            ety = ("List (List Int)" if e.lv[1] in self.rowsets else "List Int") if e.lv[0] == "whole" else "Int"
            out.append("%slet e%d : %s := %s" % (ind, i, ety, e.term))
            if e.lv[0] == "elem":
                out.append("%slet ei%d : Int := %s" % (ind, i, e.lv[2]))
        for lv, t in bound:
            out += self.assign(lv, t, ind)
        for i, e in enumerate(effs):
            lv = ("elem", e.lv[1], "ei%d" % i) if e.lv[0] == "elem" else e.lv
            out += self.assign(lv, "e%d" % i, ind)
        return out

    def stmt(self, n, ind):
        """one statement; calls of translated functions inside its expressions are bound (and their effects applied) BEFORE it"""
        k = n.get("kind")
        if k in ("CompoundStmt", "ForStmt", "WhileStmt", "DoStmt", "SwitchStmt"):
            return self.stmt0(n, ind)
        saved, self.pre_lines = self.pre_lines, []
        try:
            body = self.stmt0(n, ind)
            pre = [ind + l for l in self.pre_lines]
        finally:
            self.pre_lines = saved
        return pre + body

    def stmt0(self, n, ind):
        k = n.get("kind")
        if k is None or k == "NullStmt":
            return []
        if k == "CompoundStmt":
            # a statement is guarded by the pending return/break/continue flags only when an EARLIER statement of the same block can set one
            out, may_exit = [], False
            for c in n.get("inner", []):
                if n is getattr(self, "_topbody", None):
                    self._seg_marks.append((len(out), self.has_loop(c)))
                if c.get("kind") == "LabelStmt":
                    # the target of the forward gotos: execution resumes here (unless a `return` was executed before)
                    inner_l = self.stmt(c["inner"][-1], ind + ("  " if self.has_ret else ""))
                    lab = [self.upd("gto", "false", ind + ("  " if self.has_ret else ""))] + inner_l if self.has_goto else inner_l
                    if self.has_ret:
                        out += ["%s%s s : %s.St := if s.done then s else" % (ind, self.bind(), self.name)] + lab + ["%s  s" % ind]
                    else:
                        out += lab
                    may_exit = may_exit or self.can_exit(c["inner"][-1])
                    continue
                if may_exit:
                    out += self.wrapskip(self.stmt(c, ind + "  "), ind)
                else:
                    out += self.stmt(c, ind)
                may_exit = may_exit or self.can_exit(c)
            return out
        if k == "DeclStmt":
            out = []
            for d in n.get("inner", []):
                if d.get("kind") != "VarDecl":
                    fail("%s: declaration of %s" % (self.name, d.get("kind")))
                nm = d["name"]
                init = [c for c in d.get("inner", []) if c.get("kind")]
                if lname(nm) in self.local_regions or (nm in self.statics and nm in self.ptr_is_param_region):
                    if init:
                        fail("%s: initialised local array %s" % (self.name, nm))
                    continue
                if nm in self.struct_locals:
                    continue     # a record found by a lookup: entry parameter
                if nm in self.cursors:
                    if init and not self.is_null(init[0]):
                        out += self.cursor_assign(nm, init[0], ind)
                    continue
                if nm in self.alias_locals:
                    if init and not self.is_null(init[0]):
                        i0 = init[0]
                        while i0.get("kind") in ("ParenExpr", "ImplicitCastExpr", "CStyleCastExpr"):
                            i0 = i0["inner"][0]
                        if i0.get("kind") == "CallExpr" and self.callee_name(i0) in ("malloc", "HDmalloc", "realloc", "HDrealloc"):
                            fail("%s: struct pointer %s initialised with an allocation" % (self.name, nm))
                    continue     # an alias of a struct parameter's member: bound statically
                if nm in self.rowlocals:
                    continue     # filled in by an assumed call: an entry parameter
                if d.get("storageClass") == "static":
                    continue     # a static local is an entry parameter (its value persists between calls); its initialiser is not re-run
                if nm in self.ptr:
                    if init and not self.is_null(init[0]):
                        r, i, c, e = self.pexpr(init[0])
                        self.same_region(nm, r)
                        out += self.with_effects(c, [(("scalar", self.pix(nm)), i)], e, ind)
                        if nm in self.nullable:
                            out.append(self.upd(self.nullf(nm), "false", ind))
                    elif init and nm in self.nullable:
                        out.append(self.upd(self.nullf(nm), "true", ind))
                    continue
                ty = int_width(qt(d))
                if ty is None:
                    fail("%s: local %s of type %s" % (self.name, nm, qt(d)))
                self.scalar(nm)
                if init:
                    t, c, e = self.rvalue(init[0])
                    out += self.with_effects(c, [(("scalar", lname(nm)), t)], e, ind)
            return out
        if k == "ParenExpr" or (k in ("ImplicitCastExpr", "CStyleCastExpr") and n.get("castKind") == "ToVoid"):
            return self.stmt(n["inner"][0], ind)
        if k == "BinaryOperator" and n["opcode"] == ",":
            return self.stmt(n["inner"][0], ind) + self.stmt(n["inner"][1], ind)
        if k == "BinaryOperator" and n["opcode"] == "=":
            return self.assignment(n, ind)
        if k == "CompoundAssignOperator":
            op = n["opcode"][:-1]
            lhs, rhs = n["inner"]
            if ptr_elem(qt(lhs)) is not None:
                sl = self.skip(lhs)
                if sl.get("kind") != "DeclRefExpr" or sl["referencedDecl"]["name"] not in self.ptr or sl["referencedDecl"]["name"] in self.ptr_is_param_region:
                    fail("%s: compound assignment to a pointer expression" % self.name)
                if op not in ("+", "-"):
                    fail("%s: pointer %s=" % (self.name, op))
                nm = self.pix(sl["referencedDecl"]["name"])
                t, c, e = self.rvalue(rhs)
                return self.with_effects(c, [(("scalar", nm), "(s.%s %s %s)" % (nm, op, t))], e, ind)
            lv = self.lvalue(lhs)
            cur = "s.%s" % lv[1] if lv[0] == "scalar" else self.read(lv[1], lv[2])
            t, c, e = self.rvalue(rhs)
            comp = n.get("computeResultType", {})
            cty = int_width(comp.get("desugaredQualType", comp.get("qualType", ""))) or int_width(qt(n))
            lty = int_width(qt(lhs))
            v, c2 = self.binop(op, self.conv(cur, lty, cty), t, cty)
            v = self.conv(v, cty, lty)
            le = lv[4] if lv[0] == "elem" else []
            return self.with_effects(c + c2 + self.objchk(lhs) + (lv[3] if lv[0] == "elem" else []), [(lv, v)], e + le, ind)
        if k == "UnaryOperator" and n.get("opcode") in ("++", "--"):
            sub = n["inner"][0]
            ssub = self.skip(sub)
            if ssub.get("kind") == "DeclRefExpr" and ssub["referencedDecl"]["name"] in self.cursors:
                qn = lname(ssub["referencedDecl"]["name"])
                return self.with_effects([], [(("scalar", qn), "(s.%s %s 1)" % (qn, "+" if n["opcode"] == "++" else "-"))], [], ind)
            if ptr_elem(qt(sub)) is not None:
                r, i, c, e = self.pexpr(n)
                return self.with_effects(c, [], e, ind)
            lv = self.lvalue(sub)
            cur = "s.%s" % lv[1] if lv[0] == "scalar" else self.read(lv[1], lv[2])
            v = self.narrow(self.arith("+" if n["opcode"] == "++" else "-", cur, "1", int_width(qt(n))), int_width(qt(n)))
            le = lv[4] if lv[0] == "elem" else []
            return self.with_effects(lv[3] if lv[0] == "elem" else [], [(lv, v)], le, ind)
        if k == "CallExpr":
            return self.callstmt(n, ind)
        if k == "IfStmt":
            inner = n["inner"]
            c, cc, ce = self.cond(inner[0])
            out = self.checks(cc, ind)
            if ce:
                out.append("%slet c : Bool := decide %s" % (ind, c))
                out += self.with_effects([], [], ce, ind)
                c = "c = true"
            th = self.stmt(inner[1], ind + "    ")
            el = self.stmt(inner[2], ind + "    ") if len(inner) > 2 else []
            out.append("%s%s s : %s.St := if %s then" % (ind, self.bind(), self.name, c))
            out += th + ["%s    s" % ind, "%s  else" % ind] + el + ["%s    s" % ind]
            return out
        if k in ("ForStmt", "WhileStmt", "DoStmt"):
            return self.loop(n, ind)
        if k == "SwitchStmt":
            return self.switch(n, ind)
        if k == "ReturnStmt":
            out = []
            if n.get("inner"):
                e0 = n["inner"][0]
                if ptr_elem(qt(e0)) is not None:
                    if self.is_null(e0):
                        out.append(self.upd("retnull", "true", ind))
                    else:
                        r, i, c, e = self.pexpr(e0)
                        if self.ret_region not in (None, r):
                            fail("%s: returns pointers into different regions" % self.name)
                        self.ret_region = r
                        if e:
                            fail("%s: side effect in return" % self.name)
                        out += self.checks(c, ind) + [self.upd("ret", i, ind)]
                else:
                    t, c, e = self.rvalue(e0)
                    if e:
                        fail("%s: side effect in return" % self.name)
                    out += self.checks(c, ind) + [self.upd("ret", t, ind)]
            if self.has_ret:
                out.append(self.upd("done", "true", ind))
            return out
        if k == "GotoStmt":
            return [self.upd("gto", "true", ind)]
        if k == "H4Unmodelled":
            # a switch group named in opts['unmodelled_cases']: its C text is NOT translated; reaching it is recorded in `ub`
            note = "the switch group(s) `case %s` are outside the translated subset (opts['unmodelled_cases']): reaching one is recorded as `ub`" % ", ".join(self.opts.get("unmodelled_cases", []))
            if note not in self.notes:
                self.notes.append(note)
            return self.checks(["False"], ind)
        if k == "LabelStmt":
            fail("%s: label inside a nested statement" % self.name)
        if k == "BreakStmt":
            return [self.upd("brk", "true", ind)]
        if k == "ContinueStmt":
            return [self.upd("cnt", "true", ind)]
        if k in ("ImplicitCastExpr", "DeclRefExpr") and self.skip(n).get("kind") == "DeclRefExpr":
            return []      # `(void)x;`: the value of a variable, discarded
        fail("%s: unsupported statement %s" % (self.name, k))

    def switch(self, n, ind):
        """`switch (e) { case A: case B: stmts; break; … default: stmts }` -> an if-chain on the value of `e` (evaluated once).
        Every group must end with `break` / `return` (or be the last one): fall-through from a group that has statements is rejected;
        a `break` anywhere else inside the switch (it would leave the switch from inside an `if`) is rejected."""
        inner = [c for c in n["inner"] if c.get("kind")]
        scrut, body = inner[0], inner[-1]
        if body.get("kind") != "CompoundStmt":
            fail("%s: switch body is not a block" % self.name)
        groups, cur, falls = [], None, []     # (labels | None for default, [stmts])
        for c in body.get("inner", []):
            labels, first = [], c
            while first.get("kind") in ("CaseStmt", "DefaultStmt"):
                if first["kind"] == "CaseStmt":
                    ce = first["inner"][0]
                    v = ce.get("value") if ce.get("kind") == "ConstantExpr" else None
                    if v is None:
                        tv, cv, ev = self.rvalue(ce)
                        if cv or ev:
                            fail("%s: case label is not a constant" % self.name)
                        v = tv
                    labels.append(str(v))
                    first = first["inner"][-1]
                else:
                    labels.append(None)
                    first = first["inner"][-1]
            if labels:
                if cur is not None and cur[1] and not self.ends_group(cur[1]):
                    falls.append(len(groups))      # allowed only into a group that consists of `break` alone (checked below)
                if cur is not None and not cur[1]:
                    cur[0].extend(labels)
                else:
                    cur = [labels, []]
                    groups.append(cur)
            elif cur is None:
                fail("%s: statement before the first case label" % self.name)
            cur[1].append(first)
        for gi in falls:
            if gi >= len(groups) or any(x.get("kind") != "BreakStmt" for x in groups[gi][1]):
                fail("%s: switch group falls through into the next case" % self.name)
        st, sc, se = self.rvalue(scrut)
        out = self.checks(sc, ind)
        out.append("%slet sw : Int := %s" % (ind, st))
        if se:
            out += self.with_effects([], [], se, ind)
        default = None
        chain = []
        for labels, stmts in groups:
            body_stmts = stmts[:-1] if stmts and stmts[-1].get("kind") == "BreakStmt" else stmts
            for b in body_stmts:
                self.no_switch_break(b)
            if None in labels:
                default = body_stmts
                labels = [l for l in labels if l is not None]
                if not labels:
                    continue
            chain.append((labels, body_stmts, None in labels))
        out.append("%s%s s : %s.St :=" % (ind, self.bind(), self.name))
        depth = ind + "  "
        for labels, body_stmts, _ in chain:
            cond = " ∨ ".join("sw = %s" % l for l in labels)
            out.append("%sif %s then" % (depth, cond))
            blk = {"kind": "CompoundStmt", "inner": body_stmts}
            out += self.stmt(blk, depth + "    ") + ["%s    s" % depth]
            out.append("%selse" % depth)
            depth += "  "
        if default is not None:
            blk = {"kind": "CompoundStmt", "inner": default}
            out += self.stmt(blk, depth + "  ") + ["%s  s" % depth]
        else:
            out.append("%s  s" % depth)
        return out

    def ends_group(self, stmts):
        last = stmts[-1]
        return last.get("kind") in ("BreakStmt", "ReturnStmt") or (last.get("kind") == "CompoundStmt" and last.get("inner") and self.ends_group(last["inner"]))

    def no_switch_break(self, n):
        k = n.get("kind")
        if k == "BreakStmt":
            fail("%s: `break` that leaves a switch from inside a nested statement" % self.name)
        if k in ("ForStmt", "WhileStmt", "DoStmt", "SwitchStmt"):
            return
        for c in n.get("inner", []):
            self.no_switch_break(c)

    def assignment(self, n, ind):
        lhs, rhs = n["inner"]
        # chained assignment a = b = e : the inner one first, then a = (the value stored in b)
        srhs = rhs
        while srhs.get("kind") in ("ParenExpr", "ImplicitCastExpr", "CStyleCastExpr"):
            srhs = srhs["inner"][0]
        chained = srhs.get("kind") == "BinaryOperator" and srhs.get("opcode") == "="
        if ptr_elem(qt(lhs)) is not None:
            sl = self.skip(lhs)
            if sl.get("kind") == "MemberExpr" and sl.get("name") in self.opts.get("ignore_members", []):
                # a pointer member that is outside the modelled state (a back pointer): the store is not translated
                note = "stores into the pointer member `%s` are outside the modelled state" % sl.get("name")
                if note not in self.notes:
                    self.notes.append(note)
                return []
            if sl.get("kind") == "DeclRefExpr" and sl["referencedDecl"]["name"] in self.struct_locals:
                note = "the record `%s` is the one its lookup finds: an entry parameter (the lookup is not translated)" % sl["referencedDecl"]["name"]
                if note not in self.notes:
                    self.notes.append(note)
                return []
            if sl.get("kind") == "MemberExpr" and self.cursor_of(sl) is not None:
                fld, reg = self.cursor_of(sl)
                r, i, c, e = self.pexpr(rhs)
                if r != reg:
                    fail("%s: cursor %s is assigned a pointer into region %s" % (self.name, fld, r))
                return self.with_effects(c, [(("scalar", fld), i)], e, ind)
            if sl.get("kind") == "DeclRefExpr" and sl["referencedDecl"]["name"] in self.cursors:
                return self.cursor_assign(sl["referencedDecl"]["name"], rhs, ind)
            if sl.get("kind") == "DeclRefExpr" and sl["referencedDecl"]["name"] in self.alias_locals:
                if srhs.get("kind") == "CallExpr" and self.callee_name(srhs) in ("malloc", "HDmalloc", "realloc", "HDrealloc"):
                    return self.sa_resize(sl["referencedDecl"]["name"], lhs, srhs, ind)
                return []
            rt_ = self.row_target(sl) if (self.is_null(rhs) or (srhs.get("kind") == "CallExpr" and self.callee_name(srhs) in ("strdup", "HDstrdup", "__builtin_strdup"))) else None
            if rt_ is not None:
                # one row of an array of rows := NULL | strdup(string)
                r, c, e = rt_
                _, f, ix = r.split("#", 2)
                if f.startswith("@"):
                    fail("%s: store into a global" % self.name)
                if self.is_null(rhs):
                    val, pc = "[]", []          # a NULL row: every access through it is undefined behaviour
                elif srhs.get("kind") == "CallExpr" and self.callee_name(srhs) in ("strdup", "HDstrdup", "__builtin_strdup"):
                    pr, pi, pc0, pe = self.pexpr(srhs["inner"][1])
                    if pe or pr.startswith("@"):
                        fail("%s: unsupported strdup argument" % self.name)
                    val, pc1 = self.string_at(pr, pi)      # a fresh block holding the string and its NUL; never fails (trusted base)
                    pc = pc0 + pc1
                else:
                    fail("%s: a row of %s is assigned something that is neither NULL nor strdup(…)" % (self.name, f))
                if e:
                    fail("%s: side effect in the index of a row store" % self.name)
                self.rows_written.add(f)
                return self.checks(c + pc, ind) + [self.upd(f, "s.%s.set (Int.toNat (%s)) (%s)" % (f, ix, val), ind)]
            if sl.get("kind") == "MemberExpr" and int_width(ptr_elem(qt(sl)) or "") is None and ptr_elem(ptr_elem(qt(sl)) or "") is None and ptr_elem(qt(sl)) != "void" \
                    and self.skip(rhs).get("kind") == "DeclRefExpr" and self.skip(rhs)["referencedDecl"]["name"] in self.aliases:
                # `p->arr = q` with q the struct-array local that was bound to p->arr (and reallocated): the member regions ARE q's
                p, path = self.member_chain(sl)
                r0 = self.skip(rhs)
                if p is None or self.aliases.get(r0["referencedDecl"]["name"]) != (p, path):
                    fail("%s: array-of-structs member assigned a local that is bound to another member" % self.name)
                self.detached.discard((p, tuple(path)))
                return []
            if sl.get("kind") == "ArraySubscriptExpr" and self.skip(sl["inner"][0]).get("kind") == "MemberExpr" \
                    and srhs.get("kind") == "CallExpr" and self.static_region(srhs) == "!malloc":
                # `p->rows[i] = malloc(k)`: row i becomes a fresh block of k cells (poison 170); with opts['malloc_null_above_ptrdiff_max'] a
                # request above PTRDIFF_MAX leaves the NULL (empty) row
                r, i, c, e = self.pexpr(sl)
                if not r.startswith("#") or e:
                    fail("%s: malloc assigned to an element of %s" % (self.name, r))
                _, f_, ix_ = r.split("#", 2)
                cn = self.skip(srhs["inner"][0])["referencedDecl"]["name"]
                if cn not in ("malloc", "HDmalloc"):
                    fail("%s: %s assigned to a row" % (self.name, cn))
                a1, c1, e1 = self.rvalue(srhs["inner"][1])
                if e1:
                    fail("%s: side effect in malloc argument" % self.name)
                el_ = ptr_elem(qt(lhs))
                esz_ = (int_width(el_)[1] // 8) if int_width(el_ or "") else 1
                val = "List.replicate (Int.toNat (Int.tdiv %s %d)) 170" % (a1, esz_)
                if self.opts.get("malloc_null_above_ptrdiff_max"):
                    val = "if (%s > 9223372036854775807) then [] else %s" % (a1, val)
                self.rows_written.add(f_)
                return self.checks(c + c1, ind) + [self.upd(f_, "s.%s.set (Int.toNat (%s)) (%s)" % (f_, ix_, val), ind)]
            if sl.get("kind") == "MemberExpr" and self.opts.get("null_empties") and (self.is_null(rhs) or (srhs.get("kind") == "CallExpr" and self.callee_name(srhs) in ("malloc", "HDmalloc"))):
                # opts['null_empties'] (the c07fld form of member allocation; without the option `p->m = NULL` only sets `p_m_null` and
                # `p->m = malloc(..)` is member_malloc below): `p->m = NULL`: the region becomes empty (every access is undefined behaviour)
                # and `p_m_null` true;
                # `p->m = malloc(bytes)`: a fresh block of bytes / sizeof(*p->m) cells holding the poison value 170 (rows: NULL rows); never fails
                p, fld = self.member_field(sl)
                if p is None:
                    fail("%s: member %s of something that is not a struct parameter" % (self.name, sl.get("name")))
                rows = self.is_rows_member_type(sl)
                if fld in self.mcursor:
                    fail("%s: %s is seated inside another block and assigned NULL / malloc" % (self.name, fld))
                if rows:
                    if fld in self.regions:
                        fail("%s: %s is used both as a region and as an array of rows" % (self.name, fld))
                    if fld not in self.rowsets:
                        self.rowsets.append(fld)
                        self.owned(p, self.add_entry, fld, "List (List Int)")
                    esz, fillv, empty = 8, "[]", "[]"
                else:
                    el_ = ptr_elem(qt(sl))
                    if int_width(el_ or "") is None:
                        fail("%s: member %s of type %s assigned NULL / malloc" % (self.name, fld, qt(sl)))
                    self.member_region(sl)
                    esz, fillv, empty = int_width(el_)[1] // 8, "170", "[]"
                nf = self.owned(p, self.boolf, fld + "_null")
                if self.is_null(rhs):
                    return [self.upd(fld, empty, ind), self.upd(nf, "true", ind)]
                a1, c1, e1 = self.rvalue(srhs["inner"][1])
                if e1:
                    fail("%s: side effect in malloc argument" % self.name)
                cells = "(Int.tdiv %s %d)" % (a1, esz)
                return self.checks(c1 + ["(0 : Int) ≤ %s" % cells], ind) + [self.upd(fld, "List.replicate (Int.toNat %s) %s" % (cells, fillv), ind), self.upd(nf, "false", ind)]
            if sl.get("kind") == "MemberExpr" and self.member_field(sl)[1] in self.mcursor:
                # `p->m = <pointer into the block of another member>`: the index of the cursor
                p, fld = self.member_field(sl)
                r, i, c, e = self.pexpr(rhs)
                if r != self.mcursor[fld]:
                    fail("%s: member pointer %s is seated in region %s and in region %s" % (self.name, fld, self.mcursor[fld], r))
                ix = self.owned(p, self.scalar, fld + "_i", entry=True)
                return self.with_effects(c, [(("scalar", ix), i)], e, ind)
            if sl.get("kind") == "ArraySubscriptExpr":
                # element of an array of pointers held in a block of the function: it stores an ADDRESS of the flat memory
                lv = self.lvalue(sl)
                r, i, c, e = self.pexpr(rhs)
                if r != "mem":
                    fail("%s: a pointer into region %s is stored in an array of pointers (only flat addresses can be)" % (self.name, r))
                return self.with_effects(c + lv[3], [(lv, i)], e + lv[4], ind)
            if sl.get("kind") == "MemberExpr" and self.member_cursor(sl) is not None and not self.is_null(rhs):
                reg_, fld_, p_ = self.member_cursor(sl)
                r, i, c, e = self.pexpr(rhs)
                if r != reg_:
                    fail("%s: cursor member %s assigned a pointer into region %s" % (self.name, fld_, r))
                nullf_ = self.owned(p_, self.boolf, "%s_null" % fld_)
                out_ = self.with_effects(c, [(("scalar", self.owned(p_, self.scalar, fld_, entry=True)), i)], e, ind)
                return out_ + [self.upd(nullf_, "s.%s_null" % reg_ if ("%s_null" % reg_) in self.bools else "false", ind)]
            if sl.get("kind") == "MemberExpr" and srhs.get("kind") == "CallExpr" and self.static_region(srhs) == "!malloc" and self.member_chain(sl)[0] is not None:
                return self.member_malloc(sl, lhs, srhs, ind)
            if sl.get("kind") == "MemberExpr":
                p_, path_ = self.member_chain(sl)
                mname = lname("%s_%s" % (p_, "_".join(path_))) if p_ is not None else None
                if mname is not None and self.is_null(rhs):
                    # `var->shape = NULL`: the answer to later NULL tests of the member; a block it was re-seated to is no longer its content
                    out_ = [self.upd(self.owned(p_, self.boolf, mname + "_null"), "true", ind)]
                    if mname in self.seats:
                        out_.append(self.upd(self.seatf(mname), "false", ind))
                    return out_
                if mname is not None and mname in self.seats:
                    # `var->shape = shape`, `shape` the start of a block this function allocated: the member is RE-SEATED to that block.
                    # The state records it in `<member>_seat`; the member's new content is the block's region.  (The old memory of the
                    # member must not be accessed by this function - checked at the end of the translation.)
                    r, i, c, e = self.pexpr(rhs)
                    if r != self.seats[mname] or e:
                        fail("%s: member pointer %s re-seated to region %s" % (self.name, mname, r))
                    note = "`%s_seat = true`: the member pointer was re-seated, its new content is the region `%s`" % (mname, r)
                    if note not in self.notes:
                        self.notes.append(note)
                    out_ = self.checks(c + ["%s = 0" % i], ind) + [self.upd(self.seatf(mname), "true", ind)]
                    if (mname + "_null") in self.bools:
                        out_.append(self.upd(mname + "_null", "false", ind))
                    return out_
                reg = self.member_region(sl)
                r, i, c, e = self.pexpr(rhs)
                if r != reg:
                    fail("%s: member pointer %s re-seated to region %s" % (self.name, reg, r))
                return self.with_effects(c + ["%s = 0" % i], [], e, ind)
            if sl.get("kind") != "DeclRefExpr" or sl["referencedDecl"]["name"] not in self.ptr:
                fail("%s: assignment to a pointer that is not a local variable" % self.name)
            nm = sl["referencedDecl"]["name"]
            if nm in self.ptr_is_param_region or lname(nm) in self.local_regions:
                fail("%s: assignment to pointer parameter %s, which is used as a region" % (self.name, nm))
            if self.is_null(rhs):
                if nm not in self.nullable:
                    fail("%s: NULL assigned to pointer %s" % (self.name, nm))
                return [self.upd(self.nullf(nm), "true", ind)]
            if chained and self.chain_null(srhs):
                if nm not in self.nullable:
                    fail("%s: NULL assigned to pointer %s" % (self.name, nm))
                return self.assignment(srhs, ind) + [self.upd(self.nullf(nm), "true", ind)]
            if srhs.get("kind") == "CallExpr" and self.static_region(srhs) == "!opaque":
                # p = f(…), f in opts['assume_ptr_calls']: the pointer itself is not modelled, only whether it is NULL (an entry parameter)
                cn = self.skip(srhs["inner"][0])["referencedDecl"]["name"]
                fld = self.boolf(self.opts["assume_ptr_calls"][cn])
                note = "every call of `%s` returns a pointer that is NULL iff the entry parameter `%s` is true (the pointer is only tested, never used)" % (cn, fld)
                if note not in self.notes:
                    self.notes.append(note)
                return [self.upd(self.nullf(nm), "s.%s" % fld, ind)]
            notnull = [self.upd(self.nullf(nm), "false", ind)] if nm in self.nullable else []
            if srhs.get("kind") == "CallExpr" and self.static_region(srhs) == "!malloc":
                # p = malloc(bytes): a fresh block of bytes / sizeof(*p) cells holding the poison value 170 (indeterminate in C); never fails
                reg = self.ptr[nm]
                el_ = ptr_elem(qt(lhs))
                esz = 8 if ptr_elem(el_ or "") is not None else ((int_width(el_)[1] // 8) if int_width(el_ or "") else 1)
                self.esz[reg] = esz
                cn = self.skip(srhs["inner"][0])["referencedDecl"]["name"]
                if cn in ("calloc", "HDcalloc"):
                    a1, c1, e1 = self.rvalue(srhs["inner"][1]); a2, c2, e2 = self.rvalue(srhs["inner"][2])
                    cells, cks, fillv = "(Int.tdiv (%s * %s) %d)" % (a1, a2, esz), c1 + c2, "0"
                else:
                    a1, c1, e1 = self.rvalue(srhs["inner"][1])
                    cells, cks, fillv = "(Int.tdiv %s %d)" % (a1, esz), c1, "170"
                return self.checks(cks + ["(0 : Int) ≤ %s" % cells], ind) + [self.upd(reg, "List.replicate (Int.toNat %s) %s" % (cells, fillv), ind)] + self.assign(("scalar", self.pix(nm)), "0", ind) + notnull
            if chained:
                inner = self.assignment(srhs, ind)
                r, i, c, e = self.pexpr(srhs["inner"][0])
                self.same_region(nm, r)
                return inner + self.assign(("scalar", self.pix(nm)), i, ind) + notnull
            r, i, c, e = self.pexpr(rhs)
            self.same_region(nm, r)
            return self.with_effects(c, [(("scalar", self.pix(nm)), i)], e, ind) + notnull
        if chained:
            inner = self.assignment(srhs, ind)
            lv = self.lvalue(lhs)
            t, c, e = self.rvalue(srhs["inner"][0])
            # conversions written between the two assignments
            t = self.conv_chain(rhs, srhs, t)
            if e or (lv[0] == "elem" and lv[4]):
                fail("%s: side effect in chained assignment" % self.name)
            return inner + self.checks((lv[3] if lv[0] == "elem" else []) + c, ind) + self.assign(lv, t, ind)
        t, c, e = self.rvalue(rhs)
        lv = self.lvalue(lhs)
        le = lv[4] if lv[0] == "elem" else []
        return self.with_effects(c + self.objchk(lhs) + (lv[3] if lv[0] == "elem" else []), [(lv, t)], e + le, ind)

    def callee_name(self, call):
        return self.skip(call["inner"][0]).get("referencedDecl", {}).get("name")

    def sa_resize(self, nm, lhs, call, ind):
        """`q = malloc(bytes)` / `q = realloc(q, bytes)` for the struct-array local q bound to the member `p->arr`: every member region
        `p_arr_<m>` the function uses gets bytes / sizeof(struct) cells (kept cells first, new cells hold the poison value 170, new rows
        are NULL rows); allocation never fails (trusted base).  `p->arr` must not be used again before `p->arr = q`."""
        if nm not in self.aliases:
            fail("%s: struct pointer %s is allocated but bound to no member" % (self.name, nm))
        p, path = self.aliases[nm]
        base = lname("%s_%s" % (p, "_".join(path)))
        ety = base_type(lhs.get("type", {}).get("qualType", ""))
        ety = ety[:-1].strip() if ety.endswith("*") else None
        if not ety or not re.match(r"^\w+$", ety):
            fail("%s: element type of %s" % (self.name, nm))
        cn = self.callee_name(call)
        is_re = cn in ("realloc", "HDrealloc")
        if is_re:
            a0 = self.skip(call["inner"][1])
            if a0.get("kind") != "DeclRefExpr" or a0["referencedDecl"]["name"] != nm:
                fail("%s: realloc of %s into %s" % (self.name, a0.get("kind"), nm))
        bt, bc, be = self.rvalue(call["inner"][2 if is_re else 1])
        if be:
            fail("%s: side effect in an allocation size" % self.name)
        cells = "(Int.tdiv %s %s)" % (bt, self.const("sizeof(%s)" % ety))
        out = self.checks(bc + ["(0 : Int) ≤ %s" % cells], ind)
        out.append("%slet ncells : Int := %s" % (ind, cells))
        self.sa_resized = True
        for m, kind in self.sa_fields.get(base, []):
            fld = lname("%s_%s" % (base, m))
            fill = "170" if kind == "int" else "[]"
            if kind == "int":
                self.owned(p, self.region, fld)
            elif fld not in self.rowsets:
                self.rowsets.append(fld)
                self.owned(p, self.add_entry, fld, "List (List Int)")
            if is_re:
                out.append(self.upd(fld, "(s.%s.take (Int.toNat ncells)) ++ List.replicate (Int.toNat ncells - s.%s.length) %s" % (fld, fld, fill), ind))
            else:
                out.append(self.upd(fld, "List.replicate (Int.toNat ncells) %s" % fill, ind))
        nf = self.owned(p, self.boolf, base + "_null")
        out.append(self.upd(nf, "false", ind))
        self.detached.add((p, tuple(path)))
        return out

    def xparams(self):
        """opts['pure_calls']: external functions of one integer argument whose result depends on the argument only (no effect on the
        modelled state).  They are PARAMETERS `(f : Int → Int)` of the entry point and of every loop definition (theorems quantify over
        them; the driver passes the real ones)"""
        return "".join("(%s : Int → Int) " % lname(x) for x in self.opts.get("pure_calls", []))

    def xargs(self):
        return "".join("%s " % lname(x) for x in self.opts.get("pure_calls", []))

    def member_malloc(self, sl, lhs, srhs, ind):
        """`p->m = malloc(bytes)`: the member's region becomes a fresh block of bytes / sizeof(*p->m) cells holding the poison value 170
        (indeterminate in C) and `<p>_<m>_null` becomes false.  A member that points to STRUCTS (`p->arr[i].fld` = region `<p>_<arr>_<fld>`)
        gets one block per integer field the function accesses, bytes / sizeof(struct) cells each.  malloc never fails (trusted base) -
        except, with opts['malloc_null_above_ptrdiff_max'], for a request above PTRDIFF_MAX = 2^63-1 bytes, which every malloc of the
        host refuses (glibc, ASan): the member is then NULL (flag true, empty region)."""
        p_, path_ = self.member_chain(sl)
        cn = self.skip(srhs["inner"][0])["referencedDecl"]["name"]
        if cn not in ("malloc", "HDmalloc"):
            fail("%s: %s assigned to a struct member" % (self.name, cn))
        nullf = self.owned(p_, self.boolf, "%s_%s_null" % (p_, "_".join(path_)))
        el_ = ptr_elem(qt(lhs))
        a1, c1, e1 = self.rvalue(srhs["inner"][1])
        if e1:
            fail("%s: side effect in malloc argument" % self.name)
        huge = "(%s > 9223372036854775807)" % a1
        out = self.checks(c1, ind)
        if int_width(el_ or "") is not None or el_ == "void":
            reg = self.member_region(sl)
            esz = (int_width(el_)[1] // 8) if int_width(el_ or "") else 1
            esz = int(self.opts.get("block_cell", {}).get("_".join(path_), esz))     # a `void *` block viewed through cursors of that cell size
            self.esz[reg] = esz
            cells = "(Int.tdiv %s %d)" % (a1, esz)
            val = "List.replicate (Int.toNat %s) 170" % cells
            if self.opts.get("malloc_null_above_ptrdiff_max"):
                out.append(self.upd(reg, "if %s then [] else %s" % (huge, val), ind))
            else:
                out.append(self.upd(reg, val, ind))
        elif ptr_elem(el_ or "") is not None:
            # `p->rows = malloc(n * sizeof(char *))`: an array of n rows; the pointers are indeterminate: every row is the empty block
            fld = lname("%s_%s" % (p_, "_".join(path_)))
            if fld in self.regions:
                fail("%s: %s is used both as a region and as an array of rows" % (self.name, fld))
            if fld not in self.rowsets:
                self.rowsets.append(fld)
                self.owned(p_, self.add_entry, fld, "List (List Int)")
            self.rows_written.add(fld)
            cells = "(Int.tdiv %s 8)" % a1
            val = "List.replicate (Int.toNat %s) []" % cells
            if self.opts.get("malloc_null_above_ptrdiff_max"):
                val = "if %s then [] else %s" % (huge, val)
            out.append(self.upd(fld, val, ind))
        else:
            esz = int(self.const("sizeof(%s)" % el_))
            cells = "(Int.tdiv %s %d)" % (a1, esz)
            val = "List.replicate (Int.toNat %s) 170" % cells
            if self.opts.get("malloc_null_above_ptrdiff_max"):
                val = "if %s then [] else %s" % (huge, val)
            # the regions `<p>_<m>_<fld>` are registered where the function accesses them (later in the text): expanded in translate()
            out.append("@@STRUCT_MALLOC@@%s@@%s@@%s" % (lname("%s_%s" % (p_, "_".join(path_))), ind, val))
        out.append(self.upd(nullf, ("decide %s" % huge) if self.opts.get("malloc_null_above_ptrdiff_max") else "false", ind))
        return out

    def expand_struct_malloc(self, lines):
        out = []
        for l in lines:
            if "@@STRUCT_MALLOC@@" in l:
                ind0, rest_ = l.split("@@STRUCT_MALLOC@@", 1)      # ind0: indentation added when the line was queued as a pre-line
                pre, ind, val = rest_.split("@@", 2)
                ind = ind0 + ind
                regs = self.struct_arrays.get(pre, [])
                if not regs:
                    fail("%s: malloc of the struct array %s whose fields are never accessed" % (self.name, pre))
                out += [self.upd(r, val, ind) for r in regs]
            else:
                out.append(l)
        return out

    def conv_chain(self, outer, inner, t):
        casts = []
        n = outer
        while n is not inner:
            if n.get("kind") in ("ImplicitCastExpr", "CStyleCastExpr") and n.get("castKind") == "IntegralCast":
                casts.append((int_width(qt(n["inner"][0])), int_width(qt(n))))
            n = n["inner"][0]
        for frm, to in reversed(casts):
            t = self.conv(t, frm, to)
        return t

    def callstmt(self, n, ind):
        callee = self.skip(n["inner"][0])
        nm = callee.get("referencedDecl", {}).get("name")
        if nm in self.ignore or nm in ("free", "HDfree"):
            return []
        if nm in self.opts.get("io", {}) or nm in self.opts.get("assume_calls", {}) or nm in self.opts.get("_fns", {}) or nm in self.call_specs:
            t_, c_, e_ = self.rvalue(n)
            return self.with_effects(c_, [], e_, ind)
        if nm in ("memset", "__builtin_memset", "HDmemset") and self.cursor_target(n["inner"][1])[0] is not None and self.cursor_target(n["inner"][1])[1] is None:
            # memset(p->a.arr, 0, sizeof(p->a.arr)) on an ARRAY OF STRUCTS: every cell of every field region p_a_arr_<field> becomes 0
            # (the fields of the record come from clang's record layout, never from a list written by hand)
            a = self.cursor_target(n["inner"][1])[0]
            p0, path0 = self.member_chain(a)
            if p0 is None:
                fail("%s: memset of an array of structs that is not a member of a struct parameter" % self.name)
            vt, vc, ve = self.rvalue(n["inner"][2])
            sz = n["inner"][3]
            while sz.get("kind") in ("ParenExpr", "ImplicitCastExpr", "CStyleCastExpr", "ConstantExpr"):
                sz = sz["inner"][0]
            sa = self.skip(sz["inner"][0]) if sz.get("kind") == "UnaryExprOrTypeTraitExpr" and sz.get("name") == "sizeof" and sz.get("inner") else None
            if vt != "0" or vc or ve or sa is None or sa.get("kind") != "MemberExpr" or self.member_chain(sa) != (p0, path0):
                fail("%s: memset of an array of structs must be memset(x, 0, sizeof(x))" % self.name)
            out = []
            for fld_, fty_ in record_fields(self.opts, ptr_elem(qt(a))):
                if int_width(fty_) is None:
                    fail("%s: memset of an array of structs with the non-integer field %s" % (self.name, fld_))
                reg = self.owned(p0, self.region, "%s_%s_%s" % (p0, "_".join(path0), fld_))
                out.append(self.upd(reg, "List.replicate s.%s.length 0" % reg, ind))
            return out
        if nm == "HDmemfill":
            # HDmemfill(dest, src, item_size, num_items) (hdfalloc.c): dest[0 .. num_items*item_size) := num_items copies of src[0 .. item_size);
            # nothing happens when one of the two counts is 0.  A builtin like memcpy (its doubling copy loop is not translated).
            rd, idd, cd, ed = self.pexpr(n["inner"][1])
            rs_, is_, cs, es = self.pexpr(n["inner"][2])
            zt, zc, ze = self.rvalue(n["inner"][3])
            kt, kc, ke = self.rvalue(n["inner"][4])
            if ed or es or ze or ke:
                fail("%s: side effect in HDmemfill arguments" % self.name)
            if rd.startswith("#") or rd.startswith("@") or rd == rs_:
                fail("%s: HDmemfill into a read-only region / within one region" % self.name)
            out = self.checks(cd + cs + zc + kc, ind)
            out += self.checks(["%s = 0 ∨ %s = 0 ∨ (0 ≤ %s ∧ %s + %s * %s ≤ s.%s.length ∧ 0 ≤ %s ∧ %s + %s ≤ %s.length)" % (zt, kt, idd, idd, kt, zt, rd, is_, is_, zt, self.rt(rs_))], ind)
            out.append(self.upd(rd, "(s.%s.take (Int.toNat (%s))) ++ (List.replicate (Int.toNat (%s)) ((%s.drop (Int.toNat (%s))).take (Int.toNat (%s)))).flatten ++ (s.%s.drop (Int.toNat (%s + %s * %s)))"
                                % (rd, idd, kt, self.rt(rs_), is_, zt, rd, idd, kt, zt), ind))
            return out
        if nm in ("memset", "__builtin_memset", "HDmemset"):
            rd, idd, cd, ed = self.pexpr(n["inner"][1])
            vt, vc, ve = self.rvalue(n["inner"][2])
            nt, nc, ne = self.rvalue(n["inner"][3])
            if ed or ve or ne:
                fail("%s: side effect in memset arguments" % self.name)
            if rd.startswith("#") or rd.startswith("@"):
                fail("%s: memset of a read-only region" % self.name)
            out = self.checks(cd + vc + nc + ["(0 : Int) ≤ %s" % nt, "0 ≤ %s ∧ %s + %s ≤ s.%s.length" % (idd, idd, nt, rd)], ind)
            out.append(self.upd(rd, "(s.%s.take (Int.toNat (%s))) ++ (List.replicate (Int.toNat (%s)) ((%s) %% 256)) ++ (s.%s.drop (Int.toNat (%s + %s)))" % (rd, idd, nt, vt, rd, idd, nt), ind))
            return out
        if nm in ("memcpy", "__builtin_memcpy", "HDmemcpy"):
            rd, idd, cd, ed = self.pexpr(n["inner"][1])
            rs_, is_, cs, es = self.pexpr(n["inner"][2])
            t, c, e = self.rvalue(n["inner"][3])
            if ed or es or e:
                fail("%s: side effect in memcpy arguments" % self.name)
            out = self.checks(cd + cs + c, ind)
            out += self.checks(["(0 : Int) ≤ %s" % t, "0 ≤ %s ∧ %s + %s ≤ s.%s.length" % (idd, idd, t, rd), "0 ≤ %s ∧ %s + %s ≤ %s.length" % (is_, is_, t, self.rt(rs_))], ind)
            if rd == rs_:
                out += self.checks(["%s + %s ≤ %s ∨ %s + %s ≤ %s ∨ %s = 0" % (idd, t, is_, is_, t, idd, t)], ind)
            if rd.startswith("#") or rd.startswith("@"):
                fail("%s: memcpy into a row of an array of rows / a global" % self.name)
            out.append(self.upd(rd, "(s.%s.take (Int.toNat (%s))) ++ ((%s.drop (Int.toNat (%s))).take (Int.toNat (%s))) ++ (s.%s.drop (Int.toNat (%s + %s)))"
                                % (rd, idd, self.rt(rs_), is_, t, rd, idd, t), ind))
            return out
        if nm in ("strcpy", "HDstrcpy", "__builtin_strcpy"):
            # copies the string INCLUDING its terminating NUL
            rd, idd, cd, ed = self.pexpr(n["inner"][1])
            rs_, is_, cs, es = self.pexpr(n["inner"][2])
            if ed or es:
                fail("%s: side effect in strcpy arguments" % self.name)
            if rd.startswith("#") or rd.startswith("@"):
                fail("%s: strcpy into a row of an array of rows / a global" % self.name)
            src = "(%s.drop (Int.toNat (%s)))" % (self.rt(rs_), is_)
            ln = "(Int.ofNat (%s.takeWhile (· ≠ 0)).length + 1)" % src
            out = self.checks(cd + cs, ind)
            out += self.checks(["0 ≤ %s ∧ (0 : Int) ∈ %s" % (is_, src), "0 ≤ %s ∧ %s + %s ≤ s.%s.length" % (idd, idd, ln, rd)], ind)
            if rd == rs_:
                fail("%s: strcpy within one region" % self.name)
            out.append(self.upd(rd, "(s.%s.take (Int.toNat (%s))) ++ (%s.take (Int.toNat %s)) ++ (s.%s.drop (Int.toNat (%s + %s)))" % (rd, idd, src, ln, rd, idd, ln), ind))
            return out
        if nm == "HIstrncpy":
            # HIstrncpy(dest, source, len) of hkit.c: `if (len == 0) return; for (; len > 1 && *source != 0; len--) *dest++ = *source++; *dest = 0;`
            # copies k = the cells of source before its first NUL, at most len-1 of them, and stores a NUL behind them.  It reads
            # source[0..k) and, when k < len-1, the NUL source[k]; it writes dest[0..k].
            rd, idd, cd, ed = self.pexpr(n["inner"][1])
            rs_, is_, cs, es = self.pexpr(n["inner"][2])
            lt, lc, le_ = self.rvalue(n["inner"][3])
            if ed or es or le_:
                fail("%s: side effect in HIstrncpy arguments" % self.name)
            if rd.startswith("@"):
                fail("%s: HIstrncpy into a global" % self.name)
            if rd == rs_:
                fail("%s: HIstrncpy within one region" % self.name)
            src = "(%s.drop (Int.toNat (%s)))" % (self.rt(rs_), is_)
            cnt = "(Int.toNat (%s - 1))" % lt
            kk = "((%s.take %s).takeWhile (· ≠ 0)).length" % (src, cnt)
            out = self.checks(cd + cs + lc, ind)
            out += self.checks(["%s = 0 ∨ (0 ≤ %s ∧ (%s = %s ∨ %s < %s.length))" % (lt, is_, kk, cnt, kk, src),
                                "%s = 0 ∨ (0 ≤ %s ∧ %s + (Int.ofNat %s + 1) ≤ %s.length)" % (lt, idd, idd, kk, self.rt(rd))], ind)
            newd = "if %s = 0 then %s else (%s.take (Int.toNat (%s))) ++ (%s.take %s) ++ [0] ++ (%s.drop (Int.toNat (%s + (Int.ofNat %s + 1))))" \
                   % (lt, self.rt(rd), self.rt(rd), idd, src, kk, self.rt(rd), idd, kk)
            if rd.startswith("#"):
                _, f_, ix_ = rd.split("#", 2)
                self.rows_written.add(f_)
                out.append(self.upd(f_, "s.%s.set (Int.toNat (%s)) (%s)" % (f_, ix_, newd), ind))
            else:
                out.append(self.upd(rd, newd, ind))
            return out
        fail("%s: call of %s" % (self.name, nm))

    def call_translated(self, n, nm):
        """call of a function translated earlier in this unit: run it (with the same fuel) on the caller's state, copy back what it may modify.
        Arguments: integers; region bases (index 0) for its array parameters; for a struct parameter the caller's struct parameter / alias
        (or `&(p->a.b)`): the callee's fields `<cp>_<m>` are the caller's `<p>_<path>_<m>`.  A callee region that is ONE ROW of an array of
        rows of the caller is named in opts['row_args'][callee][callee region] = callee entry field holding the row index at entry."""
        callee = self.opts["_fns"][nm]
        args = n["inner"][1:]
        if len(args) != len(callee.plist):
            fail("%s: call of %s with %d arguments" % (self.name, nm, len(args)))
        amap, checks = {}, []      # callee entry field -> Lean term
        back = []                  # (callee field, how to store it back)
        rows = self.opts.get("row_args", {}).get(nm, {})
        def map_struct(cp, p0, path0, fields, looked_up=False):
                pre = "_".join([p0] + path0)
                for f, ty in fields:
                    if looked_up and ty == "Bool" and f == lname(cp) + "_null":
                        amap[f] = "false"     # the record found by the callee's lookup is the caller's record
                        continue
                    mine = lname(pre + f[len(lname(cp)):]) if f.startswith(lname(cp) + "_") else None
                    if mine is None:
                        fail("%s: field %s of %s cannot be mapped" % (self.name, f, nm))
                    if ty == "Int":
                        self.owned(p0, self.scalar, mine, entry=True)
                        amap[f] = "s.%s" % mine
                        back.append((f, ("scalar", mine)))
                    elif ty == "Bool":
                        self.owned(p0, self.boolf, mine)
                        amap[f] = "s.%s" % mine
                    elif ty == "List Int" and f in rows:
                        # one row of the caller's array of rows
                        rowidx_callee = rows[f]
                        mine_idx = lname(pre + rowidx_callee[len(lname(cp)):])
                        if mine not in self.rowsets:
                            if mine in self.regions:
                                fail("%s: %s is used both as one row and as an array of rows" % (self.name, mine))
                            self.rowsets.append(mine)
                            self.owned(p0, self.add_entry, mine, "List (List Int)")
                        self.owned(p0, self.scalar, mine_idx, entry=True)
                        amap[f] = "(s.%s.getD (Int.toNat s.%s) [])" % (mine, mine_idx)
                        checks.append("0 ≤ s.%s ∧ s.%s < s.%s.length" % (mine_idx, mine_idx, mine))
                        back.append((f, ("row", mine, mine_idx)))
                        self.rows_written.add(mine)
                    elif ty == "List Int":
                        self.owned(p0, self.region, mine)
                        amap[f] = "s.%s" % mine
                        back.append((f, ("whole", mine)))
                    else:
                        self.rowsets.append(mine) if mine not in self.rowsets else None
                        amap[f] = "s.%s" % mine
                        back.append((f, ("whole", mine)))
        for cp, a in zip(callee.plist, args):
            fields = [(f, ty) for f, ty, o in callee.entry if o == cp]
            if cp in callee.structs:
                r = self.skip(a)
                if r.get("kind") == "UnaryOperator" and r.get("opcode") == "&":
                    r = self.skip(r["inner"][0])
                if r.get("kind") == "MemberExpr":
                    p0, path0 = self.member_chain(r)
                elif r.get("kind") == "DeclRefExpr" and r["referencedDecl"]["name"] in self.structs:
                    p0, path0 = r["referencedDecl"]["name"], []
                elif r.get("kind") == "DeclRefExpr" and r["referencedDecl"]["name"] in self.aliases:
                    p0, path0 = self.aliases[r["referencedDecl"]["name"]]
                else:
                    p0 = None
                if p0 is None:
                    fail("%s: argument of %s for struct parameter %s is not a struct parameter of the caller" % (self.name, nm, cp))
                map_struct(cp, p0, path0, fields)
            elif fields and fields[0][1] == "Int" and len(fields) == 1:
                tv, cv, ev = self.rvalue(a)
                if ev:
                    fail("%s: side effect in an argument of %s" % (self.name, nm))
                amap[fields[0][0]] = tv
                checks += cv
            elif fields and self.addr_of_scalar(a) is not None:
                # `&x`, x an integer local: the callee sees a region of one cell holding x (only for a parameter the callee does not store into)
                if fields[0][0] in callee.setters:
                    fail("%s: %s stores through the address of the scalar %s" % (self.name, nm, self.addr_of_scalar(a)))
                amap[fields[0][0]] = "[s.%s]" % self.addr_of_scalar(a)
            elif fields:
                rr, ri, rc, re_ = self.pexpr(a)
                if re_ or ri != "0" or rr.startswith("#") or rr.startswith("@"):
                    fail("%s: array argument of %s must be a whole region" % (self.name, nm))
                amap[fields[0][0]] = "s.%s" % rr
                checks += rc
                back.append((fields[0][0], ("whole", rr)))
        rest = [(f, ty) for f, ty, o in callee.entry if o not in callee.plist and o not in callee.struct_locals]
        for sl_ in sorted(callee.struct_locals):
            fields = [(f, ty) for f, ty, o in callee.entry if o == sl_]
            if not fields:
                continue
            if sl_ not in self.structs:
                fail("%s: %s works on the record `%s` it looks up; the caller has no record of that name" % (self.name, nm, sl_))
            note = "`%s` works on the caller's record `%s` (the id passed is the id of that record)" % (nm, sl_)
            if note not in self.notes:
                self.notes.append(note)
            map_struct(sl_, sl_, [], fields, looked_up=True)
        for f, ty in rest:
            # stream regions etc. shared by name
            if f in ("io_in", "io_out"):
                self.use_io("in" if f == "io_in" else "out")
                amap[f] = "s.%s" % f
                back.append((f, ("whole", f)))
            elif f == "io_pos":
                self.use_io("in")
                amap[f] = "s.io_pos"
                back.append((f, ("scalar", "io_pos")))
            elif f in ("io_elt", "io_epos", "io_enew"):
                self.use_io("elt")
                amap[f] = "s.%s" % f
                back.append((f, ("whole", f) if f == "io_elt" else ("scalar", f)))
            elif f in ("io_res", "io_log", "io_cnt"):
                self.use_io("stdio")
                amap[f] = "s.%s" % f
                if f != "io_res":
                    back.append((f, ("scalar" if f == "io_cnt" else "whole", f)))
            elif self.opts.get("share_fields"):
                # opts['share_fields']: the callee's entry fields that do not belong to one of its C parameters (members of its object locals,
                # results / state of assumed calls, the call log) are the caller's fields of the same name (checked below: same objects)
                own_ = [o for (n_, t_, o) in callee.entry if n_ == f][0]
                mine_entry = [n_ for (n_, t_, o) in self.entry]
                if ty == "Int":
                    if f in self.scalars and f not in mine_entry:
                        fail("%s: shared field %s of %s is a local of the caller" % (self.name, f, nm))
                    self.owned(own_ if own_ in self.objects else None, self.scalar, f, entry=True)
                    amap[f] = "s.%s" % f
                    back.append((f, ("scalar", f)))
                elif ty == "Bool":
                    self.owned(own_ if own_ in self.objects else None, self.boolf, f)
                    amap[f] = "s.%s" % f
                elif ty == "List (List Int)" and f == "calls":
                    self.use_calls()
                    amap[f] = "s.calls"
                    back.append((f, ("whole", "calls")))
                else:
                    fail("%s: shared field %s : %s of %s" % (self.name, f, ty, nm))
            else:
                fail("%s: entry field %s of %s has no counterpart in the caller" % (self.name, f, nm))
        if self.opts.get("share_fields"):
            # the object locals of the callee must be the caller's objects of the same name: bound to the same calls, with the id the caller
            # hands over (callee: `o = f(param_i)`, caller: `o = f(v)` and argument i is `v`) or with the same member of a shared object
            for o_, calls_ in getattr(callee, "objects", {}).items():
                if self.objects.get(o_) != calls_:
                    fail("%s: object %s of %s is not an object of the caller" % (self.name, o_, nm))
                ck = callee.object_key(callee.object_keys[o_])
                mk = self.object_key(self.object_keys[o_])
                same = False
                if ck is not None and ck[0] == "var" and ck[1] in callee.plist:
                    a_ = self.skip(args[callee.plist.index(ck[1])])
                    same = mk is not None and mk[0] == "var" and a_.get("kind") == "DeclRefExpr" and a_["referencedDecl"]["name"] == mk[1]
                elif ck is not None and ck[0] == "mem":
                    same = mk == ck
                if not same:
                    fail("%s: object %s of %s is not resolved from the id the caller resolved its %s from" % (self.name, o_, nm, o_))
                note = "the object `%s` of the callee `%s` is this function's `%s` (both are resolved from the same id)" % (o_, nm, o_)
                if note not in self.notes:
                    self.notes.append(note)
        order = [f for f, _ in callee.ordered]
        k = self.ncalls
        self.ncalls += 1
        self.uses_join = True
        for c in checks:
            self.pre_lines.append("have s : %s.St := %s.chk s (%s)" % (self.name, self.name, c))
        q_ = getattr(callee, "qual", "")      # a function of another unit (opts['use_units']) is named with its namespace
        self.pre_lines.append("let r%d : %s%s.St := %s%s fuel %s" % (k, q_, nm, q_, nm, " ".join("(%s)" % amap[f] for f in order)))
        for f, how in back:
            if f not in callee.setters and not (f in ("io_in", "io_out", "io_pos", "io_elt", "io_epos", "io_enew")):
                continue      # the callee never stores into it
            if how[0] == "scalar":
                self.pre_lines.append(self.upd(how[1], "r%d.%s" % (k, f), ""))
            elif how[0] == "whole":
                self.pre_lines.append(self.upd(how[1], "r%d.%s" % (k, f), ""))
            else:
                self.pre_lines.append(self.upd(how[1], "s.%s.set (Int.toNat s.%s) r%d.%s" % (how[1], how[2], k, f), ""))
        self.pre_lines.append("have s : %s.St := %s.St.join s r%d.ub r%d.oof" % (self.name, self.name, k, k))
        return "r%d.ret" % k, [], []

    def addr_of_scalar(self, a):
        """`&x` with x an integer local / parameter that is a state field -> its field name, else None"""
        r = self.skip(a)
        if r.get("kind") == "UnaryOperator" and r.get("opcode") == "&":
            x = self.skip(r["inner"][0])
            if x.get("kind") == "DeclRefExpr" and int_width(qt(x)) is not None and x["referencedDecl"]["name"] not in self.ptr \
                    and lname(x["referencedDecl"]["name"]) in self.scalars:
                return lname(x["referencedDecl"]["name"])
        return None

    def has_loop(self, n):
        """the statement holds a loop or a call of a translated function (the cut points of opts['segments'])"""
        if n.get("kind") in ("ForStmt", "WhileStmt"):
            return True
        if n.get("kind") == "CallExpr":
            nm = self.skip(n["inner"][0]).get("referencedDecl", {}).get("name")
            if self.opts.get("call_map", {}).get(nm, nm) in self.opts.get("_fns", {}):
                return True
        if n.get("kind") == "DoStmt":
            c0 = n["inner"][1]
            while c0.get("kind") in ("ParenExpr", "ImplicitCastExpr", "ConstantExpr"):
                c0 = c0["inner"][0]
            if not (c0.get("kind") == "IntegerLiteral" and int(c0["value"]) == 0):
                return True     # (`do { … } while (0)` is translated as its body, not as a loop)
        return any(self.has_loop(c) for c in n.get("inner", []))

    def can_exit(self, n):
        if n.get("kind") in ("ReturnStmt", "BreakStmt", "ContinueStmt", "GotoStmt"):
            return True
        return any(self.can_exit(c) for c in n.get("inner", []))

    def exits_loop(self, n):
        """the statement contains a `break` or a `return` (a `break` of a nested loop counts too: guarding is harmless then)"""
        if n.get("kind") in ("ReturnStmt", "BreakStmt", "GotoStmt"):
            return True
        return any(self.exits_loop(c) for c in n.get("inner", []))

    def wrapskip(self, lines, ind):
        if not lines or not (self.has_ret or self.has_brk or self.has_goto):
            return lines
        cond = " ∨ ".join((["s.done"] if self.has_ret else []) + (["s.gto"] if self.has_goto else []) + (["s.brk ∨ s.cnt"] if self.has_brk else []))
        return ["%s%s s : %s.St := if %s then s else" % (ind, self.bind(), self.name, cond)] + lines + ["%s  s" % ind]

    def loop(self, n, ind):
        k = n["kind"]
        inner = n["inner"]
        if k == "DoStmt":
            c0 = inner[1]
            while c0.get("kind") in ("ParenExpr", "ImplicitCastExpr", "ConstantExpr"):
                c0 = c0["inner"][0]
            if c0.get("kind") == "IntegerLiteral" and int(c0["value"]) == 0:
                # `do { … } while (0)` (statement-like macros): the body, once
                self.no_switch_break(inner[0])
                return self.stmt(inner[0], ind)
        if k == "ForStmt":
            init, cond, inc, body = inner[0], inner[2], inner[3], inner[4]
        elif k == "WhileStmt":
            init, cond, inc, body = None, inner[0], None, inner[1]
        else:
            init, cond, inc, body = None, inner[1], None, inner[0]
        out = []
        if init is not None and init.get("kind"):
            out += self.stmt(init, ind)
        idx = self.nloops
        self.nloops += 1
        ln = "%s.loop%d" % (self.name, idx)
        saved_pre, self.pre_lines = self.pre_lines, []
        if cond is not None and cond.get("kind"):
            c, cc, ce = self.cond(cond)
        else:
            c, cc, ce = "True", [], []
        cond_pre, self.pre_lines = self.pre_lines, saved_pre
        if cond_pre and k == "DoStmt":
            fail("%s: call of a translated function in a do-while condition" % self.name)
        bl = self.stmt(body, "        ")
        il = self.stmt(inc, "        ") if inc is not None and inc.get("kind") else []
        if il and self.exits_loop(body):
            # C: `break` (and `return`) leave a `for` loop WITHOUT executing its increment expression; `continue` does execute it
            # (`cnt` has been reset just before).  Only emitted when the body contains a break / return, so that loops without
            # them keep their text.
            gc = " ∨ ".join((["s.done"] if self.has_ret else []) + (["s.gto"] if self.has_goto else []) + (["s.brk"] if self.has_brk else []))
            il = ["        %s s : %s.St := if %s then s else" % (self.bind(), self.name, gc)] + ["  " + l for l in il] + ["          s"]
        stop = ""
        if self.has_ret or self.has_brk or self.has_goto:
            stop = " ∧ ¬(" + " ∨ ".join((["s.done"] if self.has_ret else []) + (["s.gto"] if self.has_goto else []) + (["s.brk"] if self.has_brk else [])) + ")"
        reset = [self.upd("cnt", "false", "        ")] if self.has_brk else []
        pre = ["      " + l for l in cond_pre] + self.checks(cc, "      ")
        if ce:
            pre.append("      let c : Bool := decide (%s%s)" % (c, stop))
            pre += self.with_effects([], [], ce, "      ")
            test = "c = true"
        else:
            test = "%s%s" % (c, stop)
        if self.opts.get("inline_body"):
            d = ["def %s (fuel : Nat) (s : %s.St) : %s.St :=" % (ln, self.name, self.name), "  match fuel with", "  | 0 =>"]
            d += pre
            d += ["      if %s then %s else s" % (test, "{ s with oof := true }"), "  | fuel' + 1 =>"]
            d += pre
            d += ["      if %s then" % test]
            d += bl + reset + il
            d += ["        %s fuel' s" % ln, "      else s", ""]
        else:
            # the loop body is a definition of its own (non-recursive): the recursive definition stays small, which keeps Lean's
            # structural-recursion elaboration fast, and `loop (fuel+1) s = loop fuel (body fuel s)` is one unfolding in proofs
            d = ["/-- one pass through the body of loop %d of `%s` (followed by the loop increment) -/" % (idx, self.name),
                 "def %s.body %s(fuel : Nat) (s : %s.St) : %s.St :=" % (ln, self.xparams(), self.name, self.name)]
            d += [l[4:] for l in (bl + reset + il)] + ["    s", ""]
            d += ["def %s %s(fuel : Nat) (s : %s.St) : %s.St :=" % (ln, self.xparams(), self.name, self.name), "  match fuel with", "  | 0 =>"]
            d += pre
            d += ["      if %s then %s else s" % (test, "{ s with oof := true }"), "  | fuel' + 1 =>"]
            d += pre
            d += ["      if %s then %s %sfuel' (%s.body %sfuel s) else s" % (test, ln, self.xargs(), ln, self.xargs()), ""]
        self.loops.append("\n".join(d))
        if k == "DoStmt":
            out += [(ind + l[8:]) if l.startswith("        ") else l for l in bl]
            if self.has_brk:
                out.append(self.upd("cnt", "false", ind))
        out.append("%s%s s : %s.St := %s %sfuel s" % (ind, self.bind(), self.name, ln, self.xargs()))
        if self.has_brk:
            out.append(self.upd("brk", "false", ind))
        return out

    # ---------------------------------------------------------------- cursors over arrays of structs
    def cursor_base(self, r):
        """`&p->arr[e]` -> (p, path, e);  `p->arr` (array of structs / pointer to the first struct) -> (p, path, None);  else None"""
        r = self.skip(r)
        if r.get("kind") == "UnaryOperator" and r.get("opcode") == "&":
            a = self.skip(r["inner"][0])
            if a.get("kind") == "ArraySubscriptExpr":
                b = self.skip(a["inner"][0])
                if b.get("kind") == "MemberExpr":
                    p0, path0 = self.member_chain(b)
                    if p0 is not None:
                        return p0, path0, a["inner"][1]
            return None
        if r.get("kind") == "MemberExpr" and self.is_struct_ptr(qt(r)):
            p0, path0 = self.member_chain(r)
            if p0 is not None:
                return p0, path0, None
        return None

    def cursor_assign(self, nm, rhs, ind):
        cb = self.cursor_base(rhs)
        if cb is None or (cb[0], cb[1]) != self.cursors[nm]:
            fail("%s: cursor %s is assigned something that is not an element of its array" % (self.name, nm))
        if cb[2] is None:
            return self.assign(("scalar", lname(nm)), "0", ind)
        t, c, e = self.rvalue(cb[2])
        return self.with_effects(c, [(("scalar", lname(nm)), t)], e, ind)

    # ---------------------------------------------------------------- objects returned by calls outside the modelled state
    def is_struct_ptr(self, t):
        el = ptr_elem(t)
        return el is not None and int_width(el) is None and el != "void" and ptr_elem(el) is None

    def object_expr(self, n):
        """names of the opts['object_calls'] functions whose result the pointer expression `n` is: a call of one of them, or `c ? a : b`
        whose branches are such expressions or NULL and whose condition only consults such calls, variables and literals; None otherwise"""
        oc = set(self.opts.get("object_calls", []))
        n = self.skip(n)
        while n.get("kind") in ("CStyleCastExpr", "ImplicitCastExpr", "ParenExpr"):
            n = self.skip(n["inner"][0])
        k = n.get("kind")
        if k == "CallExpr":
            nm = self.skip(n["inner"][0]).get("referencedDecl", {}).get("name")
            return [nm] if nm in oc else None
        if k == "ConditionalOperator":
            c, a, b = n["inner"]
            names = []

            def pure(m):
                kk = m.get("kind")
                if kk == "CallExpr":
                    cn = self.skip(m["inner"][0]).get("referencedDecl", {}).get("name")
                    if cn not in oc:
                        return False
                    if cn not in names:
                        names.append(cn)
                    return all(pure(x) for x in m["inner"][1:])
                if kk in ("UnaryOperator", "CompoundAssignOperator") or (kk == "BinaryOperator" and m.get("opcode") in ("=", ",")):
                    return False
                return all(pure(x) for x in m.get("inner", []))
            if not pure(c):
                return None
            for br in (a, b):
                if self.is_null(br):
                    continue
                sub = self.object_expr(br)
                if sub is None:
                    return None
                names += [x for x in sub if x not in names]
            return names or None
        return None

    # ---------------------------------------------------------------- pointer regions of locals (static resolution)
    def same_region(self, nm, r):
        if self.ptr.get(nm) != r:
            fail("%s: pointer %s is bound to region %s but assigned a pointer into %s" % (self.name, nm, self.ptr.get(nm), r))

    def static_region(self, n):
        """region of a pointer expression without generating code (None = not yet known)"""
        n = self.skip(n)
        k = n.get("kind")
        if k == "DeclRefExpr":
            nm = n["referencedDecl"]["name"]
            if nm in self.globals:
                return "@" + nm
            return self.ptr.get(nm)
        if k == "MemberExpr":
            if self.member_cursor(n) is not None:
                return self.member_cursor(n)[0]
            p, path = self.member_chain(n)
            own = lname("%s_%s" % (p, "_".join(path))) if p else None
            return self.mcursor.get(own, own)
        if k == "ArraySubscriptExpr":
            return self.static_region(n["inner"][0])
        if k == "BinaryOperator" and n["opcode"] in ("+", "-"):
            a, b = n["inner"]
            return self.static_region(a if ptr_elem(qt(a)) is not None else b)
        if k == "UnaryOperator" and n["opcode"] in ("&", "++", "--"):
            return self.static_region(n["inner"][0])
        if k == "BinaryOperator" and n["opcode"] == "=":
            return self.static_region(n["inner"][1])
        if k == "CallExpr":
            cn = self.skip(n["inner"][0]).get("referencedDecl", {}).get("name")
            if cn in ("malloc", "calloc", "HDmalloc", "HDcalloc"):
                return "!malloc"
            if cn in self.opts.get("assume_ptr_calls", {}):
                return "!opaque"
        return None

    def null_tested(self, n, nm):
        """the pointer local `nm` occurs in a NULL test (`p == NULL`, `p != NULL`, `if (p)`, `!p`, `p && …`)"""
        k = n.get("kind")
        def is_nm(x):
            x = self.skip(x)
            return x.get("kind") == "DeclRefExpr" and x["referencedDecl"]["name"] == nm
        if k == "BinaryOperator" and n.get("opcode") in ("==", "!="):
            a, b = n["inner"]
            if (self.is_null(a) and is_nm(b)) or (self.is_null(b) and is_nm(a)):
                return True
        if k == "ImplicitCastExpr" and n.get("castKind") == "PointerToBoolean" and is_nm(n["inner"][0]):
            return True
        return any(self.null_tested(c, nm) for c in n.get("inner", []) if isinstance(c, dict))

    def resolve_ptr_locals(self, body):
        assigns = []    # (pointer local, rhs node)
        alias_assigns = []
        massigns = []   # (member lvalue of integer-pointer type, rhs node)
        vardecls = {}

        def prewalk(n):
            # locals handed to an assumed call as `&x`: x holds FROM THE START what the call stores (an entry parameter)
            if n.get("kind") == "VarDecl":
                vardecls[n["name"]] = n
            if n.get("kind") == "CallExpr" and self.callee_name(n) in self.opts.get("assume_calls", {}):
                for a in n["inner"][1:]:
                    a = self.skip(a)
                    if a.get("kind") == "UnaryOperator" and a.get("opcode") == "&":
                        x = self.skip(a["inner"][0])
                        if x.get("kind") != "DeclRefExpr" or x["referencedDecl"].get("kind") != "VarDecl":
                            fail("%s: `&` argument of the assumed call %s is not a local variable" % (self.name, self.callee_name(n)))
                        xn, xt = x["referencedDecl"]["name"], base_type(qt(x))
                        if int_width(xt) is not None:
                            self.outvars.add(xn)
                        elif xt.endswith("**") and int_width(ptr_elem(ptr_elem(xt) or "") or "") is not None:
                            self.rowlocals.add(xn)
                        else:
                            # not an integer or a `char **`: left alone (the argument of an assumed call is not translated; a later
                            # READ of the local fails as an unresolved pointer local)
                            continue
                        note = "`%s` holds from the start what `%s` stores through `&%s`" % (xn, self.callee_name(n), xn)
                        if note not in self.notes:
                            self.notes.append(note)
            for c in n.get("inner", []):
                prewalk(c)
        prewalk(body)
        written = self.assigned_vars(body)
        for xn in sorted(self.outvars | self.rowlocals):
            d = vardecls.get(xn)
            if d is None or [c for c in d.get("inner", []) if c.get("kind")] or xn in written:
                fail("%s: %s is filled in by an assumed call and also initialised / assigned" % (self.name, xn))
        for xn in [x for x in vardecls if x in self.outvars]:
            self.scalar(xn, entry=True)
        for xn in [x for x in vardecls if x in self.rowlocals]:
            self.rowsets.append(lname(xn))
            self.add_entry(lname(xn), "List (List Int)")
        null_only = set()
        null_inits = []   # pointer locals declared with `= NULL`
        seat_assigns = []  # (member lvalue, rhs): pointer members that are assigned a non-NULL pointer

        def walk(n):
            k = n.get("kind")
            if k == "VarDecl" and n["name"] in self.rowlocals:
                return
            if k == "VarDecl" and ptr_elem(qt(n)) is not None and not re.search(r"\[\d+\]$", base_type(qt(n))):
                init = [c for c in n.get("inner", []) if c.get("kind")]
                el_ = ptr_elem(qt(n))
                if n["name"] in self.struct_locals:
                    return
                if self.opts.get("row_structs") and self.row_struct(el_):
                    self.rowptr[n["name"]] = self.row_struct(el_)      # treated like an integer pointer (index in cells)
                elif int_width(el_) is None and el_ != "void" and (ptr_elem(el_) is None or (self.opts.get("object_calls") and self.is_struct_ptr(el_))):
                    # pointer to a struct: an ALIAS of (a member of) a struct parameter, bound by its single assignment
                    # (with opts['object_calls'] also a pointer to a pointer to a struct: it stands for the object `*p`)
                    self.alias_locals.add(n["name"])
                    null_only.add(n["name"])
                    if init and not self.is_null(init[0]):
                        alias_assigns.append((n["name"], init[0]))
                        null_only.discard(n["name"])
                    for c in n.get("inner", []):
                        walk(c)
                    return
                self.ptr.setdefault(n["name"], None)
                if n.get("storageClass") == "static":
                    self.statics.append(n["name"])
                if init and not self.is_null(init[0]):
                    assigns.append((n["name"], init[0]))
                elif init:
                    null_inits.append(n["name"])
            if k == "BinaryOperator" and n.get("opcode") == "=" and ptr_elem(qt(n["inner"][0])) is not None:
                l = self.skip(n["inner"][0])
                if l.get("kind") == "DeclRefExpr" and l["referencedDecl"]["name"] in self.alias_locals:
                    if not self.is_null(n["inner"][1]):
                        alias_assigns.append((l["referencedDecl"]["name"], n["inner"][1]))
                        null_only.discard(l["referencedDecl"]["name"])
                elif l.get("kind") == "DeclRefExpr" and l["referencedDecl"]["name"] in self.struct_locals:
                    pass
                elif l.get("kind") == "DeclRefExpr" and not self.is_null(n["inner"][1]):
                    assigns.append((l["referencedDecl"]["name"], n["inner"][1]))
                    if self.chain_null(n["inner"][1]):
                        self.nullable.add(l["referencedDecl"]["name"])
                elif l.get("kind") == "DeclRefExpr":
                    self.nullable.add(l["referencedDecl"]["name"])
                elif l.get("kind") == "MemberExpr" and not self.is_null(n["inner"][1]):
                    seat_assigns.append((l, n["inner"][1]))
                    if int_width(ptr_elem(qt(l)) or "") is not None:
                        massigns.append((l, n["inner"][1]))
            for c in n.get("inner", []):
                walk(c)
        walk(body)
        moved = set()      # struct pointers with pointer arithmetic on them

        def walk2(n):
            k = n.get("kind")
            if (k == "UnaryOperator" and n.get("opcode") in ("++", "--")) or (k == "CompoundAssignOperator" and n.get("opcode") in ("+=", "-=")):
                l = self.skip(n["inner"][0])
                if l.get("kind") == "DeclRefExpr" and l["referencedDecl"]["name"] in self.alias_locals:
                    moved.add(l["referencedDecl"]["name"])
            for c in n.get("inner", []):
                walk2(c)
        walk2(body)
        for nm in moved:
            if not any(a == nm for a, _ in alias_assigns):
                fail("%s: struct pointer %s is moved but never bound to an array of structs" % (self.name, nm))
        for nm, rhs in alias_assigns:
            ca, _ = self.cursor_target(rhs)
            if ca is not None:
                # a struct pointer that moves over an array of structs (a member of a struct parameter): a CURSOR, an index field of its own
                cp, cpath = self.member_chain(ca)
                if cp is None:
                    fail("%s: struct pointer %s points into an array that is not a member of a struct parameter" % (self.name, nm))
                if nm in self.aliases or (nm in self.cursors and self.cursors[nm] != (cp, cpath)):
                    fail("%s: struct pointer %s is bound to two different objects" % (self.name, nm))
                self.cursors[nm] = (cp, cpath)
                self.scalar(nm)
                continue
            if nm in self.cursors:
                fail("%s: struct pointer %s is bound to two different objects" % (self.name, nm))
            r = self.skip(rhs)
            r1 = rhs
            while r1.get("kind") in ("ParenExpr", "ImplicitCastExpr", "CStyleCastExpr"):
                r1 = r1["inner"][0]
            if r1.get("kind") == "CallExpr":
                cn = self.callee_name(r1)
                if self.opts.get("assume_calls", {}).get(cn) == "object":
                    # the object an assumed call hands back: the local acts as a struct parameter (members = entry fields `<local>_…`)
                    if nm in self.aliases or self.obj_locals.get(nm, cn) != cn:
                        fail("%s: struct pointer %s is bound to two different objects" % (self.name, nm))
                    self.obj_locals[nm] = cn
                    self.structs.add(nm)
                    note = "`%s` is the object `%s` returns (its members are entry parameters, `%s_null` = the call returned NULL)" % (nm, cn, nm)
                    if note not in self.notes:
                        self.notes.append(note)
                    continue
                if cn in ("malloc", "HDmalloc", "realloc", "HDrealloc"):
                    continue       # resized at the statement (sa_resize); the local stays bound to its member
            cb = self.cursor_base(r)
            if cb is not None and (nm in moved or cb[2] is not None):
                # a CURSOR over the array of structs p->arr: an index field; q->fld is the cell q of the region p_arr_fld
                if nm in self.aliases or nm in self.objects or (nm in self.cursors and self.cursors[nm] != (cb[0], cb[1])):
                    fail("%s: struct pointer %s is bound to two different objects" % (self.name, nm))
                self.cursors[nm] = (cb[0], cb[1])
                self.scalar(nm)
                continue
            if nm in moved:
                fail("%s: struct pointer %s is moved but bound to something that is not an array of structs" % (self.name, nm))
            if self.opts.get("object_calls"):
                calls = self.object_expr(r)
                if calls is not None:
                    # the result of calls that are outside the modelled state: the local IS that object (like a struct parameter)
                    if nm in self.aliases or (nm in self.objects and self.objects[nm] != calls):
                        fail("%s: struct pointer %s is bound to two different objects" % (self.name, nm))
                    self.objects[nm] = calls
                    self.structs.add(nm)
                    self.object_keys.setdefault(nm, r)
                    note = "struct pointer `%s` is the object returned by %s (entry fields `%s_*`; `%s_null` = the result is NULL), the call(s) leave the modelled state unchanged" % (nm, ", ".join("`%s`" % c for c in calls), nm, nm)
                    if note not in self.notes:
                        self.notes.append(note)
                    continue
                if r.get("kind") == "UnaryOperator" and r.get("opcode") == "*":
                    r2 = self.skip(r["inner"][0])
                    if r2.get("kind") == "DeclRefExpr" and r2["referencedDecl"]["name"] in self.objects:
                        # `q = *pp` where `pp` (pointer to pointer) is an object local: `q` names the same object
                        if nm in self.aliases and self.aliases[nm] != (r2["referencedDecl"]["name"], []):
                            fail("%s: struct pointer %s is bound to two different objects" % (self.name, nm))
                        self.aliases[nm] = (r2["referencedDecl"]["name"], [])
                        continue
            if r.get("kind") == "UnaryOperator" and r.get("opcode") == "&":
                r = self.skip(r["inner"][0])
            p0, path0 = self.member_chain(r) if r.get("kind") == "MemberExpr" else ((r["referencedDecl"]["name"], []) if r.get("kind") == "DeclRefExpr" and r["referencedDecl"]["name"] in self.structs else (None, None))
            if p0 is None:
                fail("%s: struct pointer %s is bound to something that is not (a member of) a struct parameter" % (self.name, nm))
            if nm in self.aliases and self.aliases[nm] != (p0, path0):
                fail("%s: struct pointer %s is bound to two different objects" % (self.name, nm))
            self.aliases[nm] = (p0, path0)
        for nm in sorted(self.alias_locals):
            if nm not in self.aliases and nm not in self.objects and nm not in self.cursors and nm not in self.obj_locals:
                if nm not in self.used_names:
                    continue      # declared but never used (its uses were in an unmodelled switch group)
                if self.opts.get("object_calls") and nm in null_only:
                    continue     # only ever NULL (its address is handed to an assumed call): any dereference fails in member_chain
                fail("%s: struct pointer %s is never bound" % (self.name, nm))
        # pointer members seated inside the block of ANOTHER member (`p->type = (T *)p->bptr; p->off = p->type + n`), found in the text
        # (index field `<member>_i`); not with opts['member_cursors'], which names such members explicitly (index field `<member>`)
        changed = not self.opts.get("member_cursors")
        while changed:
            changed = False
            for l, rhs in massigns:
                p_, own = self.member_field(l)
                r1 = rhs
                while r1.get("kind") in ("ParenExpr", "ImplicitCastExpr", "CStyleCastExpr"):
                    r1 = r1["inner"][0]
                if p_ is None or r1.get("kind") == "CallExpr":
                    continue
                r = self.static_region(rhs)
                if r is None or r == own or r.startswith("@") or r.startswith("!") or r in self.local_regions:
                    continue       # (a block of this function: the re-seating of opts-free members, `seats`)
                if own in self.mcursor and self.mcursor[own] != r:
                    fail("%s: member pointer %s is seated in two regions (%s, %s)" % (self.name, own, self.mcursor[own], r))
                if own not in self.mcursor:
                    self.mcursor[own] = r
                    changed = True
        changed = True
        while changed:
            changed = False
            for nm, rhs in assigns:
                if nm in self.ptr_is_param_region:
                    continue
                r = self.static_region(rhs)
                if r == "!malloc":
                    r = lname(nm) + "_blk"
                    self.local_regions.setdefault(r, 0)       # a block the function allocates itself; sized at the malloc
                if r is not None and self.ptr.get(nm) is None:
                    self.ptr[nm] = r
                    changed = True
        for nm, rhs in assigns:
            r = self.static_region(rhs)
            if r == "!malloc":
                r = lname(nm) + "_blk"
            if r is not None and nm not in self.ptr_is_param_region and self.ptr.get(nm) != r:
                fail("%s: pointer %s points into two regions (%s, %s)" % (self.name, nm, self.ptr.get(nm), r))
        for nm in self.ptr:
            if self.ptr[nm] == "!opaque":
                self.nullable.add(nm)
        for nm in null_inits:
            # declared `T *p = NULL`: its NULLness is tracked when the function tests or re-assigns NULL to it
            if nm in self.nullable or self.null_tested(body, nm):
                self.nullable.add(nm)
        for lv_, rhs in seat_assigns:
            p_, path_ = self.member_chain(lv_)
            r = self.static_region(rhs)
            if p_ is not None and r in self.local_regions and r.endswith("_blk"):
                self.seats[lname("%s_%s" % (p_, "_".join(path_)))] = r

    # ---------------------------------------------------------------- whole function
    def scan_flags(self, n, in_switch=False):
        k = n.get("kind")
        if k == "ReturnStmt":
            self._rets.append(n)
        if k == "ContinueStmt" or (k == "BreakStmt" and not in_switch):
            self.has_brk = True
        if k == "GotoStmt":
            self.has_goto = True
        if k == "LabelStmt":
            if self.label is not None:
                fail("%s: more than one label" % self.name)
            self.label = n.get("name", "L")
        if k == "SwitchStmt":
            in_switch = True
        if k in ("ForStmt", "WhileStmt", "DoStmt"):
            in_switch = False
        for c in n.get("inner", []):
            self.scan_flags(c, in_switch)

    def assigned_vars(self, body):
        out = set()

        def walk(n):
            k = n.get("kind")
            if (k == "BinaryOperator" and n.get("opcode") == "=") or k == "CompoundAssignOperator" or (k == "UnaryOperator" and n.get("opcode") in ("++", "--")):
                l = self.skip(n["inner"][0])
                if l.get("kind") == "DeclRefExpr":
                    out.add(l["referencedDecl"]["name"])
            for c in n.get("inner", []):
                walk(c)
        walk(body)
        return out

    def prune_cases(self, n, vals):
        """opts['unmodelled_cases']: in every switch, the statements of a group all of whose labels are in `vals` are replaced by the
        marker statement H4Unmodelled (+ break).  Works on a private copy of the AST."""
        if n.get("kind") == "SwitchStmt":
            body = [c for c in n["inner"] if c.get("kind")][-1]
            if body.get("kind") == "CompoundStmt":
                new, pruning = [], False
                for c in body.get("inner", []):
                    if c.get("kind") in ("CaseStmt", "DefaultStmt"):
                        labels, chain, cur = [], [], c
                        while cur.get("kind") in ("CaseStmt", "DefaultStmt"):
                            chain.append(cur)
                            if cur["kind"] == "CaseStmt":
                                ce = cur["inner"][0]
                                v_ = ce.get("value") if ce.get("kind") == "ConstantExpr" else None
                                if v_ is None:
                                    v_, cv_, ev_ = self.rvalue(ce)
                                    if cv_ or ev_:
                                        fail("%s: case label is not a constant" % self.name)
                                labels.append(str(v_))
                            else:
                                labels.append(None)
                            cur = cur["inner"][-1]
                        hit = [l for l in labels if l is not None and l in vals]
                        if hit and len(hit) != len(labels):
                            fail("%s: an unmodelled case label shares its group with other labels" % self.name)
                        pruning = bool(hit)
                        if pruning:
                            chain[-1]["inner"][-1] = {"kind": "H4Unmodelled"}
                            new.append(c)
                            new.append({"kind": "BreakStmt"})
                            continue
                    elif pruning:
                        continue
                    new.append(c)
                body["inner"] = new
        for c in n.get("inner", []):
            if isinstance(c, dict):
                self.prune_cases(c, vals)

    def referenced(self, n, acc):
        if n.get("kind") == "DeclRefExpr":
            acc.add(n.get("referencedDecl", {}).get("name"))
        for c in n.get("inner", []):
            if isinstance(c, dict):
                self.referenced(c, acc)
        return acc

    def translate(self):
        ast = self.ast
        if self.opts.get("unmodelled_cases"):
            import copy
            ast = copy.deepcopy(ast)
            self.prune_cases(ast, set(self.const(nm_) for nm_ in self.opts["unmodelled_cases"]))
        body = [c for c in ast["inner"] if c.get("kind") == "CompoundStmt"][0]
        self.used_names = self.referenced(body, set())
        mutated = self.assigned_vars(body)
        for p in [c for c in ast["inner"] if c.get("kind") == "ParmVarDecl"]:
            t = base_type(qt(p))
            nm = p["name"]
            self.plist.append(nm)
            self.owner = nm
            if int_width(t) is not None:
                self.scalar(nm, entry=True)
                continue
            el = ptr_elem(t)
            if el is None:
                fail("%s: parameter %s of type %s" % (self.name, nm, t))
            if nm in self.flat:
                self.ptr[nm] = "mem"
                self.scalar(nm, entry=True)       # its address
                self.region("mem")
            elif int_width(el) is not None or el == "void":
                self.ptr[nm] = lname(nm)
                if nm in mutated:
                    # the parameter itself is moved (buf++): region `<nm>` plus an index field `<nm>_i` that starts at 0
                    self.pidx[nm] = lname(nm) + "_i"
                    self.scalar(self.pidx[nm])
                else:
                    self.ptr_is_param_region.add(nm)      # the region is registered at its first use (an unused array is no parameter)
            elif ptr_elem(el) is not None:
                fail("%s: parameter %s of type %s" % (self.name, nm, t))
            else:
                self.structs.add(nm)
        self.owner = None
        self.struct_locals -= set(self.plist)
        self.structs |= self.struct_locals

        def locals_(n):
            if n.get("kind") == "VarDecl":
                t = base_type(qt(n))
                m = re.match(r"^(.*)\[(\d+)\]$", t)
                if m and int_width(m.group(1)) is not None:
                    nm = n["name"]
                    self.ptr[nm] = lname(nm)
                    if n.get("storageClass") == "static":
                        self.statics.append(nm)
                        self.ptr_is_param_region.add(nm)
                    else:
                        self.local_regions[lname(nm)] = int(m.group(2))
            for c in n.get("inner", []):
                locals_(c)
        locals_(body)
        self.resolve_ptr_locals(body)
        for nm in list(self.ptr):
            reg = self.ptr[nm]
            if reg is None:
                fail("%s: pointer %s is never bound to a region" % (self.name, nm))
            if nm in self.statics and nm in self.ptr_is_param_region:
                self.region(nm)          # static local array: an entry parameter
            elif reg == "!opaque":
                continue
            elif nm not in self.ptr_is_param_region and nm not in self.flat and lname(nm) not in self.local_regions and nm not in self.pidx:
                self.scalar(nm, entry=(nm in self.statics))
        def loops_(n, inloop):
            k = n.get("kind")
            here = inloop or k in ("ForStmt", "WhileStmt", "DoStmt")
            if here and ((k == "BinaryOperator" and n.get("opcode") == "=") or k == "CompoundAssignOperator" or (k == "UnaryOperator" and n.get("opcode") in ("++", "--"))):
                l = self.skip(n["inner"][0])
                if l.get("kind") == "DeclRefExpr":
                    self.loop_assigned.add(lname(l["referencedDecl"]["name"]))
                elif l.get("kind") == "MemberExpr":
                    p_, path_ = self.member_chain(l)
                    if p_ is not None:
                        self.loop_assigned.add(lname("%s_%s" % (p_, "_".join(path_))))
            for c in n.get("inner", []):
                loops_(c, here)
        loops_(body, False)
        self._rets = []
        self.scan_flags(body)
        last = body.get("inner", [None])[-1] if body.get("inner") else None
        self.has_ret = any(r is not last for r in self._rets)
        self._seg_marks = []
        self._topbody = body if self.opts.get("segments") else None
        lines = self.expand_struct_malloc(self.stmt(body, "  "))
        segdefs = []
        if self._topbody is not None and any(hl for _, hl in self._seg_marks):
            # opts['segments']: the statements before / between / after the top-level statements that hold a loop or a call of a translated
            # function are definitions of their own (`f.seg0`, `f.seg1`, …; such a statement is a segment by itself), the function is their composition
            bounds, prev_loop = [], True
            for start, hl in self._seg_marks:
                if hl or prev_loop:
                    bounds.append(start)
                prev_loop = hl
            bounds.append(len(lines))
            newlines = []
            for k_ in range(len(bounds) - 1):
                seg = lines[bounds[k_]:bounds[k_ + 1]]
                if not seg:
                    continue
                sn = "%s.seg%d" % (self.name, len(segdefs))
                segdefs.append("\n".join(["/-- segment %d of `%s`: consecutive top-level statements (a statement that holds a loop or a call of a translated function is a segment by itself) -/" % (len(segdefs), self.name),
                                          "def %s (fuel : Nat) (s : %s.St) : %s.St :=" % (sn, self.name, self.name)] + seg + ["  s", ""]))
                newlines.append("  have s : %s.St := %s fuel s" % (self.name, sn))
            lines = newlines
        if any("@@STRUCT_MALLOC@@" in l for l in self.loops):
            fail("%s: malloc of a struct array inside a loop" % self.name)
        for mname in self.seats:
            if mname in self.regions:
                fail("%s: the memory of member %s is accessed although the member is re-seated to a block of this function" % (self.name, mname))
        # assemble
        # entry parameters: in the order of the C parameters (a struct parameter expands to its members in order of first use), then the rest
        ordered = []
        for pn in self.plist:
            ordered += [(n, t) for n, t, o in self.entry if o == pn]
        ordered += [(n, t) for n, t, o in self.entry if o not in self.plist]
        self.ordered = ordered
        params = ["(%s : Int → Int)" % lname(x) for x in self.opts.get("pure_calls", [])] + ["(fuel : Nat)"] + ["(%s : %s)" % (n, t) for n, t in ordered]
        given = set(n for n, _ in ordered)
        inits = ["%s := %s" % (n, n) for n, _ in ordered]
        for r, size in self.local_regions.items():
            # (opts['poison_locals']: a local array starts with the poison value 170 in every cell - indeterminate in C - instead of 0)
            inits.append(("%s := List.replicate %d %d" % (r, size, 170 if self.opts.get("poison_locals") else 0)) if size else ("%s := []" % r))
            given.add(r)
        st = ["structure %s.St where" % self.name]
        for f in self.scalars:
            st.append("  %s : Int%s" % (f, "" if f in given else " := 0"))
        for f in self.bools:
            st.append("  %s : Bool" % f)
        for f in self.lbools:
            st.append("  %s : Bool := false" % f)
        for f in self.rowsets:
            st.append("  %s : List (List Int)" % f)
        for f in self.regions + [r for r in self.local_regions if r not in self.regions]:
            st.append("  %s : List Int%s" % (f, "" if f in given else " := []"))
        st += ["  ub : Bool := false", "  oof : Bool := false", "  ret : Int := 0"]
        if any(ptr_elem(qt(r["inner"][0])) is not None for r in self._rets if r.get("inner")):
            st.append("  retnull : Bool := false")
        if self.has_ret:
            st.append("  done : Bool := false")
        if self.has_goto:
            st.append("  gto : Bool := false")
        if self.has_brk:
            st += ["  brk : Bool := false", "  cnt : Bool := false"]
        st.append("deriving Repr, DecidableEq")
        st.append("")
        st.append("/-- records undefined behaviour: `c` is what the C standard requires at this point -/")
        st.append("def %s.chk (s : %s.St) (c : Prop) [Decidable c] : %s.St := { s with ub := s.ub || !decide c }" % (self.name, self.name, self.name))
        st.append("")
        ftype = {}
        for f in self.scalars:
            ftype[f] = "Int"
        for f in self.regions + list(self.local_regions):
            ftype[f] = "List Int"
        for f in self.rowsets:
            ftype[f] = "List (List Int)"
        for f in ["retnull", "done", "brk", "cnt", "gto"] + self.bools + self.lbools:
            ftype[f] = "Bool"
        ftype["ret"] = "Int"
        if self.uses_join:
            st.append("/-- after a call of a translated function: its undefined-behaviour and out-of-fuel flags are the caller's too -/")
            st.append("def %s.St.join (s : %s.St) (ub oof : Bool) : %s.St := { s with ub := s.ub || ub, oof := s.oof || oof }" % (self.name, self.name, self.name))
            st.append("")
        for f in self.setters:
            st.append("@[reducible] def %s.St.set_%s (s : %s.St) (v : %s) : %s.St := { s with %s := v }" % (self.name, f, self.name, ftype[f], self.name, f))
        if self.setters:
            st.append("")
        out = st + self.loops + segdefs
        doc = "`%s` of `%s`, translated statement by statement" % (self.name, self.opts.get("cfile", "?"))
        if self.ret_region:
            doc += "; the result `ret` is an index into region `%s`" % self.ret_region
        for nt in self.notes:
            doc += "; " + nt
        out.append("/-- %s -/" % doc)
        out.append("def %s %s : %s.St :=" % (self.name, " ".join(params), self.name))
        out.append("  let s : %s.St := { %s }" % (self.name, ", ".join(inits)))
        out += lines
        out.append("  s")
        out.append("")
        return "\n".join(out), params


def c_string_bytes(lit, fn):
    """bytes of a C string literal as clang spells it (`"…"` with escapes), without the terminating NUL"""
    if len(lit) < 2 or lit[0] != '"' or lit[-1] != '"':
        fail("%s: string literal %s" % (fn, lit))
    body, out, i = lit[1:-1], [], 0
    simple = {"n": 10, "t": 9, "r": 13, "\\": 92, '"': 34, "'": 39, "a": 7, "b": 8, "f": 12, "v": 11, "?": 63}
    while i < len(body):
        ch = body[i]
        if ch != "\\":
            out += list(ch.encode("utf-8"))
            i += 1
            continue
        i += 1
        if i >= len(body):
            fail("%s: string literal %s" % (fn, lit))
        e = body[i]
        if e in simple:
            out.append(simple[e]); i += 1
        elif e in "01234567":
            j = i
            while j < len(body) and j < i + 3 and body[j] in "01234567":
                j += 1
            out.append(int(body[i:j], 8) % 256); i = j
        elif e == "x":
            j = i + 1
            while j < len(body) and body[j] in "0123456789abcdefABCDEF":
                j += 1
            if j == i + 1:
                fail("%s: string literal %s" % (fn, lit))
            out.append(int(body[i + 1:j], 16) % 256); i = j
        else:
            fail("%s: escape \\%s in a string literal" % (fn, e))
    return out



STRNCMP_DEF = """/-- `strncmp`: like `strcmpC`, but at most `n` cells of each region are looked at (0 when they all agree) -/
def strncmpC : Nat → List Int → List Int → Option Int
  | 0, _, _ => some 0
  | _ + 1, [], _ => none
  | _ + 1, _, [] => none
  | n + 1, a :: as, b :: bs =>
    if a % 256 ≠ b % 256 then some (if a % 256 < b % 256 then -1 else 1)
    else if a % 256 = 0 then some 0 else strncmpC n as bs
"""

ATOI_DEF = """/-- the digits of `atoi`: `acc` = value so far; stops at the first cell that is not '0'..'9'; `none` = the region ends first -/
def atoiDigits : List Int → Int → Option Int
  | [], _ => none
  | c :: cs, acc => if 48 ≤ c ∧ c ≤ 57 then atoiDigits cs (acc * 10 + (c - 48)) else some acc

/-- white space before the number (`isspace` in the C locale: blank, \\t \\n \\v \\f \\r) -/
def atoiSkip : List Int → List Int
  | [] => []
  | c :: cs => if c = 32 ∨ (9 ≤ c ∧ c ≤ 13) then atoiSkip cs else c :: cs

/-- `atoi` on the cells of a region from its start: white space, an optional sign, decimal digits up to the first other cell.
    `none` = undefined behaviour: the scan leaves the region, or the value does not fit in an `int` -/
def atoiC (l : List Int) : Option Int :=
  match atoiSkip l with
  | [] => none
  | c :: cs =>
    let r := if c = 45 then (atoiDigits cs 0).map (fun v => -v) else if c = 43 then atoiDigits cs 0 else atoiDigits (c :: cs) 0
    match r with
    | some v => if -2147483648 ≤ v ∧ v ≤ 2147483647 then some v else none
    | none => none
"""


def record_fields(opts, tname):
    """[(field name, type)] of the record type `tname` (a typedef'd struct), from clang's record-layout dump of the unit's C file"""
    cache = opts.setdefault("_layouts", {})
    if not cache:
        cmd = ["clang-14", "-fsyntax-only", "-w", "-DH4_VERIF", "-Xclang", "-fdump-record-layouts"] + opts["_incs"] + [opts["_cpath"]]
        r = subprocess.run(cmd, capture_output=True, text=True)
        if r.returncode != 0:
            fail("clang cannot dump the record layouts of %s" % opts["_cpath"])
        cur = None
        for line in r.stdout.splitlines():
            m = re.match(r"^\s*\d+ \| (\s*)(.*\S)\s*$", line)
            if line.startswith("*** Dumping AST Record Layout"):
                cur = None
                continue
            if not m:
                continue
            ind_, txt_ = len(m.group(1)), m.group(2)
            if ind_ == 0:
                cur = re.sub(r"^(struct|union) ", "", txt_)
                cache[cur] = []
            elif ind_ == 2 and cur is not None:
                ty_, _, fn_ = txt_.rpartition(" ")
                cache[cur].append((fn_, ty_))
    tname = base_type(tname or "")
    if tname not in cache or not cache[tname]:
        fail("record layout of %s not found" % tname)
    return cache[tname]


def record_fields_forced(opts, tname):
    """like record_fields, for a record type whose layout the C file itself never needs at compile time (clang dumps only the layouts it
    computes): a scratch file that #includes the C file and declares `static char x[sizeof(T)]` is dumped instead"""
    cache = opts.setdefault("_forced_layouts", {})
    if tname not in cache:
        import tempfile
        with tempfile.TemporaryDirectory() as tmp:
            src = os.path.join(tmp, "k.c")
            with open(src, "w") as f:
                f.write('#include "%s"\nstatic char h4_force_layout_[sizeof(%s)];\n' % (opts["_cpath"], tname))
            cmd = ["clang-14", "-fsyntax-only", "-w", "-DH4_VERIF", "-Xclang", "-fdump-record-layouts"] + opts["_incs"] + [src]
            r = subprocess.run(cmd, capture_output=True, text=True)
        if r.returncode != 0:
            fail("clang cannot dump the record layout of %s" % tname)
        cur, fields = None, {}
        for line in r.stdout.splitlines():
            if line.startswith("*** Dumping AST Record Layout"):
                cur = None
                continue
            m = re.match(r"^\s*\d+ \| (\s*)(.*\S)\s*$", line)
            if not m:
                continue
            ind_, txt_ = len(m.group(1)), m.group(2)
            if ind_ == 0:
                cur = re.sub(r"^(struct|union) ", "", txt_)
                fields[cur] = []
            elif ind_ == 2 and cur is not None:
                ty_, _, fn_ = txt_.rpartition(" ")
                fields[cur].append((fn_, ty_))
        if not fields.get(tname):
            fail("record layout of %s not found" % tname)
        cache[tname] = fields[tname]
    return cache[tname]


def resolve_consts(repo, bdir, cfile, names, incs):
    """values of enum constants / macros private to the .c file: a program that #includes the file is compiled against the library built
    from the same tree and PRINTS them (nothing is copied by hand)"""
    import tempfile
    with tempfile.TemporaryDirectory() as tmp:
        src = os.path.join(tmp, "k.c")
        with open(src, "w") as f:
            f.write('#include "%s"\n#include <stdio.h>\nint main(void){\n' % os.path.join(repo, cfile))
            for nme in sorted(names):
                f.write('  printf("%s %%lld\\n", (long long)(%s));\n' % (nme, nme))
            f.write("  return 0;}\n")
        exe = os.path.join(tmp, "k")
        link = []
        if bdir:
            if "-asan-" in bdir:
                link.append("-fsanitize=address,undefined")
            link += [os.path.join(bdir, "bin/libmfhdf.a"), os.path.join(bdir, "bin/libhdf.a"), "-lz", "-ljpeg", "-lm"]
        r = subprocess.run(["gcc", "-w", "-DH4_VERIF", ] + incs + [src, "-o", exe] + link, capture_output=True, text=True)
        if r.returncode != 0:
            # the .c file may define main itself or clash at link time: fall back to a translation unit that only includes the headers the file includes
            fail("constants %s of %s cannot be compiled: %s" % (sorted(names), cfile, r.stderr[-800:]))
        r = subprocess.run([exe], capture_output=True, text=True, env=dict(os.environ, ASAN_OPTIONS="detect_leaks=0"))
        out = {}
        for line in r.stdout.splitlines():
            a, b = line.rsplit(None, 1)
            out[a] = int(b)
        return out


STRCMP_DEF = """/-- `strcmp` on the cells of two regions, read from their starts as `unsigned char`s: `none` = the comparison runs past the end of a
    region (undefined behaviour); otherwise -1 / 0 / 1, the sign of the difference of the first cells that differ -/
def strcmpC : List Int → List Int → Option Int
  | [], _ => none
  | _, [] => none
  | a :: as, b :: bs =>
    if a % 256 ≠ b % 256 then some (if a % 256 < b % 256 then -1 else 1)
    else if a % 256 = 0 then some 0 else strcmpC as bs
"""


def fragment_ast(ast, name, spec, src):
    """A FRAGMENT of a function as a function of its own: the consecutive statements of one block of `ast` that start with the statement
    whose source text begins with spec['from'] and end with the first following sibling whose text begins with spec['to'] (or
    spec['count'] statements).  Variables of the enclosing function that the fragment uses become
      * parameters (entry fields) — integers whose incoming value may be read, arrays, pointers the fragment does not assign;
      * locals — integers and pointers whose FIRST use is a plain assignment `x = e` (e without x) at the top level of the fragment
        (or in the initialiser of a top-level `for`).  A pointer that is assigned anywhere else in the fragment is rejected.
    `break` / `continue` that would leave the fragment are rejected; `goto` out of it leaves `gto = true` in the final state."""
    body = [c for c in ast["inner"] if c.get("kind") == "CompoundStmt"][0]

    def boff(n):
        b = n.get("range", {}).get("begin", {})
        b = b.get("expansionLoc", b)
        return b.get("offset")

    def starts(n, text):
        o = boff(n)
        return o is not None and src[o:o + len(text)] == text

    hits = []

    def find(n):
        if n.get("kind") == "CompoundStmt":
            ch = [c for c in n.get("inner", []) if c.get("kind")]
            for i, c in enumerate(ch):
                if starts(c, spec["from"]):
                    hits.append((ch, i))
                    return
        for c in n.get("inner", []):
            find(c)
    find(body)
    if len(hits) != 1:
        fail("fragment %s: %d statements of %s start with %r" % (name, len(hits), ast["name"], spec["from"]))
    ch, i = hits[0]
    if "count" in spec:
        j = i + int(spec["count"]) - 1
    else:
        js = [k for k in range(i, len(ch)) if starts(ch[k], spec["to"])]
        if not js:
            fail("fragment %s: no statement after %r starts with %r" % (name, spec["from"], spec["to"]))
        j = js[0]
    if j >= len(ch):
        fail("fragment %s: the block is shorter than the fragment" % name)
    stmts = ch[i:j + 1]
    decls = {}

    def coll(n):
        if n.get("kind") in ("VarDecl", "ParmVarDecl"):
            if n["name"] in decls:
                fail("fragment %s: %s is declared twice in %s" % (name, n["name"], ast["name"]))
            decls[n["name"]] = n
        for c in n.get("inner", []):
            coll(c)
    coll(ast)
    inside = set()

    def coll_in(n):
        if n.get("kind") == "VarDecl":
            inside.add(n["name"])
        for c in n.get("inner", []):
            coll_in(c)
    for st_ in stmts:
        coll_in(st_)

    def refs(n, acc):
        if n.get("kind") == "DeclRefExpr" and n.get("referencedDecl", {}).get("kind") in ("VarDecl", "ParmVarDecl"):
            nm = n["referencedDecl"]["name"]
            if nm not in inside and nm not in acc:
                acc.append(nm)
        for c in n.get("inner", []):
            refs(c, acc)
        return acc
    order = []
    for st_ in stmts:
        refs(st_, order)
    for nm in order:
        if nm not in decls:
            fail("fragment %s: %s is not a parameter or local of %s" % (name, nm, ast["name"]))

    def strip(n):
        while n.get("kind") in ("ParenExpr", "ImplicitCastExpr", "CStyleCastExpr"):
            n = n["inner"][0]
        return n
    seen, first_assigned = set(), set()

    def plain_assign(st_):
        if st_.get("kind") == "BinaryOperator" and st_.get("opcode") == "=":
            l = strip(st_["inner"][0])
            if l.get("kind") == "DeclRefExpr" and l["referencedDecl"]["name"] in order:
                nm = l["referencedDecl"]["name"]
                if nm not in seen and nm not in refs(st_["inner"][1], []):
                    first_assigned.add(nm)
        for nm in refs(st_, []):
            seen.add(nm)
    for st_ in stmts:
        if st_.get("kind") == "ForStmt" and st_["inner"][0].get("kind"):
            ini = st_["inner"][0]
            parts = [ini]
            while parts and parts[0].get("kind") == "BinaryOperator" and parts[0].get("opcode") == ",":
                parts = list(parts[0]["inner"]) + parts[1:]
            for q in parts:
                plain_assign(q)
        plain_assign(st_)
    assigned = set()

    def asg(n):
        if n.get("kind") == "BinaryOperator" and n.get("opcode") == "=":
            l = strip(n["inner"][0])
            if l.get("kind") == "DeclRefExpr":
                assigned.add(l["referencedDecl"]["name"])
        for c in n.get("inner", []):
            asg(c)
    for st_ in stmts:
        asg(st_)

    def leaves(n, in_loop, in_switch):
        k = n.get("kind")
        if k == "ContinueStmt" and not in_loop:
            fail("fragment %s: `continue` leaves the fragment" % name)
        if k == "BreakStmt" and not (in_loop or in_switch):
            fail("fragment %s: `break` leaves the fragment" % name)
        if k in ("ForStmt", "WhileStmt", "DoStmt"):
            in_loop = True
        if k == "SwitchStmt":
            in_switch = True
        for c in n.get("inner", []):
            leaves(c, in_loop, in_switch)
    for st_ in stmts:
        leaves(st_, False, False)
    params, local_decls = [], []
    for nm in order:
        d = decls[nm]
        t = base_type(qt(d))
        is_int = int_width(t) is not None
        is_arr = re.match(r"^(.*)\[\d*\]$", t) is not None
        if is_int:
            tolocal = nm in first_assigned
        elif is_arr:
            tolocal = False
        else:
            tolocal = nm in assigned
            if tolocal and nm not in first_assigned:
                fail("fragment %s: pointer %s is assigned inside the fragment but may be used with its incoming value" % (name, nm))
        clean = {k_: v_ for k_, v_ in d.items() if k_ not in ("inner", "init")}
        if tolocal:
            clean["kind"] = "VarDecl"
            local_decls.append({"kind": "DeclStmt", "inner": [clean]})
        else:
            clean["kind"] = "ParmVarDecl"
            clean.pop("storageClass", None)
            params.append(clean)
    note = "FRAGMENT of `%s`: the statements from `%s` %s; the variables of `%s` it reads are entry parameters" % (
        ast["name"], spec["from"], ("to `%s`" % spec["to"]) if "to" in spec else ("(%s statements)" % spec["count"]), ast["name"])
    return {"kind": "FunctionDecl", "name": name, "inner": params + [{"kind": "CompoundStmt", "inner": local_decls + stmts}]}, note


def translate_unit(repo, bdir, unit, cfile, fns, opts=None, _want_fns=False):
    opts = dict(opts or {})
    opts["cfile"] = cfile
    opts["_uses"] = set()
    EXTRA_INT_TYPES.clear()
    for k_, v_ in opts.get("int_types", {}).items():
        EXTRA_INT_TYPES[k_] = (bool(v_[0]), int(v_[1]))
    incs = ["-I" + os.path.join(repo, "hdf/src"), "-I" + os.path.join(repo, "mfhdf/src"), "-I" + os.path.join(repo, "mfhdf/hdiff"),
            "-I" + os.path.join(repo, "mfhdf/hrepack")]
    if bdir:
        incs += ["-I" + bdir, "-I" + os.path.join(bdir, "hdf/src"), "-I" + os.path.join(bdir, "mfhdf/src")]
    incs += opts.get("cflags", [])
    out = []
    for imp in opts.get("imports", []):
        out.append("import %s" % imp)
    # functions of units translated elsewhere that this unit's functions call: {unit: [c file, [functions], opts]}.  They are translated again
    # here only to learn their entry parameters / stored fields; the calls name the definitions of that unit (which this one imports)
    used_fns = {}
    for u_, (cf_, fns_, o_) in opts.get("use_units", {}).items():
        out.append("import H4.Gen.Fn.%s" % u_)
        _, _, dfs = translate_unit(repo, bdir, u_, cf_, fns_, o_, _want_fns=True)
        for fn_, fobj in dfs.items():
            fobj.qual = "H4.Gen.Fn.%s." % u_
            used_fns[fn_] = fobj
    EXTRA_INT_TYPES.clear()
    for k_, v_ in opts.get("int_types", {}).items():
        EXTRA_INT_TYPES[k_] = (bool(v_[0]), int(v_[1]))
    out.append("/- GENERATED by /verif/gen/c2lean.py from `%s` of /repo's current tree (Tie A, function level). Do not edit.\n"
               "   Each definition is the statement-by-statement translation of the C function of the same name\n"
               "   (see the header of gen/c2lean.py for the translation scheme and its assumptions). -/\n" % cfile)
    out.append("set_option linter.unusedVariables false\nnamespace H4.Gen.Fn.%s\n" % unit)
    prelude_at = len(out)
    sigs = {}
    done_fns = dict(used_fns)
    for fn in fns:
        fo = dict(opts)
        fo.update(opts.get("per_fn", {}).get(fn, {}))
        fo["_fns"] = dict(done_fns)
        fo["_incs"], fo["_cpath"] = incs, os.path.join(repo, cfile)
        var = opts.get("variants", {}).get(fn)
        if var:
            fo.update({k_: v_ for k_, v_ in var.items() if k_ != "of"})
            fo["_name"] = fn
        need = [c_ for c_ in fo.get("unmodelled_cases", []) if c_ not in fo.get("consts", {})]
        if need:
            # the labels of the switch groups to leave out are needed before the first pass (the AST is pruned first)
            fo["consts"] = dict(fo.get("consts", {}), **resolve_consts(repo, bdir, cfile, set(need), incs))
        frag = opts.get("fragments", {}).get(fn)
        if frag:
            # a FRAGMENT of the function frag['of'] as a function of its own (see fragment_ast)
            ast, fnote = fragment_ast(clang_ast(os.path.join(repo, cfile), fo.get("c_names", {}).get(frag["of"], frag["of"]), incs), fn, frag,
                                      open(os.path.join(repo, cfile), errors="replace").read())
            fo["_frag_notes"] = [fnote]
        else:
            # opts['c_names']: the symbol the preprocessor makes of the function's name (`#define NC_var_shape H4_NC_var_shape`);
            # opts['variants']: the C function a variant is translated from
            src_fn = var["of"] if var else fn
            ast = clang_ast(os.path.join(repo, cfile), fo.get("c_names", {}).get(src_fn, src_fn), incs)
            ast["name"] = src_fn
        f = Fn(ast, unit, fo)
        txt, params = f.translate()
        missing = fo.pop("_missing_consts", None)
        if missing:
            fo["consts"] = dict(fo.get("consts", {}), **resolve_consts(repo, bdir, cfile, missing, incs))
            f = Fn(ast, unit, fo)
            txt, params = f.translate()
            if fo.get("_missing_consts"):
                fail("%s: constants %s could not be resolved" % (fn, sorted(fo["_missing_consts"])))
        rounds = 0
        while f.sa_resized and f.sa_fields != {k_: list(v_) for k_, v_ in fo.get("_sa_fields", {}).items()}:
            # an array of structs is reallocated: every member region the function uses anywhere must be resized, also those first
            # used behind the allocation; translate again knowing the complete list
            rounds += 1
            if rounds > 3:
                fail("%s: member list of a reallocated array of structs does not settle" % fn)
            fo["_sa_fields"] = {k_: list(v_) for k_, v_ in f.sa_fields.items()}
            f = Fn(ast, unit, fo)
            txt, params = f.translate()
        done_fns[fn] = f
        for long_, short_ in fo.get("abbrev", {}).items():
            txt = txt.replace(long_ + "_", short_ + "_")
            params = [q.replace(long_ + "_", short_ + "_") for q in params]
        out.append(txt)
        sigs[fn] = params
    for use_, def_ in (("atoi", ATOI_DEF), ("strncmp", STRNCMP_DEF), ("strcmp", STRCMP_DEF)):
        if use_ in opts["_uses"]:
            out.insert(prelude_at, def_)
    out.append("end H4.Gen.Fn.%s\n" % unit)
    if _want_fns:
        return "\n".join(out), sigs, {k_: v_ for k_, v_ in done_fns.items() if k_ not in used_fns}
    return "\n".join(out), sigs


if __name__ == "__main__":
    repo, bdir, unit, cfile = sys.argv[1:5]
    o = {}
    args = sys.argv[5:]
    if args and args[0].startswith("{"):
        o = json.loads(args[0])
        args = args[1:]
    try:
        txt, _ = translate_unit(repo, bdir, unit, cfile, args, o)
    except Unsupported as e:
        print("C2LEAN FAILURE:", e)
        sys.exit(1)
    print(txt)
