#!/usr/bin/env python3
"""Tie A: regenerate lean/H4/Gen/*.lean from /repo's CURRENT sources.

usage: gen.py <repo> <outdir> [<builddir-with-h4config.h>]

Three extractors:
  consts  - a C translation unit per source unit is compiled against /repo's headers (or #includes the
            .c file itself, to reach macros and static tables private to it) and PRINTS the values;
            nothing is copied by hand.
  tables  - array initialisers are printed by the same program, element by element.
  macros  - one-line expression macros are read from the source text and translated token by token into
            Lean Nat expressions (supported: integer literals, parameters, other generated constants,
            ~ is rejected, & | ^ << >> + - * / % and parentheses, casts to integer types are dropped
            with an explicit width mask).  Anything else makes the generator FAIL (never guesses).
Last stdout line is a JSON digest {files:{name:sha}, sources:{path:sha}}.
"""
import hashlib, json, os, re, subprocess, sys, tempfile

repo, outdir = sys.argv[1], sys.argv[2]
bdir = sys.argv[3] if len(sys.argv) > 3 else None
HS = os.path.join(repo, "hdf/src")
MS = os.path.join(repo, "mfhdf/src")

# ----------------------------------------------------------------------------------------------- spec
# (unit name, C prologue, [(lean name, C expression)], [(lean table name, C array expr, length expr)])
UNITS = [
    ("Hdf", '#include "hdf_priv.h"\n#include "hfile_priv.h"\n#include "vg_priv.h"\n#include "hcomp_priv.h"\n', [
        # file structure
        "MAGICLEN", "DD_SZ", "NDDS_SZ", "OFFSET_SZ", "DEF_NDDS", "MIN_NDDS", "MAX_REF",
        "INVALID_OFFSET", "INVALID_LENGTH", "DFREF_WILDCARD", "DFTAG_WILDCARD", "DFTAG_NULL",
        "DFTAG_LINKED", "DFTAG_VERSION", "DFTAG_COMPRESSED", "DFTAG_VLINKED", "DFTAG_CHUNK", "DFTAG_VH", "DFTAG_VS", "DFTAG_VG",
        "DFTAG_SD", "DFTAG_SDD", "DFTAG_NDG", "DFTAG_SDG", "DFTAG_NT", "DFTAG_RI", "DFTAG_CI", "DFTAG_RIG", "DFTAG_ID", "DFTAG_LUT", "DFTAG_LD",
        "DFTAG_FID", "DFTAG_FD", "DFTAG_DIL", "DFTAG_DIA",
        "SPECIAL_LINKED", "SPECIAL_EXT", "SPECIAL_COMP", "SPECIAL_VLINKED", "SPECIAL_CHUNKED", "SPECIAL_BUFFERED", "SPECIAL_COMPRAS",
        "DFACC_READ", "DFACC_WRITE", "DFACC_CREATE", "DFACC_ALL", "DFACC_RDONLY", "DFACC_RDWR", "DFACC_APPENDABLE",
        "DF_START", "DF_CURRENT", "DF_END",
        "HDF_APPENDABLE_BLOCK_LEN", "HDF_APPENDABLE_BLOCK_NUM",
        "LIBVER_MAJOR", "LIBVER_MINOR", "LIBVER_RELEASE", "LIBVER_LEN",
        # number types
        "DFNT_HDF", "DFNT_NATIVE", "DFNT_CUSTOM", "DFNT_LITEND",
        "DFNT_UCHAR8", "DFNT_CHAR8", "DFNT_FLOAT32", "DFNT_FLOAT64", "DFNT_INT8", "DFNT_UINT8",
        "DFNT_INT16", "DFNT_UINT16", "DFNT_INT32", "DFNT_UINT32", "DFNT_INT64", "DFNT_UINT64",
        # V layer
        "MAXNVELT", "VSFIELDMAX", "MAX_ORDER", "MAX_FIELD_SIZE", "VSNAMELENMAX", "VGNAMELENMAX", "FIELDNAMELENMAX",
        "FULL_INTERLACE", "NO_INTERLACE", "VSET_VERSION", "VSET_OLD_VERSION", "VSET_NEW_VERSION",
        "VG_ATTR_SET", "VGDESCTAG", "VSDESCTAG", "VSDATATAG",
        "MAX_FILE", "H4_MAX_VAR_DIMS", "H4_MAX_NC_NAME", "H4_MAX_NC_ATTRS", "H4_MAX_NC_DIMS", "H4_MAX_NC_VARS",
        # coders
        "COMP_CODE_NONE", "COMP_CODE_RLE", "COMP_CODE_NBIT", "COMP_CODE_SKPHUFF", "COMP_CODE_DEFLATE",
        "MFGR_INTERLACE_PIXEL", "MFGR_INTERLACE_LINE", "MFGR_INTERLACE_COMPONENT",
    ], []),
    ("Mfan", '#include "hdf_priv.h"\n#include "mfan_priv.h"\n',
     ["AN_DATA_LABEL", "AN_DATA_DESC", "AN_FILE_LABEL", "AN_FILE_DESC", "ANATOM_HASH_SIZE",
      ("TAG_DATA_LABEL", "ANatype2tag(AN_DATA_LABEL)"), ("TAG_DATA_DESC", "ANatype2tag(AN_DATA_DESC)"),
      ("TAG_FILE_LABEL", "ANatype2tag(AN_FILE_LABEL)"), ("TAG_FILE_DESC", "ANatype2tag(AN_FILE_DESC)")], []),
    ("Vs", '#include "hdf_priv.h"\n#include "vg_priv.h"\n#include "%s/vsfld.c"\n' % HS +
     'static const int32 vs_nt_codes[10] = {DFNT_UCHAR8, DFNT_CHAR8, DFNT_FLOAT32, DFNT_FLOAT64, DFNT_INT8, DFNT_UINT8, DFNT_INT16, DFNT_UINT16, DFNT_INT32, DFNT_UINT32};\n'
     'static long long *vs_nt_sizes(int native) { static long long t[2][10]; for (int i = 0; i < 10; i++) t[native][i] = DFKNTsize(vs_nt_codes[i] | (native ? DFNT_NATIVE : 0)); return t[native]; }\n'
     'static int vs_host_le(void) { int one = 1; return *(unsigned char *)&one; }\n'
     'static long long *vs_map_old(void) { static long long t[16]; for (int i = 0; i < 16; i++) t[i] = map_from_old_types(i); return t; }\n'
     # the reserved-symbol table of vsfld.c, member by member (the names as NUL-terminated rows)
     'static long long *vs_rstab(int m) { static long long t[3][NRESERVED]; for (int i = 0; i < (int)NRESERVED; i++) { t[0][i] = rstab[i].type; t[1][i] = rstab[i].isize; t[2][i] = rstab[i].order; } return t[m]; }\n',
     ["VDATA_BUFFER_MAX", "_HDF_VSPACK", "_HDF_VSUNPACK", "NRESERVED", ("HOST_LE", "vs_host_le()")],
     [("NT_CODES", "vs_nt_codes", "10"), ("NT_SIZES", "vs_nt_sizes(0)", "10"), ("NT_NSIZES", "vs_nt_sizes(1)", "10"),
      # C07 function-level cross-run of vunpackvs: map_from_old_types (vconv.c) on the old type codes 0..15 (every other value maps to itself)
      ("MAP_OLD_TYPES", "vs_map_old()", "16"),
      ("RSTAB_TYPE", "vs_rstab(0)", "NRESERVED"), ("RSTAB_ISIZE", "vs_rstab(1)", "NRESERVED"), ("RSTAB_ORDER", "vs_rstab(2)", "NRESERVED"),
      ("RSTAB_NAME", "rstab[i].name", "NRESERVED", "str")]),
    ("Crle", '#include "hdf_priv.h"\n#include "%s/crle.c"\n' % HS,
     ["RUN_MASK", "COUNT_MASK", "RLE_BUF_SIZE", "RLE_MIN_RUN", "RLE_MAX_RUN", "RLE_MIN_MIX", "RLE_NIL",
      "TMP_BUF_SIZE"],   # chunk size of the forward part of HCPcrle_seek (session model lean/H4/RleSess.lean)
     []),
    ("Atom", '#include "hdf_priv.h"\n#include "%s/atom.c"\n' % HS,
     ["GROUP_BITS", "GROUP_MASK", "ATOM_BITS", "ATOM_MASK", "ATOM_CACHE_SIZE", "MAXGROUP",
      "DDGROUP", "AIDGROUP", "FIDGROUP", "VGIDGROUP", "VSIDGROUP", "GRIDGROUP", "RIIDGROUP", "BITIDGROUP", "ANIDGROUP",
      ("ATOM_T_BITS", "(sizeof(atom_t)*8)"),
      # C13 atom model: status codes, the invalid group, FAIL as an atom_t bit pattern, width of `unsigned` (nextid)
      "SUCCEED", "FAIL", "BADGROUP", ("FAIL_ATOM", "(uint32_t)(atom_t)FAIL"), ("UNSIGNED_BITS", "(sizeof(unsigned)*8)")],
     # initial contents of the static atom cache, read from the compiled initialisers (ids as uint32 bit patterns)
     [("atom_id_cache_init", "((uint32_t *)atom_id_cache)", "ATOM_CACHE_SIZE"),
      ("atom_obj_cache_init", "((uintptr_t *)atom_obj_cache)", "ATOM_CACHE_SIZE"),
      # static per-group id counters (they live outside the group records and survive HAdestroy_group/HAshutdown)
      ("atom_next_id_init", "atom_next_id", "MAXGROUP")]),
    # C02 format reader: constants private to the special-element writers and record-layout limits
    ("Fmt", '#include "hdf_priv.h"\n#include "hfile_priv.h"\n#include "vg_priv.h"\n#include "hcomp_priv.h"\n#include "%s/hchunks.c"\n' % HS,
     ["_HDF_CHK_HDR_VER", "_HDF_CHK_TBL_CLASS_VER", "LIBVSTR_LEN", "VS_ATTR_SET", "VSET_OLD_TYPES",
      "COMP_CODE_SZIP", "COMP_CODE_IMCOMP", "COMP_CODE_JPEG", "COMP_MODEL_STDIO", "COMP_HEADER_LENGTH",
      "DFTAG_IP8", "DFTAG_JPEG5", "DFTAG_RLE", "DFTAG_IMC", "DFTAG_CHUNKED", "DFTAG_FV", "DFTAG_NDG", "DFTAG_SDL", "DFTAG_SDU", "DFTAG_SDF",
      "DFTAG_SDM", "DFTAG_SDC", "DFTAG_SDS", "DFTAG_CAL", "DFTAG_SDLNK", "DFTAG_SDT", "DFTAG_MA", "DFTAG_GREYJPEG5", "DFTAG_DRAW", "DFTAG_CCN", "DFTAG_MT",
      ("SPECIAL_TAG_BIT", "0x4000"), ("USER_TAG_BIT", "0x8000")],
     [("HDFMAGIC", "((unsigned char *)HDFMAGIC)", "MAGICLEN"),
      ("CHK_TBL_CLASS", "((unsigned char *)_HDF_CHK_TBL_CLASS)", "strlen(_HDF_CHK_TBL_CLASS)"),
      ("CHK_TBL_NAME", "((unsigned char *)_HDF_CHK_TBL_NAME)", "strlen(_HDF_CHK_TBL_NAME)"),
      ("CHK_FIELD_NAMES", "((unsigned char *)_HDF_CHK_FIELD_NAMES)", "strlen(_HDF_CHK_FIELD_NAMES)")]),
    ("Hcomp", '#include "hdf_priv.h"\n#include "%s/hcomp.c"\n' % HS, ["COMP_HEADER_VERSION", "COMP_START_BLOCK"], []),
    # C02 format reader: the member the SD interface adds to its NDG groups and never writes as an element
    ("FmtNc", '#include "hdf_priv.h"\n#include "nc_priv.h"\n', ["BOGUS_TAG"], []),
    # C02 format reader, old-style descriptive records (DFTAG_NT / DFTAG_SDD / DFTAG_ID / DFTAG_LD and their groups)
    ("FmtDesc", '#include "hdf_priv.h"\n#include "vg_priv.h"\n#include "mfgr_priv.h"\n#include "nc_priv.h"\n#include "mfhdf.h"\n',
     ["DFTAG_MD", "DFTAG_ID8", "DFTAG_RI8", "DFTAG_CI8", "DFTAG_II8", "DFTAG_JPEG", "DFTAG_GREYJPEG", "DFNT_VERSION", "DFNT_NONE",
      "DFNTF_IEEE", "DFNTF_PC", "DFNTF_VP", "DFNTC_BYTE", "DFNTC_EBCDIC", "DFIL_PIXEL", "DFIL_LINE", "DFIL_PLANE"],
     [("RI_CLASS", "((unsigned char *)RI_NAME)", "strlen(RI_NAME)"),
      ("VAR_CLASS", "((unsigned char *)_HDF_VARIABLE)", "strlen(_HDF_VARIABLE)")]),
    # element / linked-block layer (C01): special-tag bit arithmetic evaluated by the compiler on the real macros
    ("Elem", '#include "hdf_priv.h"\n#include "hfile_priv.h"\n',
     [("SPECIAL_TAG_BIT", "MKSPECIALTAG(0)"), ("MKSPECIAL_100", "MKSPECIALTAG(100)"), ("MKSPECIAL_LINKED", "MKSPECIALTAG(DFTAG_LINKED)"),
      ("BASETAG_MKSPECIAL_100", "BASETAG(MKSPECIALTAG(100))"), ("IS_SPECIAL_MKSPECIAL_100", "SPECIALTAG(MKSPECIALTAG(100)) ? 1 : 0"),
      ("IS_SPECIAL_100", "SPECIALTAG(100) ? 1 : 0"), ("EXTENDED_TAG_BIT", "0x8000"),
      ("H4_OP_UNKNOWN_", "H4_OP_UNKNOWN"), ("FILE_END_DIRTY_", "FILE_END_DIRTY"), ("DDLIST_DIRTY_", "DDLIST_DIRTY")], []),
    # C16 function level (Props/C16Fn): the codes of last_op, the dirty bit HP_read consults, fseek's whence
    ("Hpio", '#include "hdf_priv.h"\n#include "hfile_priv.h"\n',
     ["H4_OP_UNKNOWN", "H4_OP_SEEK", "H4_OP_WRITE", "H4_OP_READ", "FILE_END_DIRTY", ("SEEK_SET_", "SEEK_SET"), ("FAIL_NEG", "-(FAIL)")], []),
    ("Mcache", '#include "hdf_priv.h"\n#include "mcache_priv.h"\n', ["HASHSIZE","DEF_PAGESIZE","DEF_MAXCACHE","MCACHE_DIRTY","MCACHE_PINNED","ELEM_READ","ELEM_WRITTEN","ELEM_SYNC"], []),
    # C05 bit I/O, n-bit coder, skipping Huffman coder (private macros and static tables of the .c files)
    ("Hbitio", '#include "hdf_priv.h"\n#include "%s/hbitio.c"\n' % HS,
     ["BITBUF_SIZE", "DATANUM", "BITNUM", ("LONG_MIN_AS_INT32", "(int32)LONG_MIN")],
     [("maskc", "maskc", "9"), ("maskl", "maskl", "33")]),
    ("Cnbit", '#include "hdf_priv.h"\n#include "hcomp_priv.h"\n#include "%s/cnbit.c"\n' % HS,
     ["NBIT_BUF_SIZE", "NBIT_MASK_SIZE", "MAX_NT_SIZE"],
     [("mask_arr8", "mask_arr8", "9"), ("mask_arr32", "mask_arr32", "33")]),
    ("Cskphuff", '#include "hdf_priv.h"\n#include "hcomp_priv.h"\n#include "%s/cskphuff.c"\n' % HS,
     ["SKPHUFF_MAX_CHAR", "SUCCMAX", "TWICEMAX", "ROOT", "TMP_BUF_SIZE"], []),
    # C10 attributes: predefined attribute names (as byte tables, printed from the macros), limits, type tables
    ("Attr", '#include "hdf_priv.h"\n#include "vg_priv.h"\n#include "mfgr_priv.h"\n#include "nc_priv.h"\n#include "mfhdf.h"\n'
     'static long long *at_tab(int which) { static long long t[4][64]; for (int i = 0; i < 64; i++) {\n'
     '  t[0][i] = DFKNTsize(i); t[1][i] = DFKNTsize(i | DFNT_NATIVE); t[2][i] = DFKNTsize(i | DFNT_LITEND);\n'
     '  t[3][i] = (long long)(int)hdf_unmap_type(i); } return t[which]; }\n'
     'static long long *at_nclen(void) { static long long t[16]; for (int i = 0; i < 16; i++) t[i] = (i >= NC_BYTE && i <= NC_DOUBLE) ? NC_typelen((nc_type)i) : -1; return t; }\n',
     ["H4_MAX_NC_ATTRS", "H4_MAX_NC_NAME", "H4_MAX_VAR_DIMS", "VSNAMELENMAX", "FIELDNAMELENMAX", "MAX_ORDER", "MAX_FIELD_SIZE",
      "GR_ATTR_THRESHHOLD", "_HDF_VDATA", "DFNT_NATIVE", "DFNT_LITEND", "DFNT_CHAR", "DFNT_UCHAR", "DFNT_FLOAT32", "DFNT_FLOAT64", "DFNT_INT32",
      "IS_SDSVAR", "IS_CRDVAR", "UNKNOWN", "SDSTYPE", "DIMTYPE", "CDFTYPE", "NC_CHAR", "NC_UNLIMITED", "SD_UNLIMITED", "FAIL", "DFREF_WILDCARD"],
     [("NT_SIZE", "at_tab(0)", "64"), ("NT_SIZE_NATIVE", "at_tab(1)", "64"), ("NT_SIZE_LITEND", "at_tab(2)", "64"),
      ("UNMAP", "at_tab(3)", "64"), ("NCLEN", "at_nclen()", "16"),
      ("S_LongName", "_HDF_LongName", "strlen(_HDF_LongName)"), ("S_Units", "_HDF_Units", "strlen(_HDF_Units)"),
      ("S_Format", "_HDF_Format", "strlen(_HDF_Format)"), ("S_CoordSys", "_HDF_CoordSys", "strlen(_HDF_CoordSys)"),
      ("S_ValidRange", "_HDF_ValidRange", "strlen(_HDF_ValidRange)"), ("S_ScaleFactor", "_HDF_ScaleFactor", "strlen(_HDF_ScaleFactor)"),
      ("S_ScaleFactorErr", "_HDF_ScaleFactorErr", "strlen(_HDF_ScaleFactorErr)"), ("S_AddOffset", "_HDF_AddOffset", "strlen(_HDF_AddOffset)"),
      ("S_AddOffsetErr", "_HDF_AddOffsetErr", "strlen(_HDF_AddOffsetErr)"), ("S_CalibratedNt", "_HDF_CalibratedNt", "strlen(_HDF_CalibratedNt)"),
      ("S_ValidMax", "_HDF_ValidMax", "strlen(_HDF_ValidMax)"), ("S_ValidMin", "_HDF_ValidMin", "strlen(_HDF_ValidMin)"),
      ("S_FillValue", "_FillValue", "strlen(_FillValue)"), ("S_fakeDim", "\"fakeDim\"", "7"),
      ("S_ATTRIBUTE", "_HDF_ATTRIBUTE", "strlen(_HDF_ATTRIBUTE)"), ("S_ATTR_FIELD_NAME", "ATTR_FIELD_NAME", "strlen(ATTR_FIELD_NAME)")]),
    # C09 region part: what GRIupdatemeta stores in / GRIget_image_list decodes from the NT record of an image
    ("Gr", '#include "hdf_priv.h"\n#include "mfgr.h"\n'
     'static const int32 gr_nt_codes[10] = {DFNT_UCHAR8, DFNT_CHAR8, DFNT_FLOAT32, DFNT_FLOAT64, DFNT_INT8, DFNT_UINT8, DFNT_INT16, DFNT_UINT16, DFNT_INT32, DFNT_UINT32};\n'
     'static long long *gr_pnsc(void) { static long long t[10]; for (int i = 0; i < 10; i++) t[i] = DFKgetPNSC(gr_nt_codes[i], DF_MT); return t; }\n',
     ["DFNTF_HDFDEFAULT", "DFNTF_PC", "DFNTC_BYTE", "DFNT_NONE"],
     [("NT_CODES", "gr_nt_codes", "10"), ("NT_PNSC", "gr_pnsc()", "10")]),
    ("DDTie", '#include "hdf_priv.h"\n#include "%s/hfile.c"\n' % HS,
     ["DFTAG_FREE", ("DEFAULT_CACHE", "default_cache"), ("SIZEOF_NDDS_FIELD", "NDDS_SZ"),
      # shape of the tag macros, checked on all 65536 uint16 values (the Lean model uses the arithmetic form)
      ("BASETAG_SHAPE_OK", "({int ok=1; for(unsigned t=0;t<65536;t++){unsigned e=(t>=16384&&t<32768)?t-16384:t; if((unsigned)(uint16)BASETAG(t)!=e) ok=0;} ok;})"),
      ("SPECIALTAG_SHAPE_OK", "({int ok=1; for(unsigned t=0;t<65536;t++){unsigned e=(t>=16384&&t<32768)?1:0; if((unsigned)(SPECIALTAG(t)?1:0)!=e) ok=0;} ok;})"),
      ("MKSPECIALTAG_SHAPE_OK", "({int ok=1; for(unsigned t=0;t<65536;t++){unsigned e=(t<16384)?t+16384:(t<32768?t:DFTAG_NULL); if((unsigned)(uint16)MKSPECIALTAG(t)!=e) ok=0;} ok;})"),
      ("UINT16_FAIL", "(uint16)FAIL"), ("SIZEOF_DD_T", "sizeof(dd_t)")], []),
    # C20: integer widths and documented maxima used by the limits model
    ("Limits", '#include "hdf_priv.h"\n#include "hfile_priv.h"\n#include "vg_priv.h"\n#include "mfhdf.h"\n#include <stdint.h>\n',
     ["INT32_MAX", "INT16_MAX", "UINT16_MAX", "H4_MAX_NC_OPEN", "H4_MAX_GR_NAME", "DFREF_NONE",
      ("SIZEOF_OFFSET", "sizeof(((filerec_t *)0)->f_end_off)"), ("SIZEOF_DD_OFFSET", "sizeof(((dd_t *)0)->offset)"),
      ("SIZEOF_DD_LENGTH", "sizeof(((dd_t *)0)->length)"), ("SIZEOF_NDDS", "sizeof(((ddblock_t *)0)->ndds)"),
      ("SIZEOF_NVELT", "sizeof(((VGROUP *)0)->nvelt)"), ("SIZEOF_IVSIZE", "sizeof(((DYN_VWRITELIST *)0)->ivsize)"),
      ("SIZEOF_VSNAME", "sizeof(((VDATA *)0)->vsname)"), ("SIZEOF_VSCLASS", "sizeof(((VDATA *)0)->vsclass)"),
      ("SIZEOF_MAXREF", "sizeof(((filerec_t *)0)->maxref)")], []),
    # C15: shared record codecs + the second run-length coder (dfrle.c). Its limits are integer literals in the C text,
    # not macros, so they are MEASURED by calling the real DFCIrle on probe rows (never hand-copied).
    ("Codecs", '#include "hdf_priv.h"\n#include "%s/dfrle.c"\n' % HS +
     'static uint8 rl_in[600], rl_out[1400];\n'
     'static int rl_first_run(void) { memset(rl_in, 7, 600); DFCIrle(rl_in, rl_out, 600); return rl_out[0] & 127; }\n'
     'static int rl_first_lit(void) { for (int i = 0; i < 600; i++) rl_in[i] = (uint8)(i % 251); DFCIrle(rl_in, rl_out, 600); return rl_out[0]; }\n'
     'static int rl_min_run(void) { for (int n = 1; n < 10; n++) { memset(rl_in, 7, n); rl_in[n] = 9; DFCIrle(rl_in, rl_out, n + 1); if (rl_out[0] & 128) return n; } return -1; }\n'
     'static int rl_run_flag(void) { memset(rl_in, 7, 5); DFCIrle(rl_in, rl_out, 5); return rl_out[0] & ~5; }\n',
     [("DFRLE_MAX_RUN", "rl_first_run()"), ("DFRLE_MAX_LIT", "rl_first_lit()"), ("DFRLE_MIN_RUN", "rl_min_run()"), ("DFRLE_RUN_FLAG", "rl_run_flag()"),
      "DFTAG_NT", "DFTAG_SDD", "DFTAG_SD", "DFTAG_NDG", "DFTAG_SDG", "DFTAG_ID", "DFTAG_LD", "DFTAG_RIG", "DFTAG_RI", "DFTAG_CI", "DFTAG_LUT",
      "DFTAG_ID8", "DFTAG_IP8", "DFTAG_RI8", "DFTAG_CI8", "DFTAG_II8", "DFTAG_RLE", "DFTAG_IMC", "DFTAG_NULL",
      "DFNT_VERSION", "DFNT_UCHAR", "DFNTC_BYTE", "DFNT_NONE", "TBUF_SZ", "H4_MAX_VAR_DIMS",
      "DFIL_PIXEL", "DFIL_LINE", "DFIL_PLANE", "MFGR_INTERLACE_PIXEL"], []),
    # C14 / C13 files: what hfile.c keeps private (default DD caching, the version record as HIupdate_version encodes it), SD id kinds
    ("RO", '#include "hdf_priv.h"\n#include "%s/hfile.c"\n' % HS +
     'static unsigned char *ro_verbytes(void) { static unsigned char b[LIBVER_LEN]; uint32 a, c, d; char s[LIBVSTR_LEN + 1]; uint8 *p = b; size_t n;\n'
     '  Hgetlibversion(&a, &c, &d, s); UINT32ENCODE(p, a); UINT32ENCODE(p, c); UINT32ENCODE(p, d); HIstrncpy((char *)p, s, LIBVSTR_LEN); n = strlen((char *)p); memset(&p[n], 0, LIBVSTR_LEN - n); return b; }\n',
     [("DEFAULT_CACHE", "default_cache"), "DFACC_CURRENT", "DDLIST_DIRTY", "FILE_END_DIRTY", "DFREF_NONE"],
     [("HDFMAGIC_BYTES", "((unsigned char *)HDFMAGIC)", "MAGICLEN"), ("LIBVER_BYTES", "ro_verbytes()", "LIBVER_LEN")]),
    ("Sdid", '#include "hdf_priv.h"\n#include "hfile_priv.h"\n', ["SDSTYPE", "DIMTYPE", "CDFTYPE", "H4_MAX_NC_OPEN", "MAX_NC_OPEN"], []),
    # C03 shape / index arithmetic of the netCDF layer (var.c NC_var_shape, putget.c NCcoordck / NC_varoffset): file kinds, the types whose
    # length is rounded up to 4 in non-HDF files, the record-dimension marker, the handle flags and the XDR direction NCcoordck looks at
    ("Ncvar", '#include "hdf_priv.h"\n#include "nc_priv.h"\n#include "mfhdf.h"\n',
     ["HDF_FILE", "netCDF_FILE", "CDF_FILE", "NC_BYTE", "NC_CHAR", "NC_SHORT", "NC_LONG", "NC_FLOAT", "NC_DOUBLE", "NC_UNLIMITED",
      "NC_NOFILL", "NC_NDIRTY", "NC_NSYNC", "XDR_ENCODE", "XDR_DECODE", "H4_MAX_VAR_DIMS", "FAIL"], []),
    # C03: the internal piece / block sizes of the SD data path.  MAX_SIZE is private to putget.c (the piece in which hdf_xdr_NCvdata writes
    # fill values before and behind the first hyperslab of a new element), the linked-block parameters of record variables are in nc_priv.h
    ("SdBuf", '#include "hdf_priv.h"\n#include "nc_priv.h"\n#include "mfhdf.h"\n#include "%s/putget.c"\n' % MS,
     ["MAX_SIZE", "BLOCK_MULT", "MAX_BLOCK_SIZE", "BLOCK_COUNT"], []),
    # ... and the page of the buffered XDR stream behind netCDF-classic files (private to hdf_xdr.c)
    ("XdrBuf", '#include "hdf_priv.h"\n#include "nc_priv.h"\n#include "mfhdf.h"\n#include "%s/hdf_xdr.c"\n' % MS, ["BIOBUFSIZ"], []),
    # C15: the attribute names hdf_read_ndgs (mfhdf/src/hdfsds.c) gives to the strings and annotations of an old-style data set (bytes of the C strings)
    ("NdgAttrs", '#include "hdf.h"\n#include "mfhdf.h"\n', ["DFTAG_SDL", "DFTAG_SDU", "DFTAG_SDF", "DFTAG_SDC", "DFTAG_DIL", "DFTAG_DIA"],
     [("NAME_%s" % n, "((unsigned char *)_HDF_%s)" % m, "strlen(_HDF_%s)" % m)
      for n, m in (("REMARKS", "Remarks"), ("ANNO_LABEL", "AnnoLabel"), ("LONG_NAME", "LongName"), ("UNITS", "Units"), ("FORMAT", "Format"), ("COORDSYS", "CoordSys"))]),
    ("Bitvect", '#include "hdf_priv.h"\n#include "%s/bitvect.c"\n' % HS,
     ["BV_DEFAULT_BITS", "BV_CHUNK_SIZE", "BV_BASE_BITS"],
     [("bv_first_zero", "bv_first_zero", "256"), ("bv_bit_value", "bv_bit_value", "8"), ("bv_bit_mask", "bv_bit_mask", "9")]),
]

# constants that exist only as text inside tool sources (local array sizes, file-private #defines, initial values):
# (lean name, file, regex with ONE group capturing a C constant expression). The captured text is compiled and printed.
TEXTCONSTS = [
    ("H4TOOLS_BUFSIZE", "mfhdf/hrepack/hrepack_sds.c", r"#define\s+H4TOOLS_BUFSIZE\s+(\([^)]*\))"),
    ("H4TOOLS_MALLOCSIZE", "mfhdf/hrepack/hrepack_sds.c", r"#define\s+H4TOOLS_MALLOCSIZE\s+(\([^)]*\))"),
    ("SCOMP_SZ", "mfhdf/hrepack/hrepack_parse.c", r"char\s+scomp\[(\d+)\]"),
    ("STYPE_SZ", "mfhdf/hrepack/hrepack_parse.c", r"char\s+stype\[(\d+)\]"),
    ("SDIM_SZ", "mfhdf/hrepack/hrepack_parse.c", r"char\s+sdim\[(\d+)\]"),
    ("DEFAULT_THRESHOLD", "mfhdf/hrepack/hrepack.c", r"options->threshold\s*=\s*(\d+)\s*;"),
    # read_info (the -f option file): the token buffer, the width fscanf may store into it, the buffer of a quoted value
    ("READ_INFO_STYPE_SZ", "mfhdf/hrepack/hrepack.c", r"char\s+stype\[(\d+)\]"),
    ("READ_INFO_TOKEN_WIDTH", "mfhdf/hrepack/hrepack.c", r'fscanf\(\s*fp\s*,\s*"%(\d+)s"\s*,\s*stype\s*\)'),
    ("READ_INFO_SZ", "mfhdf/hrepack/hrepack.c", r"char\s+info\[(\d+)\]"),
]

# expression macros translated from source text: (lean name, file, macro name)
MACROS = [
    ("AN_CREATE_KEY", "hdf/src/mfan_priv.h", "AN_CREATE_KEY"),
    ("AN_KEY2REF", "hdf/src/mfan_priv.h", "AN_KEY2REF"),
    ("AN_KEY2TYPE", "hdf/src/mfan_priv.h", "AN_KEY2TYPE"),
    ("ATOM_TO_GROUP", "hdf/src/atom.c", "ATOM_TO_GROUP"),
    ("ATOM_TO_LOC", "hdf/src/atom.c", "ATOM_TO_LOC"),
    ("MAKE_ATOM", "hdf/src/atom.c", "MAKE_ATOM"),
    ("HASHKEY", "hdf/src/mcache_priv.h", "HASHKEY"),
    ("BASETAG", "hdf/src/hfile_priv.h", "BASETAG"),
    ("SPECIALTAG", "hdf/src/hfile_priv.h", "SPECIALTAG"),
    ("MKSPECIALTAG", "hdf/src/hfile_priv.h", "MKSPECIALTAG"),
]

# expressions translated from STATEMENTS of the source text (C13 SD ids): (lean name, file, function, regex of the statement
# with one group = the right-hand side, parameter names).  The function body is located first, the statement must occur
# exactly once in it.  The right-hand side goes through the same translator as the macros; the value is reduced mod 2^32
# (ids are carried as uint32 bit patterns).
EXPRS = [
    ("SDSTART_ID", "mfhdf/src/mfsd.c", "SDstart", r"\bfid\s*=\s*([^;]*<<[^;]*);", ["cdfid"]),
    ("SDSELECT_ID", "mfhdf/src/mfsd.c", "SDselect", r"\bsdsid\s*=\s*([^;]*<<[^;]*);", ["fid", "index"]),
    ("SDCREATE_ID_BASE", "mfhdf/src/mfsd.c", "SDcreate", r"\bsdsid\s*=\s*([^;]*<<[^;]*);", ["fid"]),
    ("SDGETDIMID_ID", "mfhdf/src/mfsd.c", "SDgetdimid", r"\bid\s*=\s*([^;]*<<[^;]*);", ["sdsid", "dimindex"]),
    ("SDID_KIND", "mfhdf/src/mfsd.c", "SDIhandle_from_id", r"\btmp\s*=\s*(\(id >> 16\)[^;]*);", ["id"]),
    ("SDID_SLOT", "mfhdf/src/mfsd.c", "SDIhandle_from_id", r"\btmp\s*=\s*(\(id >> 20\)[^;]*);", ["id"]),
    ("SDID_VARINDEX", "mfhdf/src/mfsd.c", "SDIget_var", r"\bvarid\s*=\s*([^;]*&[^;]*);", ["sdsid"]),
    ("SDID_DIMINDEX", "mfhdf/src/mfsd.c", "SDIget_dim", r"\bdimindex\s*=\s*([^;]*&[^;]*);", ["id"]),
    ("SDEND_CDFID", "mfhdf/src/mfsd.c", "SDend", r"\bcdfid\s*=\s*([^;]*&[^;]*);", ["id"]),
]

# access-control facts read from the TEXT of the functions (C14): does the function body test DFACC_WRITE?
# (lean name, file, function, regex that must match inside the body for the flag to be true)
FLAGS = [
    ("HDELDD_CHECKS_ACCESS", "hdf/src/hfiledd.c", "Hdeldd", r"!\s*\(\s*file_rec->access\s*&\s*DFACC_WRITE\s*\)"),
    ("HDUPDD_CHECKS_ACCESS", "hdf/src/hfiledd.c", "Hdupdd", r"!\s*\(\s*file_rec->access\s*&\s*DFACC_WRITE\s*\)"),
    ("HDREUSE_CHECKS_ACCESS", "hdf/src/hfiledd.c", "HDreuse_tagref", r"!\s*\(\s*file_rec->access\s*&\s*DFACC_WRITE\s*\)"),
    ("HSETLENGTH_CHECKS_ACCESS", "hdf/src/hfile.c", "Hsetlength", r"!\s*\(\s*access_rec->access\s*&\s*DFACC_WRITE\s*\)"),
    # C13: Hclose refuses a file id through which access elements are still attached (whatever other ids keep the file open)
    ("HPREAD_ZERO_FILLS_RESERVED", "hdf/src/hfile.c", "HP_read", r"file_rec->cache\s*&&\s*\(file_rec->dirty\s*&\s*FILE_END_DIRTY\)\)\s*\|\|\s*bytes\s*>\s*file_rec->f_end_off\s*-\s*file_rec->f_cur_off\)\s*HGOTO_ERROR[^;]*;\s*memset\("),
    # C18: both copy loops of read_info (-t and -c values) test the index against sizeof(info) before they store a character
    ("READ_INFO_BOUNDS_VALUE", "mfhdf/hrepack/hrepack.c", "read_info",
     r"(?:if\s*\(\s*i\s*>=\s*\(int\)\s*sizeof\(info\)\s*\)\s*\{[^}]*goto\s+out;\s*\}\s*info\[i\]\s*=\s*c;[\s\S]*){2}"),
    ("HLCREATE_REFUSES_ZERO", "hdf/src/hblocks.c", "HLcreate", r"block_length\s*<=\s*0\s*\|\|\s*number_blocks\s*<=\s*0"),
    ("HLCONVERT_REFUSES_ZERO", "hdf/src/hblocks.c", "HLconvert", r"block_length\s*<=\s*0\s*\|\|\s*number_blocks\s*<=\s*0"),
    ("HCLOSE_CHECKS_ID_AIDS", "hdf/src/hfile.c", "Hclose", r"HAsearch_atom\(\s*AIDGROUP\s*,[^;]*&file_id\)\s*!=\s*NULL"),
    # C13: the special information of an element (and the access elements it holds itself) is shared only between access records
    # started through the SAME file id
    ("SPINFO_SHARED_PER_FILE_ID", "hdf/src/hfile.c", "HPcompare_accrec_tagref", r"->file_id\s*==\s*[^&|;]*->file_id\s*&&\s*tag1\s*==\s*tag2\s*&&\s*ref1\s*==\s*ref2"),
    # C17: the premise "default descriptor caching".  Hopen assigns file_rec->cache exactly once, and unconditionally from default_cache (the
    # first-open branch, whatever the access mode); the branch for a record that is already in use does not touch it
    ("HOPEN_CACHE_IS_DEFAULT", "hdf/src/hfile.c", "Hopen", r"^(?!(?:.*file_rec->cache\s*=(?!=)){2}).*[;{}]\s*file_rec->cache\s*=\s*default_cache\s*;"),
    # C13: what a FAILED HTPstart inside Hopen does to the use count of the DD atom group (the group every access element of every open
    # file resolves its DD id through).  HTPstart takes the group (HAinit_group(DDGROUP)) BEFORE the loop that reads the DD blocks ...
    ("HTPSTART_TAKES_DDGROUP_FIRST", "hdf/src/hfiledd.c", "HTPstart", r"HAinit_group\s*\(\s*DDGROUP\b.*\bfor\s*\(\s*;\s*;\s*\)"),
    # ... HTPstart gives it back on its own failure path ...
    ("HTPSTART_FAILURE_RELEASES_DDGROUP", "hdf/src/hfiledd.c", "HTPstart", r"\bdone\s*:.*HAdestroy_group\s*\(\s*DDGROUP\b"),
    # ... or Hopen ends the DD list (HTPend: HAdestroy_group(DDGROUP)) of a file whose HTPstart failed
    ("HOPEN_ENDS_DDLIST_OF_FAILED_START", "hdf/src/hfile.c", "Hopen", r"HTPstart\s*\(\s*file_rec\s*\)\s*==\s*FAIL\s*\)\s*\{[^}]*\b(HTPend|HAdestroy_group)\s*\("),
    ("HOPEN_REOPEN_SETS_ACCESS", "hdf/src/hfile.c", "Hopen", r"file_rec->file\s*=\s*f;[^}]*file_rec->access\s*(\|=|=)[^;]*DFACC_WRITE|file_rec->access\s*(\|=|=)[^;}]*(DFACC_WRITE|acc_mode)[^}]*file_rec->file\s*=\s*f;"),
]


CONV_TYPES = ["DFNT_UCHAR8", "DFNT_CHAR8", "DFNT_INT8", "DFNT_UINT8", "DFNT_INT16", "DFNT_UINT16", "DFNT_INT32", "DFNT_UINT32",
              "DFNT_FLOAT32", "DFNT_FLOAT64", "DFNT_INT64", "DFNT_UINT64"]


def gen_conv(tmp):
    """(code, size, swaps) for every number type in the three flavours, by calling DFKNTsize and DFKconvert on a ramp."""
    src = ['#include "hdf.h"\n#include <stdio.h>\n#include <string.h>\nint main(void){\n unsigned char in[16], out[16]; int i;\n']
    for fl in ("0", "DFNT_NATIVE", "DFNT_LITEND"):
        for t in CONV_TYPES:
            src.append(' { int32 nt = %s | %s; int sz = DFKNTsize(nt); for (i=0;i<16;i++){in[i]=(unsigned char)(i+1); out[i]=0;}\n'
                       '   if (sz > 0 && DFKconvert(in, out, nt, 1, DFACC_WRITE, 0, 0) != FAIL) {\n'
                       '     int same = memcmp(in, out, sz) == 0, rev = 1; for (i=0;i<sz;i++) if (out[i] != in[sz-1-i]) rev = 0;\n'
                       '     if (!same && !rev) { printf("X %%d\\n", (int)nt); return 3; }\n'
                       '     printf("R %%d %%d %%d\\n", (int)nt, sz, (same ? 0 : 1)); } }\n' % (t, fl))
    src.append(" return 0;}\n")
    cf = os.path.join(tmp, "gen_conv.c")
    open(cf, "w").write("".join(src))
    exe = os.path.join(tmp, "gen_conv")
    r = subprocess.run(["gcc", "-w", "-DH4_VERIF"] + incflags() + [cf, "-o", exe] + linkflags(), capture_output=True, text=True)
    if r.returncode != 0:
        fail("conversion probe does not compile:\n" + r.stderr[-3000:])
    r = subprocess.run([exe], capture_output=True, text=True, env=dict(os.environ, ASAN_OPTIONS="detect_leaks=0"))
    if r.returncode != 0:
        fail("conversion probe: a routine is neither a copy nor a byte reversal (the model has no such case): " + r.stdout[-300:])
    rows = []
    for line in r.stdout.splitlines():
        p = line.split()
        if p[0] == "R":
            rows.append("(%s, %s, %s)" % (p[1], p[2], p[3]))
    return ("/- GENERATED by /verif/gen/gen.py (Tie A): number-type code, DFKNTsize, 1 = DFKconvert reverses the element bytes on this host. -/\n"
            "namespace H4.Gen.Conv\n\ndef table : List (Nat × Nat × Nat) := [\n  " + ",\n  ".join(rows) + "]\n\nend H4.Gen.Conv\n")


# function bodies translated statement by statement into Lean (gen/c2lean.py): (unit, C file, [functions], options)
# The equivalence theorems H4/Props/C*Fn.lean prove that each translated function computes its hand-written model
# (and stays inside its arrays, divides by nothing that is zero, terminates); a change of the C text changes the
# generated definition and the theorem is re-checked against it.
FNUNITS = [
    ("Hchunks", "hdf/src/hchunks.c",
     ["update_chunk_indices_seek", "compute_chunk_to_array", "compute_array_to_seek", "calculate_seek_in_chunk",
      "update_seek_pos_chunk", "calculate_chunk_num", "calculate_chunk_for_chunk"], {"inline_body": True}),
    # C03: the maximal-contiguous-run decision of NCvario (pointer cursors over shape / edges / origin, unsigned comparisons)
    ("Putget", "mfhdf/src/putget.c", ["NCvcmaxcontig"], {"ignore_calls": ["NCadvise", "H4_NCadvise"], "cflags": ["-DHDF"]}),
    # C05: the splay step of the skipping-Huffman coder (array-form tree; the rows left/right/up[skip_pos] are the regions)
    ("Cskphuff", "hdf/src/cskphuff.c", ["HCIcskphuff_splay", "HCIcskphuff_encode", "HCIcskphuff_decode"],
     {"ignore_calls": ["HEclear", "HEPclear", "HEpush"], "io": {"Hbitwrite": "bitwrite", "Hbitread": "bitread"},
      "abbrev": {"info_cinfo_coder_info_skphuff_info": "skphuff_info"},
      # the encoder/decoder call the translated splay step on the rows left/right/up[skip_pos] of their arrays of rows
      "row_args": {"HCIcskphuff_splay": {"skphuff_info_left": "skphuff_info_skip_pos", "skphuff_info_right": "skphuff_info_skip_pos",
                                         "skphuff_info_up": "skphuff_info_skip_pos"}}}),
    # C06: the byte-swapping and native copy loops; s and d are addresses into ONE flat memory so that in-place use is faithful
    ("Dfkswap", "hdf/src/dfkswap.c", ["DFKsb2b", "DFKsb4b", "DFKsb8b"], {"flat": ["s", "d"], "ignore_calls": ["HEclear", "HEPclear", "HEpush"]}),
    ("Dfknat", "hdf/src/dfknat.c", ["DFKnb1b", "DFKnb2b", "DFKnb4b", "DFKnb8b"], {"flat": ["s", "d"], "ignore_calls": ["HEclear", "HEPclear", "HEpush"]}),
    # C15: the run-length coder of the DFR8 interface (pointer cursors with post-increments, pointer differences; static carry-over buffer)
    ("Dfrle", "hdf/src/dfrle.c", ["DFCIrle", "DFCIunrle"], {}),
    # C08 / C02: the vgroup record encoder (ENCODE macros = byte stores through a moving pointer, strlen/strcpy of name and class)
    ("Vgp", "hdf/src/vgp.c", ["vpackvg"], {"ignore_calls": ["HEclear", "HEPclear", "HEpush"]}),
    # C07 / C02: the vdata header encoder (field table, field names = an array of rows)
    ("Vio", "hdf/src/vio.c", ["vpackvs"], {"ignore_calls": ["HEclear", "HEPclear", "HEpush"]}),
    # C07 / C20: the number-type size switch (its result feeds the field-size limits of VSfdefine / VSsetfields)
    ("Dfconv", "hdf/src/dfconv.c", ["DFKNTsize"], {"twos_complement_bitops": True}),
    # C07 / C20: the Vdata schema functions.  Outside the translated text (trusted base, stated in the generated doc comments): the atom
    # lookups (HAatom_group's answer is the entry parameter vkey_group, HAatom_object's object is the struct `w`), scanattrs (its answer
    # scan_ret and what it stores through &ac / &av are entry parameters), allocation never fails.  DFKNTsize is the translated function of
    # unit Dfconv; the reserved-symbol table rstab[] is the generated table of H4.Gen.Vs; usym[] (array of structs) = one region per member.
    ("Vsfld", "hdf/src/vsfld.c", ["VSfdefine", "VSsetfields"],
     {"ignore_calls": ["HEclear", "HEPclear", "HEpush"],
      "assume_calls": {"HAatom_group": "param:vkey_group", "HAatom_object": "object", "scanattrs": "param:scan_ret"},
      "int_types": {"group_t": [False, 32]}, "use_units": {"Dfconv": ["hdf/src/dfconv.c", ["DFKNTsize"], {"twos_complement_bitops": True}]}, "imports": ["H4.Gen.Vs"], "abbrev": {"w_vs": "vs"}, "null_empties": True,
      "globals": {"rstab.name": "H4.Gen.Vs.RSTAB_NAME", "rstab.type": "H4.Gen.Vs.RSTAB_TYPE", "rstab.isize": "H4.Gen.Vs.RSTAB_ISIZE",
                  "rstab.order": "H4.Gen.Vs.RSTAB_ORDER"}}),
    # C09: the interlace converter (blocks allocated with malloc: arrays of flat addresses and of increments; switch on the interlace; the
    # `goto done` idiom; memcpy inside one flat memory).  DFKNTsize's result is the entry parameter comp_size_nt.
    ("Mfgr", "hdf/src/mfgr.c", ["GRIil_convert"],
     {"ignore_calls": ["HEclear", "HEPclear", "HEpush"], "flat": ["inbuf", "outbuf"], "assume_calls": {"DFKNTsize": "param:comp_size_nt"}}),
    # C08 / C20: the member insertion with its 16-bit limit test and the doubling of the member arrays (realloc)
    ("Vgp2", "hdf/src/vgp.c", ["vinsertpair"], {"ignore_calls": ["HEclear", "HEPclear", "HEpush"]}),
    # C12: the bit vector behind the reference-number allocator (struct parameter with a growing buffer: realloc, memset; static tables as
    # globals from H4.Gen.Bitvect; bv_find_next_zero calls the translated bv_set)
    ("Bitvect2", "hdf/src/bitvect.c", ["bv_get", "bv_set", "bv_find_next_zero"],
     {"ignore_calls": ["HEclear", "HEPclear", "HEpush"], "imports": ["H4.Gen.Bitvect"], "int_types": {"bv_bool": [False, 32], "bv_base": [False, 8]},
      "twos_complement_bitops": True,
      "globals": {"bv_bit_value": "H4.Gen.Bitvect.bv_bit_value", "bv_first_zero": "H4.Gen.Bitvect.bv_first_zero", "bv_bit_mask": "H4.Gen.Bitvect.bv_bit_mask"}}),
    # C05: the run-length coder state machines (switch on the coder state, stream I/O through HDgetc/HDputc/Hread/Hwrite modelled as an input
    # stream with position and an output stream; enum constants are compiled and printed)
    # ... and the functions AROUND them in which the `encoding` flag is reset and tested and the coder is flushed: HCIcrle_init,
    # HCIcrle_staccess (-> HCIcrle_init), HCPcrle_read / HCPcrle_write (-> decode / encode), HCPcrle_endaccess (-> HCIcrle_term).
    # `info = (compinfo_t *)access_rec->special_info` is an alias of a member of the parameter; the calls on the underlying access id whose
    # effect is outside the record (Hseek to 0, Hstartread / Hstartaccess, Hendaccess) are assumed to succeed - the session model
    # lean/H4/RleSess.lean gives them their effect on the position.  HCPcrle_seek stays a hand model there (translator: `tmp_buf = malloc`
    # inside a condition, a pointer local as array argument).
    ("Crle", "hdf/src/crle.c", ["HCIcrle_encode", "HCIcrle_term", "HCIcrle_decode", "HCIcrle_init", "HCIcrle_staccess", "HCPcrle_read",
                                "HCPcrle_write", "HCPcrle_endaccess"],
     {"ignore_calls": ["HEclear", "HEPclear", "HEpush"], "io": {"HDgetc": "getc", "HDputc": "putc", "Hread": "read", "Hwrite": "write"},
      "assume_calls": {"Hseek": 0, "Hendaccess": 0, "Hstartread": "param:new_aid", "Hstartaccess": "param:new_aid"},
      "abbrev": {"info_cinfo_coder_info_rle_info": "rle", "access_rec_special_rle": "rle", "access_rec_special_info": "info"}}),
    # C03 / C20: the shape and index arithmetic of the SD/netCDF layer.  NC_var_shape: the dimension sizes are reached through an array of
    # pointers to NC_dim (region dims_values_size = their `size` members), shape[] / dsizes[] are blocks the function allocates and then
    # seats into the variable (var_shape_seat / var_dsizes_seat), `goto out`, a switch that falls into `default: break`.
    ("Var", "mfhdf/src/var.c", ["NC_var_shape"],
     {"ignore_calls": ["NCadvise", "H4_NCadvise", "nc_serror", "H4_nc_serror"], "cflags": ["-DHDF"], "int_types": {"nc_type": [False, 32]},
      "c_names": {"NC_var_shape": "H4_NC_var_shape"}}),
    # NCcoordck (bounds check of a coordinate vector, growth of the record dimension: the fill-on-extend I/O is a set of ASSUMED calls whose
    # results are entry parameters; `boundary` is a pointer local that can be NULL; `goto bad`) and NC_varoffset (the CDF_FILE groups of its
    # two switches - a linked list of VXR records - are left out: reaching them is flagged).
    ("Putget2", "mfhdf/src/putget.c", ["NCcoordck", "NC_varoffset"],
     {"ignore_calls": ["NCadvise", "H4_NCadvise", "nc_serror", "H4_nc_serror", "HDmemfill", "NC_arrayfill", "H4_NC_arrayfill"], "cflags": ["-DHDF"],
      "int_types": {"nc_type": [False, 32]}, "twos_complement_bitops": True, "c_names": {"NCcoordck": "H4_NCcoordck"},
      "unmodelled_cases": ["CDF_FILE"],
      "assume_calls": {"nc_API": "param:nc_api", "H4_nc_API": "param:nc_api", "hdf_get_vp_aid": "param:get_aid", "H4_hdf_get_vp_aid": "param:get_aid",
                       "Hseek": "param:seek_ret", "DFKconvert": "param:convert_ret", "Hwrite": "param:write_ret",
                       "hdf_xdr_setpos": "param:setpos_ret", "H4_hdf_xdr_setpos": "param:setpos_ret", "NCfillrecord": "param:fillrec_ret",
                       "xdr_numrecs": "param:xdr_numrecs_ret", "H4_xdr_numrecs": "param:xdr_numrecs_ret"},
      "assume_ptr_calls": {"NC_findattr": "fillattr_null", "H4_NC_findattr": "fillattr_null"}}),
    # C12 / C20 / C02: the reference-number allocator and the DD-block codec of hfiledd.c.
    #   Hnewref / Htagnewref: `file_rec` (the result of HIfid2rec = HAatom_group / HAatom_object) and the tag-tree node found by tbbtdfind are
    #   OBJECTS outside the function (entry fields, `_null` = not found); HTIfind_dd is answered from a table indexed by the ref looked for;
    #   Htagnewref calls the translated bv_find_next_zero of unit Bitvect2.
    #   HTPsync_ddlist / HTPstart_ddlist: FRAGMENTS (the loops that serialise / parse the dd_t records of one block, with the HP_write / HP_read of
    #   the block's bytes); `list` / `curr_dd_ptr` are cursors over the array of structs block->ddlist; HTIregister_tag_ref is answered from a
    #   table indexed by the position of the descriptor; the back pointer dd->blk is outside the modelled state.
    ("Hfiledd", "hdf/src/hfiledd.c", ["Hnewref", "Htagnewref", "HTPsync_ddlist", "HTPstart_ddlist"],
     {"ignore_calls": ["HEclear", "HEPclear", "HEpush"], "object_calls": ["HAatom_group", "HAatom_object", "tbbtdfind"],
      "twos_complement_bitops": True, "wrap_int_conv": True,
      "assume_calls": {"HTIfind_dd": "table:3", "HTIregister_tag_ref": "table:2"}, "use_units": ["Bitvect2"],
      "io": {"HP_read": "read", "HP_write": "write"}, "io_args": {"HP_read": [3, 2], "HP_write": [3, 2]},
      "ignore_members": ["blk"],
      "fragments": {"HTPsync_ddlist": {"of": "HTPsync", "from": "list = &block->ddlist[0]", "to": "if (HP_write(file_rec, tbuf"},
                    "HTPstart_ddlist": {"of": "HTPstart", "from": "curr_dd_ptr = ddcurr->ddlist", "to": "for (i = 0"}}}),
    # C05: the n-bit coder (mask table of HCIcnbit_init: arrays of structs as one region per field, memset of the record array; the
    # per-byte loops of HCIcnbit_encode / HCIcnbit_decode over a struct pointer that MOVES over mask_info[] (a cursor = an index field);
    # Hbitwrite / Hbitread as the stream builtins; HDmemfill as a builtin; the static mask tables are the generated H4.Gen.Cnbit ones;
    # Hbitseek's result is an entry parameter of HCIcnbit_init; `~mask` on int needs two's-complement bit operations in HCIcnbit_init)
    ("Cnbit", "hdf/src/cnbit.c", ["HCIcnbit_init", "HCIcnbit_encode", "HCIcnbit_decode"],
     {"ignore_calls": ["HEclear", "HEPclear", "HEpush"], "io": {"Hbitwrite": "bitwrite", "Hbitread": "bitread"},
      "abbrev": {"access_rec_special_info_cinfo_coder_info_nbit_info": "nbit", "info_cinfo_coder_info_nbit_info": "nbit"},
      "imports": ["H4.Gen.Cnbit"], "globals": {"mask_arr8": "H4.Gen.Cnbit.mask_arr8", "mask_arr32": "H4.Gen.Cnbit.mask_arr32"},
      "assume_calls": {"Hbitseek": "param:bitseek_ret"}, "per_fn": {"HCIcnbit_init": {"twos_complement_bitops": True}}}),
    # C08 / C02: the vgroup record DECODER (DECODE macros = byte loads through a moving pointer with signed / unsigned bit operations:
    # two's complement semantics; arrays, names and the attribute list are allocated with malloc and assigned to members of *vg;
    # HIstrncpy of name and class; `goto done` on allocation failure)
    ("Vgp3", "hdf/src/vgp.c", ["vunpackvg"],
     {"ignore_calls": ["HEclear", "HEPclear", "HEpush"], "twos_complement_bitops": True, "wrap_int_conv": True,
      "malloc_null_above_ptrdiff_max": True}),
    # C07 / C02: the vdata header DECODER (as Vgp3; in addition: the five field arrays are cursors into ONE malloc'ed block `wlist.bptr` of
    # 16-bit cells, the field names an array of rows each allocated in the loop and filled by HIstrncpy, vsname / vsclass fixed arrays of
    # *vs, the attribute list an array of three-field structs; map_from_old_types (vconv.c) and DFKNTsize (dfconv.c) are pure functions
    # of their argument: parameters of the translated function)
    ("Vio3", "hdf/src/vio.c", ["vunpackvs"],
     {"ignore_calls": ["HEclear", "HEPclear", "HEpush"], "twos_complement_bitops": True, "wrap_int_conv": True,
      "malloc_null_above_ptrdiff_max": True, "pure_calls": ["map_from_old_types", "DFKNTsize"],
      "member_cursors": {"wlist_type": "wlist_bptr", "wlist_off": "wlist_bptr", "wlist_isize": "wlist_bptr", "wlist_order": "wlist_bptr",
                         "wlist_esize": "wlist_bptr"},
      "block_cell": {"wlist_bptr": 2}}),
    # C02 / C05: the model/coder header of a compressed element (switch on the coder type; ENCODE / DECODE macros through the moving
    # pointer parameter p; comp_info is a union: the members of ONE coder are touched per call).  comp_model_t / comp_coder_t are enums
    # (unsigned int with gcc and clang); `&`/`|` on signed operands are two's complement; `(int32)` of a uint32 wraps (wrap_int_conv)
    ("Hcomp", "hdf/src/hcomp.c", ["HCPencode_header", "HCPdecode_header"],
     {"ignore_calls": ["HEclear", "HEPclear", "HEpush"], "twos_complement_bitops": True, "wrap_int_conv": True,
      "int_types": {"comp_model_t": [False, 32], "comp_coder_t": [False, 32]}}),
    # C15 / C02: the 20-byte image-dimension record DFTAG_ID / DFTAG_LD of the GR interface: the reader Decode_diminfo (called from
    # GRIget_image_list) and the block of GRIupdatemeta that builds the record of the image (a FRAGMENT: the ENCODE macros between the
    # two marker statements; `p` and the members of img_ptr->img_dim it reads are entry parameters)
    ("MfgrRec", "hdf/src/mfgr.c", ["Decode_diminfo", "GRIupdatemeta_id"],
     {"ignore_calls": ["HEclear", "HEPclear", "HEpush"], "twos_complement_bitops": True, "wrap_int_conv": True,
      "fragments": {"GRIupdatemeta_id": {"of": "GRIupdatemeta", "from": "INT32ENCODE(p, img_ptr->img_dim.xdim)",
                                         "to": "UINT16ENCODE(p, img_ptr->img_dim.comp_ref)"}}}),
    # C16: the physical I/O layer.  HI_SEEK / HI_READ_AVAIL / HI_WRITE are translated in their expanded form (fseek / fread / ferror / fwrite):
    # every stdio call is a request whose RESULT is the next cell of the tape `io_res` (so the theorems quantify over every outcome of every
    # call) and which is appended, with its result, to `io_log`; clearerr only touches the stream's error indicator, i.e. the answers of
    # ferror, which are arbitrary already.  fileop_t is an enum (last_op).  The (int32) of fread's size_t result wraps.
    ("Hfile", "hdf/src/hfile.c", ["HPseek", "HP_read", "HP_write", "HIextend_file", "HPgetdiskblock", "HPfreediskblock"],
     {"ignore_calls": ["HEclear", "HEPclear", "HEpush", "clearerr"], "wrap_int_conv": True, "int_types": {"fileop_t": [False, 32]},
      "io": {"fseek": "stdio_fseek", "fread": "stdio_fread", "fwrite": "stdio_fwrite", "ferror": "stdio_ferror"}}),
    # C18: hrepack's option parser.  parse_comp / parse_chunk walk the NUL-terminated argument string character by character into the local
    # token buffers obj[], scomp[], stype[], smask[], sdim[] (local arrays start POISONED), the object list is a malloc'ed array of
    # obj_list_t = { char obj[H4_MAX_NC_NAME] } (a row struct: one region, 256 cells per element), strcmp against string literals, atoi, isdigit
    # (builtins; the file is parsed with -D__NO_CTYPE so that isdigit stays a call), `goto out`, a switch on comp->type; rejection = return NULL.
    ("Repack", "mfhdf/hrepack/hrepack_parse.c", ["parse_comp", "parse_chunk"],
     {"ignore_calls": ["printf"], "libc_builtins": True, "row_structs": ["obj_list_t"], "poison_locals": True, "cflags": ["-D__NO_CTYPE"],
      "int_types": {"comp_coder_t": [False, 32]}}),
    # is_reserved: the strcmp chain over the library's class names and the strncmp prefix test
    ("Repack2", "mfhdf/hrepack/hrepack_utils.c", ["is_reserved"], {"ignore_calls": ["printf"], "libc_builtins": True}),
    # C05: the bit-I/O layer (bitrec_t found by an atom lookup = entry parameters `rec_*`; bytep / bytez are cursors into the buffer bytea;
    # Hread / Hwrite / Hseek on one random-access element io_elt / io_epos / io_enew).  The static call graph has a cycle
    # Hbitwrite -> HIread2write -> Hbitseek -> HIbitflush -> Hbitwrite that no execution closes (Hbitseek flushes with flushbit = -1, and then
    # HIbitflush does not call Hbitwrite): Hbitseek calls the variant HIbitflush_m, the same C text with the call of Hbitwrite trapped (ub).
    ("Hbitio2", "hdf/src/hbitio.c", ["HIbitflush_m", "Hbitseek", "HIread2write", "Hbitwrite", "HIbitflush", "HIwrite2read", "Hbitread"],
     {"ignore_calls": ["HEclear", "HEPclear", "HEpush"], "imports": ["H4.Gen.Hbitio"],
      "globals": {"maskc": "H4.Gen.Hbitio.maskc", "maskl": "H4.Gen.Hbitio.maskl"},
      "struct_locals": ["bitfile_rec"],
      "cursors": {"bitfile_rec_bytep": "bitfile_rec_bytea", "bitfile_rec_bytez": "bitfile_rec_bytea"},
      "io": {"Hread": "eread", "Hwrite": "ewrite", "Hseek": "eseek"},
      "const_narrowing": True, "segments": True,
      "variants": {"HIbitflush_m": {"of": "HIbitflush", "trap_calls": ["Hbitwrite"]}},
      "per_fn": {"Hbitseek": {"call_map": {"HIbitflush": "HIbitflush_m"}}},
      "abbrev": {"bitfile_rec": "rec"}}),
    # C01 / C20 (unit Hfile2; unit Hfile = the physical layer below, C16): the ordinary-element paths of the access-record functions of hfile.c (Hinquire, Hseek, Hread, Hsetlength, Hwrite, Htrunc and the
    # static HIrefresh_new they call).  `access_rec` / `file_rec` (results of HIaid2rec / HIfid2rec = HAatom_group + HAatom_object) are OBJECTS
    # outside the function (entry fields, `_null`; a dereference while `_null` is undefined behaviour: check_object_null); the special-element
    # dispatch `(*access_rec->special_func->f)(…)` is outside the translated text (reaching it is recorded in `ub`).  The layer below is a set of
    # ASSUMED calls with written CONTRACTS (call_specs: result = an entry parameter, integer arguments appended to the call log `calls`, stores):
    #   HTPinquire (code 1) hands out the DD fields dd_tag / dd_ref / dd_off / dd_len (state fields) through its non-NULL arguments;
    #   HTPupdate (2) sets dd_off / dd_len (-2 = keep) and raises f_end_off to the end of the extent (HTIupdate_dd's last statement);
    #   HPseek (3) sets f_cur_off; HP_read (4) / HP_write (5) advance it; HPgetdiskblock (7) returns its parameter and advances f_end_off;
    #   HLconvert (6) and the calls of Hseek (8) / Hwrite (9) on the converted element return their parameter.
    # Hwrite calls the translated Hsetlength, Hread / Hwrite / Hsetlength the translated HIrefresh_new (share_fields: the callee's object and
    # contract fields are the caller's, checked: resolved from the same id).
    ("Hfile2", "hdf/src/hfile.c", ["HIrefresh_new", "Hinquire", "Hseek", "Hread", "Hsetlength", "Hwrite", "Htrunc"],
     {"ignore_calls": ["HEclear", "HEPclear", "HEpush", "HEreport"], "object_calls": ["HAatom_group", "HAatom_object"], "wrap_int_conv": True,
      "unmodelled_indirect_calls": True, "check_object_null": True, "share_fields": True,
      "call_specs": {
          "HTPinquire": {"ret": "HTPinquire_ret", "log": 1, "out": {2: "dd_tag", 3: "dd_ref", 4: "dd_off", 5: "dd_len"}},
          "HTPupdate": {"ret": "HTPupdate_ret", "log": 2,
                        "set": [["dd_off", "(if $2 = -2 then s.dd_off else $2)"], ["dd_len", "(if $3 = -2 then s.dd_len else $3)"],
                                ["file_rec_f_end_off", "(if (if $2 = -2 then s.dd_off else $2) ≠ -1 ∧ (if $3 = -2 then s.dd_len else $3) ≠ -1 ∧ "
                                 "(if $2 = -2 then s.dd_off else $2) + (if $3 = -2 then s.dd_len else $3) > s.file_rec_f_end_off "
                                 "then (if $2 = -2 then s.dd_off else $2) + (if $3 = -2 then s.dd_len else $3) else s.file_rec_f_end_off)"]]},
          "HPseek": {"ret": "HPseek_ret", "log": 3, "set": [["file_rec_f_cur_off", "$2"]]},
          "HP_read": {"ret": "HP_read_ret", "log": 4, "set": [["file_rec_f_cur_off", "s.file_rec_f_cur_off + $3"]]},
          "HP_write": {"ret": "HP_write_ret", "log": 5, "set": [["file_rec_f_cur_off", "s.file_rec_f_cur_off + $3"]]},
          "HLconvert": {"ret": "HLconvert_ret", "log": 6},
          "HPgetdiskblock": {"ret": "HPgetdiskblock_ret", "log": 7, "set": [["file_rec_f_end_off", "s.file_rec_f_end_off + $2"]]},
          "Hseek": {"ret": "reseek_ret", "log": 8},
          "Hwrite": {"ret": "rewrite_ret", "log": 9}}}),
]


def gen_fnunits(files):
    import c2lean
    specs = {u: [c, f, o] for u, c, f, o in FNUNITS}
    for unit, cfile, fns, opts in FNUNITS:
        if isinstance(opts.get("use_units"), list):
            # units whose translated functions this one calls: the translator needs their definition to learn the callees' parameters
            opts = dict(opts, use_units={u: specs[u] for u in opts["use_units"]})
        try:
            txt, _ = c2lean.translate_unit(repo, bdir, unit, cfile, fns, opts)
        except c2lean.Unsupported as e:
            # only the properties whose theorems import this unit lose their proof: the file is made ill-typed on purpose
            msg = str(e).replace('"', "'").replace("\n", " ")[:600]
            txt = ("/- GENERATED by /verif/gen/c2lean.py: TRANSLATION FAILED, the C text of %s left the supported subset. -/\n"
                   "namespace H4.Gen.Fn.%s\n\ndef c2lean_translation_failed : Nat := \"C2LEAN FAILURE: %s\"\n\nend H4.Gen.Fn.%s\n" % (cfile, unit, msg, unit))
        files["Fn/%s.lean" % unit] = txt


def fail(msg):
    print("TIE-A FAILURE: " + msg)
    sys.exit(1)


def sha(path):
    return hashlib.sha256(open(path, "rb").read()).hexdigest()[:16]


def incflags():
    fl = ["-I" + HS, "-I" + MS, "-I" + os.path.join(repo, "mfhdf/hrepack"), "-I" + os.path.join(repo, "mfhdf/hdiff")]
    if bdir:
        fl += ["-I" + bdir, "-I" + os.path.join(bdir, "hdf/src"), "-I" + os.path.join(bdir, "mfhdf/src")]
    return fl


def linkflags():
    # units that #include a .c file reference other library symbols; link the library built from the same tree
    if not bdir:
        return []
    fl = []
    if "-asan-" in bdir:
        fl.append("-fsanitize=address,undefined")
    return fl + [os.path.join(bdir, "bin/libmfhdf.a"), os.path.join(bdir, "bin/libhdf.a"), "-lz", "-ljpeg", "-lm"]


def gen_unit(name, prologue, consts, tables, tmp):
    src = [prologue, "#include <stdio.h>\n#include <inttypes.h>\nint main(void){\n"]
    for c in consts:
        ln, ce = (c, c) if isinstance(c, str) else c
        src.append('  printf("C %s %%lld\\n", (long long)(%s));\n' % (ln, ce))
    for tb in tables:
        if len(tb) == 4:
            # table of C strings (the expression mentions the index `i`): one row of character codes per string, each with its NUL
            ln, arr, n, _ = tb
            src.append('  printf("S %s"); for (int i=0;i<(int)(%s);i++) { const char *p_ = (%s); printf(" |"); for (;;) { printf(" %%d", (int)(unsigned char)*p_); if (!*p_) break; p_++; } } printf("\\n");\n' % (ln, n, arr))
            continue
        ln, arr, n = tb
        src.append('  printf("T %s"); for (int i=0;i<(int)(%s);i++) printf(" %%lld", (long long)(%s)[i]); printf("\\n");\n' % (ln, n, arr))
    src.append("  return 0;}\n")
    cf = os.path.join(tmp, "gen_%s.c" % name)
    open(cf, "w").write("".join(src))
    exe = os.path.join(tmp, "gen_%s" % name)
    r = subprocess.run(["gcc", "-w", "-DH4_VERIF"] + incflags() + [cf, "-o", exe] + linkflags(), capture_output=True, text=True)
    if r.returncode != 0:
        fail("unit %s does not compile against the current headers:\n%s" % (name, r.stderr[-3000:]))
    r = subprocess.run([exe], capture_output=True, text=True, env=dict(os.environ, ASAN_OPTIONS="detect_leaks=0"))
    if r.returncode != 0:
        fail("unit %s generator crashed" % name)
    out = ["/- GENERATED by /verif/gen/gen.py from /repo's current sources (Tie A). Do not edit. -/\n",
           "namespace H4.Gen.%s\n\n" % name]
    for line in r.stdout.splitlines():
        p = line.split()
        if p[0] == "C":
            v = int(p[2])
            if v < 0:
                out.append("def %s : Int := %d\n" % (p[1], v))
            else:
                out.append("def %s : Nat := %d\n" % (p[1], v))
        elif p[0] == "T":
            vals = [int(x) for x in p[2:]]
            ty = "Int" if any(v < 0 for v in vals) else "Nat"
            out.append("def %s : List %s := [%s]\n" % (p[1], ty, ", ".join(str(v) for v in vals)))
        elif p[0] == "S":
            rows = [r.split() for r in " ".join(p[2:]).split("|")[1:]]
            out.append("def %s : List (List Int) := [%s]\n" % (p[1], ", ".join("[%s]" % ", ".join(r) for r in rows)))
    out.append("\nend H4.Gen.%s\n" % name)
    return "".join(out)


# ---------------------------------------------------------------------------- macro translator
TOK = re.compile(r"\s*(0[xX][0-9a-fA-F]+|\d+|[A-Za-z_]\w*|<<|>>|&&|\|\||[()&|^+\-*/%~,?:])")
CASTS = {"int": 32, "unsigned": 32, "uint16": 16, "uint8": 8, "uint32": 32, "int32": 32, "int16": 16, "uint16_t": 16, "uint32_t": 32, "int32_t": 32,
         "atom_t": 32, "group_t": 32}


def macro_text(path, name):
    txt = open(os.path.join(repo, path)).read().replace("\\\n", " ")
    ms = list(re.finditer(r"^[ \t]*#[ \t]*define[ \t]+%s\(([^)]*)\)[ \t]+(.*)$" % re.escape(name), txt, re.M))
    if not ms:
        fail("macro %s not found in %s" % (name, path))
    # several definitions (#ifdef variants): take the one that is not a plain function call wrapper
    m = ms[0]
    for cand in ms:
        if not re.match(r"^\(?\s*HD\w+\(", cand.group(2).strip()):
            m = cand
            break
    params = [p.strip() for p in m.group(1).split(",")]
    body = re.sub(r"/\*.*?\*/", "", m.group(2)).strip()
    return params, body


class P:
    """precedence-climbing parser for the C expression subset -> Lean Nat expression (bitwise on Nat)."""
    PREC = {"|": 1, "^": 2, "&": 3, "<<": 5, ">>": 5, "+": 6, "-": 6, "*": 7, "/": 7, "%": 7}
    LEAN = {"|": "|||", "^": "^^^", "&": "&&&", "<<": "<<<", ">>": ">>>", "+": "+", "-": "-", "*": "*", "/": "/", "%": "%"}

    def __init__(self, s, params, known):
        self.toks, pos = [], 0
        while pos < len(s):
            m = TOK.match(s, pos)
            if not m:
                if s[pos:].strip() == "":
                    break
                fail("macro translator: cannot tokenise %r" % s[pos:])
            self.toks.append(m.group(1)); pos = m.end()
        self.i, self.params, self.known = 0, params, known

    def peek(self):
        return self.toks[self.i] if self.i < len(self.toks) else None

    def eat(self, t=None):
        x = self.peek()
        if t is not None and x != t:
            fail("macro translator: expected %s got %s" % (t, x))
        self.i += 1
        return x

    def cond(self):
        """conditional expression  c ? a : b   and the logical operators && || (value 1/0), lowest precedence"""
        c = self.lor()
        if self.peek() == "?":
            self.eat()
            a = self.cond()
            self.eat(":")
            b = self.cond()
            return "(if %s != 0 then %s else %s)" % (c, a, b)
        return c

    def lor(self):
        lhs = self.land()
        while self.peek() == "||":
            self.eat()
            rhs = self.land()
            lhs = "(if %s != 0 || %s != 0 then 1 else 0)" % (lhs, rhs)
        return lhs

    def land(self):
        lhs = self.expr()
        while self.peek() == "&&":
            self.eat()
            rhs = self.expr()
            lhs = "(if %s != 0 && %s != 0 then 1 else 0)" % (lhs, rhs)
        return lhs

    def expr(self, minp=0):
        lhs = self.unary()
        while True:
            op = self.peek()
            if op in self.PREC and self.PREC[op] >= minp:
                self.eat()
                rhs = self.expr(self.PREC[op] + 1)
                if op == "-":
                    # 32-bit unsigned wrap-around subtraction
                    lhs = "((%s + 4294967296 - (%s %% 4294967296)) %% 4294967296)" % (lhs, rhs)
                else:
                    lhs = "(%s %s %s)" % (lhs, self.LEAN[op], rhs)
            else:
                return lhs

    def unary(self):
        t = self.peek()
        if t == "~":
            # only the idiom  x & ~C  with a generated/literal constant C inside a 16-bit cast is supported
            self.eat()
            inner = self.unary()
            return "(65535 - (%s %% 65536))" % inner
        if t == "(":
            self.eat()
            if self.peek() in CASTS:
                w = CASTS[self.eat()]
                self.eat(")")
                inner = self.unary()
                return "(%s %% %d)" % (inner, 2 ** w)
            e = self.cond()
            self.eat(")")
            return e
        self.eat()
        if t is None:
            fail("macro translator: unexpected end")
        if t == "sizeof":
            self.eat("(")
            ty = self.eat()
            self.eat(")")
            if ty not in CASTS:
                fail("macro translator: sizeof(%s) unknown" % ty)
            return str(CASTS[ty] // 8)
        if re.match(r"0[xX]", t):
            return str(int(t, 16))
        if t.isdigit():
            return str(int(t))
        if t in self.params:
            return t
        if t in self.known:
            return str(self.known[t])
        fail("macro translator: identifier %s outside the supported subset" % t)


def gen_textconsts(tmp):
    exprs = []
    for ln, path, rx in TEXTCONSTS:
        txt = open(os.path.join(repo, path)).read()
        ms = re.findall(rx, txt)
        if len(set(ms)) != 1:
            fail("text constant %s: pattern %r matches %d different texts in %s" % (ln, rx, len(set(ms)), path))
        exprs.append((ln, ms[0]))
    return gen_unit("Tools", '#include "hdf.h"\n#include "mfhdf.h"\n#include "hrepack.h"\n',
                    ["COMP_CODE_NONE", "COMP_CODE_RLE", "COMP_CODE_NBIT", "COMP_CODE_SKPHUFF", "COMP_CODE_DEFLATE", "COMP_CODE_SZIP",
                     "COMP_CODE_INVALID", "COMP_CODE_JPEG", "HDF_NONE", "HDF_CHUNK", "HDF_COMP", "HDF_NBIT", "H4_MAX_NC_NAME", "H4_MAX_VAR_DIMS",
                     "SD_UNLIMITED", "NN_MODE", "EC_MODE"] + exprs, [], tmp)


def gen_textconsts(tmp):
    exprs = []
    for ln, path, rx in TEXTCONSTS:
        txt = open(os.path.join(repo, path)).read()
        ms = re.findall(rx, txt)
        if len(set(ms)) != 1:
            fail("text constant %s: pattern %r matches %d different texts in %s" % (ln, rx, len(set(ms)), path))
        exprs.append((ln, ms[0]))
    # hrepack_utils.c:is_reserved - the class names compared with strcmp (in source order) and the strncmp prefix, as character tables
    body = function_body("mfhdf/hrepack/hrepack_utils.c", "is_reserved")
    names = re.findall(r"strcmp\(\s*vgroup_class\s*,\s*(\w+)\s*\)\s*==\s*0", body)
    pref = re.findall(r'strncmp\(\s*vgroup_class\s*,\s*("[^"]*")\s*,\s*(\d+)\s*\)\s*==\s*0', body)
    if not names or len(pref) != 1 or re.search(r"\b(Visinternal|VSisinternal|strstr|strcasecmp|strncasecmp)\b", body) or len(re.findall(r"\bstrn?cmp\b", body)) != len(names) + 1:
        fail("is_reserved (hrepack_utils.c) is no longer a chain of strcmp(vgroup_class, NAME) == 0 tests plus one strncmp prefix test: "
             "%d strcmp, %d strncmp found; the model H4.Tools.isReserved has to follow the new text" % (len(names), len(pref)))
    tables = [("IS_RESERVED_CLASS_%d" % k, nm, "strlen(%s)" % nm) for k, nm in enumerate(names)]
    tables.append(("IS_RESERVED_PREFIX", pref[0][0], "strlen(%s)" % pref[0][0]))
    tables.append(("GR_NAME_CHARS", "GR_NAME", "strlen(GR_NAME)"))
    exprs.append(("IS_RESERVED_NCLASSES", str(len(names))))
    exprs.append(("IS_RESERVED_PREFIX_LEN", pref[0][1]))
    return gen_unit("Tools", '#include "hdf.h"\n#include "mfhdf.h"\n#include "hrepack.h"\n',
                    ["COMP_CODE_NONE", "COMP_CODE_RLE", "COMP_CODE_NBIT", "COMP_CODE_SKPHUFF", "COMP_CODE_DEFLATE", "COMP_CODE_SZIP",
                     "COMP_CODE_INVALID", "COMP_CODE_JPEG", "HDF_NONE", "HDF_CHUNK", "HDF_COMP", "HDF_NBIT", "H4_MAX_NC_NAME", "H4_MAX_VAR_DIMS",
                     "SD_UNLIMITED", "NN_MODE", "EC_MODE"] + exprs, tables, tmp)


def function_body(path, fn):
    """text of the body of the function `fn` (definition at the start of a line, K&R-style return type on the line before)"""
    txt = open(os.path.join(repo, path)).read()
    m = re.search(r"^%s\s*\(" % re.escape(fn), txt, re.M)
    if not m:
        fail("function %s not found in %s" % (fn, path))
    i = txt.index("{", m.end())
    depth, j = 0, i
    while j < len(txt):
        if txt[j] == "{":
            depth += 1
        elif txt[j] == "}":
            depth -= 1
            if depth == 0:
                break
        j += 1
    body = txt[i:j + 1]
    body = re.sub(r"/\*.*?\*/", " ", body, flags=re.S)
    return body


# facts read from the text of a whole file: (lean name, file, regex)
TEXTFLAGS = [
    # C13: the H layer resolves a file / access id only if the id is of that group (typed resolvers next to BADFREC)
    ("H_CHECKS_ID_KIND", "hdf/src/hfile_priv.h", r"#\s*define\s+HIfid2rec\(id\)[^\n]*HAatom_group\(id\)\s*==\s*FIDGROUP[\s\S]*#\s*define\s+HIaid2rec\(id\)[^\n]*HAatom_group\(id\)\s*==\s*AIDGROUP"),
]


def gen_flags_exprs(known):
    out = ["/- GENERATED by /verif/gen/gen.py (Tie A): facts and expressions read from function bodies. Do not edit. -/\n", "namespace H4.Gen.Src\n\n"]
    for ln, path, rx in TEXTFLAGS:
        txt = open(os.path.join(repo, path)).read()
        val = re.search(rx, txt) is not None
        out.append("/-- `%s` %s the definition looked for -/\n" % (path, "contains" if val else "does NOT contain"))
        out.append("def %s : Bool := %s\n\n" % (ln, "true" if val else "false"))
    for ln, path, fn, rx in FLAGS:
        body = function_body(path, fn)
        val = re.search(rx, body, re.S) is not None
        out.append("/-- the body of `%s` (%s) %s the access test -/\n" % (fn, path, "contains" if val else "does NOT contain"))
        out.append("def %s : Bool := %s\n\n" % (ln, "true" if val else "false"))
    for ln, path, fn, rx, params in EXPRS:
        body = function_body(path, fn)
        ms = re.findall(rx, body)
        ms = [m if isinstance(m, str) else m[0] for m in ms]
        if len(ms) != 1:
            fail("expression %s: %d statements match in %s (%s)" % (ln, len(ms), fn, path))
        rhs = " ".join(ms[0].split())
        pp = P(rhs, params, known)
        e = pp.cond()
        if pp.peek() is not None:
            fail("expression %s: trailing tokens %r" % (ln, pp.toks[pp.i:]))
        out.append("/-- `%s`: `%s` -/\n" % (fn, rhs))
        out.append("def %s %s : Nat := %s %% 4294967296\n\n" % (ln, " ".join("(%s : Nat)" % q for q in params), e))
    out.append("end H4.Gen.Src\n")
    return "".join(out)


def gen_macros(known):
    out = ["/- GENERATED by /verif/gen/gen.py (Tie A, macro translator). Do not edit. -/\n", "namespace H4.Gen.Macros\n\n"]
    for ln, path, name in MACROS:
        params, body = macro_text(path, name)
        p = P(body, params, known)
        e = p.cond()
        if p.peek() is not None:
            fail("macro %s: trailing tokens %r" % (name, p.toks[p.i:]))
        out.append("/-- `%s(%s)` = `%s` -/\n" % (name, ",".join(params), body))
        out.append("def %s %s : Nat := %s\n\n" % (ln, " ".join("(%s : Nat)" % q for q in params), e))
    out.append("end H4.Gen.Macros\n")
    return "".join(out)


def main():
    os.makedirs(outdir, exist_ok=True)
    files, sources = {}, {}
    known = {}
    with tempfile.TemporaryDirectory(dir=os.environ.get("VERIF_WORK", None)) as tmp:
        for name, prologue, consts, tables in UNITS:
            txt = gen_unit(name, prologue, consts, tables, tmp)
            for m in re.finditer(r"def (\w+) : (?:Nat|Int) := (-?\d+)", txt):
                known[m.group(1)] = int(m.group(2))
            files[name + ".lean"] = txt
        files["Conv.lean"] = gen_conv(tmp)
        files["Tools.lean"] = gen_textconsts(tmp)
        files["Tools.lean"] = gen_textconsts(tmp)
    sys.path.insert(0, os.path.dirname(os.path.abspath(__file__)))
    gen_fnunits(files)
    files["Macros.lean"] = gen_macros(known)
    files["Src.lean"] = gen_flags_exprs(known)
    digest = {}
    for fn, txt in files.items():
        p = os.path.join(outdir, fn)
        os.makedirs(os.path.dirname(p), exist_ok=True)
        if not os.path.exists(p) or open(p).read() != txt:
            open(p, "w").write(txt)
        digest[fn] = hashlib.sha256(txt.encode()).hexdigest()[:16]
    for rel in ["hdf/src/hfile_priv.h", "hdf/src/hdf.h", "hdf/src/htags.h", "hdf/src/hlimits.h", "hdf/src/hntdefs.h", "hdf/src/crle.c",
                "hdf/src/crle_priv.h", "hdf/src/atom.c", "hdf/src/bitvect.c", "hdf/src/bitvect_priv.h", "hdf/src/vg_priv.h", "hdf/src/hcomp.h", "hdf/src/hfile.c", "hdf/src/hfiledd.c", "hdf/src/mfan_priv.h", "hdf/src/mfan.c", "hdf/src/vgp.c", "hdf/src/vg.c",
                "hdf/src/mcache.c", "hdf/src/mcache_priv.h", "hdf/src/hchunks.c", "hdf/src/hcomp.c", "hdf/src/hfile.h", "hdf/src/vg.h", "hdf/src/hblocks.c", "hdf/src/hextelt.c", "hdf/src/vio.c", "hdf/src/dfrle.c", "hdf/src/dfsd.c", "hdf/src/dfgr.c", "hdf/src/dfr8.c", "hdf/src/mfgr.c", "mfhdf/src/hdfsds.c", "mfhdf/src/cdf.c", "hdf/src/hdf_priv.h", "hdf/src/mfgr.c", "hdf/src/mfgr.h", "hdf/src/hbitio.c", "hdf/src/hbitio_priv.h", "hdf/src/cnbit.c", "hdf/src/cnbit_priv.h", "hdf/src/cskphuff.c", "hdf/src/cskphuff_priv.h", "hdf/src/dfkswap.c", "hdf/src/dfknat.c", "hdf/src/dfconv.c", "mfhdf/hrepack/hrepack_opttable.c", "mfhdf/hrepack/hrepack_utils.c", "mfhdf/hrepack/hrepack_gr.c", "mfhdf/hdiff/hdiff_array.c", "mfhdf/hdiff/hdiff.c", "mfhdf/hdfimport/hdfimport.c", "mfhdf/hdp/hdp_dump.c",
                "hdf/src/mfgr_priv.h", "hdf/src/vattr.c", "hdf/src/mfgr.c", "mfhdf/src/mfsd.c", "mfhdf/src/attr.c", "mfhdf/src/cdf.c"]:
        p = os.path.join(repo, rel)
        if os.path.exists(p):
            sources[rel] = sha(p)
    fn_units = {unit: {"c_file": cfile, "functions": fns} for unit, cfile, fns, _ in FNUNITS}
    print(json.dumps({"files": digest, "sources": sources, "fn_units": fn_units}))


main()
