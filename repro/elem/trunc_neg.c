#include "hdf.h"
#include <stdio.h>
int main(void){
    const char *fn = "/tmp/c01fn_trunc_neg.hdf";
    int32 fid = Hopen(fn, DFACC_CREATE, 16);
    uint8 buf[8] = {1,2,3,4,5,6,7,8};
    int32 aid = Hstartwrite(fid, 100, 1, 8);
    Hwrite(aid, 8, buf);
    int32 r = Htrunc(aid, -5);
    int32 len=0, off=0, posn=0;
    Hinquire(aid, NULL, NULL, NULL, &len, &off, &posn, NULL, NULL);
    printf("Htrunc(aid,-5) = %d; length=%d offset=%d posn=%d\n", (int)r, (int)len, (int)off, (int)posn);
    Hendaccess(aid);
    printf("Hclose=%d\n", (int)Hclose(fid));
    fid = Hopen(fn, DFACC_READ, 0);
    printf("reopen fid=%d Hlength=%d\n", (int)fid, (int)Hlength(fid, 100, 1));
    if (fid != FAIL) { int32 n = Hgetelement(fid, 100, 1, buf); printf("Hgetelement=%d\n", (int)n); Hclose(fid);}    
    return 0;
}
