#include "hdf.h"
#include <stdio.h>
#include <string.h>
int main(void){
    const char *fn = "/tmp/c01fn_read_huge2.hdf";
    int32 fid = Hopen(fn, DFACC_CREATE, 16);
    uint8 big[200]; memset(big, 0xEE, sizeof big);
    uint8 buf[64] = {1,2,3,4,5,6,7,8};
    int32 aid = Hstartwrite(fid, 100, 1, 8);
    Hwrite(aid, 8, buf);
    Hendaccess(aid);
    Hputelement(fid, 200, 1, big, 200);   /* another element after it */
    Hclose(fid);
    fid = Hopen(fn, DFACC_READ, 0);
    aid = Hstartread(fid, 100, 1);
    Hseek(aid, 1, DF_START);
    memset(buf, 0x5a, sizeof buf);
    int32 r = Hread(aid, 0x7fffffff, buf);
    printf("Hread(aid, INT32_MAX) at posn 1 of an 8-byte element = %d (7 expected: clipped at the end)\n", (int)r);
    printf("buf[0..15]:"); for (int i = 0; i < 16; i++) printf(" %02x", buf[i]); printf("\n");
    int32 pos = Htell(aid); printf("posn after = %d\n", (int)pos);
    Hendaccess(aid);
    Hclose(fid);
    return 0;
}
