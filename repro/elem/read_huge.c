#include "hdf.h"
#include <stdio.h>
#include <string.h>
int main(void){
    const char *fn = "/tmp/c01fn_read_huge.hdf";
    int32 fid = Hopen(fn, DFACC_CREATE, 16);
    uint8 buf[64] = {1,2,3,4,5,6,7,8};
    int32 aid = Hstartwrite(fid, 100, 1, 8);
    Hwrite(aid, 8, buf);
    Hseek(aid, 1, DF_START);
    memset(buf, 0x5a, sizeof buf);
    int32 r = Hread(aid, 0x7fffffff, buf);
    printf("Hread(aid, INT32_MAX) at posn 1 of an 8-byte element = %d (7 expected: clipped at the end)\n", (int)r);
    Hseek(aid, 1, DF_START);
    r = Hread(aid, 0x7ffffffe, buf);
    printf("Hread(aid, INT32_MAX-1) = %d\n", (int)r);
    Hseek(aid, 2, DF_START);
    r = Hseek(aid, 0x7fffffff, DF_CURRENT);
    printf("Hseek(aid, INT32_MAX, DF_CURRENT) at 2 = %d\n", (int)r);
    Hendaccess(aid);
    Hclose(fid);
    return 0;
}
