#include "hdf.h"
#include "mfgr.h"
#include <stdio.h>
#include <string.h>
#include <unistd.h>
int main(int argc,char**argv){
  const char *fn="r8b.hdf"; uint8 img[96]; for(int i=0;i<96;i++) img[i]=(uint8)(i/12+3);
  unlink(fn); DFR8restart();
  printf("add1=%d\n", DFR8addimage(fn,img,12,8,COMP_RLE));
  unlink(fn);
  uint8 b[300]; memset(b,7,300); int32 fid=Hopen(fn,DFACC_CREATE,4); Hputelement(fid,1000,1,b,100); Hputelement(fid,1000,2,b,300); Hputelement(fid,1001,1,b,17); Hclose(fid);
  printf("add2=%d\n", DFR8addimage(fn,img,12,8,COMP_RLE));
  printf("add3=%d\n", DFR8addimage(fn,img,12,8,COMP_NONE));
  fid=Hopen(fn,DFACC_READ,0); 
  { int32 aid=Hstartread(fid,DFTAG_WILDCARD,DFREF_WILDCARD); do { uint16 t,r; int32 o,l; Hinquire(aid,NULL,&t,&r,&l,&o,NULL,NULL,NULL); printf("%u/%u off %d len %d\n",t,r,o,l);} while(Hnextread(aid,DFTAG_WILDCARD,DFREF_WILDCARD,DF_CURRENT)!=FAIL); Hendaccess(aid);}
  int32 gr=GRstart(fid); printf("GRstart=%d\n",(int)gr); if(gr!=FAIL){int32 n,a; GRfileinfo(gr,&n,&a); printf("images=%d\n",(int)n); GRend(gr);} else HEprint(stdout,0); Hclose(fid);
  return gr==FAIL; }
