/* a compressed element whose description record (special header) is shorter than the header HCIread_header decodes:
   HPread_drec allocates exactly the DD length, HCIread_header/HCPdecode_header read 10 + 4 + coder parameter bytes without a length test */
#include "hdf.h"
#include <stdio.h>
#include <string.h>
#include <stdlib.h>
int main(int argc, char **argv) {
    const char *fn = "comphdr_short.hdf";
    int newlen = argc > 1 ? atoi(argv[1]) : 12;
    int32 fid = Hopen(fn, DFACC_CREATE, 0);
    comp_info ci; model_info mi; memset(&ci, 0, sizeof ci); memset(&mi, 0, sizeof mi);
    ci.nbit.nt = DFNT_INT32; ci.nbit.sign_ext = 0; ci.nbit.fill_one = 0; ci.nbit.start_bit = 7; ci.nbit.bit_len = 8;
    int32 aid = HCcreate(fid, 1000, 1, COMP_MODEL_STDIO, &mi, COMP_CODE_NBIT, &ci);
    uint8 data[64]; memset(data, 7, sizeof data);
    Hwrite(aid, 64, data); Hendaccess(aid); Hclose(fid);
    /* patch the DD of the special element (tag 1000|0x4000) : length := newlen */
    FILE *f = fopen(fn, "r+b"); unsigned char b[4096]; size_t n = fread(b, 1, sizeof b, f);
    int ndds = b[4] * 256 + b[5];
    for (int i = 0; i < ndds; i++) {
        unsigned char *d = b + 10 + 12 * i;
        int tag = d[0] * 256 + d[1];
        if (tag == (1000 | 0x4000)) {
            printf("special DD found, length %d -> %d\n", (d[8] << 24) | (d[9] << 16) | (d[10] << 8) | d[11], newlen);
            d[8] = d[9] = d[10] = 0; d[11] = (unsigned char)newlen;
            fseek(f, 10 + 12 * i, SEEK_SET); fwrite(d, 1, 12, f);
        }
    }
    fclose(f);
    fid = Hopen(fn, DFACC_READ, 0);
    aid = Hstartread(fid, 1000, 1);
    printf("Hstartread -> %d\n", (int)aid);
    if (aid != FAIL) { int32 r = Hread(aid, 64, data); printf("Hread -> %d\n", (int)r); Hendaccess(aid); }
    Hclose(fid);
    return 0;
}
