/* probe: (a) unaligned byte position read on chunked element nt_size=4; (b) write past end wraps */
#include "hdf.h"
#include "hfile_priv.h"
#include "hchunks_priv.h"
#include <stdio.h>
int main(void){
  int32 fid = Hopen("p1.hdf", DFACC_CREATE, 0);
  HCHUNK_DEF c; DIM_DEF pd[2]; memset(&c,0,sizeof c);
  c.num_dims=1; c.nt_size=4; c.chunk_size=2; c.pdims=pd; c.comp_type=COMP_CODE_NONE; c.model_type=COMP_MODEL_STDIO;
  pd[0].dim_length=4; pd[0].chunk_length=2; pd[0].distrib_type=1;
  uint8 fill[4]={0xf0,0xf1,0xf2,0xf3};
  int32 aid = HMCcreate(fid, 1020, 2, 1, 4, fill, &c);
  uint8 d[16]; for(int i=0;i<16;i++) d[i]=i;
  printf("write16=%d\n", (int)Hwrite(aid,16,d));
  uint8 r[16]; memset(r,0xaa,16);
  printf("seek2=%d ", (int)Hseek(aid,2,DF_START)); int n=Hread(aid,4,r);
  printf("read4@2=%d: %02x %02x %02x %02x (want 02 03 04 05)\n", n, r[0],r[1],r[2],r[3]);
  /* (a2) unaligned len then continue */
  Hseek(aid,0,DF_START); n=Hread(aid,3,r); int n2=Hread(aid,5,r+3);
  printf("read3+5 from 0: %d %d:", n, n2); for(int i=0;i<8;i++) printf(" %02x", r[i]); printf("\n");
  /* (a3) read crossing chunk boundary from unaligned */
  Hseek(aid,6,DF_START); n=Hread(aid,4,r); printf("read4@6=%d: %02x %02x %02x %02x (want 06 07 08 09)\n", n, r[0],r[1],r[2],r[3]);
  /* (b) write past the end */
  uint8 e[8]={0xe0,0xe1,0xe2,0xe3,0xe4,0xe5,0xe6,0xe7};
  printf("seek16=%d ", (int)Hseek(aid,16,DF_START)); n=Hwrite(aid,8,e); printf("write8@16=%d\n", n);
  Hseek(aid,0,DF_START); n=Hread(aid,16,r); printf("read16@0=%d:", n); for(int i=0;i<16;i++) printf(" %02x", r[i]); printf("\n");
  /* (b2) write straddling the end */
  printf("seek12=%d ", (int)Hseek(aid,12,DF_START)); n=Hwrite(aid,8,d); printf("write8@12=%d\n", n);
  Hseek(aid,0,DF_START); n=Hread(aid,16,r); printf("read16@0=%d:", n); for(int i=0;i<16;i++) printf(" %02x", r[i]); printf("\n");
  int32 len; Hinquire(aid,NULL,NULL,NULL,&len,NULL,NULL,NULL,NULL); printf("len=%d\n",(int)len);
  Hendaccess(aid); Hclose(fid);
  return 0;
}
