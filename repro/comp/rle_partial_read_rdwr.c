#include "mfhdf.h"
#include <stdio.h>
#include <string.h>
int main(void){
  const char *fn="rlep.hdf"; int32 dims[1]={1000}, st[1]={0}; uint8 v[1000], r[1000];
  for(int i=0;i<1000;i++) v[i]=(uint8)((i/37)%5);   /* runs */
  int32 sd=SDstart(fn,DFACC_CREATE); int32 sds=SDcreate(sd,"x",DFNT_UINT8,1,dims);
  comp_info ci; memset(&ci,0,sizeof ci); SDsetcompress(sds,COMP_CODE_RLE,&ci);
  SDwritedata(sds,st,NULL,dims,v); SDendaccess(sds); SDend(sd);
  sd=SDstart(fn,DFACC_RDWR); sds=SDselect(sd,0); int32 s2[1]={10}, c2[1]={45};
  int rc=SDreaddata(sds,s2,NULL,c2,r); printf("partial read rc=%d ok=%d\n",rc,memcmp(r,v+10,45)==0);
  SDendaccess(sds); SDend(sd);
  sd=SDstart(fn,DFACC_READ); sds=SDselect(sd,0); rc=SDreaddata(sds,st,NULL,dims,r); int bad=0; for(int i=0;i<1000;i++) if(r[i]!=v[i]) bad++;
  printf("full read rc=%d mismatches=%d\n",rc,bad); SDendaccess(sds); SDend(sd); return bad!=0;
}
