/* C05: a deflate element written sequentially through ONE access id, with a read in between:
 *   Hwrite(460 bytes); Hseek(0); Hread(460); Hwrite(132 more bytes, appended at the end); Hendaccess
 * Expected: the element returns the 592 bytes written.  */
#include "hdf.h"
#include "hcomp.h"
#include <stdio.h>
#include <string.h>
int main(int argc, char **argv)
{
    int A = argc > 1 ? atoi(argv[1]) : 460, B = argc > 2 ? atoi(argv[2]) : 132, coder = argc > 3 ? atoi(argv[3]) : COMP_CODE_DEFLATE;
    static uint8 d[100000], r[100000];
    comp_info ci; model_info mi; int i, bad = 0;
    memset(&ci, 0, sizeof ci); memset(&mi, 0, sizeof mi);
    ci.deflate.level = 6; if (coder == COMP_CODE_SKPHUFF) ci.skphuff.skp_size = 2;
    for (i = 0; i < A + B; i++) d[i] = (uint8)((i * 7) ^ (i >> 3));
    int32 fid = Hopen("d.hdf", DFACC_CREATE, 0);
    int32 aid = HCcreate(fid, 1000, 1, COMP_MODEL_STDIO, &mi, (comp_coder_t)coder, &ci);
    printf("write %d -> %d\n", A, (int)Hwrite(aid, A, d));
    printf("seek 0 -> %d\n", (int)Hseek(aid, 0, DF_START));
    { int32 g0 = Hread(aid, A, r); printf("read %d -> %d  same=%d\n", A, (int)g0, memcmp(r, d, A) == 0); }
    printf("write %d (append) -> %d\n", B, (int)Hwrite(aid, B, d + A));
    printf("endaccess -> %d\n", (int)Hendaccess(aid));
    int32 len = -1; aid = Hstartread(fid, 1000, 1); Hinquire(aid, NULL, NULL, NULL, &len, NULL, NULL, NULL, NULL);
    memset(r, 0, sizeof r);
    int32 g = Hread(aid, A + B, r);
    printf("length reported %d, Hread(%d) -> %d\n", (int)len, A + B, (int)g);
    for (i = 0; i < A + B; i++) if (r[i] != d[i]) { printf("VIOLATION first difference at %d (got %02x want %02x)\n", i, r[i], d[i]); bad = 1; break; }
    Hendaccess(aid); Hclose(fid);
    printf(bad || g != A + B ? "C05 violated\n" : "C05 holds\n");
    return bad || g != A + B;
}
