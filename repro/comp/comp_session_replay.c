/* generic session replayer: sess <coder> op op ...   op = w<n> (append n bytes) | W<n> (append a run of n equal bytes) | s<off> | r<n> | e (Hendaccess, Hstartwrite again); then Hendaccess and verify */
#include "hdf.h"
#include "hcomp.h"
#include <stdio.h>
#include <string.h>
int main(int argc, char **argv)
{
    int coder = atoi(argv[1]);
    static uint8 d[200000], r[200000];
    comp_info ci; model_info mi; int i, bad = 0, w = 0, p = 0;
    memset(&ci, 0, sizeof ci); memset(&mi, 0, sizeof mi);
    ci.deflate.level = 6; if (coder == COMP_CODE_SKPHUFF) ci.skphuff.skp_size = 2;
    for (i = 0; i < 200000; i++) d[i] = (uint8)((i * 7) ^ (i >> 3));
    int32 fid = Hopen("s.hdf", DFACC_CREATE, 0);
    int32 aid = HCcreate(fid, 1000, 1, COMP_MODEL_STDIO, &mi, (comp_coder_t)coder, &ci);
    for (i = 2; i < argc; i++) {
        int n = atoi(argv[i] + 1); int32 g;
        switch (argv[i][0]) {
            case 'W': { int j; uint8 v = (uint8)(d[w ? w - 1 : 0] + 13); for (j = 0; j < n; j++) d[w + j] = v; } /* a run of n equal bytes */
                /* fall through */
            case 'w': g = Hwrite(aid, n, d + w); printf("write %d at %d -> %d\n", n, w, (int)g); w += n; p = w; break;
            case 's': g = Hseek(aid, n, DF_START); printf("seek %d -> %d\n", n, (int)g); p = n; break;
            case 'e': g = Hendaccess(aid); printf("endaccess -> %d; ", (int)g); aid = Hstartwrite(fid, 1000, 1, w); printf("Hstartwrite -> %s\n", aid == FAIL ? "FAIL" : "ok"); p = 0; break;
            case 'r': g = Hread(aid, n, r); printf("read %d at %d -> %d same=%d\n", n, p, (int)g, memcmp(r, d + p, n) == 0); p += n; break;
        }
    }
    printf("endaccess -> %d\n", (int)Hendaccess(aid));
    int32 len = -1; aid = Hstartread(fid, 1000, 1); Hinquire(aid, NULL, NULL, NULL, &len, NULL, NULL, NULL, NULL);
    memset(r, 0, sizeof r);
    int32 g = Hread(aid, w, r);
    printf("length reported %d, Hread(%d) -> %d\n", (int)len, w, (int)g);
    for (i = 0; i < w; i++) if (r[i] != d[i]) { printf("VIOLATION first difference at %d (got %02x want %02x)\n", i, r[i], d[i]); bad = 1; break; }
    Hendaccess(aid); Hclose(fid);
    printf(bad || g != w ? "C05 violated\n" : "C05 holds\n");
    return bad || g != w;
}
