#include "hdf.h"
#include <stdio.h>
#include <string.h>
int main(void){
  int32 f=Hopen("/tmp/vsn.hdf",DFACC_CREATE,0); Vstart(f);
  int32 vs=VSattach(f,-1,"w"); VSsetname(vs,"abcdefgh"); VSfdefine(vs,"x",DFNT_INT32,1); VSsetfields(vs,"x");
  int32 d[3]={1,2,3}; VSwrite(vs,(uint8*)d,3,FULL_INTERLACE); int32 ref=VSQueryref(vs); VSdetach(vs); Vend(f); Hclose(f);
  f=Hopen("/tmp/vsn.hdf",DFACC_RDWR,0); Vstart(f); vs=VSattach(f,ref,"w"); int r=VSsetname(vs,"abcdefg"); printf("setname=%d\n",r); VSdetach(vs); Vend(f); Hclose(f);
  f=Hopen("/tmp/vsn.hdf",DFACC_READ,0); Vstart(f); vs=VSattach(f,ref,"r"); char nm[100]="?"; int32 n=-9;
  printf("attach=%d\n",(int)vs); if(vs!=FAIL){ VSgetname(vs,nm); n=VSelts(vs); printf("name='%s' nelts=%d\n",nm,(int)n); VSdetach(vs);} Vend(f); Hclose(f);
  return 0; }
