/* NC_var_shape: `*ip >= ((dims != NULL) ? dims->count : 1)` lets dimension id 0 through when the file has NO dimensions,
 * and then dereferences dims (NULL): a netCDF classic file with an empty dimension list and one variable of rank 1. */
#include <stdio.h>
#include <string.h>
#include "mfhdf.h"
static void be32(FILE *f, unsigned v) { unsigned char b[4] = {v >> 24, v >> 16, v >> 8, v}; fwrite(b, 1, 4, f); }
int main(void)
{
    const char *path = "nulldims.nc";
    FILE *f = fopen(path, "wb");
    fwrite("CDF\001", 1, 4, f);
    be32(f, 0);               /* numrecs */
    be32(f, 0); be32(f, 0);   /* dim_array: ABSENT */
    be32(f, 0); be32(f, 0);   /* gatt_array: ABSENT */
    be32(f, 11); be32(f, 1);  /* var_array: NC_VARIABLE, 1 element */
    be32(f, 1); fwrite("v\0\0\0", 1, 4, f); /* name "v" */
    be32(f, 1); be32(f, 0);   /* rank 1, dimension id 0 */
    be32(f, 0); be32(f, 0);   /* vatt_array: ABSENT */
    be32(f, 4);               /* NC_LONG */
    be32(f, 4);               /* vsize */
    be32(f, 80);              /* begin */
    be32(f, 0);
    fclose(f);
    int32 sd = SDstart(path, DFACC_READ);
    printf("SDstart = %d\n", (int)sd);
    if (sd != FAIL) SDend(sd);
    return 0;
}
