/* D1: hdf_xdr_NCvdata, first-write fill loops (putget.c): when the buffers for a fill piece cannot be allocated the piece size is halved
 * (chunk_size = chunk_size / 2) without keeping it a multiple of the element size.  fill_count = chunk_size / HDFsize elements are prepared
 * (tBuf has fill_count * szof bytes) but Hwrite sends chunk_size bytes:
 *   - native / little-endian types (write_buf = tBuf): Hwrite reads chunk_size % HDFsize bytes behind the heap block (ASan: heap-buffer-overflow)
 *     and stores them in the file;
 *   - every type: the following pieces start in the middle of an element, so the "fill values" in front of / behind the first hyperslab are
 *     byte-rotated: cells never written do not hold the fill value.  SDwritedata returns SUCCEED.
 *
 *   gcc -I<repo>/hdf/src -I<repo>/mfhdf/src -I<build> -I<build>/hdf/src alloc_fill.c -Wl,--wrap=calloc <build>/bin/libmfhdf.a <build>/bin/libhdf.a -lz -ljpeg -lm
 */
#include <stdio.h>
#include <stdlib.h>
#include "mfhdf.h"

static size_t refuse_from = 0;
void *__real_calloc(size_t, size_t);
void *__wrap_calloc(size_t n, size_t s) { return (refuse_from && n * s >= refuse_from) ? NULL : __real_calloc(n, s); }

#define FIRST 150001 /* index of the first cell written: 600004 bytes of fill values in front of it */
#define N (FIRST + 10)
int main(void)
{
    static int32 out[N];
    int32 dims[1] = {N}, start[1] = {FIRST}, count[1] = {10}, in[10], fill = 0x01020304, bad = 0;
    int32 nt = DFNT_INT32 | (getenv("STD") ? 0 : DFNT_NATIVE);
    for (int i = 0; i < 10; i++) in[i] = 1000 + i;
    int32 sd = SDstart("alloc_fill.hdf", DFACC_CREATE), sds = SDcreate(sd, "v", nt, 1, dims);
    SDsetfillvalue(sds, &fill);
    refuse_from = 300000; /* 600004 refused, 300002 refused, 150001 granted: not a multiple of 4 */
    printf("SDwritedata under memory pressure: %d\n", (int)SDwritedata(sds, start, NULL, count, in));
    refuse_from = 0;
    start[0] = 0; count[0] = N;
    printf("SDreaddata (no pressure):          %d\n", (int)SDreaddata(sds, start, NULL, count, out));
    for (int i = 0; i < N; i++) {
        int32 want = i < FIRST ? fill : in[i - FIRST];
        if (out[i] != want) { if (bad++ < 4) printf("  VIOLATION cell %d reads 0x%08x, expected 0x%08x\n", i, (unsigned)out[i], (unsigned)want); }
    }
    SDendaccess(sds); SDend(sd);
    printf(bad ? "C03 violated: %d cell(s)\n" : "ok\n", (int)bad);
    return bad != 0;
}
