/* D2: hdf_xdr_NCvdata, "try half the size" conversion loops (putget.c, read and write side):
 * when the conversion buffer cannot be allocated in one piece the request is processed in blocks of new_count elements; the cursor into the
 * caller's buffer is advanced AFTER new_count / data_size have been reduced for the final short block, i.e. by the size of the NEXT block
 * instead of the block just processed.  The final block is converted from / to the wrong place: SDwritedata stores wrong values and returns
 * SUCCEED, SDreaddata leaves the tail of the caller's buffer unset and returns SUCCEED.
 *
 *   gcc -I<repo>/hdf/src -I<repo>/mfhdf/src -I<build> -I<build>/hdf/src alloc_blocks.c -Wl,--wrap=calloc <build>/bin/libmfhdf.a <build>/bin/libhdf.a -lz -ljpeg -lm
 */
#include <stdio.h>
#include <stdlib.h>
#include "mfhdf.h"

static size_t refuse_from = 0; /* calloc requests of at least this many bytes fail (0 = none) */
void *__real_calloc(size_t, size_t);
void *__wrap_calloc(size_t n, size_t s) { return (refuse_from && n * s >= refuse_from) ? NULL : __real_calloc(n, s); }

#define N 100001
int main(void)
{
    static int32 in[N], out[N];
    int32 dims[1] = {N}, start[1] = {0}, count[1] = {N}, bad = 0;
    for (int i = 0; i < N; i++) in[i] = i + 1;

    /* write side: the 400004-byte buffer is refused, 200000 bytes are granted -> blocks of 50000, 50000, 1 elements */
    int32 sd = SDstart("alloc_blocks.hdf", DFACC_CREATE), sds = SDcreate(sd, "v", DFNT_INT32, 1, dims);
    refuse_from = 300000;
    printf("SDwritedata under memory pressure: %d\n", (int)SDwritedata(sds, start, NULL, count, in));
    refuse_from = 0;
    printf("SDreaddata (no pressure):          %d\n", (int)SDreaddata(sds, start, NULL, count, out));
    for (int i = 0; i < N; i++) if (out[i] != in[i]) { if (!bad++) printf("  VIOLATION cell %d reads %d, %d was written\n", i, (int)out[i], (int)in[i]); }
    SDendaccess(sds); SDend(sd);

    /* read side: a correct file, read under pressure */
    sd = SDstart("alloc_blocks2.hdf", DFACC_CREATE); sds = SDcreate(sd, "v", DFNT_INT32, 1, dims);
    SDwritedata(sds, start, NULL, count, in);
    for (int i = 0; i < N; i++) out[i] = -7;
    refuse_from = 300000;
    printf("SDreaddata under memory pressure:  %d\n", (int)SDreaddata(sds, start, NULL, count, out));
    refuse_from = 0;
    for (int i = 0; i < N; i++) if (out[i] != in[i]) { if (!bad++) printf("  first bad cell\n"); printf("  VIOLATION cell %d reads %d, %d was written\n", i, (int)out[i], (int)in[i]); if (bad > 4) break; }
    SDendaccess(sds); SDend(sd);
    printf(bad ? "C03 violated\n" : "ok\n");
    return bad != 0;
}
