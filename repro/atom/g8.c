/* group 8 (ANIDGROUP): MAKE_ATOM shifts 8 << 28 in a signed int */
#include <stdio.h>
#include "hdf_priv.h"
#include "atom_priv.h"
int main(void)
{
    static int A = 1;
    HAinit_group(ANIDGROUP, 8);
    atom_t a = HAregister_atom(ANIDGROUP, &A);
    printf("register = %d obj ok=%d group=%d\n", (int)a, HAatom_object(a) == &A, (int)HAatom_group(a));
    return 0;
}
