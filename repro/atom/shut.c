/* HAshutdown does not invalidate the 4-entry atom cache */
#include <stdio.h>
#include "hdf_priv.h"
#include "atom_priv.h"
int main(void)
{
    static int A = 1, B = 2;
    group_t g = RIIDGROUP;
    HAinit_group(g, 8);
    atom_t a = HAregister_atom(g, &A);
    printf("register(A) = %d, HAatom_object = %s (now cached)\n", (int)a, HAatom_object(a) == &A ? "A" : "?");
    HAshutdown();
    printf("after HAshutdown: HAatom_object(a) = %s, HAremove_atom(a)=%p\n", HAatom_object(a) == &A ? "A  <-- served from the stale cache" : "NULL", HAremove_atom(a));
    HAinit_group(g, 8);
    atom_t b = HAregister_atom(g, &B);
    printf("init; register(B) = %d; HAatom_object(b) = %s\n", (int)b, HAatom_object(b) == &A ? "A  <-- WRONG object (stale cache slot)" : HAatom_object(b) == &B ? "B" : "?");
    return 0;
}
