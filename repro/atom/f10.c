/* F10: atom ids are re-issued after a group's last HAdestroy_group + HAinit_group (nextid restarts at 0) */
#include <stdio.h>
#include "hdf_priv.h"
#include "atom_priv.h"
int main(void)
{
    static int A = 1, B = 2;
    group_t g = RIIDGROUP;
    HAinit_group(g, 8);
    atom_t a = HAregister_atom(g, &A);
    printf("register(A) = %d, HAatom_object = %s\n", (int)a, HAatom_object(a) == &A ? "A" : "?");
    printf("HAremove_atom(a) = %s\n", HAremove_atom(a) == &A ? "A" : "NULL");
    printf("after remove: HAatom_object(a) = %p (rejected)\n", HAatom_object(a));
    HAdestroy_group(g);
    printf("after destroy: HAatom_object(a) = %p (rejected)\n", HAatom_object(a));
    HAinit_group(g, 8);
    atom_t b = HAregister_atom(g, &B);
    printf("re-init; register(B) = %d  (same number as a: %s)\n", (int)b, a == b ? "yes" : "no");
    void *o = HAatom_object(a);
    printf("stale id a now resolves to %s\n", o == &B ? "B  <-- stale handle aliases a new object" : o ? "?" : "NULL");
    void *r = HAremove_atom(a);
    printf("HAremove_atom(stale a) = %s\n", r == &B ? "B (removed B through the stale id)" : "NULL");
    printf("HAatom_object(b) = %p (the new handle is dead now)\n", HAatom_object(b));
    return 0;
}
