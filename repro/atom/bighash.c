/* HAinit_group accepts hash_size 2^29 (only the power-of-two test); for an odd group ATOM_TO_LOC(atm, 2^29) includes the lowest
 * group bit, so the lookup bucket differs from the insertion bucket nextid % hash_size and the atom is never found. */
#include <stdio.h>
#include "hdf_priv.h"
#include "atom_priv.h"
int main(void)
{
    static int A = 1;
    int r = HAinit_group(VGIDGROUP /* 3, odd */, 1u << 29);
    printf("HAinit_group(3, 2^29) = %d\n", r);
    if (r != SUCCEED) return 0;
    atom_t a = HAregister_atom(VGIDGROUP, &A);
    printf("register = %d; HAatom_object = %p (expected %p); HAremove_atom = %p\n", (int)a, HAatom_object(a), (void *)&A, HAremove_atom(a));
    r = HAinit_group(VSIDGROUP /* 4, even */, 1u << 29);
    a = HAregister_atom(VSIDGROUP, &A);
    printf("even group: register = %d; HAatom_object = %p (expected %p)\n", (int)a, HAatom_object(a), (void *)&A);
    return 0;
}
