#include "hdf.h"
#include "mfhdf.h"
#include <stdio.h>
int main(void){
  int32 dims[1]={6}, st[1]={2}, cnt[1]={2}, s0[1]={0}, c6[1]={6};
  int32 w[2]={111,222}, r[6];
  for(int ext=0; ext<2; ext++){
    int32 sd=SDstart(ext?"/tmp/e1.hdf":"/tmp/e0.hdf",DFACC_CREATE);
    int32 sds=SDcreate(sd,"d",DFNT_INT32,1,dims);
    if(ext){ remove("/tmp/e1.dat"); printf("setext=%d\n",(int)SDsetexternalfile(sds,"/tmp/e1.dat",0)); }
    printf("write=%d\n",(int)SDwritedata(sds,st,NULL,cnt,w));
    int rr=SDreaddata(sds,s0,NULL,c6,r);
    printf("ext=%d read=%d:",ext,rr); for(int i=0;i<6;i++) printf(" %d",(int)r[i]); printf("\n");
    SDendaccess(sds); SDend(sd);
    sd=SDstart(ext?"/tmp/e1.hdf":"/tmp/e0.hdf",DFACC_READ); sds=SDselect(sd,0);
    rr=SDreaddata(sds,s0,NULL,c6,r);
    printf("reopen ext=%d read=%d:",ext,rr); for(int i=0;i<6;i++) printf(" %d",(int)r[i]); printf("\n");
    SDendaccess(sds); SDend(sd);
  }
  return 0;
}
