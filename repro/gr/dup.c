/* (repair round; was known finding gr-dup-image): uint8 image with 1 or 3 components created WITHOUT data; in a later session a
 * palette is written (GRwritelut); after the next reopen GRfileinfo reports TWO images (the RIG and the RI Vgroup
 * of the same image are no longer recognised as duplicates). exit 0 iff the file still has one image. */
#include "common.h"
int main(void)
{
    int32 dims[2] = {1, 9}, n = -1, na = -1;
    uint8 pal[768];
    for (int i = 0; i < 768; i++) pal[i] = (uint8)i;
    session("dup.hdf", DFACC_CREATE);
    int32 ri = GRcreate(g_gr, "img", 3, DFNT_UINT8, MFGR_INTERLACE_PIXEL, dims);
    done(ri);
    session("dup.hdf", DFACC_RDWR);
    GRfileinfo(g_gr, &n, &na); CHECK(n == 1, "session 2: %d images", (int)n);
    ri = GRselect(g_gr, 0);
    CHECK(GRwritelut(GRgetlutid(ri, 0), 3, DFNT_UINT8, MFGR_INTERLACE_PIXEL, 256, pal) != FAIL, "GRwritelut");
    done(ri);
    session("dup.hdf", DFACC_READ);
    GRfileinfo(g_gr, &n, &na); CHECK(n == 1, "session 3: GRfileinfo reports %d images, created 1", (int)n);
    for (int i = 0; i < n; i++) { char nm[64]; int32 nc, nt, il, d[2], a; int32 r = GRselect(g_gr, i); GRgetiminfo(r, nm, &nc, &nt, &il, d, &a); printf("  image %d: '%s' %dx%d ncomp %d\n", i, nm, (int)d[0], (int)d[1], (int)nc); GRendaccess(r); }
    GRend(g_gr); Hclose(g_fid);
    return finish("one image stays one image");
}
