/* (fixed by 50122da) an image created WITHOUT data (FILL_ATTR set) in session 1 accepts a PARTIAL first write in
 * session 2 and pads with the fill value. Before the fix: GRwriteimage FAILed (DFE_SEEKERROR). */
#include "common.h"
int main(void)
{
    int32 dims[2] = {4, 4}, s0[2] = {0, 0}, s[2] = {1, 1}, c[2] = {2, 2};
    uint8 fill = 0xEE, buf[4] = {0x11, 0x12, 0x13, 0x14}, out[16];
    const uint8 want[16] = {0xEE, 0xEE, 0xEE, 0xEE, 0xEE, 0x11, 0x12, 0xEE, 0xEE, 0x13, 0x14, 0xEE, 0xEE, 0xEE, 0xEE, 0xEE};
    session("late.hdf", DFACC_CREATE);
    int32 ri = GRcreate(g_gr, "img", 1, DFNT_UINT8, MFGR_INTERLACE_PIXEL, dims);
    GRsetattr(ri, FILL_ATTR, DFNT_UINT8, 1, &fill);
    done(ri);
    session("late.hdf", DFACC_RDWR); ri = GRselect(g_gr, 0);
    CHECK(GRreadimage(ri, s0, NULL, dims, out) != FAIL && out[5] == 0xEE, "read before any data must deliver the fill value");
    CHECK(GRwriteimage(ri, s, NULL, c, buf) != FAIL, "partial first write in a later session refused");
    CHECK(GRreadimage(ri, s0, NULL, dims, out) != FAIL && memcmp(out, want, 16) == 0, "same session read-back");
    done(ri);
    session("late.hdf", DFACC_READ); ri = GRselect(g_gr, 0);
    CHECK(GRreadimage(ri, s0, NULL, dims, out) != FAIL && memcmp(out, want, 16) == 0, "read-back after reopen");
    done(ri);
    return finish("first write in a later session");
}
