/* shared by the C09 region repro programs: exit status 0 = the property holds on the library under test */
#include "hdf.h"
#include "mfgr.h"
#include <stdio.h>
#include <stdlib.h>
#include <string.h>
static int bad = 0;
#define CHECK(c, ...) do { if (!(c)) { bad++; printf("FAIL: "); printf(__VA_ARGS__); printf("\n"); } } while (0)
static int32 g_fid, g_gr;
static void session(const char *fn, int acc) { g_fid = Hopen(fn, acc, 0); g_gr = GRstart(g_fid); }
static void done(int32 ri) { CHECK(GRendaccess(ri) != FAIL, "GRendaccess"); CHECK(GRend(g_gr) != FAIL, "GRend"); CHECK(Hclose(g_fid) != FAIL, "Hclose"); }
static int finish(const char *what) { printf("%s: %s\n", what, bad ? "DEFECT PRESENT" : "ok"); return bad ? 1 : 0; }
