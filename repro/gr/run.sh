#!/bin/bash
# run.sh <library build dir>: compile the C09 region repro programs against <dir>/bin/libhdf.a (ASan build) and run them.
# f15 oor late lut ntflag must print "ok" (defects repaired by fix: commits); comp 1|3|4 and dup document the known findings gr-comp:* and gr-dup-image.
B=${1:?usage: run.sh <build dir>}; cd "$(dirname "$0")"; rc=0
for p in f15 oor late lut ntflag comp dup; do
  gcc -g -fsanitize=address,undefined -w -I/repo/hdf/src -I$B -I$B/hdf/src $p.c -o $p.bin $B/bin/libhdf.a -lz -ljpeg -lm || { echo "$p: does not compile"; rc=2; continue; }
done
for p in f15 oor late lut ntflag; do ASAN_OPTIONS=detect_leaks=0 ./$p.bin | tail -1; [ ${PIPESTATUS[0]} -eq 0 ] || rc=1; done
for c in 1 3 4; do echo "-- known finding, coder $c:"; ASAN_OPTIONS=detect_leaks=0 ./comp.bin $c | sed 's/^/   /'; done
echo "-- known finding gr-dup-image:"; ASAN_OPTIONS=detect_leaks=0 ./dup.bin | sed 's/^/   /'
rm -f *.hdf *.bin
exit $rc
