#!/bin/bash
# run.sh <library build dir> [source tree]: compile the C09 region repro programs against <dir>/bin/libhdf.a (ASan build of
# <source tree>, default /repo) and run them. Every program must print "ok": all the defects they show were repaired by fix: commits.
B=${1:?usage: run.sh <build dir> [source tree]}; R=${2:-${VERIF_REPO:-/repo}}; cd "$(dirname "$0")"; rc=0
for p in f15 oor late lut ntflag comp dup; do
  gcc -g -fsanitize=address,undefined -w -I$R/hdf/src -I$B -I$B/hdf/src $p.c -o $p.bin $B/bin/libhdf.a -lz -ljpeg -lm || { echo "$p: does not compile"; rc=2; continue; }
done
for p in f15 oor late lut ntflag dup; do ASAN_OPTIONS=detect_leaks=0 ./$p.bin | tail -1; [ ${PIPESTATUS[0]} -eq 0 ] || rc=1; done
for c in 1 3 4; do ASAN_OPTIONS=detect_leaks=0 ./comp.bin $c | tail -1 | sed "s/^/coder $c: /"; [ ${PIPESTATUS[0]} -eq 0 ] || rc=1; done
rm -f *.hdf *.bin
exit $rc
