/* (fixed by 9076f25) requests reaching outside the image must FAIL and change nothing.
 * Before the fix: 4x4 uint8, GRwriteimage start(2,1) count(4,1) returned SUCCEED and overwrote (0,2),(1,2);
 * a first write with stride_x 9, count_x 2 read past the fill_line buffer (ASan heap-buffer-overflow). */
#include "common.h"
int main(void)
{
    int32 dims[2] = {4, 4}, s0[2] = {0, 0};
    uint8 buf[64], img[16], out[16], fill = 0xEE;
    for (int i = 0; i < 64; i++) buf[i] = (uint8)(0x10 + i);
    session("oor.hdf", DFACC_CREATE);
    int32 ri = GRcreate(g_gr, "img", 1, DFNT_UINT8, MFGR_INTERLACE_PIXEL, dims);
    GRsetattr(ri, FILL_ATTR, DFNT_UINT8, 1, &fill);
    { int32 s[2] = {0, 0}, st[2] = {9, 1}, c[2] = {2, 1}; CHECK(GRwriteimage(ri, s, st, c, buf) == FAIL, "first write, stride_x 9 count_x 2 on xdim 4 accepted"); }
    CHECK(GRwriteimage(ri, s0, NULL, dims, buf) != FAIL, "whole write");
    memcpy(img, buf, 16);
    struct { int32 s[2], t[2], c[2]; } q[] = {
        {{2, 1}, {1, 1}, {4, 1}}, {{0, 3}, {1, 1}, {4, 2}}, {{4, 0}, {1, 1}, {1, 1}}, {{0, 0}, {2, 1}, {3, 1}},
        {{0, 0}, {1, 4}, {1, 2}}, {{-1, 0}, {1, 1}, {1, 1}}, {{0, 0}, {0, 1}, {1, 1}}, {{0, 0}, {1, 1}, {0, 1}}};
    for (unsigned i = 0; i < sizeof q / sizeof q[0]; i++) {
        memset(buf, 0xAA, 64);
        CHECK(GRwriteimage(ri, q[i].s, q[i].t, q[i].c, buf) == FAIL, "write #%u outside the image accepted", i);
        memset(out, 0x55, 16);
        CHECK(GRreadimage(ri, q[i].s, q[i].t, q[i].c, out) == FAIL, "read #%u outside the image accepted", i);
        CHECK(out[0] == 0x55, "refused read #%u changed the buffer", i);
        CHECK(GRreadimage(ri, s0, NULL, dims, out) != FAIL && memcmp(out, img, 16) == 0, "image changed by refused request #%u", i);
    }
    done(ri);
    return finish("out-of-range GR requests are refused");
}
