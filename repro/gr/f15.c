/* F15 (fixed by 80405e4): strided first GRwriteimage of a new image with a fill value.
 * 10x10 uint8, FILL_ATTR 0xEE, start (0,0) stride (1,3) count (10,3) [and count_y 4]: the DFTAG_RI element must be
 * exactly 100 bytes and every never-written pixel must read 0xEE, before and after reopen.
 * Before the fix: element 90 bytes (row 9 read back as uninitialised heap) resp. 120 bytes. */
#include "common.h"
static void one(int cy)
{
    const char *fn = "f15.hdf";
    int32 dims[2] = {10, 10}, start[2] = {0, 0}, stride[2] = {1, 3}, count[2] = {10, cy}, s0[2] = {0, 0};
    uint8 fill = 0xEE, buf[40], out[100];
    session(fn, DFACC_CREATE);
    int32 ri = GRcreate(g_gr, "img", 1, DFNT_UINT8, MFGR_INTERLACE_PIXEL, dims);
    GRsetattr(ri, FILL_ATTR, DFNT_UINT8, 1, &fill);
    memset(buf, 0x11, sizeof buf);
    CHECK(GRwriteimage(ri, start, stride, count, buf) != FAIL, "strided first write");
    for (int pass = 0; pass < 2; pass++) {
        memset(out, 0x55, sizeof out);
        CHECK(GRreadimage(ri, s0, NULL, dims, out) != FAIL, "whole read pass %d", pass);
        for (int y = 0; y < 10; y++) for (int x = 0; x < 10; x++) {
            uint8 want = (y % 3 == 0 && y / 3 < cy) ? 0x11 : 0xEE;
            if (out[y * 10 + x] != want) { CHECK(0, "count_y=%d pass %d pixel (%d,%d) = %02x, want %02x", cy, pass, x, y, out[y * 10 + x], want); y = 10; break; }
        }
        if (pass == 0) { done(ri); session(fn, DFACC_READ); ri = GRselect(g_gr, 0); }
    }
    uint16 t = 0, r = 0; int32 off, len = -1;
    Hfind(g_fid, DFTAG_RI, DFREF_WILDCARD, &t, &r, &off, &len, DF_FORWARD);
    CHECK(len == 100, "count_y=%d: DFTAG_RI element is %d bytes, image needs 100", cy, (int)len);
    done(ri);
}
int main(void) { one(3); one(4); return finish("F15 strided first write fill"); }
