/* (fixed by 88e6a80) GRwritelut on an image loaded from a file: GRend must succeed and the palette must be there
 * after reopen. Before the fix GRend FAILed (DFE_GROUPWRITE: the 8-byte RIG cannot grow in place), palette lost. */
#include "common.h"
int main(void)
{
    int32 dims[2] = {2, 7}, s0[2] = {0, 0};
    uint8 b[42], pal[768], got[768];
    memset(b, 7, 42);
    for (int i = 0; i < 768; i++) pal[i] = (uint8)(i * 7);
    session("lut.hdf", DFACC_CREATE);
    int32 ri = GRcreate(g_gr, "img", 3, DFNT_UINT8, MFGR_INTERLACE_PIXEL, dims);
    CHECK(GRwriteimage(ri, s0, NULL, dims, b) != FAIL, "write");
    done(ri);
    session("lut.hdf", DFACC_RDWR); ri = GRselect(g_gr, 0);
    CHECK(GRwritelut(GRgetlutid(ri, 0), 3, DFNT_UINT8, MFGR_INTERLACE_PIXEL, 256, pal) != FAIL, "GRwritelut");
    done(ri);
    session("lut.hdf", DFACC_READ); ri = GRselect(g_gr, 0);
    int32 nc = 0, nt = 0, il = 0, n = 0;
    GRgetlutinfo(GRgetlutid(ri, 0), &nc, &nt, &il, &n);
    CHECK(nc == 3 && n == 256, "palette info after reopen: ncomp %d entries %d", (int)nc, (int)n);
    memset(got, 0, 768);
    CHECK(GRreadlut(GRgetlutid(ri, 0), got) != FAIL && memcmp(got, pal, 768) == 0, "palette data after reopen");
    done(ri);
    return finish("palette added in a later session");
}
