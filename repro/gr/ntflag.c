/* (fixed by a7ec6cc, 04198d7) DFNT_LITEND / DFNT_NATIVE images keep their values across GRend/reopen, and a first
 * write in a later session of a native image with FILL_ATTR can be closed. Before: values came back byte-swapped;
 * GRendaccess failed (FILL_ATTR type mismatch), the AID leaked and Hclose failed. */
#include "common.h"
static void one(int32 flag)
{
    int32 dims[2] = {3, 2}, s0[2] = {0, 0}, s[2] = {1, 0}, c[2] = {2, 1};
    uint16 v[6] = {0x0102, 0x0304, 0x0506, 0x0708, 0x090a, 0x0b0c}, fill = 0xEEE1, out[6], w[2] = {0x1111, 0x2222};
    session("ntflag.hdf", DFACC_CREATE);
    int32 ri = GRcreate(g_gr, "img", 1, DFNT_UINT16 | flag, MFGR_INTERLACE_PIXEL, dims);
    GRsetattr(ri, FILL_ATTR, DFNT_UINT16 | flag, 1, &fill);
    done(ri);
    session("ntflag.hdf", DFACC_RDWR); ri = GRselect(g_gr, 0);
    CHECK(GRwriteimage(ri, s, NULL, c, w) != FAIL, "flag %x: first write in session 2", (unsigned)flag);
    done(ri);
    session("ntflag.hdf", DFACC_RDWR); ri = GRselect(g_gr, 0);
    CHECK(GRreadimage(ri, s0, NULL, dims, out) != FAIL && out[0] == fill && out[1] == 0x1111 && out[2] == 0x2222 && out[5] == fill,
          "flag %x: values after reopen %04x %04x %04x .. %04x", (unsigned)flag, out[0], out[1], out[2], out[5]);
    CHECK(GRwriteimage(ri, s0, NULL, dims, v) != FAIL, "whole write");
    done(ri);
    session("ntflag.hdf", DFACC_READ); ri = GRselect(g_gr, 0);
    CHECK(GRreadimage(ri, s0, NULL, dims, out) != FAIL && memcmp(out, v, sizeof v) == 0, "flag %x: whole image after reopen %04x", (unsigned)flag, out[0]);
    done(ri);
}
int main(void) { one(0); one(DFNT_LITEND); one(DFNT_NATIVE); return finish("little-endian / native number types across reopen"); }
