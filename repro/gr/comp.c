/* (repair round: buffered whole-element rewrite; were known findings gr-comp:*) compressed (non-chunked) images.
 * usage: comp <coder: 1 RLE, 3 skphuff, 4 deflate>.  exit 0 only if all of the following hold:
 *  (c1) in the creating session a read after a partial first write returns the written pixels, and a second
 *       partial write is kept;   (c2) after reopen a partial rewrite succeeds and changes only its pixels. */
#include "common.h"
int main(int argc, char **argv)
{
    int coder = argc > 1 ? atoi(argv[1]) : COMP_CODE_DEFLATE;
    int32 dims[2] = {4, 4}, s0[2] = {0, 0};
    uint8 fill = 0xEE, a[4] = {0x11, 0x12, 0x13, 0x14}, b[4] = {0x21, 0x22, 0x23, 0x24}, d[2] = {0x31, 0x32}, out[16];
    uint8 want[16]; memset(want, 0xEE, 16);
    comp_info ci; memset(&ci, 0, sizeof ci); ci.deflate.level = 6; ci.skphuff.skp_size = 1;
    session("comp.hdf", DFACC_CREATE);
    int32 ri = GRcreate(g_gr, "img", 1, DFNT_UINT8, MFGR_INTERLACE_PIXEL, dims);
    GRsetattr(ri, FILL_ATTR, DFNT_UINT8, 1, &fill);
    CHECK(GRsetcompress(ri, (comp_coder_t)coder, &ci) != FAIL, "GRsetcompress");
    { int32 s[2] = {1, 1}, c[2] = {2, 2}; CHECK(GRwriteimage(ri, s, NULL, c, a) != FAIL, "write A"); want[5] = 0x11; want[6] = 0x12; want[9] = 0x13; want[10] = 0x14; }
    CHECK(GRreadimage(ri, s0, NULL, dims, out) != FAIL && memcmp(out, want, 16) == 0, "(c1) read in the creating session returns %02x at (1,1), want 11", out[5]);
    { int32 s[2] = {0, 3}, c[2] = {4, 1}; CHECK(GRwriteimage(ri, s, NULL, c, b) != FAIL, "write B"); memcpy(want + 12, b, 4); }
    done(ri);
    session("comp.hdf", DFACC_RDWR); ri = GRselect(g_gr, 0);
    CHECK(GRreadimage(ri, s0, NULL, dims, out) != FAIL && memcmp(out, want, 16) == 0, "(c1) second write of the creating session lost: row 3 starts %02x, want 21", out[12]);
    memcpy(want, out, 16); /* continue from what is really there */
    { int32 s[2] = {0, 0}, c[2] = {2, 1}; int rc = GRwriteimage(ri, s, NULL, c, d); CHECK(rc != FAIL, "(c2) partial rewrite after reopen refused"); if (rc != FAIL) { want[0] = 0x31; want[1] = 0x32; } }
    done(ri);
    session("comp.hdf", DFACC_READ); ri = GRselect(g_gr, 0);
    CHECK(GRreadimage(ri, s0, NULL, dims, out) != FAIL && memcmp(out, want, 16) == 0, "(c2) image corrupted by the partial rewrite: %02x %02x %02x %02x ..", out[0], out[1], out[2], out[3]);
    done(ri);
    return finish("compressed image, partial writes");
}
