#include "hdf.h"
#include "mfgr.h"
#include <stdio.h>
#include <stdlib.h>
#include <string.h>
#include <unistd.h>
int main(int argc,char**argv){
  const char *fn="grw2.hdf"; unlink(fn);
  int32 fid=Hopen(fn,DFACC_CREATE,0); int32 gr=GRstart(fid); int32 dims[2]={32,1};
  int32 ri=GRcreate(gr,"img",1,DFNT_UINT8,MFGR_INTERLACE_PIXEL,dims);
  uint8 fill=0xa1; GRsetattr(ri,FILL_ATTR,DFNT_UINT8,1,&fill);
  GRendaccess(ri); GRend(gr); Hclose(fid);
  fid=Hopen(fn,DFACC_RDWR,0); gr=GRstart(fid); ri=GRselect(gr,0);
  int32 st[2]={2,0}, cnt[2]={3,1}; uint8 px[3]={0xc0,0xc1,0xc2};
  int r=GRwriteimage(ri,st,NULL,cnt,px); printf("write=%d\n",r); if(r==FAIL) HEprint(stdout,0);
  GRendaccess(ri); GRend(gr); 
  { int32 aid=Hstartread(fid,DFTAG_WILDCARD,DFREF_WILDCARD); do { uint16 t,r; int32 o,l; Hinquire(aid,NULL,&t,&r,&l,&o,NULL,NULL,NULL); printf("%u/%u off %d len %d\n",t,r,o,l);} while(Hnextread(aid,DFTAG_WILDCARD,DFREF_WILDCARD,DF_CURRENT)!=FAIL); Hendaccess(aid);}
  Hclose(fid); return 0;}
