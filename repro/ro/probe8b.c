/* second consequence of the same call: the duplicate descriptor HTPcreate wrote before the duplicate was detected stays in the
   DD list; after Hclose the file cannot be opened any more (HTPstart -> DFE_DUPDD). */
#include "hdf.h"
#include <stdio.h>
#include <string.h>
int main(int argc,char**argv){
  uint8 b[40]; memset(b,1,40);
  int32 fid=Hopen(argv[1],DFACC_CREATE,0);
  Hputelement(fid,1000,1,b,10); Hputelement(fid,1000,2,b,20);
  printf("Hdupdd onto existing (1000,2) = %d\n",(int)Hdupdd(fid,1000,2,1000,1)); fflush(stdout);
  printf("Hclose = %d\n",(int)Hclose(fid)); fflush(stdout);
  fid=Hopen(argv[1],DFACC_READ,0); printf("reopen = %d\n",(int)fid); if(fid==FAIL) HEprint(stdout,0);
  return 0;}
