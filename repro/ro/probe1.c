/* probe: unchecked DD-level mutators on a read-only handle */
#include "hdf.h"
#include <stdio.h>
#include <string.h>
#include <stdlib.h>
static long fsum(const char *p){FILE*f=fopen(p,"rb");unsigned long s=0;int c;long n=0;while((c=fgetc(f))!=EOF){s=s*131+c;n++;}fclose(f);return (long)(s^n);}
int main(int argc,char**argv){
  const char*path=argv[1]; int cache=atoi(argv[2]);
  uint8 b[100]; memset(b,7,100);
  int32 fid=Hopen(path,DFACC_CREATE,4);
  Hputelement(fid,1000,1,b,50); Hputelement(fid,1000,2,b,60);
  Hclose(fid);
  long s0=fsum(path);
  fid=Hopen(path,DFACC_READ,0);
  if(cache) printf("Hcache=%d\n",Hcache(fid,1));
  printf("Hdeldd=%d\n",Hdeldd(fid,1000,1));
  printf("Hdupdd=%d\n",Hdupdd(fid,1000,9,1000,2));
  printf("HDreuse=%d\n",HDreuse_tagref(fid,1000,2));
  printf("Hexist(1000,1)=%d Hexist(1000,9)=%d Hlength(1000,2)=%d\n",Hexist(fid,1000,1),Hexist(fid,1000,9),(int)Hlength(fid,1000,2));
  int r=Hclose(fid); printf("Hclose=%d\n",r);
  if(r==FAIL){ HEprint(stdout,0); printf("Hclose again=%d\n",Hclose(fid)); }
  printf("file %s\n", fsum(path)==s0?"unchanged":"CHANGED");
  fid=Hopen(path,DFACC_READ,0); printf("reopen fid=%d Hexist(1000,1)=%d\n",(int)fid,fid!=FAIL?Hexist(fid,1000,1):-9); if(fid!=FAIL)printf("close=%d\n",Hclose(fid));
  return 0;}
