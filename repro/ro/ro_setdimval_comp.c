/* SDsetdimval_comp on a file opened DFACC_READ returns SUCCEED, SDisdimval_bwcomp shows the new mode for the rest of the session,
 * SDend drops it (file byte-identical, old mode after reopen).  mfsd.c SDsetdimval_comp has no NC_RDWR test (its siblings SDsetdimname,
 * SDsetdimscale, SDsetdimstrs got one in 83e4f62 / beafc49).  exit 1 = defect present. */
#include <stdio.h>
#include <string.h>
#include <stdlib.h>
#include "mfhdf.h"
static unsigned long fsum(const char *p, long *len) { FILE *f = fopen(p, "rb"); unsigned long s = 0; long n = 0; int c; while ((c = fgetc(f)) != EOF) { s = s * 131 + c; n++; } fclose(f); *len = n; return s; }
int main(void)
{
    const char *path = "ro_setdimval_comp.hdf"; int32 dims[1] = {4}, st[1] = {0}; int16 v[4] = {1, 2, 3, 4};
    int32 sd = SDstart(path, DFACC_CREATE), s = SDcreate(sd, "a", DFNT_INT16, 1, dims); SDwritedata(s, st, NULL, dims, v); SDendaccess(s); SDend(sd);
    long n0, n1; unsigned long h0 = fsum(path, &n0);
    sd = SDstart(path, DFACC_READ); s = SDselect(sd, 0); int32 dim = SDgetdimid(s, 0);
    int before = SDisdimval_bwcomp(dim);
    int rc = SDsetdimval_comp(dim, !before);
    int after = SDisdimval_bwcomp(dim);
    printf("read-only: SDisdimval_bwcomp = %d; SDsetdimval_comp(dim, %d) -> %d; SDisdimval_bwcomp = %d\n", before, !before, rc, after);
    SDendaccess(s); SDend(sd);
    unsigned long h1 = fsum(path, &n1); printf("file %s (%ld bytes)\n", (h0 == h1 && n0 == n1) ? "unchanged" : "CHANGED", n1);
    sd = SDstart(path, DFACC_READ); s = SDselect(sd, 0); printf("after reopen: SDisdimval_bwcomp = %d\n", SDisdimval_bwcomp(SDgetdimid(s, 0))); SDendaccess(s); SDend(sd);
    if (rc != FAIL) { printf("DEFECT: a read-only file accepted SDsetdimval_comp (and dropped it silently)\n"); return 1; }
    printf("ok: refused\n"); return 0;
}
