#include "wrap.h"
#include "workloads.h"
int main(void){ const char*p="grnew3.hdf"; unlink(p); if(prep_rich(p)==FAIL){printf("prep failed\n");return 2;} int n=run_gr_new(p); printf("failures=%d\n",n);
 int32 fid=Hopen(p,DFACC_READ,0); Vstart(fid); int32 r=-1; while((r=Vgetid(fid,r))!=FAIL){ int32 vg=Vattach(fid,r,"r"); char nm[256]="",cl[256]=""; Vgetname(vg,nm); Vgetclass(vg,cl); int32 n=Vntagrefs(vg); printf("VG %d name='%s' class='%s' n=%d:",(int)r,nm,cl,(int)n); for(int i=0;i<n;i++){int32 t,rf; Vgettagref(vg,i,&t,&rf); printf(" %d/%d",(int)t,(int)rf);} printf("\n"); Vdetach(vg);} Vend(fid); Hclose(fid); return 0; }
