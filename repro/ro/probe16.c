/* HLcreate / HLconvert accept block_length == 0 and number_blocks == 0 */
#include "hdf.h"
#include <stdio.h>
#include <stdlib.h>
#include <string.h>
int main(int argc, char **argv)
{
    int which = argc > 1 ? atoi(argv[1]) : 0; uint8 buf[64]; memset(buf, 5, sizeof buf);
    int32 f = Hopen("p16.hdf", DFACC_CREATE, 0); int32 a, rc;
    switch (which) {
        case 0: a = HLcreate(f, 1000, 1, 16, 0); printf("HLcreate(bl=16,nb=0) -> %d\n", (int)a); break;                 /* heap overflow in HLInewlink */
        case 1: a = HLcreate(f, 1000, 1, 0, 2); printf("HLcreate(bl=0,nb=2) -> %d\n", (int)a); fflush(stdout);
                rc = Hwrite(a, 8, buf); printf("Hwrite -> %d\n", (int)rc); break;                                         /* division by zero in HLPwrite */
        case 2: Hputelement(f, 1000, 1, buf, 8); a = Hstartwrite(f, 1000, 1, 8); rc = HLconvert(a, 16, 0); printf("HLconvert(bl=16,nb=0) -> %d\n", (int)rc); break;
        default: Hputelement(f, 1000, 1, buf, 8); a = Hstartwrite(f, 1000, 1, 8); rc = HLconvert(a, 0, 2); printf("HLconvert(bl=0,nb=2) -> %d\n", (int)rc); fflush(stdout);
                Hseek(a, 8, DF_START); rc = Hwrite(a, 8, buf); printf("Hwrite -> %d\n", (int)rc); break;
    }
    fflush(stdout);
    if (a != FAIL) Hendaccess(a);
    rc = Hclose(f); printf("Hclose -> %d\n", (int)rc);
    return 0;
}
