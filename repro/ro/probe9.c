#include "mfhdf.h"
#include <stdio.h>
#include <string.h>
static long fsum(const char *p){FILE*f=fopen(p,"rb");unsigned long s=0;int c;long n=0;while((c=fgetc(f))!=EOF){s=s*131+c;n++;}fclose(f);return (long)(s^n);}
int main(int argc,char**argv){
  int32 dims[2]={3,4}, st[2]={0,0}, one[2]={1,1}; int32 v[12]={0};
  int32 sd=SDstart(argv[1],DFACC_CREATE); int32 s=SDcreate(sd,"a",DFNT_INT32,2,dims); SDwritedata(s,st,NULL,dims,v); SDendaccess(s); SDend(sd);
  long s0=fsum(argv[1]);
  sd=SDstart(argv[1],DFACC_READ);
  s=SDselect(sd,0); v[0]=77;
  printf("SDwritedata(existing)=%d\n",(int)SDwritedata(s,st,NULL,one,v));
  int32 n=SDcreate(sd,"new",DFNT_INT32,2,dims); printf("SDcreate=%d\n",(int)n);
  printf("SDwritedata(new)=%d\n",(int)SDwritedata(n,st,NULL,one,v));
  int32 r[12]; memset(r,0,sizeof r); printf("SDreaddata(new)=%d r0=%d\n",(int)SDreaddata(n,st,NULL,one,r),(int)r[0]);
  printf("SDsetexternalfile(new)=%d\n",(int)SDsetexternalfile(n,"/root/work/ro/tmp/p9ext.dat",0));
  printf("SDendaccess=%d SDend=%d\n",(int)SDendaccess(n),(int)SDend(sd));
  printf("file %s\n", fsum(argv[1])==s0?"unchanged":"CHANGED");
  sd=SDstart(argv[1],DFACC_READ); int32 nd,na; SDfileinfo(sd,&nd,&na); printf("datasets after reopen: %d\n",(int)nd); SDend(sd);
  return 0;}
