#include "hdf.h"
#include <stdio.h>
#include <unistd.h>
#include <sys/wait.h>
int main(int argc,char**argv){
  uint8 b[100]={0}; int32 fid=Hopen(argv[1],DFACC_CREATE,0); Hputelement(fid,1000,1,b,100);
  int32 bid=Hstartbitread(fid,1000,1); uint32 v; printf("Hbitread=%d\n",(int)Hbitread(bid,8,&v));
  printf("Hendbitaccess=%d\n",(int)Hendbitaccess(bid,0)); fflush(stdout);
  pid_t p=fork(); if(p==0){ long r=Hbitread(bid,8,&v); _exit(r==FAIL?0:1);} int st; waitpid(p,&st,0);
  printf("child: exited=%d code=%d signaled=%d\n",WIFEXITED(st),WEXITSTATUS(st),WIFSIGNALED(st));
  printf("parent Hbitread after end=%d\n",(int)Hbitread(bid,8,&v));
  return 0;}
