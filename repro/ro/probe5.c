/* HLconvert failure path releases the CALLER's access record (and frees its special_info) although the aid stays registered.
   which=0: read-only file, plain element: Happendable + Hseek past the end -> Hseek calls HLconvert -> DFE_DENIED -> record released;
            Hendaccess releases it a second time -> the free list hands the same record to two later Hstartread calls.
   which=1: read-only file, linked-block element: HLconvert(aid) -> DFE_DENIED -> special_info freed -> Hendaccess = heap-use-after-free. */
#include "hdf.h"
#include "hfile_priv.h"
#include <stdio.h>
#include <string.h>
#include <stdlib.h>
int main(int argc,char**argv){
  const char*path=argv[1]; int which=atoi(argv[2]);
  uint8 b[300]; memset(b,7,300);
  int32 fid=Hopen(path,DFACC_CREATE,4);
  Hputelement(fid,1000,1,b,50); Hputelement(fid,1000,2,b,60);
  int32 aid=HLcreate(fid,1002,1,64,3); Hwrite(aid,200,b); Hendaccess(aid);
  Hclose(fid);
  fid=Hopen(path,DFACC_READ,0);
  if(which==0){
    aid=Hstartread(fid,1000,1);
    int r1_=Happendable(aid); int r2_=Hseek(aid,500,DF_START); printf("Happendable=%d Hseek(past end)=%d\n",r1_,r2_);
    printf("aid still registered: %s\n", HAatom_object(aid)?"yes":"no");
    printf("Hendaccess=%d\n",Hendaccess(aid));
    int32 a1=Hstartread(fid,1000,1), a2=Hstartread(fid,1000,2);
    printf("two new aids %d %d share one access record: %s\n",(int)a1,(int)a2, HAatom_object(a1)==HAatom_object(a2)?"YES (corrupted free list)":"no");
    uint16 t1,r1,t2,r2; Hinquire(a1,NULL,&t1,&r1,NULL,NULL,NULL,NULL,NULL); Hinquire(a2,NULL,&t2,&r2,NULL,NULL,NULL,NULL,NULL);
    printf("a1 designates (%d,%d), a2 designates (%d,%d)\n",t1,r1,t2,r2);
  } else {
    aid=Hstartread(fid,1002,1);
    printf("HLconvert=%d\n",(int)HLconvert(aid,16,2));
    printf("Hendaccess=%d\n",Hendaccess(aid));
  }
  return 0;}
