/* Hdupdd onto a (tag,ref) that already exists: HTPcreate first overwrites a free DD slot with the duplicate tag/ref (and
   writes/dirties it), then HTIregister_tag_ref detects DFE_DUPDD and its error cleanup DESTROYS THE DYNARRAY OF THE EXISTING
   TAG (tinfo_ptr->d) while the tag stays in the tag tree: the next lookup of any ref of that tag reads freed memory. */
#include "hdf.h"
#include <stdio.h>
#include <string.h>
int main(int argc,char**argv){
  uint8 b[40]; memset(b,1,40);
  int32 fid=Hopen(argv[1],DFACC_CREATE,0);
  Hputelement(fid,1000,1,b,10); Hputelement(fid,1000,2,b,20);
  printf("Hdupdd onto existing (1000,2) = %d\n",(int)Hdupdd(fid,1000,2,1000,1)); fflush(stdout);
  printf("Hexist(1000,1) = %d\n",(int)Hexist(fid,1000,1)); fflush(stdout);
  printf("Hclose = %d\n",(int)Hclose(fid)); return 0;}
