/* probe: READ handle, then a second Hopen(RDWR) of the same path swaps in a writable stream but access stays READ */
#include "hdf.h"
#include <stdio.h>
#include <string.h>
#include <stdlib.h>
static long fsum(const char *p){FILE*f=fopen(p,"rb");unsigned long s=0;int c;long n=0;while((c=fgetc(f))!=EOF){s=s*131+c;n++;}fclose(f);return (long)(s^n);}
int main(int argc,char**argv){
  const char*path=argv[1];
  uint8 b[100]; memset(b,7,100);
  int32 fid=Hopen(path,DFACC_CREATE,4);
  Hputelement(fid,1000,1,b,50); Hputelement(fid,1000,2,b,60);
  Hclose(fid);
  long s0=fsum(path);
  int32 ro=Hopen(path,DFACC_READ,0);
  int32 rw=Hopen(path,DFACC_RDWR,0);
  printf("ro=%d rw=%d\n",(int)ro,(int)rw);
  printf("Hputelement(rw)=%d\n",(int)Hputelement(rw,1000,3,b,10));
  printf("Hclose(rw)=%d\n",Hclose(rw));
  printf("file %s after rw handle closed\n", fsum(path)==s0?"unchanged":"CHANGED");
  /* now only the handle opened with DFACC_READ remains */
  printf("Hputelement(ro)=%d\n",(int)Hputelement(ro,1000,3,b,10));
  printf("Hdeldd(ro)=%d\n",Hdeldd(ro,1000,1));
  printf("Hclose(ro)=%d\n",Hclose(ro));
  printf("file %s\n", fsum(path)==s0?"unchanged":"CHANGED");
  fid=Hopen(path,DFACC_READ,0); printf("reopen fid=%d Hexist(1000,1)=%d\n",(int)fid,fid!=FAIL?Hexist(fid,1000,1):-9); if(fid!=FAIL)printf("close=%d\n",Hclose(fid));
  return 0;}
