#include "hdf.h"
#include <stdio.h>
#include <string.h>
#include <stdlib.h>
int main(int argc,char**argv){
  const char*path=argv[1]; int which=atoi(argv[2]);
  uint8 b[300]; memset(b,7,300);
  int32 fid=Hopen(path,DFACC_CREATE,4);
  Hputelement(fid,1000,1,b,50);
  int32 aid=HLcreate(fid,1002,1,64,3); Hwrite(aid,200,b); Hendaccess(aid);
  Hclose(fid);
  fid=Hopen(path,DFACC_READ,0);
  aid=Hstartread(fid,1002,1); printf("Hstartread=%d\n",(int)aid);
  if(which&1) printf("Hwrite=%d\n",(int)Hwrite(aid,4,b));
  if(which&2) printf("Htrunc=%d\n",(int)Htrunc(aid,1));
  if(which&4) printf("HLconvert=%d\n",(int)HLconvert(aid,16,2));
  if(which&8) printf("Hsetlength=%d\n",(int)Hsetlength(aid,8));
  if(which&16) printf("Hsetaccesstype=%d\n",(int)Hsetaccesstype(aid,DFACC_SERIAL));
  if(which&32) printf("Happendable=%d Hseek=%d\n",(int)Happendable(aid),(int)Hseek(aid,500,DF_START));
  printf("Hendaccess=%d\n",Hendaccess(aid));
  aid=Hstartread(fid,1002,1); printf("Hstartread=%d\n",(int)aid);
  printf("Hendaccess=%d\n",Hendaccess(aid));
  printf("Hclose=%d\n",Hclose(fid));
  return 0;}
