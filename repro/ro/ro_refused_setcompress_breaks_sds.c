#include "mfhdf.h"
#include <stdio.h>
#include <string.h>
static void view(int32 sds){ int32 st[1]={0}, ct[1]={1}, r=0; HDF_CHUNK_DEF cd; int32 fl=-9; comp_coder_t c=-9; comp_info ci;
  int a=SDgetchunkinfo(sds,&cd,&fl); int b=SDgetcompinfo(sds,&c,&ci); int d=SDreaddata(sds,st,NULL,ct,&r); printf("  chunkinfo rc=%d flags=%d compinfo rc=%d type=%d read rc=%d val=%d\n",a,fl,b,(int)c,d,r); }
int main(void){
  const char *fn="ro4.hdf"; int32 dims[1]={6};
  int32 sd=SDstart(fn,DFACC_CREATE); int32 sds=SDcreate(sd,"nodata",DFNT_INT32,1,dims); SDendaccess(sds); SDend(sd);
  sd=SDstart(fn,DFACC_READ); sds=SDselect(sd,0); view(sds);
  comp_info ci; memset(&ci,0,sizeof ci); ci.deflate.level=1;
  printf("SDsetcompress rc=%d\n", SDsetcompress(sds,COMP_CODE_DEFLATE,&ci)); view(sds);
  HDF_CHUNK_DEF c; memset(&c,0,sizeof c); c.chunk_lengths[0]=1;
  printf("SDsetchunk rc=%d\n", SDsetchunk(sds,c,HDF_CHUNK)); view(sds);
  SDendaccess(sds); printf("SDend rc=%d\n", SDend(sd)); return 0; }
