/* replay: open READ, startaccess(1963/18, READ|APPENDABLE), reopen WRITE, Hseek(a1, 87, DF_END) */
#include "hdf.h"
#include <stdio.h>
#include <stdlib.h>
#include <string.h>
int main(int argc, char **argv)
{
    FILE *in = fopen(argv[1], "r"); static char line[1 << 20]; static unsigned char img[1 << 19]; size_t n = 0;
    while (fgets(line, sizeof line, in)) if (strncmp(line, "T ro file ", 10) == 0) { for (char *p = line + 10; p[0] && p[1] && p[0] != '\n' && p[0] != ' '; p += 2) { unsigned v; sscanf(p, "%2x", &v); img[n++] = (unsigned char)v; } break; }
    FILE *o = fopen("p17.hdf", "wb"); fwrite(img, 1, n, o); fclose(o); printf("file of %zu bytes\n", n);
    int32 f0 = Hopen("p17.hdf", DFACC_READ, 0); int32 a0 = Hstartread(f0, 1962, 21); int32 a1 = Hstartaccess(f0, 1963, 18, 17);
    int32 f1 = Hopen("p17.hdf", DFACC_WRITE, 0); printf("f0=%d a0=%d a1=%d f1=%d\n", (int)f0, (int)a0, (int)a1, (int)f1);
    int32 len = -1, off = -1; int16 sp = -1; Hinquire(a1, NULL, NULL, NULL, &len, &off, NULL, NULL, &sp); printf("a1 len=%d off=%d special=%d\n", (int)len, (int)off, sp);
    int rc = Hsetlength(a0, 46); printf("Hsetlength(a0,46) -> %d\n", rc);
    rc = Hseek(a1, 87, DF_END); printf("Hseek(a1,87,END) -> %d\n", rc); if (rc == FAIL) HEprint(stdout, 0);
    return 0;
}
