/* read-only file: which refused GR mutator makes GRgetchunkinfo fail afterwards? */
#include "hdf.h"
#include "mfgr.h"
#include <stdio.h>
#include <stdlib.h>
#include <string.h>
static int32 ri, gr;
static void show(const char *what) { HDF_CHUNK_DEF cd; int32 fl = -7; int rc = GRgetchunkinfo(ri, &cd, &fl); printf("%-28s GRgetchunkinfo rc=%d flags=%d\n", what, rc, (int)fl); if (rc == FAIL) HEprint(stdout, 0); }
int main(int argc, char **argv)
{
    const char *p = "p15.hdf"; int which = argc > 1 ? atoi(argv[1]) : -1;
    int32 dims[2] = {5, 4}, st[2] = {0, 0}; uint8 img[60]; memset(img, 7, sizeof img);
    int32 f = Hopen(p, DFACC_CREATE, 0); gr = GRstart(f); ri = GRcreate(gr, "img", 3, DFNT_UINT8, MFGR_INTERLACE_PIXEL, dims);
    GRwriteimage(ri, st, NULL, dims, img); GRendaccess(ri); GRend(gr); Hclose(f);
    f = Hopen(p, DFACC_READ, 0); gr = GRstart(f); ri = GRselect(gr, 0);
    show("fresh");
    int32 one[2] = {1, 1}, v = 1; comp_info ci; HDF_CHUNK_DEF c; memset(&ci, 0, sizeof ci); ci.deflate.level = 1; memset(&c, 0, sizeof c); c.chunk_lengths[0] = 2; c.chunk_lengths[1] = 2;
    if (which < 0 || which == 0) { printf("GRsetattr -> %d\n", (int)GRsetattr(ri, "a", DFNT_INT32, 1, &v)); show("after GRsetattr"); }
    if (which < 0 || which == 1) { printf("GRwriteimage -> %d\n", (int)GRwriteimage(ri, st, NULL, one, img)); show("after GRwriteimage"); }
    if (which < 0 || which == 2) { printf("GRsetcompress -> %d\n", (int)GRsetcompress(ri, COMP_CODE_DEFLATE, &ci)); show("after GRsetcompress"); }
    if (which < 0 || which == 3) { printf("GRsetchunk -> %d\n", (int)GRsetchunk(ri, c, HDF_CHUNK)); show("after GRsetchunk"); }
    uint8 out[60]; memset(out, 0, sizeof out); printf("GRreadimage -> %d first=%d\n", (int)GRreadimage(ri, st, NULL, dims, out), out[0]);
    printf("GRendaccess %d\n", (int)GRendaccess(ri)); printf("GRend %d\n", (int)GRend(gr)); { int rc = Hclose(f); printf("Hclose %d\n", rc); if (rc == FAIL) HEprint(stdout, 0); }
    return 0;
}
