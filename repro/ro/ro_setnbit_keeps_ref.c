/* A refused SDsetnbitdataset on a data set that has no data yet (file opened DFACC_READ; the same for any other failure of HCcreate)
 * leaves the reference number it allocated in var->data_ref: SDreaddata, SDgetcompinfo, SDgetchunkinfo on that data set fail for the
 * rest of the session.  The siblings SDsetcompress / SDsetchunk / SDsetexternalfile were repaired by c112a10; SDsetnbitdataset was not.
 * exit 1 = defect present. */
#include <stdio.h>
#include <string.h>
#include "mfhdf.h"
int main(void)
{
    const char *path = "ro_setnbit_keeps_ref.hdf"; int32 dims[1] = {6}, st[1] = {0}, ct[1] = {1}, v = -1, fl = -9; HDF_CHUNK_DEF cd; comp_coder_t c = COMP_CODE_INVALID; comp_info ci;
    int32 sd = SDstart(path, DFACC_CREATE), s = SDcreate(sd, "nodata", DFNT_INT32, 1, dims); SDendaccess(s); SDend(sd);
    sd = SDstart(path, DFACC_READ); s = SDselect(sd, 0);
    int r0 = SDreaddata(s, st, NULL, ct, &v), k0 = SDgetchunkinfo(s, &cd, &fl), c0 = SDgetcompinfo(s, &c, &ci);
    printf("before: SDreaddata -> %d (value %d), SDgetchunkinfo -> %d, SDgetcompinfo -> %d\n", r0, (int)v, k0, c0);
    int rc = SDsetnbitdataset(s, 0, 4, 0, 0);
    printf("read-only: SDsetnbitdataset -> %d\n", rc);
    int r1 = SDreaddata(s, st, NULL, ct, &v), k1 = SDgetchunkinfo(s, &cd, &fl), c1 = SDgetcompinfo(s, &c, &ci);
    printf("after:  SDreaddata -> %d, SDgetchunkinfo -> %d, SDgetcompinfo -> %d\n", r1, k1, c1);
    SDendaccess(s); SDend(sd);
    if (r1 != r0 || k1 != k0 || c1 != c0) { printf("DEFECT: the refused call changed what the session reads\n"); return 1; }
    printf("ok\n"); return 0;
}
