/* ids of the wrong kind at the H layer: HAatom_object resolves ANY atom, so Hendaccess(fid) / Hread(fid) read a filerec_t as an
   accrec_t (SEGV), Hclose(aid) / Hexist(aid) / Hstartread(aid) read an accrec_t as a filerec_t.  argv[2] = 0..4 selects the call. */
#include "hdf.h"
#include "hfile_priv.h"
#include <stdio.h>
#include <string.h>
int main(int argc,char**argv){
  uint8 b[100]; memset(b,'x',100); int which = argc>2 ? atoi(argv[2]) : 0;
  int32 fid=Hopen(argv[1],DFACC_CREATE,0); Hputelement(fid,1000,1,b,10);
  int32 aid=Hstartread(fid,1000,1);
  printf("sizeof filerec_t=%zu accrec_t=%zu\n",sizeof(filerec_t),sizeof(accrec_t)); fflush(stdout);
  if(which==0){ printf("Hclose(aid)=%d\n",(int)Hclose(aid)); fflush(stdout);}
  if(which==1){ printf("Hendaccess(fid)=%d\n",(int)Hendaccess(fid)); fflush(stdout);}
  if(which==2){ printf("Hexist(aid,..)=%d\n",(int)Hexist(aid,1000,1)); fflush(stdout);}
  if(which==3){ uint8 c[10]; printf("Hread(fid,..)=%d\n",(int)Hread(fid,4,c)); fflush(stdout);}
  if(which==4){ printf("Hstartread(aid,..)=%d\n",(int)Hstartread(aid,1000,1)); fflush(stdout);}
  { int e_=Hendaccess(aid); int c_=Hclose(fid); printf("Hendaccess(aid)=%d Hclose(fid)=%d\n",e_,c_); }
  return 0;}
