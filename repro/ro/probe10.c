/* Hnextread on an access record that sits on a LINKED-BLOCK element: it calls HLPcloseAID (frees special_info, sets it NULL) but
   leaves access_rec->special = SPECIAL_LINKED; when the search then finds no further match Hnextread returns FAIL and the
   caller's Hendaccess -> HLPendaccess -> HLPcloseAID dereferences the NULL special_info.
   This is the library's own idiom (Hstartread + Hnextread loop + Hendaccess): ANIcreate_ann_tree, so ANselect/ANfileinfo crash
   on a file whose last label is stored as a linked-block element. */
#include "hdf.h"
#include <stdio.h>
#include <string.h>
int main(int argc,char**argv){
  uint8 b[100]; memset(b,'x',100);
  int32 fid=Hopen(argv[1],DFACC_CREATE,0);
  int32 aid=HLcreate(fid,1000,1,16,2); Hwrite(aid,40,b); Hendaccess(aid);   /* the only element of tag 1000, linked-block */
  Hclose(fid);
  fid=Hopen(argv[1],DFACC_READ,0);
  aid=Hstartread(fid,1000,DFREF_WILDCARD); printf("Hstartread=%d\n",(int)aid); fflush(stdout);
  printf("Hnextread (no further match) = %d\n",(int)Hnextread(aid,1000,DFREF_WILDCARD,DF_CURRENT)); fflush(stdout);
  printf("Hendaccess = %d\n",(int)Hendaccess(aid)); fflush(stdout);
  printf("Hclose = %d\n",(int)Hclose(fid));
  return 0;}
