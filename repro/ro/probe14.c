/* A vdata attached twice for reading gets two ids (VSattach registers a new atom each time, nattach = 2), but VSdetach removes
   the atom only when nattach reaches 0: the id given to the FIRST VSdetach stays registered for ever.  A second VSdetach of
   it succeeds (nattach becomes -1) and inquiries on it keep working: double release and use after release are accepted. */
#include "hdf.h"
#include <stdio.h>
#include <string.h>
int main(int argc,char**argv){
  uint8 b[40]; memset(b,1,40);
  int32 fid=Hopen(argv[1],DFACC_CREATE,0); Vstart(fid);
  int32 vs=VSattach(fid,-1,"w"); VSsetname(vs,"t"); VSfdefine(vs,"a",DFNT_INT32,1); VSsetfields(vs,"a"); VSwrite(vs,b,10,FULL_INTERLACE); int32 ref=VSQueryref(vs); VSdetach(vs);
  int32 v1=VSattach(fid,ref,"r"), v2=VSattach(fid,ref,"r"); printf("ids %d %d (distinct: %d)\n",(int)v1,(int)v2,v1!=v2);
  printf("VSdetach(v1)=%d\n",(int)VSdetach(v1));
  printf("VSdetach(v2)=%d\n",(int)VSdetach(v2));
  printf("VSdetach(v1) again=%d (must be FAIL)\n",(int)VSdetach(v1));
  int32 n=-1; printf("VSinquire(v1) after its release=%d n=%d (must be FAIL)\n",(int)VSinquire(v1,&n,NULL,NULL,NULL,NULL),(int)n);
  Vend(fid); printf("Hclose=%d\n",(int)Hclose(fid)); return 0;}
