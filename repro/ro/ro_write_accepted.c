#include "mfhdf.h"
#include <stdio.h>
#include <string.h>
int main(void){
  const char *fn="ro2.hdf"; int32 dims[1]={10}, st[1]={0}; int32 v[10]={1,2,3,4,5,6,7,8,9,10}, r[10];
  int32 sd=SDstart(fn,DFACC_CREATE); int32 sds=SDcreate(sd,"nodata",DFNT_INT32,1,dims); SDendaccess(sds); SDend(sd);
  sd=SDstart(fn,DFACC_READ); sds=SDselect(sd,0);
  int rc=SDwritedata(sds,st,NULL,dims,v); printf("RO SDwritedata on dataless SDS rc=%d (want -1) v[0]=%d\n",rc,v[0]);
  int rc2=SDreaddata(sds,st,NULL,dims,r); printf("read rc=%d r[0]=%d\n",rc2,r[0]);
  SDendaccess(sds); SDend(sd);
  /* 3: DFR8 RLE raster, GRwriteimage RO */
  const char *f2="ro3.hdf"; uint8 img[8*8]; for(int i=0;i<64;i++) img[i]=(uint8)(i/8);
  DFR8putimage(f2,img,8,8,COMP_RLE);
  int32 fid=Hopen(f2,DFACC_READ,0); int32 gr=GRstart(fid); int32 ri=GRselect(gr,0); int32 s2[2]={0,0}, c2[2]={8,8}; uint8 w[64]; memset(w,9,64);
  int rc3=GRwriteimage(ri,s2,NULL,c2,w); printf("RO GRwriteimage on DFR8 RLE raster rc=%d (want -1)\n",rc3);
  GRendaccess(ri); GRend(gr); Hclose(fid);
  return (rc!=-1)|((rc3!=-1)<<1);
}
