/* VSdelete on a read-only file: returns FAIL (Hdeldd is refused) but has already removed the Vdata from the file's in-memory
   table and destroyed its node: VSattach of the same ref now fails; if the Vdata was attached, its handle dangles
   (heap-use-after-free on the next VS call), its access id is never released and the final Hclose fails. */
#include "hdf.h"
#include <stdio.h>
#include <string.h>
int main(int argc,char**argv){
  int which = argc > 2;
  uint8 b[40]; memset(b,1,40);
  int32 fid=Hopen(argv[1],DFACC_CREATE,0); Vstart(fid);
  int32 vs=VSattach(fid,-1,"w"); VSsetname(vs,"t"); VSfdefine(vs,"a",DFNT_INT32,1); VSsetfields(vs,"a"); VSwrite(vs,b,10,FULL_INTERLACE); int32 ref=VSQueryref(vs); VSdetach(vs); Vend(fid); Hclose(fid);
  fid=Hopen(argv[1],DFACC_READ,0); Vstart(fid);
  if (which) vs=VSattach(fid,ref,"r");
  printf("VSdelete on read-only file = %d\n",(int)VSdelete(fid,ref)); fflush(stdout);
  if (which) { printf("VSdetach(attached before) = %d\n",(int)VSdetach(vs)); fflush(stdout); }
  printf("VSattach(ref) afterwards = %d\n",(int)VSattach(fid,ref,"r")); fflush(stdout);
  Vend(fid); printf("Hclose = %d\n", Hclose(fid)); return 0;}
