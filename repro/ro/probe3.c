/* probe: Hsetlength on a READ aid of an element whose DD has no data yet (offset/length INVALID) */
#include "hdf.h"
#include <stdio.h>
#include <string.h>
#include <stdlib.h>
static long fsum(const char *p){FILE*f=fopen(p,"rb");unsigned long s=0;int c;long n=0;while((c=fgetc(f))!=EOF){s=s*131+c;n++;}fclose(f);return (long)(s^n);}
int main(int argc,char**argv){
  const char*path=argv[1];
  uint8 b[100]; memset(b,7,100);
  int32 fid=Hopen(path,DFACC_CREATE,4);
  Hputelement(fid,1000,1,b,50);
  int32 aid=Hstartaccess(fid,1000,2,DFACC_RDWR); Hendaccess(aid);   /* DD (1000,2) with offset -1 length -1 */
  Hclose(fid);
  long s0=fsum(path);
  fid=Hopen(path,DFACC_READ,0);
  aid=Hstartread(fid,1000,2); printf("Hstartread=%d\n",(int)aid);
  printf("Hsetlength(read aid)=%d\n",Hsetlength(aid,10));
  printf("Hlength=%d\n",(int)Hlength(fid,1000,2));
  printf("Hendaccess=%d\n",Hendaccess(aid));
  int r=Hclose(fid); printf("Hclose=%d\n",r);
  if(r==FAIL){ HEprint(stdout,0); printf("Hclose again=%d\n",Hclose(fid)); }
  printf("file %s\n", fsum(path)==s0?"unchanged":"CHANGED");
  return 0;}
