/* F8: Hbitwrite / Hbitread keep a function-static (last_bit_id, bitfile_rec) pair; after Hendbitaccess(bitid) freed the record,
   a call with the same (now invalid) bit id skips HAatom_object and uses the freed record: heap-use-after-free instead of FAIL. */
#include "hdf.h"
#include <stdio.h>
int main(int argc,char**argv){
  int which = argc > 2;
  int32 fid=Hopen(argv[1],DFACC_CREATE,0);
  int32 bid=Hstartbitwrite(fid,1000,1,16);
  printf("Hbitwrite=%d\n",(int)Hbitwrite(bid,8,0xAB)); fflush(stdout);
  printf("Hendbitaccess=%d\n",(int)Hendbitaccess(bid,0)); fflush(stdout);
  if(!which){ printf("Hbitwrite after end=%d (must be FAIL)\n",(int)Hbitwrite(bid,8,0xCD)); fflush(stdout);}
  else { uint32 v; int32 rb=Hstartbitread(fid,1000,1); printf("Hbitread=%d\n",(int)Hbitread(rb,8,&v)); Hendbitaccess(rb,0); fflush(stdout);
         printf("Hbitread after end=%d (must be FAIL)\n",(int)Hbitread(rb,8,&v)); fflush(stdout);}
  printf("Hclose=%d\n",(int)Hclose(fid)); return 0;}
