/* A REFUSED SDsetattr(dimension id, ...) on a file opened DFACC_READ changes what the session reads: SDsetattr looks the attribute list
 * up through SDIapfromid -> SDIgetcoordvar BEFORE it tests NC_RDWR, and SDIgetcoordvar appends an empty coordinate variable for a dimension
 * that has none.  SDfileinfo then counts one data set more, SDnametoindex finds a variable named like the dimension.  exit 1 = defect present. */
#include <stdio.h>
#include <string.h>
#include "mfhdf.h"
int main(void)
{
    const char *path = "ro_setattr_dim_adds_var.hdf"; int32 dims[1] = {4}, st[1] = {0}; int16 v[4] = {1, 2, 3, 4}; float32 f = 1.5f;
    int32 sd = SDstart(path, DFACC_CREATE), s = SDcreate(sd, "a", DFNT_INT16, 1, dims); SDwritedata(s, st, NULL, dims, v); SDendaccess(s); SDend(sd);
    sd = SDstart(path, DFACC_READ); s = SDselect(sd, 0); int32 dim = SDgetdimid(s, 0);
    int32 nd0 = -1, na0 = -1, nd1 = -1, na1 = -1; SDfileinfo(sd, &nd0, &na0);
    int i0 = SDnametoindex(sd, "fakeDim0");
    int rc = SDsetattr(dim, "dattr", DFNT_FLOAT32, 1, &f);
    SDfileinfo(sd, &nd1, &na1);
    int i1 = SDnametoindex(sd, "fakeDim0");
    printf("read-only: SDfileinfo -> %d data sets, SDnametoindex(\"fakeDim0\") -> %d\n", (int)nd0, i0);
    printf("read-only: SDsetattr(dimid, \"dattr\", ...) -> %d\n", rc);
    printf("read-only: SDfileinfo -> %d data sets, SDnametoindex(\"fakeDim0\") -> %d\n", (int)nd1, i1);
    SDendaccess(s); SDend(sd);
    if (rc != FAIL) { printf("DEFECT: accepted\n"); return 1; }
    if (nd1 != nd0 || i1 != i0) { printf("DEFECT: the refused call changed what the session reads\n"); return 1; }
    printf("ok\n"); return 0;
}
