/* Vinquire on a vgroup that has no name (vg->vgname == NULL, e.g. the group SDsetchunk leaves behind, or Vattach(-1,"w")+Vdetach
   without Vsetname) does strcpy(vgname, NULL): NULL dereference.  Vgetname handles the same case. */
#include "hdf.h"
#include <stdio.h>
int main(int argc,char**argv){
  int32 fid=Hopen(argv[1],DFACC_CREATE,0); Vstart(fid);
  int32 vg=Vattach(fid,-1,"w"); int32 ref=VQueryref(vg); Vdetach(vg); Vend(fid); Hclose(fid);
  fid=Hopen(argv[1],DFACC_READ,0); Vstart(fid);
  vg=Vattach(fid,ref,"r"); char nm[VGNAMELENMAX+1]="x"; int32 n=-1;
  printf("Vgetname=%d '%s'\n",(int)Vgetname(vg,nm),nm);
  printf("Vinquire=%d\n",(int)Vinquire(vg,&n,nm));
  Vdetach(vg); Vend(fid); Hclose(fid); return 0;}
