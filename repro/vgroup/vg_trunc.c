/* A DFTAG_VG element shorter than its own counts: vunpackvg (vgp.c) has no length check.
   record: nvelt=0xffff, version=3, more=0, 7 bytes in all -> reads 2*65535*2 bytes behind a 7-byte heap buffer. */
#include "hdf.h"
#include <stdio.h>
int main(int argc, char **argv)
{
    const char *fn = argc > 1 ? argv[1] : "vg_trunc.hdf";
    int which = argc > 2 ? atoi(argv[2]) : 0;
    int32 f = Hopen(fn, DFACC_CREATE, 0);
    if (which == 0) {
        uint8 rec[7] = {0xff, 0xff, 0x00, 0x03, 0x00, 0x00, 0x00};
        Hputelement(f, DFTAG_VG, 2, rec, 7);
    } else if (which == 1) {
        uint8 rec[2] = {0x00, 0x00}; /* len < 5: &buf[len-5] is before the buffer */
        Hputelement(f, DFTAG_VG, 2, rec, 2);
    } else {
        uint8 rec[9] = {0,0,0,0,0,0, 0x00,0x03, 0x00}; /* DFTAG_VH of 9 bytes: nfields etc. past the end */
        Hputelement(f, DFTAG_VH, 2, rec, 9);
    }
    Hclose(f);
    f = Hopen(fn, DFACC_READ, 0);
    Vstart(f);
    if (which < 2) { int32 vg = Vattach(f, 2, "r"); printf("Vattach -> %d\n", (int)vg); if (vg != FAIL) { printf("ntagrefs %d\n", (int)Vntagrefs(vg)); Vdetach(vg);} }
    else { int32 vs = VSattach(f, 2, "r"); printf("VSattach -> %d\n", (int)vs); if (vs != FAIL) VSdetach(vs); }
    Vend(f); Hclose(f);
    return 0;
}
