/* C11 observation: ANwriteann with an empty text returns FAIL (a zero-length Hwrite/Hputelement is an error) but only
 * after the element has been created: the "failed" annotation exists in the file (4-byte prefix / 0 bytes). */
#include "hdf.h"
#include <stdio.h>
int main(void) {
    int32 f = Hopen("r8.hdf", DFACC_CREATE, 0), an = ANstart(f), a, b, c, d;
    int32 id = ANcreate(an, 1000, 5, AN_DATA_LABEL);
    int32 r = ANwriteann(id, "", 0);
    printf("ANwriteann(empty) = %d, element length now = %d\n", (int)r, (int)Hlength(f, DFTAG_DIL, 1));
    ANend(an); Hclose(f);
    f = Hopen("r8.hdf", DFACC_READ, 0); an = ANstart(f); ANfileinfo(an, &a, &b, &c, &d);
    printf("after reopen: object labels = %d\n", (int)c);
    ANend(an); Hclose(f); return 0;
}
