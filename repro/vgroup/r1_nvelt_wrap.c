/* C08/C20 finding: the 65536th Vaddtagref wraps the uint16 member counter; the vgroup silently becomes empty.
 * vgp.c vinsertpair(): `vg->nvelt++` on a uint16 (lines ~1981-1986). Expected: failure (or 65536 members). */
#include "hdf.h"
#include <stdio.h>
int main(void) {
    int32 f = Hopen("r1.hdf", DFACC_CREATE, 0); Vstart(f);
    int32 vg = Vattach(f, -1, "w"), r = 0;
    for (int i = 0; i < 65535; i++) r = Vaddtagref(vg, 1000, i % 60000 + 1);
    printf("after 65535 adds : ret=%d Vntagrefs=%d\n", (int)r, (int)Vntagrefs(vg));
    r = Vaddtagref(vg, 1000, 7);
    printf("65536th add      : ret=%d Vntagrefs=%d Vinqtagref(1000,1)=%d   <-- members lost\n", (int)r, (int)Vntagrefs(vg), Vinqtagref(vg, 1000, 1));
    int32 ref = VQueryref(vg); Vdetach(vg); Vend(f); Hclose(f);
    f = Hopen("r1.hdf", DFACC_READ, 0); Vstart(f); vg = Vattach(f, ref, "r");
    printf("after reopen     : Vntagrefs=%d record length=%d\n", (int)Vntagrefs(vg), (int)Hlength(f, DFTAG_VG, ref));
    Vdetach(vg); Vend(f); Hclose(f); return 0;
}
