/* C08 finding: Vlone/VSlone index a calloc(MAX_REF = 65535) flag array with member refs; a member
 * (DFTAG_VG, 65535) [resp. (DFTAG_VH, 65535) for VSlone] writes one byte past the allocation (vg.c:839 / vg.c:771).
 * Run under ASan/UBSan or valgrind. */
#include "hdf.h"
#include <stdio.h>
int main(void) {
    int32 f = Hopen("r2.hdf", DFACC_CREATE, 0); Vstart(f);
    int32 vg = Vattach(f, -1, "w");
    Vaddtagref(vg, DFTAG_VG, 65535);
    int32 ids[4];
    printf("Vlone = %d\n", (int)Vlone(f, ids, 4));   /* lonevg[65535] = 0 : out of bounds */
    Vaddtagref(vg, DFTAG_VH, 65535);
    printf("VSlone = %d\n", (int)VSlone(f, ids, 4)); /* lonevdata[65535] = 0 : out of bounds */
    Vdetach(vg); Vend(f); Hclose(f); return 0;
}
