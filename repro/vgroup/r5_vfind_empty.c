/* observation: Vsetname(vg, "") stores a non-NULL empty name; vpackvg stores it like "no name" and vunpackvg gives NULL back.
 * Vfind(f, "") therefore finds the group until the file is reopened, and never afterwards. */
#include "hdf.h"
#include <stdio.h>
int main(void) {
    int32 f = Hopen("r5.hdf", DFACC_CREATE, 0); Vstart(f);
    int32 vg = Vattach(f, -1, "w"); Vsetname(vg, ""); int32 ref = VQueryref(vg);
    printf("ref=%d  Vfind(\"\") while open = %d\n", (int)ref, (int)Vfind(f, ""));
    Vdetach(vg); Vend(f); Hclose(f);
    f = Hopen("r5.hdf", DFACC_READ, 0); Vstart(f);
    printf("Vfind(\"\") after reopen = %d\n", (int)Vfind(f, ""));
    Vend(f); Hclose(f); return 0;
}
