/* side finding (vgp.c:2644): Vinquire(vkey, &n, name) on a vgroup whose name was never set does strcpy(name, NULL). */
#include "hdf.h"
#include <stdio.h>
int main(void) {
    int32 f = Hopen("r3.hdf", DFACC_CREATE, 0); Vstart(f);
    int32 vg = Vattach(f, -1, "w"), n = -1; char nm[256];
    printf("Vinquire = %d\n", Vinquire(vg, &n, nm));  /* segfault / UBSan: null pointer passed as argument 2 */
    Vdetach(vg); Vend(f); Hclose(f); return 0;
}
