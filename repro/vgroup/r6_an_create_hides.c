/* C11 finding: ANcreate/ANcreatef as the FIRST annotation call of a session on a file that already holds annotations
 * of that type: ANIaddentry (mfan.c:312) creates the type's tree empty and marks it loaded without scanning the file,
 * so the existing annotations are invisible (ANfileinfo/ANnumann/ANannlist/ANselect/ANtagref2id) until ANend. */
#include "hdf.h"
#include <stdio.h>
int main(void) {
    int32 f = Hopen("r6.hdf", DFACC_CREATE, 0), an = ANstart(f), a, b, c, d;
    for (int i = 0; i < 3; i++) { int32 id = ANcreate(an, 1000, 5, AN_DATA_LABEL); ANwriteann(id, "lab", 3); ANendaccess(id); }
    ANend(an); Hclose(f);
    f = Hopen("r6.hdf", DFACC_RDWR, 0); an = ANstart(f);
    int32 id = ANcreate(an, 1000, 5, AN_DATA_LABEL); ANwriteann(id, "new", 3);
    ANfileinfo(an, &a, &b, &c, &d);
    int n = ANnumann(an, AN_DATA_LABEL, 1000, 5);
    printf("session that starts with ANcreate: object labels = %d, ANnumann = %d   (file holds 4)\n", (int)c, n);
    ANend(an); Hclose(f);
    f = Hopen("r6.hdf", DFACC_READ, 0); an = ANstart(f); ANfileinfo(an, &a, &b, &c, &d);
    printf("fresh session                    : object labels = %d\n", (int)c);
    ANend(an); Hclose(f); return 0;
}
