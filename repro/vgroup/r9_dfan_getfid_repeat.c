/* side finding (dfan.c:1499-1504): DFANgetfid/DFANgetfds used WITHOUT a preceding DFANgetfidlen/DFANgetfdslen:
 * when the annotation just read is the last one, `Next_label_ref++` increments a stale value (not the ref just read),
 * so with one file label (ref 1, stale value 0) the "next" call returns the same label again. */
#include "hdf.h"
#include <stdio.h>
int main(void) {
    int32 f = Hopen("r9.hdf", DFACC_CREATE, 0);
    DFANaddfid(f, "only label"); Hclose(f);
    f = Hopen("r9.hdf", DFACC_READ, 0);
    char b[64];
    int32 l1 = DFANgetfid(f, b, 64, 1); printf("first : %d '%s'\n", (int)l1, b);
    int32 l2 = DFANgetfid(f, b, 64, 0); printf("second: %d '%s'   (expected -1: there is only one)\n", (int)l2, l2 > 0 ? b : "");
    Hclose(f); return 0;
}
