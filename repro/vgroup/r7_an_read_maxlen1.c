/* C11 finding: ANreadann (mfan.c:861-876) / DFANgetlabel (dfan.c:1015-1028) clip a label to maxlen-1 bytes and pass the
 * clipped length to Hread; with maxlen == 1 that is 0, which Hread takes as "to the end of the element":
 * the whole label is copied into the caller's 1-byte buffer.  (Same for descriptions with maxlen == 0.) */
#include "hdf.h"
#include <stdio.h>
#include <stdlib.h>
int main(void) {
    int32 f = Hopen("r7.hdf", DFACC_CREATE, 0), an = ANstart(f);
    int32 id = ANcreate(an, 1000, 5, AN_DATA_LABEL);
    ANwriteann(id, "a label of 22 bytes...", 22);
    char *buf = malloc(1);                       /* room for the terminating NUL only */
    printf("ANreadann(maxlen=1) = %d\n", (int)ANreadann(id, buf, 1));   /* ASan: heap-buffer-overflow WRITE of size 22 */
    ANend(an); Hclose(f); return 0;
}
