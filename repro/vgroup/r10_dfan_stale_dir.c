/* observation: DFAN keeps its label/description directory per file NAME (Lastopened); annotations added through the
 * AN interface (or any other writer) after the directory was built are not seen until DFANclear() or another file. */
#include "hdf.h"
#include <stdio.h>
int main(void) {
    char lab[64];
    int32 f = Hopen("r10.hdf", DFACC_CREATE, 0); Hclose(f);
    DFANputlabel("r10.hdf", 1000, 1, "first");                        /* builds the DFAN directory for r10.hdf */
    f = Hopen("r10.hdf", DFACC_RDWR, 0); int32 an = ANstart(f);
    int32 id = ANcreate(an, 1000, 2, AN_DATA_LABEL); ANwriteann(id, "second", 6); ANend(an); Hclose(f);
    printf("DFANgetlabel(1000,2) with the cached directory = %d\n", DFANgetlabel("r10.hdf", 1000, 2, lab, 64));
    DFANclear();
    printf("after DFANclear()                              = %d '%s'\n", DFANgetlabel("r10.hdf", 1000, 2, lab, 64), lab);
    return 0;
}
