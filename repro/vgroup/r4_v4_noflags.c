/* C08 finding: vpackvg omits the 4-byte flags word when vg->flags == 0 but still writes version 4;
 * vunpackvg reads a flags word whenever version == 4.  A version-4 record with flags 0 (legal on disk) that the
 * library rewrites once is then mis-parsed: version/more are taken for the flags, and if `more` is odd
 * (VG_ATTR_SET) an attribute count and list are read from beyond the record (ASan: heap-buffer-overflow in
 * vunpackvg, vgp.c:973; without ASan: garbage nattrs / failed Vstart). */
#include "hdf.h"
#include <stdio.h>
int main(void) {
    /* nvelt=1 tag=1000 ref=8 | namelen=1 'p' | classlen=0 | extag=0 exref=0 | flags=0 | version=4 more=1 | 0 */
    unsigned char rec[] = {0,1, 3,232, 0,8, 0,1,'p', 0,0, 0,0, 0,0, 0,0,0,0, 0,4, 0,1, 0};
    int32 f = Hopen("r4.hdf", DFACC_CREATE, 0);
    Hputelement(f, DFTAG_VG, 2, rec, sizeof rec); Hclose(f);
    f = Hopen("r4.hdf", DFACC_RDWR, 0); Vstart(f);
    int32 vg = Vattach(f, 2, "w");
    printf("loaded: n=%d version=%d\n", (int)Vntagrefs(vg), (int)Vgetversion(vg));
    Vaddtagref(vg, 1001, 9);           /* marks the vgroup */
    Vdetach(vg);                       /* rewrites it: no flags word, version still 4 */
    Vend(f); Hclose(f);
    f = Hopen("r4.hdf", DFACC_READ, 0);
    printf("Vstart = %d\n", (int)Vstart(f));   /* reads nattrs and alist[] outside the record */
    vg = Vattach(f, 2, "r");
    if (vg != FAIL) printf("reloaded: n=%d nattrs=%d\n", (int)Vntagrefs(vg), (int)Vnattrs(vg));
    return 0;
}
