/* hdfsds.c hdf_read_ndgs has no case for DFTAG_FV: the fill value DFSDsetfillvalue stored in the NDG is not presented by SD
 * (SDgetfillvalue fails, no _FillValue attribute), DFSDgetfillvalue returns it. */
#include "hdf.h"
#include "mfhdf.h"
#include <stdio.h>
int main(void)
{
    const char *path = "fillvalue.hdf";
    int32 dims[1] = {4}; int16 data[4] = {1, 2, 3, 4}, fv = -999, a = 0, b = 0;
    DFSDclear(); DFSDsetNT(DFNT_INT16); DFSDsetdims(1, dims); DFSDsetfillvalue(&fv);
    if (DFSDputdata(path, 1, dims, data) == FAIL) return 2;
    DFSDclear(); DFSDrestart();
    int rank; int32 d2[1]; DFSDgetdims(path, &rank, d2, 1);
    int r1 = DFSDgetfillvalue(&a);
    int32 sd = SDstart(path, DFACC_READ), sds = SDselect(sd, SDreftoindex(sd, DFSDlastref()));
    int r2 = SDgetfillvalue(sds, &b);
    printf("DFSDgetfillvalue -> %d (%d), SDgetfillvalue -> %d (%d), SDfindattr(_FillValue) = %d\n", r1, a, r2, b, (int)SDfindattr(sds, "_FillValue"));
    SDendaccess(sds); SDend(sd);
    return !(r1 == r2 && a == b);
}
