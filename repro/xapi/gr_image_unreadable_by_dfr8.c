/* No image written through GR is readable through DFR8 (or DF24): GRIupdateRIG writes a RIG only for DFNT_UINT8 images and
 * records NT type DFNT_UINT8, DFR8getrig / DFGRgetrig accept only NT type DFNT_UCHAR.  DFR8nimages = 1, DFR8getdims = -1. */
#include "hdf.h"
#include <stdio.h>
#include <string.h>
int main(int argc, char **argv) {
  const char *fn = "/tmp/g8.hdf"; uint8 pix[12], buf[12]; for (int i = 0; i < 12; i++) pix[i] = (uint8)(i + 1);
  int32 fid = Hopen(fn, DFACC_CREATE, 0), gr = GRstart(fid), d[2] = {4, 3}, st[2] = {0, 0};
  int32 ri = GRcreate(gr, "im", 1, DFNT_UINT8, argc > 1 ? atoi(argv[1]) : 0, d);
  GRwriteimage(ri, st, NULL, d, pix); GRendaccess(ri); GRend(gr); Hclose(fid);
  int32 x, y; int ip;
  DFR8restart();
  printf("DFR8nimages=%d\n", DFR8nimages(fn));
  int r = DFR8getdims(fn, &x, &y, &ip); printf("DFR8getdims=%d %dx%d\n", r, (int)x, (int)y);
  if (r == FAIL) HEprint(stdout, 0);
  r = DFR8getimage(fn, buf, 4, 3, NULL); printf("DFR8getimage=%d same=%d\n", r, !memcmp(buf, pix, 12));
  return 0; }
