/* DFSDIputndg / DFSDIgetndg (hdf/src/dfsd.c) build and parse the DFTAG_SDD record in the 1024-byte scratch buffer
 * `ptbuf` (TBUF_SZ) without looking at the rank: the record is 2 + 4*rank + 4*(rank+1) bytes, i.e. > 1024 from rank 128.
 * DFSDsetdims accepts any rank.  Writer: heap-buffer-overflow WRITE in DFSDIputndg.
 * usage: dfsd_rank_overflow <file> [rank]      (default rank 128, every dimension has size 1) */
#include "hdf.h"
#include <stdio.h>
#include <stdlib.h>
int main(int argc, char **argv)
{
    int rank = argc > 2 ? atoi(argv[2]) : 128;
    int32 *dims = malloc(sizeof(int32) * (size_t)rank);
    float32 v = 1.5f, w = 0;
    for (int i = 0; i < rank; i++) dims[i] = 1;
    DFSDclear();
    if (DFSDsetdims(rank, dims) == FAIL) { printf("DFSDsetdims(rank=%d) refused\n", rank); return 0; }
    int r = DFSDputdata(argv[1], rank, dims, &v);
    printf("DFSDputdata(rank=%d) = %d\n", rank, r);
    int rk = 0; int32 *rd = malloc(sizeof(int32) * (size_t)rank);
    DFSDrestart();
    r = DFSDgetdims(argv[1], &rk, rd, rank);
    printf("DFSDgetdims = %d rank %d\n", r, rk);
    r = DFSDgetdata(argv[1], rank, dims, &w);
    printf("DFSDgetdata = %d value %g\n", r, (double)w);
    return 0;
}
