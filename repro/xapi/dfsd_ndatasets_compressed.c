/* DFSDndatasets / DFSDgetdims on a file holding a compressed SDS (checked-in mfhdf/hdp/testfiles/sds_compressed.hdf):
 * DFSDIsetnsdg_t walks every DD with Hstartread(WILDCARD) + Hnextread and closes the access record with Hendaccess.
 * usage: dfsd_ndatasets_compressed <file> */
#include "hdf.h"
#include <stdio.h>
int main(int argc, char **argv)
{
    int n = DFSDndatasets(argv[1]);
    printf("DFSDndatasets = %d\n", n);
    return 0;
}
