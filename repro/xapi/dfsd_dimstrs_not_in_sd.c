/* hdfsds.c hdf_read_ndgs: `new_dim = FAIL; ... new_dim = SUCCEED; ... if (new_dim || ...)` - FAIL (-1) is true, SUCCEED (0) is false:
 * a dimension of a DFSD data set that HAS label/unit/format strings is NOT promoted to a coordinate variable and its strings are dropped
 * (SDgetdimstrs returns empty strings), every dimension WITHOUT strings gets an attribute-less coordinate variable instead. */
#include "hdf.h"
#include "mfhdf.h"
#include <stdio.h>
#include <string.h>
int main(void)
{
    const char *path = "dimstrs.hdf";
    int32 dims[2] = {3, 4}; int16 data[12] = {0};
    int bad = 0;
    DFSDclear(); DFSDsetNT(DFNT_INT16); DFSDsetdims(2, dims);
    DFSDsetdimstrs(1, "latitude", "degrees", "F7.2");
    if (DFSDputdata(path, 2, dims, data) == FAIL) return 2;
    DFSDclear(); DFSDrestart();
    int rank; int32 d2[2]; char l[64], u[64], f[64];
    DFSDgetdims(path, &rank, d2, 2); DFSDgetdimstrs(1, l, u, f);
    printf("DFSDgetdimstrs(dim 1): '%s' '%s' '%s'\n", l, u, f);
    int32 sd = SDstart(path, DFACC_READ), sds = SDselect(sd, SDreftoindex(sd, DFSDlastref()));
    for (int d = 0; d < 2; d++) {
        char sl[64] = "", su[64] = "", sf[64] = "", dn[64]; int32 sz, nt, na, dim = SDgetdimid(sds, d);
        SDdiminfo(dim, dn, &sz, &nt, &na); SDgetdimstrs(dim, sl, su, sf, 63);
        printf("SD dim %d (%s): %d attributes, SDgetdimstrs '%s' '%s' '%s', coordinate variable: %s\n", d, dn, (int)na, sl, su, sf, SDnametoindex(sd, dn) != FAIL ? "yes" : "no");
        if (d == 0 && (strcmp(sl, l) || strcmp(su, u) || strcmp(sf, f))) bad = 1;
    }
    SDendaccess(sds); SDend(sd);
    printf(bad ? "DISAGREE\n" : "agree\n");
    return bad;
}
