/* Reading a data set that was never written, in a session opened for writing (SDstart DFACC_RDWR + SDreaddata, or
 * ncopen NC_WRITE + ncvarget), changes the file: hdf_get_vp_aid -> hdf_get_data allocates a reference number for a data
 * element, adds DFTAG_SD/<ref> to the variable's Vgroup and marks the header dirty, so the close also writes that
 * DFTAG_SD/<ref> into the variable's NDG.  No element DFTAG_SD/<ref> exists.  Both descriptions of the variable now name a
 * data element that is not in the file. */
#include <stdio.h>
#include <string.h>
#include "hdf.h"
#include "mfhdf.h"

static void dump(const char *path, const char *when)
{
    int32 fid = Hopen(path, DFACC_READ, 0), vref = -1;
    Vstart(fid);
    while ((vref = Vgetid(fid, vref)) != FAIL) {
        int32 vg = Vattach(fid, vref, "r"); char nm[256] = "", cl[256] = "";
        Vgetname(vg, nm); Vgetclass(vg, cl);
        if (!strcmp(cl, "Var0.0")) {
            int n = Vntagrefs(vg);
            for (int i = 0; i < n; i++) { int32 t, r; Vgettagref(vg, i, &t, &r);
                if (t == DFTAG_SD) printf("%s: Vgroup '%s' names DFTAG_SD/%d, Hexist=%d Hlength=%d\n", when, nm, (int)r, (int)Hexist(fid, DFTAG_SD, (uint16)r), (int)Hlength(fid, DFTAG_SD, (uint16)r));
                if (t == DFTAG_NDG) { int32 g = DFdiread(fid, DFTAG_NDG, (uint16)r); uint16 et, er; while (DFdiget(g, &et, &er) == SUCCEED) if (et == DFTAG_SD) printf("%s: NDG %d names DFTAG_SD/%d, Hexist=%d\n", when, (int)r, er, (int)Hexist(fid, DFTAG_SD, er)); } }
        }
        Vdetach(vg);
    }
    Vend(fid); Hclose(fid);
}
int main(int argc, char **argv)
{
    const char *path = "rdwr_read.hdf"; int32 dims[1] = {4}, start[1] = {0}, buf[4] = {77, 77, 77, 77}, emp = -1;
    int32 sd = SDstart(path, DFACC_CREATE), sds = SDcreate(sd, "v", DFNT_INT32, 1, dims);
    SDendaccess(sds); SDend(sd);
    dump(path, "after create ");
    sd = SDstart(path, argc > 1 ? DFACC_READ : DFACC_RDWR); sds = SDselect(sd, 0);
    { int r = (int)SDreaddata(sds, start, NULL, dims, buf); printf("SDreaddata in the %s session = %d (value %d)\n", argc > 1 ? "read-only" : "RDWR", r, (int)buf[0]); }
    SDendaccess(sds); SDend(sd);
    dump(path, "after reading");
    sd = SDstart(path, DFACC_READ); sds = SDselect(sd, 0);
    SDcheckempty(sds, &emp); { int r = (int)SDreaddata(sds, start, NULL, dims, buf); printf("SDcheckempty = %d, SDreaddata(read-only) = %d (value %d)\n", (int)emp, r, (int)buf[0]); }
    SDendaccess(sds); SDend(sd);
    /* consequence: the data set that was only read can no longer be compressed (SDsetcompress needs a data set without data, or with a real element) */
    { comp_info ci; memset(&ci, 0, sizeof ci); ci.deflate.level = 6;
      sd = SDstart(path, DFACC_RDWR); sds = SDselect(sd, 0);
      printf("SDsetcompress on the never written data set = %d (0 expected; 0 when the reading session is left out: run with an argument)\n", (int)SDsetcompress(sds, COMP_CODE_DEFLATE, &ci));
      SDendaccess(sds); SDend(sd); }
    return 0;
}
