/* dfsd.c DFSDgetdimlen: `Readsdg.dimluf[LABEL][dim - 1]` without testing Readsdg.dimluf[LABEL]: for a data set that has no
 * dimension strings (the common case) the pointer array is NULL -> NULL dereference (SIGSEGV; UBSan: load of null pointer).
 * DFSDgetdimstrs tests the array (`if (Readsdg.dimluf[0] == NULL)`), DFSDgetdatalen tests its pointers. */
#include "hdf.h"
#include <stdio.h>
int main(void)
{
    const char *path = "getdimlen.hdf";
    int32 dims[1] = {4}; int16 data[4] = {1, 2, 3, 4};
    DFSDclear(); DFSDsetNT(DFNT_INT16);
    if (DFSDputdata(path, 1, dims, data) == FAIL) return 2;
    DFSDclear(); DFSDrestart();
    int rank; int32 d2[1]; int ll = -1, lu = -1, lf = -1;
    DFSDgetdims(path, &rank, d2, 1);
    int r = DFSDgetdimlen(1, &ll, &lu, &lf);
    printf("DFSDgetdimlen -> %d (%d %d %d)\n", r, ll, lu, lf);
    return !(r == 0 && ll == 0 && lu == 0 && lf == 0);
}
