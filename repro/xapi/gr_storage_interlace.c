/* GR ignores the STORAGE interlace of images written by DF24 (DF24setil 1 = line, 2 = plane): the raster is stored in that
 * interlace and DFTAG_ID records it, GRgetiminfo reports it, but GRreadimage treats the stored bytes as pixel-interlaced.
 * Output: for stored il 1 and 2 no requested interlace yields the matching layout (all columns 0 or the wrong one). */
#include "hdf.h"
#include <stdio.h>
#include <string.h>
static void to_il(const uint8 *pix, int X, int Y, int il, uint8 *out) { int C = 3;
  for (int y = 0; y < Y; y++) for (int x = 0; x < X; x++) for (int c = 0; c < C; c++) { uint8 v = pix[(y * X + x) * C + c];
    if (il == 0) out[(y * X + x) * C + c] = v; else if (il == 1) out[(y * C + c) * X + x] = v; else out[(c * Y + y) * X + x] = v; } }
int main(void) {
  int X = 4, Y = 3; uint8 pix[36], buf[36], want[36];
  for (int i = 0; i < 36; i++) pix[i] = (uint8)(i + 1);
  for (int sil = 0; sil < 3; sil++) {
    char fn[64]; sprintf(fn, "/tmp/il_%d.hdf", sil);
    to_il(pix, X, Y, sil, buf); DF24restart(); DF24setil(sil); DF24putimage(fn, buf, X, Y);
    for (int rq = -1; rq < 3; rq++) {
      int32 fid = Hopen(fn, DFACC_READ, 0), gr = GRstart(fid), ri = GRselect(gr, 0); char nm[300]; int32 nc, nt, il, d[2], na, st[2] = {0, 0};
      GRgetiminfo(ri, nm, &nc, &nt, &il, d, &na);
      if (rq >= 0) GRreqimageil(ri, rq);
      memset(buf, 0, 36); GRreadimage(ri, st, NULL, d, buf);
      int eff = rq >= 0 ? rq : il; to_il(pix, X, Y, eff, want);
      int m0, m1, m2; to_il(pix, X, Y, 0, want); m0 = !memcmp(buf, want, 36); to_il(pix, X, Y, 1, want); m1 = !memcmp(buf, want, 36); to_il(pix, X, Y, 2, want); m2 = !memcmp(buf, want, 36);
      printf("stored il %d  GRgetiminfo il %d  requested %d -> buffer matches layout: pixel=%d line=%d plane=%d\n", sil, (int)il, rq, m0, m1, m2);
      GRendaccess(ri); GRend(gr); Hclose(fid);
    }
  }
  return 0;
}
