/* An SDS created through SD and never written has an NDG without a DFTAG_SD member.  DFSDgetdata then calls
 * Hstartread(file, tag 0, ref 0) - both wildcards - and returns the FIRST element of the file (the library version
 * descriptor) as the data, with SUCCEED.  SD returns the fill value for the same data set.
 * The checked-in mfhdf/hdp/testfiles/sds2_dim1_samename.hdf ("Variable 1") shows the same. */
#include "hdf.h"
#include "mfhdf.h"
#include <stdio.h>
int main(void)
{
    const char *fn = "/tmp/unwritten.hdf"; int32 d[1] = {5}, st[1] = {0}, v[5] = {0}, w[5] = {0};
    int32 sd = SDstart(fn, DFACC_CREATE), s = SDcreate(sd, "never_written", DFNT_INT32, 1, d);
    SDendaccess(s); SDend(sd);
    sd = SDstart(fn, DFACC_READ); s = SDselect(sd, 0);
    printf("SDreaddata = %d:", (int)SDreaddata(s, st, NULL, d, v)); for (int i = 0; i < 5; i++) printf(" %d", (int)v[i]); printf("\n");
    SDendaccess(s); SDend(sd);
    int rk; int32 d2[4]; DFSDrestart(); DFSDgetdims(fn, &rk, d2, 4);
    printf("DFSDgetdata = %d:", DFSDgetdata(fn, rk, d2, w)); for (int i = 0; i < 5; i++) printf(" %d", (int)w[i]); printf("\n");
    return 0;
}
