/* SDgetanndatainfo(sds, type, size, off, len) with size < number of annotations of the data set:
 * mfdatainfo.c clips num_annots to size, allocates num_annots ids and then calls ANannlist, which stores ALL ids
 * -> heap-buffer-overflow (WRITE) in ANIannlist.  The function's own comment promises "only fills the buffers up to its size". */
#include "hdf.h"
#include "mfhdf.h"
#include <stdio.h>
#include <stdlib.h>
int main(void)
{
    const char *path = "anndatainfo.hdf";
    int32 dims[1] = {4}; int16 data[4] = {1, 2, 3, 4};
    DFSDclear(); DFSDsetNT(DFNT_INT16);
    if (DFSDputdata(path, 1, dims, data) == FAIL) return 2;
    uint16 ref = DFSDlastref();
    int32 f = Hopen(path, DFACC_RDWR, 0), an = ANstart(f);
    for (int i = 0; i < 3; i++) { int32 a = ANcreate(an, DFTAG_NDG, ref, AN_DATA_DESC); ANwriteann(a, "text", 4); ANendaccess(a); }
    ANend(an); Hclose(f);
    int32 sd = SDstart(path, DFACC_READ), sds = SDselect(sd, SDreftoindex(sd, ref));
    int32 *off = malloc(sizeof(int32)), *len = malloc(sizeof(int32));
    int n = SDgetanndatainfo(sds, AN_DATA_DESC, 1, off, len);     /* 3 descriptions, room for 1 */
    printf("SDgetanndatainfo(size 1) = %d\n", n);
    SDendaccess(sds); SDend(sd);
    return n == 1 ? 0 : 1;
}
