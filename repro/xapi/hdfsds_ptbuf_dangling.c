/* hdf_read_ndgs (mfhdf/src/hdfsds.c) frees its static scratch buffer `ptbuf` on the error exit (`done:`) without
 * resetting the pointer.  After one SDstart that fails inside the NDG loop (here: a DFSD file whose DFTAG_SDD says rank 0,
 * which hdf_read_rank rejects), the next SDstart of any DFSD-written file reuses the freed buffer
 * (heap-use-after-free in Hgetelement(..., ptbuf)) and frees it again (double free). */
#include "hdf.h"
#include "mfhdf.h"
#include <stdio.h>
int main(void)
{
    const char *bad = "/tmp/ndg_bad.hdf", *good = "/tmp/ndg_good.hdf";
    int32 d[1] = {3}; float32 v[3] = {1, 2, 3}, mx = 3, mn = 1;
    DFSDclear(); DFSDsetdims(1, d); DFSDputdata(bad, 1, d, v);
    DFSDclear(); DFSDsetdims(1, d); DFSDsetrange(&mx, &mn); DFSDputdata(good, 1, d, v);
    { int32 f = Hopen(bad, DFACC_RDWR, 0); uint16 t, r; int32 off, len; uint8 z[2] = {0, 0};
      Hfind(f, DFTAG_SDD, DFREF_WILDCARD, &t, &r, &off, &len, DF_FORWARD);
      int32 aid = Hstartwrite(f, DFTAG_SDD, r, 0); Hwrite(aid, 2, z); Hendaccess(aid); Hclose(f); }   /* rank := 0 */
    printf("SDstart(bad)  = %d\n", (int)SDstart(bad, DFACC_READ));
    int32 sd = SDstart(good, DFACC_READ);
    printf("SDstart(good) = %d\n", (int)sd);
    if (sd != FAIL) SDend(sd);
    return 0;
}
