/* reader twin: DFSDIgetndg does Hread(aid, 4*rank, ptbuf) with the rank found in the file; ptbuf is 1024 bytes.
 * usage: dfsd_read_rank_overflow repro/sdd_rank300.hdf   (file written by the PATCHED writer with rank 300) */
#include "hdf.h"
#include <stdio.h>
int main(int argc, char **argv) { int rk = 0; int32 d[2000]; DFSDrestart(); int r = DFSDgetdims(argv[1], &rk, d, 2000); printf("DFSDgetdims = %d rank %d\n", r, rk); return 0; }
