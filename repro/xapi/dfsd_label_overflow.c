/* DFSDIputndg (hdf/src/dfsd.c) packs the data label/unit/format and the per-dimension strings into the 1024-byte
 * scratch buffer `ptbuf` (TBUF_SZ) with strcpy and no length check; DFSDsetdatastrs/DFSDsetdimstrs accept any length.
 * usage: dfsd_label_overflow <file> [len]   (default: label of 1100 characters) */
#include "hdf.h"
#include <stdio.h>
#include <stdlib.h>
#include <string.h>
int main(int argc, char **argv)
{
    int len = argc > 2 ? atoi(argv[2]) : 1100;
    char *label = malloc((size_t)len + 1);
    int32 dims[1] = {2};
    float32 v[2] = {1.5f, 2.5f};
    memset(label, 'x', (size_t)len); label[len] = 0;
    DFSDclear();
    DFSDsetdims(1, dims);
    if (DFSDsetdatastrs(label, "u", "f", "c") == FAIL) { printf("DFSDsetdatastrs refused\n"); return 0; }
    int r = DFSDputdata(argv[1], 1, dims, v);
    printf("DFSDputdata = %d (label of %d chars)\n", r, len);
    return 0;
}
