/* Records appended to an unlimited SDS in a later SD session are not recorded in the DFTAG_SDD of its NDG (hdf_close
 * updates only the UDim0.0 Vdata on NC_NDIRTY): the DFSD interface keeps seeing the extent of the first session and
 * returns only those records - silently. Expected: "SD dims 6 3" and "DFSD dims 6 3", last value 17. */
#include "hdf.h"
#include "mfhdf.h"
#include <stdio.h>
int main(void) {
  const char *fn = "/tmp/unl.hdf"; int32 d[2] = {SD_UNLIMITED, 3}, st[2] = {0, 0}, ed[2] = {2, 3}; int16 v[30]; for (int i = 0; i < 30; i++) v[i] = (int16)i;
  int32 sd = SDstart(fn, DFACC_CREATE), s = SDcreate(sd, "u", DFNT_INT16, 2, d);
  SDwritedata(s, st, NULL, ed, v); SDendaccess(s); SDend(sd);
  sd = SDstart(fn, DFACC_RDWR); s = SDselect(sd, 0); st[0] = 2; ed[0] = 4; SDwritedata(s, st, NULL, ed, v + 6); SDendaccess(s); SDend(sd);
  sd = SDstart(fn, DFACC_READ); s = SDselect(sd, 0); int32 r, dd[2], nt, na; char nm[99]; SDgetinfo(s, nm, &r, dd, &nt, &na); printf("SD dims %d %d\n", (int)dd[0], (int)dd[1]); SDendaccess(s); SDend(sd);
  int rk; int32 d2[8]; DFSDrestart(); DFSDgetdims(fn, &rk, d2, 8); printf("DFSD dims %d %d\n", (int)d2[0], (int)d2[1]);
  int16 b[64] = {0}; int rr = DFSDgetdata(fn, 2, d2, b); printf("DFSDgetdata %d: last value %d\n", rr, b[d2[0] * 3 - 1]);
  return 0; }
