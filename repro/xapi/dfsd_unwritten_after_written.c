/* Variant of dfsd_unwritten_sds.c that survives fix e66f962: DFSDIgetndg does not reset Readsdg.data before it walks the
 * next NDG, so for a never-written SDS that FOLLOWS a written one DFSDgetdata reads the PREVIOUS data set's element
 * and returns its values with SUCCEED (SD returns the fill value). */
#include "hdf.h"
#include "mfhdf.h"
#include <stdio.h>
int main(void)
{
    const char *fn = "/tmp/unwritten2.hdf"; int32 d[1] = {5}, st[1] = {0}, a[5] = {11, 12, 13, 14, 15}, v[5] = {0}, w[5] = {0};
    int32 sd = SDstart(fn, DFACC_CREATE), s = SDcreate(sd, "written", DFNT_INT32, 1, d);
    SDwritedata(s, st, NULL, d, a); SDendaccess(s);
    s = SDcreate(sd, "never_written", DFNT_INT32, 1, d); SDendaccess(s); SDend(sd);
    sd = SDstart(fn, DFACC_READ); s = SDselect(sd, 1);
    printf("SDreaddata(never_written) = %d:", (int)SDreaddata(s, st, NULL, d, v)); for (int i = 0; i < 5; i++) printf(" %d", (int)v[i]); printf("\n");
    SDendaccess(s); SDend(sd);
    int rk; int32 d2[4]; DFSDrestart();
    DFSDgetdims(fn, &rk, d2, 4); DFSDgetdata(fn, rk, d2, w);
    DFSDgetdims(fn, &rk, d2, 4);
    printf("DFSDgetdata(2nd data set) = %d:", DFSDgetdata(fn, rk, d2, w)); for (int i = 0; i < 5; i++) printf(" %d", (int)w[i]); printf("\n");
    return 0;
}
