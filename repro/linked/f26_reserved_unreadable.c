/* F26 (key elem-read-reserved-fail): space reserved by Hsetlength / a new linked block is not in the file until something
   is written behind it; reading a range that contains never-written bytes fails, after Hclose/Hopen it reads zeros */
#include "pk.h"
int main(void){
  uint8 w[8] = {1,2,3,4,5,6,7,8}, buf[16]; memset(buf, 0x77, sizeof buf);
  int32 fid = Hopen("f26.hdf", DFACC_CREATE, 16);
  int32 aid = Hstartwrite(fid, 100, 1, 10);
  Hwrite(aid, 4, w); Hseek(aid, 0, DF_START);
  printf("Hread(10) -> %d (length is 10; expected 10 bytes: 01 02 03 04 00 ...)\n", (int)Hread(aid, 10, buf));
  Hendaccess(aid); Hclose(fid);
  fid = Hopen("f26.hdf", DFACC_READ, 0); aid = Hstartread(fid, 100, 1);
  int n = Hread(aid, 10, buf); printf("after Hclose/Hopen: Hread(10) -> %d\n", n); dump("buf", buf, n > 0 ? n : 0);
  Hendaccess(aid); Hclose(fid); return 0;
}
