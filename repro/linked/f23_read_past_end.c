/* F23 (keys elem-read-past-end-fail / elem-read-at-end-fail): Hread on a contiguous appendable element positioned beyond its end */
#include "pk.h"
int main(void){
  uint8 w[8] = {1,2,3,4,5,6,7,8}, buf[16];
  int32 fid = Hopen("f23.hdf", DFACC_CREATE, 16);
  int32 aid = Hstartaccess(fid, 100, 1, DFACC_RDWR | DFACC_APPENDABLE);
  Hwrite(aid, 3, w);
  printf("Hseek(5) -> %d (allowed: appendable, last in file)\n", (int)Hseek(aid, 5, DF_START));
  printf("Hread(1) -> %d (expected 0 bytes; length - posn = -2 is handed to HP_read)\n", (int)Hread(aid, 1, buf));
  printf("Hread(0) -> %d\n", (int)Hread(aid, 0, buf));
  Hendaccess(aid); Hclose(fid); return 0;
}
