/* F24 residue after 7f7ac10 (key elem-stale-new-after-convert): HIrefresh_new skips special records and HLconvert does not
   clear new_elem, so an id whose "new" flag went stale (another id gave the element its length) and that is then converted
   to linked blocks (HLconvert, or the implicit conversion in Hseek) keeps new_elem = TRUE for ever:
   Hread through it fails, and Hsetlength through it re-targets the DD of the description record. */
#include "pk.h"
int main(void){
  uint8 w[8] = {1,2,3,4,5,6,7,8}, buf[16]; memset(buf, 0x77, sizeof buf);
  int32 fid = Hopen("f24b.hdf", DFACC_CREATE, 16);
  int32 a1 = Hstartaccess(fid, 100, 1, DFACC_RDWR), a2 = Hstartaccess(fid, 100, 1, DFACC_RDWR);
  Hwrite(a1, 4, w); Hendaccess(a1);                      /* a2 is alone now; its new_elem flag is stale */
  printf("HLconvert(a2) -> %d\n", (int)HLconvert(a2, 8, 2));
  inq(a2);
  printf("Hread(a2, all) -> %d  (expected 4)\n", (int)Hread(a2, 0, buf));
  printf("Hsetlength(a2, 5) -> %d  (expected FAIL: the element has a length)\n", (int)Hsetlength(a2, 5));
  inq(a2);
  Hendaccess(a2); Hclose(fid);
  fid = Hopen("f24b.hdf", DFACC_READ, 0); a1 = Hstartread(fid, 100, 1);
  printf("after reopen: Hstartread -> %d, Hread -> %d\n", (int)a1, a1 == FAIL ? -1 : (int)Hread(a1, 0, buf));
  if (a1 != FAIL) Hendaccess(a1); Hclose(fid); return 0;
}
