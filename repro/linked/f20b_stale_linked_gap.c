/* F20, remaining paths after 998a325: stale bytes beyond the recomputed f_end_off (left by Htrunc or Hdeldd of the last
   element) show up (a) in the never-written head of a new linked block, (b) in space reserved by Hstartwrite */
#include "pk.h"
int main(void){
  uint8 w[40], buf[64]; memset(w, 0xAA, 40); memset(buf, 0x77, sizeof buf);
  int32 fid = Hopen("f20b.hdf", DFACC_CREATE, 16);
  Hputelement(fid, 100, 1, w, 40);
  int32 aid = Hstartaccess(fid, 100, 1, DFACC_RDWR); Htrunc(aid, 4); Hendaccess(aid); Hclose(fid);
  fid = Hopen("f20b.hdf", DFACC_RDWR, 0);
  aid = HLcreate(fid, 101, 1, 8, 2);
  Hseek(aid, 6, DF_START); Hwrite(aid, 2, (uint8 *)"XY");       /* bytes 0..5 of 101/1 are a gap: must read 00 */
  Hseek(aid, 0, DF_START); int n = Hread(aid, 0, buf);
  printf("linked: Hread -> %d:", n); dump("", buf, n > 0 ? n : 0);
  Hendaccess(aid); Hclose(fid); return 0;
}
