/* F27 (key ext-read-past-end-fail): HXPread positioned beyond the end of an external element (HXPseek has no upper bound):
   length = info->length - posn < 0 is handed to fread as a huge size_t; here the read fails instead of delivering 0 bytes
   (what a size_t of ~2^64 does inside fread is up to the C library) */
#include "pk.h"
int main(void){
  uint8 w[64]; for (int i = 0; i < 64; i++) w[i] = 0xC0 + (i & 15);
  static uint8 buf[128]; memset(buf, 0x77, sizeof buf);
  int32 fid = Hopen("f27.hdf", DFACC_CREATE, 16);
  int32 a = HXcreate(fid, 100, 1, "f27.ext", 0, 0);  Hwrite(a, 8, w);
  int32 b = HXcreate(fid, 101, 1, "f27.ext", 32, 0); Hwrite(b, 32, w);
  printf("Hseek(a, 12) -> %d (length is 8)\n", (int)Hseek(a, 12, DF_START));
  printf("Hread(a, 4) -> %d (expected 0 bytes)\n", (int)Hread(a, 4, buf));
  Hendaccess(a); Hendaccess(b); Hclose(fid); return 0;
}
