/* F20 (key elem-gap-nonzero): bytes cut off by Htrunc of the last element come back as the "zeros" of a later gap */
#include "pk.h"
int main(void){
  uint8 w[20], buf[32]; memset(w, 0xAA, 20); memset(buf, 0x77, sizeof buf);
  int32 fid = Hopen("f20.hdf", DFACC_CREATE, 16);
  Hputelement(fid, 100, 1, w, 20);
  int32 aid = Hstartaccess(fid, 100, 1, DFACC_RDWR); printf("Htrunc(4) -> %d\n", (int)Htrunc(aid, 4)); Hendaccess(aid); Hclose(fid);
  fid = Hopen("f20.hdf", DFACC_RDWR, 0);               /* HTPstart recomputes f_end_off from the DDs: 16 stale bytes lie beyond it */
  aid = Hstartaccess(fid, 100, 1, DFACC_RDWR | DFACC_APPENDABLE);
  Hseek(aid, 10, DF_START); Hwrite(aid, 2, (uint8 *)"XY");
  Hseek(aid, 0, DF_START); int n = Hread(aid, 0, buf);
  printf("Hread -> %d; bytes 4..9 were never written and must read 00:\n", n); dump("buf", buf, 12);
  Hendaccess(aid); Hclose(fid); return 0;
}
