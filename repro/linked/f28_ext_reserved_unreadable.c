/* F28 (key ext-read-reserved-fail): HXcreate(start_len) records the length in the description record but does not extend the
   external file: the element cannot be read (not even after Hclose/Hopen) until every byte of it has been written */
#include "pk.h"
int main(void){
  uint8 buf[32]; memset(buf, 0x77, sizeof buf);
  int32 fid = Hopen("f28.hdf", DFACC_CREATE, 16);
  int32 a = HXcreate(fid, 100, 1, "f28.ext", 0, 10);
  inq(a);
  printf("Hread(10) -> %d (length is 10; a contiguous element reserved by Hstartwrite reads 10 zeros)\n", (int)Hread(a, 10, buf));
  Hendaccess(a); Hclose(fid);
  fid = Hopen("f28.hdf", DFACC_READ, 0); a = Hstartread(fid, 100, 1);
  printf("after Hclose/Hopen: Hread(10) -> %d\n", (int)Hread(a, 10, buf));
  Hendaccess(a); Hclose(fid); return 0;
}
