/* F19 (key elem-promote-dangling-id): a second id on an element that another id promotes to linked blocks */
#include "pk.h"
int main(void){
  uint8 w[8] = {1,2,3,4,5,6,7,8}, buf[64]; memset(buf, 0x77, sizeof buf);
  int32 fid = Hopen("f19.hdf", DFACC_CREATE, 16);
  int32 a1 = Hstartaccess(fid, 100, 1, DFACC_RDWR | DFACC_APPENDABLE);
  Hwrite(a1, 3, w);
  int32 a2 = Hstartread(fid, 100, 1);                  /* second id on the same element */
  Hputelement(fid, 101, 1, w, 1);                      /* 100/1 is no longer last in the file */
  printf("Hwrite(a1, 2) -> %d (silently promotes 100/1 to linked blocks)\n", (int)Hwrite(a1, 2, w + 3));
  inq(a1); inq(a2);                                    /* a2: tag is now the special tag, len 16 */
  int n = Hread(a2, 0, buf); printf("Hread(a2, all) -> %d  (expected 5: 01 02 03 04 05)\n", n); dump("buf", buf, n > 0 ? n : 0);
  Hendaccess(a1); Hendaccess(a2); Hclose(fid); return 0;
}
