/* F24 (key elem-two-ids-on-new-element): two ids on an element that has no length yet */
#include "pk.h"
int main(void){
  uint8 w[8] = {1,2,3,4,5,6,7,8}, buf[16]; memset(buf, 0x77, sizeof buf);
  int32 fid = Hopen("f24.hdf", DFACC_CREATE, 16);
  int32 a1 = Hstartaccess(fid, 100, 1, DFACC_RDWR), a2 = Hstartaccess(fid, 100, 1, DFACC_RDWR);
  printf("Hwrite(a1, 4) -> %d\n", (int)Hwrite(a1, 4, w));
  printf("Hwrite(a2, 2) -> %d (a2 is still 'new': Hsetlength again, a fresh block)\n", (int)Hwrite(a2, 2, w + 4));
  inq(a1); inq(a2);
  Hseek(a1, 0, DF_START); int n = Hread(a1, 0, buf); printf("Hread(a1, all) -> %d (the 4 bytes written through a1 are gone)\n", n); dump("buf", buf, n > 0 ? n : 0);
  Hendaccess(a1); Hendaccess(a2); Hclose(fid); return 0;
}
