/* F26 / f26b: in-session reads of space that has been allocated but never written (cache on/off, contiguous, linked blocks),
   the same bytes after reopen, and the cases that must keep failing */
#include "pk.h"
#include <unistd.h>
static void show(const char *l, int32 aid, int n0) { uint8 b[64]; memset(b, 0x77, sizeof b); Hseek(aid, 0, DF_START); int n = Hread(aid, n0, b); printf("%-44s Hread -> %2d:", l, n); for (int i = 0; i < n && i < 24; i++) printf(" %02x", b[i]); printf("\n"); }
int main(void){
  uint8 w[8] = {1,2,3,4,5,6,7,8};
  for (int cache = 1; cache >= 0; cache--) {
    printf("--- DD caching %s\n", cache ? "on" : "off");
    int32 fid = Hopen("f26b.hdf", DFACC_CREATE, 16); if (!cache) Hcache(fid, FALSE);
    int32 a = Hstartwrite(fid, 100, 1, 10); Hwrite(a, 4, w);                 /* contiguous: 6 reserved bytes never written */
    show("contiguous, reserved tail, in session", a, 10);
    int32 b = HLcreate(fid, 101, 1, 8, 2); Hseek(b, 12, DF_START); Hwrite(b, 2, w); /* linked: block 1 allocated, bytes 8..11,14,15 never written */
    show("linked, hole + unwritten parts of a block", b, 0);
    int32 c = Hstartwrite(fid, 102, 1, 5);                                     /* nothing written at all */
    show("contiguous, nothing written", c, 5);
    show("contiguous again (stream position check)", a, 10);
    Hseek(a, 4, DF_START); printf("Hwrite after the zero reads -> %d\n", (int)Hwrite(a, 2, w + 4));
    show("contiguous after that write", a, 10);
    Hendaccess(a); Hendaccess(b); Hendaccess(c); Hclose(fid);
    fid = Hopen("f26b.hdf", DFACC_READ, 0);
    a = Hstartread(fid, 100, 1); show("after reopen: contiguous", a, 10); Hendaccess(a);
    b = Hstartread(fid, 101, 1); show("after reopen: linked", b, 0); Hendaccess(b);
    c = Hstartread(fid, 102, 1); show("after reopen: nothing written", c, 5); Hendaccess(c);
    Hclose(fid);
  }
  /* must keep failing: a file that lost its tail (DD extent beyond the physical end, fresh session) */
  { int32 fid = Hopen("f26c.hdf", DFACC_CREATE, 16); uint8 big[64]; memset(big, 0xAB, 64); Hputelement(fid, 100, 1, big, 64); Hclose(fid);
    FILE *f = fopen("f26c.hdf", "rb"); fseek(f, 0, SEEK_END); long sz = ftell(f); fclose(f); truncate("f26c.hdf", sz - 30);
    fid = Hopen("f26c.hdf", DFACC_RDWR, 0); int32 a = Hstartread(fid, 100, 1); uint8 b[64];
    printf("truncated file, read-write session: Hread(64) -> %d (must fail)\n", (int)Hread(a, 64, b));
    /* even after an allocation in this session the lost tail lies below the new f_end_off: */
    Hputelement(fid, 101, 1, big, 4); Hseek(a, 0, DF_START);
    printf("same after an unrelated Hputelement:        Hread(64) -> %d\n", (int)Hread(a, 64, b));
    Hendaccess(a); Hclose(fid); }
  return 0;
}
