/* F18 (key elem-trunc-linked): Htrunc on a linked-block element: refused since 1e2fd75 (before: it cut the DD of the 16-byte description record); truncation is still missing for this storage form */
#include "pk.h"
int main(void){
  uint8 w[16], buf[32]; for (int i = 0; i < 16; i++) w[i] = i + 1;
  int32 fid = Hopen("f18.hdf", DFACC_CREATE, 16);
  int32 aid = HLcreate(fid, 100, 1, 4, 2);
  printf("Hwrite(10) -> %d\n", (int)Hwrite(aid, 10, w));
  printf("Htrunc(3)  -> %d   (since 1e2fd75: refused; before: 3, and the description record was cut)\n", (int)Htrunc(aid, 3));
  inq(aid);                                            /* len is still 10 */
  Hseek(aid, 0, DF_START); int n = Hread(aid, 0, buf);
  printf("Hread(all) -> %d   (expected 3)\n", n);
  Hseek(aid, 10, DF_START);
  printf("Hwrite(2) at the end -> %d   (works again since 1e2fd75)\n", (int)Hwrite(aid, 2, w));
  Hendaccess(aid); Hclose(fid); return 0;
}
