/* F18 (key elem-trunc-linked): Htrunc on a linked-block element acts on the DD of the 16-byte description record */
#include "pk.h"
int main(void){
  uint8 w[16], buf[32]; for (int i = 0; i < 16; i++) w[i] = i + 1;
  int32 fid = Hopen("f18.hdf", DFACC_CREATE, 16);
  int32 aid = HLcreate(fid, 100, 1, 4, 2);
  printf("Hwrite(10) -> %d\n", (int)Hwrite(aid, 10, w));
  printf("Htrunc(3)  -> %d   (claims success)\n", (int)Htrunc(aid, 3));
  inq(aid);                                            /* len is still 10 */
  Hseek(aid, 0, DF_START); int n = Hread(aid, 0, buf);
  printf("Hread(all) -> %d   (expected 3)\n", n);
  Hseek(aid, 10, DF_START);
  printf("Hwrite(2) at the end -> %d   (the description record was cut to 3 bytes: the length update fails)\n", (int)Hwrite(aid, 2, w));
  Hendaccess(aid); Hclose(fid); return 0;
}
