#!/bin/sh
# mk.sh <name>: build one reproduction against the ASan build of /repo's current tree made by verif/bin/setup
B=$(cd /root/work/linked/verif && python3 -c "import sys; sys.path.insert(0,'bin'); import vk; print(vk.libbuild())" 2>/dev/null | tail -1)
gcc -g -O1 -fsanitize=address,undefined -fno-omit-frame-pointer -w -I/repo/hdf/src -I$B -I$B/hdf/src $1.c -o $1 $B/bin/libhdf.a -lz -ljpeg -lm
