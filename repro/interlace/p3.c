#include "hdf.h"
#include <stdio.h>
#include <string.h>
int main(void){
  int32 f = Hopen("p3.hdf", DFACC_CREATE, 0);
  int32 aid = HLcreate(f, 1000, 1, 8, 2);
  uint8 b[16]; memset(b, 1, 16);
  printf("write %d\n", Hwrite(aid, 12, b));
  printf("seek %d\n", Hseek(aid, 12, DF_START));
  int32 r = Hread(aid, 4, b); printf("read at end %d\n", r); if (r==FAIL) HEprint(stdout,0);
  printf("endaccess %d\n", Hendaccess(aid));
  int rc = Hclose(f); printf("Hclose %d\n", rc); if (rc==FAIL) HEprint(stdout,0);
  return 0;
}
