#include "hdf.h"
#include <stdio.h>
#include <string.h>
static void dump(const char *t, const uint8 *b, int n){ printf("%s:", t); for(int i=0;i<n;i++) printf(" %02x", b[i]); printf("\n"); }
int main(void){
  int32 f = Hopen("p1.hdf", DFACC_CREATE, 0); Vstart(f);
  int32 vs = VSattach(f, -1, "w");
  VSfdefine(vs, "A", DFNT_INT16, 1); VSfdefine(vs, "B", DFNT_UINT8, 3); VSfdefine(vs,"C",DFNT_INT32,1);
  printf("setil %d\n", VSsetinterlace(vs, NO_INTERLACE));
  printf("setfields %d\n", VSsetfields(vs, "A,B,C"));
  uint8 buf[9*4]; for (int i=0;i<36;i++) buf[i]=i+1;
  printf("write3 %d\n", VSwrite(vs, buf, 3, FULL_INTERLACE));   /* records 0..2 */
  for (int i=0;i<9;i++) buf[i]=0x80+i;
  printf("write1 %d\n", VSwrite(vs, buf, 1, FULL_INTERLACE));   /* record 3 */
  printf("elts %d\n", VSelts(vs));
  printf("seek4 %d\n", VSseek(vs, 4));
  printf("seek5 %d\n", VSseek(vs, 5));
  uint8 rb[64];
  printf("seek0 %d\n", VSseek(vs, 0));
  printf("setfields(r) %d\n", VSsetfields(vs, "A,B,C"));
  memset(rb,0,64); printf("read3 %d\n", VSread(vs, rb, 3, FULL_INTERLACE)); dump("r3", rb, 27);
  VSseek(vs,0); memset(rb,0,64); printf("read4 %d\n", VSread(vs, rb, 4, FULL_INTERLACE)); dump("r4", rb, 36);
  VSseek(vs,0); memset(rb,0,64); printf("read2 %d\n", VSread(vs, rb, 2, FULL_INTERLACE)); dump("r2", rb, 18);
  VSseek(vs,3); memset(rb,0,64); printf("read1@3 %d\n", VSread(vs, rb, 1, FULL_INTERLACE)); dump("r1", rb, 9);
  VSdetach(vs); Vend(f); Hclose(f);
  /* raw */
  f = Hopen("p1.hdf", DFACC_READ, 0); int32 len = Hlength(f, DFTAG_VS, 2); printf("len %d\n", len);
  uint16 t,r; int32 off,l; 
  if (Hfind(f, DFTAG_VS, DFREF_WILDCARD, &t,&r,&off,&l, DF_FORWARD)!=FAIL){ uint8 raw[100]; int32 g=Hgetelement(f,t,r,raw); printf("ref %d g %d\n", r, g); dump("raw", raw, g);} 
  Hclose(f);
  return 0;
}
