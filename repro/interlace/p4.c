#include "hdf.h"
#include <stdio.h>
#include <string.h>
int main(int argc, char **argv){
  int nf = argc > 1 ? atoi(argv[1]) : 10;
  int32 f = Hopen("p4.hdf", DFACC_CREATE, 0); Vstart(f);
  int32 vs = VSattach(f, -1, "w");
  char nm[16];
  for (int i = 0; i < nf; i++) { sprintf(nm, "f%d", i); printf("define %s %d\n", nm, VSfdefine(vs, nm, DFNT_INT16, 1)); }
  sprintf(nm, "f%d", nf - 1);
  printf("redefine %s as int32[2]: %d\n", nm, VSfdefine(vs, nm, DFNT_INT32, 2));   /* j = nf-1: reads rstab[nf-1] */
  printf("setfields %d\n", VSsetfields(vs, nm));
  printf("type %d order %d isize %d\n", (int)VFfieldtype(vs,0), (int)VFfieldorder(vs,0), (int)VFfieldisize(vs,0));
  VSdetach(vs); Vend(f); Hclose(f);
  return 0;
}
