#include "hdf.h"
#include <stdio.h>
#include <string.h>
#include <stdlib.h>
int main(int argc, char **argv){
  int variant = argc > 1 ? atoi(argv[1]) : 0;
  int32 f = Hopen("p2.hdf", DFACC_CREATE, 0); Vstart(f);
  int32 vs = VSattach(f, -1, "w");
  VSfdefine(vs, "A", DFNT_INT32, 1); VSfdefine(vs, "B", DFNT_INT16, 1);
  VSsetfields(vs, "A,B");
  uint8 buf[6*64]; memset(buf, 7, sizeof buf);
  VSwrite(vs, buf, 3, FULL_INTERLACE);
  int32 ref = VSQueryref(vs);
  VSdetach(vs);
  vs = VSattach(f, ref, "w");
  if (variant & 1) { printf("seek3 %d\n", VSseek(vs, 3)); printf("write1 %d\n", VSwrite(vs, buf, 1, FULL_INTERLACE)); }
  VSsetfields(vs, "A");
  if (variant & 2) { printf("seek end %d\n", VSseek(vs, VSelts(vs))); uint8 rb[64]; printf("read past end %d\n", VSread(vs, rb, 3, FULL_INTERLACE)); }
  if (variant & 4) { printf("seek2 %d\n", VSseek(vs, 2)); printf("write40 %d\n", VSwrite(vs, buf, 40, FULL_INTERLACE)); }
  printf("detach %d\n", VSdetach(vs));
  printf("Vend %d\n", Vend(f));
  int rc = Hclose(f); printf("Hclose %d\n", rc); if (rc==FAIL) HEprint(stdout,0);
  return 0;
}
