#!/bin/sh
# Reproductions of the option-string defects of hrepack found by worker c18fn (property C18, all fixed in /repo).
# usage: hrepack_option_overflows.sh <dir with an ASan build of hrepack>     (the option code runs before any file is opened)
# Expected at /repo c23f180 (before the fixes): an AddressSanitizer / UBSan report for each of A, B, C, E, F.
# Expected after 5787e18 b6f2d28 6a32560 1ed2b56 6ab7877: "Input Error: ..." / "Bad file format" + usage, exit 1, no report.
H=${1:-.}/hrepack
export ASAN_OPTIONS=detect_leaks=0
D33=$(python3 -c "print('x'.join(['1']*33))")
echo "== A: 33 chunk lengths (parse_chunk wrote chunk_lengths[32] of hrepack_addchunk: stack-buffer-overflow)"
$H -i in.hdf -o out.hdf -c "a:$D33" 2>&1 | head -4
echo "== B: empty object list / list ending with ',' (unwritten obj_list entry: heap-buffer-overflow READ in options_add_comp)"
$H -i in.hdf -o out.hdf -t ":GZIP 6" 2>&1 | head -4
$H -i in.hdf -o out.hdf -t "a,:GZIP 6" 2>&1 | head -4
$H -i in.hdf -o out.hdf -c ",:2x2" 2>&1 | head -4
echo "== C: a third and fourth szip mask character (smask[3] written at index 3: stack-buffer-overflow)"
$H -i in.hdf -o out.hdf -t "a:SZIP ,ECAB" 2>&1 | head -4
echo "== D: a byte >= 0x80 where isdigit looks (undefined by C11 7.4p1, benign with glibc: no report before or after)"
$H -i in.hdf -o out.hdf -t "$(printf 'a:GZIP \351')" 2>&1 | head -2
echo "== E: option-file token of 26 characters (fscanf %s into stype[10]: stack-buffer-overflow)"
printf -- 'ABCDEFGHIJKLMNOPQRSTUVWXYZ\n' > /tmp/hrepack_optE.txt
$H -i in.hdf -o out.hdf -f /tmp/hrepack_optE.txt 2>&1 | head -4
echo "== F: option-file value of 1500 characters (info[1024] written without bound)"
python3 -c "print('-t \"' + 'a'*1500 + ':GZIP 6\"')" > /tmp/hrepack_optF.txt
$H -i in.hdf -o out.hdf -f /tmp/hrepack_optF.txt 2>&1 | head -4
