/* hrepack name buffers: minimal inputs (all created through the public API, all legal)
 *   ./namebuf vs    -> in.hdf with one vdata whose NAME has VSNAMELENMAX (64) characters
 *   ./namebuf vscls -> ... whose CLASS has 64 characters
 *   ./namebuf vgatt -> one vgroup with an attribute whose name has 64 characters (the attribute is a lone vdata of class Attr0.0)
 *   ./namebuf sds   -> one data set whose name has H4_MAX_NC_NAME (256) characters
 *   ./namebuf dim   -> one data set with a dimension whose name has 256 characters
 *   ./namebuf gr N  -> one image whose name has N characters (256, 300, ...: GRcreate accepts any length up to 65535)
 * then:  hrepack -i in.hdf -o out.hdf      (ASan build: heap-/stack-buffer-overflow; plain build: silent 1-byte overflow, 300: smashed stack)
 */
#include "hdf.h"
#include "mfhdf.h"
#include <stdio.h>
#include <stdlib.h>
#include <string.h>
int main(int argc, char **argv)
{
    const char *what = argc > 1 ? argv[1] : "vs";
    int   n = argc > 2 ? atoi(argv[2]) : 0, r = 0;
    char  name[70000];
    int32 v = 7, fid;
    if (!n) n = (!strcmp(what, "sds") || !strcmp(what, "dim") || !strcmp(what, "gr")) ? 256 : 64;
    memset(name, 'q', (size_t)n); name[n] = 0;
    if (!strcmp(what, "sds") || !strcmp(what, "dim")) {
        int32 sd = SDstart("in.hdf", DFACC_CREATE), d[1] = {3}, st[1] = {0}, data[3] = {1, 2, 3};
        int32 id = SDcreate(sd, !strcmp(what, "sds") ? name : "s", DFNT_INT32, 1, d);
        r |= id == FAIL; r |= SDwritedata(id, st, NULL, d, data) == FAIL;
        if (!strcmp(what, "dim")) r |= SDsetdimname(SDgetdimid(id, 0), name) == FAIL;
        SDendaccess(id); SDend(sd);
    }
    else {
        fid = Hopen("in.hdf", DFACC_CREATE, 0); Vstart(fid);
        if (!strcmp(what, "vgatt")) { int32 g = Vattach(fid, -1, "w"); Vsetname(g, "g"); r |= Vsetattr(g, name, DFNT_INT32, 1, &v) == FAIL; Vdetach(g); }
        else if (!strcmp(what, "gr")) {
            int32 gr = GRstart(fid), d[2] = {2, 2}, st[2] = {0, 0}; uint8 px[4] = {1, 2, 3, 4};
            int32 ri = GRcreate(gr, name, 1, DFNT_UINT8, 0, d);
            r |= ri == FAIL; if (ri != FAIL) { GRwriteimage(ri, st, NULL, d, px); GRendaccess(ri); }
            GRend(gr);
        }
        else {
            int32 vs = VSattach(fid, -1, "w");
            r |= VSsetname(vs, !strcmp(what, "vs") ? name : "v") == FAIL; r |= VSsetclass(vs, !strcmp(what, "vscls") ? name : "c") == FAIL;
            VSfdefine(vs, "f", DFNT_INT32, 1); VSsetfields(vs, "f"); VSwrite(vs, (uint8 *)&v, 1, FULL_INTERLACE); VSdetach(vs);
        }
        Vend(fid); Hclose(fid);
    }
    printf("%s: name of %d characters, library calls %s\n", what, n, r ? "FAILED" : "ok");
    return r;
}
