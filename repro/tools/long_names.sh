#!/bin/sh
# hdfimport copies the names after -o and -p with strcpy() into `char outfile[32]` / `char palfile[32]` of struct Options
# (main(), states 3 and 11); the fields are followed by `int fcount` and the other options.
#   * a palette file name of exactly 32 characters: the terminating NUL clears the low byte of fcount -> NO input file is
#     processed, exit status 0, output file without any data set or image (silent loss of the whole import);
#   * an output file name of 32..63 characters together with -p: the palette name overwrites the tail of the output name
#     (output written to a file the user did not name);
#   * 64 characters and more: fcount, to_float, to_image, ... are overwritten ("Unable to open file: ."), from about 130
#     characters the heap block itself is overrun.
# usage: HDFIMPORT=<build>/bin/hdfimport sh long_names.sh
T=${HDFIMPORT:-hdfimport}
printf 'TEXT\n1 3 4\n0 0\n 0 1 2\n 0 1 2 3\n 1 2 3 4\n 5 6 7 8\n 9 10 11 12\n' > a.txt
head -c 768 /dev/zero > palette_file_name_with_32_ch.pal
echo "--- -p <32 characters>"
ASAN_OPTIONS=detect_leaks=0 $T a.txt -o o1.hdf -r -p palette_file_name_with_32_ch.pal; echo "exit $?  (expected: one image in o1.hdf)"; ls -l o1.hdf
N=output_file_name_with_forty_characters.hdf
echo "--- -o <40 characters> -r -p p.pal"; cp palette_file_name_with_32_ch.pal p.pal
ASAN_OPTIONS=detect_leaks=0 $T a.txt -o $N -r -p p.pal; echo "exit $?"; ls -l output_file_name_with_forty_char* 2>&1
L=this_is_an_output_file_name_of_more_than_sixty_four_characters_in_all.hdf
echo "--- -o <73 characters>"
ASAN_OPTIONS=detect_leaks=0 $T a.txt -o $L; echo "exit $?"
