/* known finding lone-palette-count (C18): a palette written with DFPaddpal (IP8 + LUT sharing one element) next to an image with its
   own palette; hrepack copies the lone palette twice (DFPnpals 2 -> 3) and the next generation cannot be repacked
   ("Failed to read palette", exit 1).
   run: ./a.out; hrepack -i pal2.hdf -o g1.hdf; hrepack -i g1.hdf -o g2.hdf; hrepack -i g2.hdf -o g3.hdf; ./a.out n pal2.hdf g1.hdf g2.hdf */
#include "hdf.h"
#include <stdio.h>
#include <string.h>
int main(int argc, char **argv)
{
    if (argc > 2) { for (int i = 2; i < argc; i++) printf("%s: DFPnpals = %d\n", argv[i], DFPnpals(argv[i])); return 0; }
    uint8 pal[768], img[64];
    for (int i = 0; i < 768; i++) pal[i] = (uint8)(i * 7);
    for (int i = 0; i < 64; i++) img[i] = (uint8)i;
    DFR8setpalette(pal); DFR8putimage("pal2.hdf", img, 8, 8, 0);
    for (int i = 0; i < 768; i++) pal[i] = (uint8)(255 - i);
    DFPaddpal("pal2.hdf", pal);
    printf("DFPnpals = %d\n", DFPnpals("pal2.hdf"));
    return 0;
}
