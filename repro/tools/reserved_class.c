/* known finding user-object-with-library-class-dropped: hrepack leaves out user objects whose class equals a library class.
 *   ./reserved_class ; hrepack -i in.hdf -o out.hdf ; ./reserved_class check out.hdf
 */
#include "hdf.h"
#include <stdio.h>
#include <string.h>
static int count(const char *file)
{
    int32 f = Hopen(file, DFACC_READ, 0), ref = -1; int n = 0;
    Vstart(f);
    while ((ref = Vgetid(f, ref)) != FAIL) { int32 id = Vattach(f, ref, "r"); char nm[256] = "", cl[256] = ""; Vgetname(id, nm); Vgetclass(id, cl); Vdetach(id); printf("  vgroup <%s> class <%s>\n", nm, cl); if (!strncmp(nm, "user", 4)) n++; }
    ref = -1;
    while ((ref = VSgetid(f, ref)) != FAIL) { int32 id = VSattach(f, ref, "r"); char nm[256] = "", cl[256] = ""; VSgetname(id, nm); VSgetclass(id, cl); VSdetach(id); printf("  vdata  <%s> class <%s>\n", nm, cl); if (!strncmp(nm, "user", 4)) n++; }
    Vend(f); Hclose(f);
    return n;
}
int main(int argc, char **argv)
{
    int32 v = 7, f, g, vs;
    if (argc > 2) { int n = count(argv[2]); printf("%d of 4 user objects in %s\n", n, argv[2]); return n != 4; }
    f = Hopen("in.hdf", DFACC_CREATE, 0); Vstart(f);
    g = Vattach(f, -1, "w"); Vsetname(g, "user_group"); Vsetclass(g, "Var0.0"); Vsetattr(g, "note", DFNT_INT32, 1, &v);
    vs = VSattach(f, -1, "w"); VSsetname(vs, "user_member"); VSsetclass(vs, "Coeff"); VSfdefine(vs, "f", DFNT_INT32, 1); VSsetfields(vs, "f"); VSwrite(vs, (uint8 *)&v, 1, FULL_INTERLACE);
    Vinsert(g, vs); VSdetach(vs); Vdetach(g);
    vs = VSattach(f, -1, "w"); VSsetname(vs, "user_lone"); VSsetclass(vs, "DimVal0.0"); VSfdefine(vs, "f", DFNT_INT32, 1); VSsetfields(vs, "f"); VSwrite(vs, (uint8 *)&v, 1, FULL_INTERLACE); VSdetach(vs);
    g = Vattach(f, -1, "w"); Vsetname(g, "user_control"); Vsetclass(g, "Var0.0.1"); Vdetach(g);   /* copied: the match is exact */
    Vend(f); Hclose(f);
    printf("in.hdf:\n"); count("in.hdf");
    return 0;
}
