#include "hdf.h"
#include "mfhdf.h"
#include <string.h>
#include <stdio.h>
#include <stdlib.h>
static char *rep(int n, char c){ char*s=malloc(n+1); memset(s,c,n); s[n]=0; return s; }
int main(int argc,char**argv){
    int len=atoi(argv[1]); const char*what=argv[2];
    char *nm = rep(len,'q'); if(argc>3) nm=argv[3];
    int32 v=7; int r;
    if(strstr(what,"sds")||strstr(what,"sdattr")||strstr(what,"dim")){
        int32 sd=SDstart("in.hdf",DFACC_CREATE); int32 d[1]={3}; int32 st[1]={0}; int32 data[3]={1,2,3};
        int32 id=SDcreate(sd, strstr(what,"sds")?nm:"s", DFNT_INT32,1,d); printf("SDcreate=%d\n",(int)id);
        SDwritedata(id,st,NULL,d,data);
        if(strstr(what,"sdattr")) { r=SDsetattr(id,nm,DFNT_INT32,1,&v); printf("SDsetattr=%d\n",r); r=SDsetattr(sd,nm,DFNT_INT32,1,&v); printf("SDsetattr glob=%d\n",r);}
        if(strstr(what,"dim")) { r=SDsetdimname(SDgetdimid(id,0),nm); printf("SDsetdimname=%d\n",r);}
        SDendaccess(id); SDend(sd);
    }
    int32 fid=Hopen("in.hdf",strstr(what,"sd")||strstr(what,"dim")?DFACC_WRITE:DFACC_CREATE,0); Vstart(fid);
    if(strstr(what,"vgname")||strstr(what,"vgclass")||strstr(what,"vgattr")){
        int32 g=Vattach(fid,-1,"w"); r=Vsetname(g,strstr(what,"vgname")?nm:"g"); printf("Vsetname=%d\n",r); r=Vsetclass(g,strstr(what,"vgclass")?nm:"c"); printf("Vsetclass=%d\n",r);
        r=Vsetattr(g,strstr(what,"vgattr")?nm:"a",DFNT_INT32,1,&v); printf("Vsetattr=%d\n",r);
        int32 g2=Vattach(fid,-1,"w"); Vsetname(g2,strstr(what,"vgname")?nm:"g"); Vsetclass(g2,"inner"); Vinsert(g,g2); Vdetach(g2);
        Vdetach(g);
    }
    if(strstr(what,"vsname")||strstr(what,"vsclass")||strstr(what,"vsattr")||strstr(what,"vsfield")){
        int32 vs=VSattach(fid,-1,"w"); r=VSsetname(vs,strstr(what,"vsname")?nm:"v"); printf("VSsetname=%d\n",r); r=VSsetclass(vs,strstr(what,"vsclass")?nm:"c"); printf("VSsetclass=%d\n",r);
        const char*fn=strstr(what,"vsfield")?nm:"f";
        r=VSfdefine(vs,fn,DFNT_INT32,1); printf("VSfdefine=%d\n",r); r=VSsetfields(vs,fn); printf("VSsetfields=%d\n",r); VSwrite(vs,(uint8*)&v,1,FULL_INTERLACE);
        r=VSsetattr(vs,_HDF_VDATA,strstr(what,"vsattr")?nm:"a",DFNT_INT32,1,&v); printf("VSsetattr=%d\n",r);
        VSdetach(vs);
    }
    if(strstr(what,"grname")||strstr(what,"grattr")){
        int32 gr=GRstart(fid); int32 d[2]={2,2}; int32 st[2]={0,0}; uint8 px[4]={1,2,3,4};
        int32 ri=GRcreate(gr,strstr(what,"grname")?nm:"im",1,DFNT_UINT8,0,d); printf("GRcreate=%d\n",(int)ri);
        GRwriteimage(ri,st,NULL,d,px);
        if(strstr(what,"grattr")){ r=GRsetattr(ri,nm,DFNT_INT32,1,&v); printf("GRsetattr=%d\n",r); r=GRsetattr(gr,nm,DFNT_INT32,1,&v); printf("GRsetattr glob=%d\n",r);}
        GRendaccess(ri); GRend(gr);
    }
    Vend(fid); Hclose(fid);
    return 0;
}
