#!/bin/sh
# hdfimport -r on an input whose data are not 32-bit floats: neither refused nor carried out.
# pixrep() / interp() read in->hscale / vscale / dscale (float32 buffers that init_scales() only allocates for FP32 output)
# and walk in->data as float32; for -t INT32/INT16/INT8/FP64, -n, IN32/IN16/IN08 input these pointers are uninitialised
# (first input file: `struct Input in` is an uninitialised local of process()) or dangling (freed by fpdeallocate() after an
# earlier float input).  ASan build: heap-buffer-overflow / heap-use-after-free in indexes(); plain build: wild reads, garbage images.
# usage: HDFIMPORT=<asan build>/bin/hdfimport sh raster_nonfloat.sh
T=${HDFIMPORT:-hdfimport}
printf 'TEXT\n1 3 4\n0 0\n 0 1 2\n 0 1 2 3\n 1 2 3 4\n 5 6 7 8\n 9 10 11 12\n' > a.txt
echo "--- a.txt -t INT32 -r";            ASAN_OPTIONS=detect_leaks=0 $T a.txt -t INT32 -o o1.hdf -r 2>&1 | grep -m2 "ERROR\|#1"
echo "--- a.txt -n -r";                  ASAN_OPTIONS=detect_leaks=0 $T a.txt -n -o o2.hdf -r 2>&1 | grep -m2 "ERROR\|#1"
echo "--- a.txt a.txt -t INT16 -r (float input first: dangling scale pointers)"
ASAN_OPTIONS=detect_leaks=0 $T a.txt a.txt -t INT16 -o o3.hdf -r 2>&1 | grep -m2 "ERROR\|#1"
