/* hdiff: stack-buffer-underflow in tztrim() (hdiff_misc.c) when a differing float32 / float64 attribute holds NaN or +-Inf.
 *
 * pr_att_vals() formats every attribute value with sprintf("%#.8g") into char gps[30] and calls tztrim(gps) to remove trailing
 * zeros.  tztrim() skips an optional '-', then digits and '.', and then looks at the character BEFORE the one it stopped at:
 *     while (isdigit((int)*cp) || *cp == '.') cp++;
 *     if (*--cp == '.') return;
 * For "nanf" / "inf" / "nan" no character is skipped, so *--cp reads gps[-1]; when that byte happens to be '0' the following
 * loops walk further down the stack and then MOVE the string to a lower address (write before the start of gps).
 *
 * Build: gcc hdiff_nan_attr.c -I<build>/ -I/repo/hdf/src -I/repo/mfhdf/src <build>/bin/libmfhdf.a <build>/bin/libhdf.a -lz -ljpeg -lm -o hdiff_nan_attr
 * Run:   ./hdiff_nan_attr && <ASan build>/bin/hdiff nan_a.hdf nan_b.hdf
 *   ==ERROR: AddressSanitizer: stack-buffer-underflow ... READ of size 1 ... in tztrim hdiff_misc.c:94  (pr_att_vals hdiff_misc.c:203)
 * (with global attributes gattr_diff reaches pr_att_vals the same way)
 */
#include "mfhdf.h"
#include <math.h>
static void mk(const char *p, float32 a)
{
    int32 sd = SDstart(p, DFACC_CREATE), dims[1] = {2}, st[1] = {0}, id = SDcreate(sd, "d", DFNT_INT32, 1, dims);
    int32 v[2] = {1, 2};
    SDwritedata(id, st, NULL, dims, v);
    SDsetattr(id, "valid_max", DFNT_FLOAT32, 1, &a);
    SDendaccess(id); SDend(sd);
}
int main(void) { mk("nan_a.hdf", NAN); mk("nan_b.hdf", 1.0f); return 0; }
