/* hdiff does not report a changed dimension-scale value of a dimension that a dataset uses.
 *
 * hdiff.c: nfound = match(...) + diff_match_dim(...) + gattr_diff(...).  diff_sds compares data and attributes of a dataset, never
 * SDgetdimscale.  hdiff_dim.c diff_match_dim merges (as if sorted) the list of coordinate variables (td1) with the list of the
 * dimension names of all datasets (td2) and calls diff_sds only for entries `flags[0] && !flags[1]`: coordinate variables that are
 * NOT the dimension of any dataset.  The scale of an ordinary, used dimension is therefore never compared.
 *
 * a.hdf: int32 SDS "d"[3], dimension "x" with int32 scale {10, 20, 30}      b.hdf: scale {10, 21, 30}
 *   hdiff a.hdf b.hdf -> exit 0 (expected 1), hdiff b.hdf a.hdf -> exit 0 (expected 1)
 */
#include "mfhdf.h"
#include <stdio.h>
#include <stdlib.h>
static void mk(const char *p, int32 mid)
{
    int32 sd = SDstart(p, DFACC_CREATE), dims[1] = {3}, st[1] = {0}, id = SDcreate(sd, "d", DFNT_INT32, 1, dims);
    int32 v[3] = {1, 2, 3}, sc[3] = {10, 20, 30}, dim = SDgetdimid(id, 0);
    sc[1] = mid;
    SDsetdimname(dim, "x");
    SDsetdimscale(dim, 3, DFNT_INT32, sc);
    SDwritedata(id, st, NULL, dims, v);
    SDendaccess(id); SDend(sd);
}
int main(int argc, char **argv)
{
    const char *h = argc > 1 ? argv[1] : "hdiff";
    char cmd[600]; int r1, r2;
    mk("a.hdf", 20); mk("b.hdf", 21);
    snprintf(cmd, sizeof cmd, "%s a.hdf b.hdf > /dev/null 2>&1", h); r1 = (system(cmd) >> 8) & 255;
    snprintf(cmd, sizeof cmd, "%s b.hdf a.hdf > /dev/null 2>&1", h); r2 = (system(cmd) >> 8) & 255;
    printf("hdiff a b -> %d, hdiff b a -> %d (expected 1, 1)\n", r1, r2);
    return !(r1 == 1 && r2 == 1);
}
