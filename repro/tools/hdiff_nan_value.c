/* hdiff does not report a data value that became a NaN (or a NaN that became a number).
 *
 * hdiff_array.c array_diff(), DFNT_FLOAT / DFNT_DOUBLE:   f_diff = fabs(*fptr1 - *fptr2);  ...  else if (f_diff > err_limit) n_diff++;
 * With a NaN on one side f_diff is a NaN and `NaN > limit` is false, so the pair counts as equal (same for -p: per is a NaN).
 * diff_sds (datasets, dimension scales) and diff_gr (images, after its memcmp) both end in array_diff.
 *
 * a.hdf: float32 SDS {1, 2, 3, 4}     b.hdf: {1, NaN, 3, 4}      c.hdf: {1, 2.5, 3, 4} (control)
 *   hdiff a.hdf b.hdf -> exit 0, prints nothing   (expected 1)          hdiff b.hdf a.hdf -> exit 0 (expected 1)
 *   hdiff a.hdf c.hdf -> exit 1                                          hdiff b.hdf b.hdf -> exit 0 (and must stay 0)
 * Build: gcc hdiff_nan_value.c -I<build> -I<build>/hdf/src -I/repo/hdf/src -I/repo/mfhdf/src <build>/bin/libmfhdf.a <build>/bin/libhdf.a -lz -ljpeg -lm
 */
#include "mfhdf.h"
#include <math.h>
#include <stdio.h>
#include <stdlib.h>
static void mk(const char *p, float32 x)
{
    int32 sd = SDstart(p, DFACC_CREATE), dims[1] = {4}, st[1] = {0}, id = SDcreate(sd, "t", DFNT_FLOAT32, 1, dims);
    float32 v[4] = {1, 2, 3, 4};
    v[1] = x;
    SDwritedata(id, st, NULL, dims, v);
    SDendaccess(id); SDend(sd);
}
static int run(const char *hdiff, const char *a, const char *b, int want)
{
    char cmd[600]; int rc;
    snprintf(cmd, sizeof cmd, "%s %s %s > /dev/null 2>&1", hdiff, a, b);
    rc = system(cmd); rc = (rc >> 8) & 255;
    printf("hdiff %s %s -> %d (expected %d)%s\n", a, b, rc, want, rc == want ? "" : "   <-- WRONG");
    return rc != want;
}
int main(int argc, char **argv)
{
    const char *h = argc > 1 ? argv[1] : "hdiff";
    int bad = 0;
    mk("a.hdf", 2.0f); mk("b.hdf", NAN); mk("c.hdf", 2.5f);
    bad += run(h, "a.hdf", "b.hdf", 1); bad += run(h, "b.hdf", "a.hdf", 1);
    bad += run(h, "a.hdf", "c.hdf", 1); bad += run(h, "b.hdf", "b.hdf", 0);
    return bad != 0;
}
