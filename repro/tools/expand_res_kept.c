/* hdfimport: a resolution raised by "-e" for one input file is kept for all later input files of the run.
 *
 *   hdfimport a.txt b.txt -o out.hdf -r -e 4 4        a.txt: 4 rows x 6 columns, b.txt: 4 rows x 3 columns
 *
 * a.txt has 6 columns, more than the 4 asked for, so its image is made 6 wide ("cannot make image smaller").  process() does
 * that with "im.hres = in.dims[0]; opt->hres = in.dims[0];", i.e. it overwrites the user's option, and b.txt (3 columns) is then
 * expanded to 6x4 although "-e 4 4" asks for 4x4 and although b.txt alone ("hdfimport b.txt -o out.hdf -r -e 4 4") gives 4x4.
 * No message is printed for b.txt.
 *
 * build: gcc expand_res_kept.c -I<hdf/src> -I<build> <libdf/libhdf>.a -ljpeg -lz -lm ;  run: HDFIMPORT=<path>/hdfimport ./a.out
 */
#include <stdio.h>
#include <stdlib.h>
#include "hdf.h"

static void text_file(const char *name, int nr, int nc)
{
    FILE *f = fopen(name, "w");
    int   i;
    fprintf(f, "TEXT\n1 %d %d\n0 0\n", nr, nc);
    for (i = 0; i < nr; i++) fprintf(f, " %d", i);
    fprintf(f, "\n");
    for (i = 0; i < nc; i++) fprintf(f, " %d", i);
    fprintf(f, "\n");
    for (i = 0; i < nr * nc; i++) fprintf(f, " %d%s", i, (i + 1) % nc ? "" : "\n");
    fclose(f);
}

static int show(const char *file, const char *what, int expect_w)
{
    int32 w, h; int ispal, n = DFR8nimages(file), i, bad = 0;
    DFR8restart();
    for (i = 0; i < n; i++) {
        DFR8getdims(file, &w, &h, &ispal);
        printf("%s: image %d is %d x %d\n", what, i, (int)w, (int)h);
        if (i == n - 1 && w != expect_w) bad = 1;
    }
    return bad;
}

int main(void)
{
    const char *tool = getenv("HDFIMPORT") ? getenv("HDFIMPORT") : "hdfimport";
    char cmd[1000];
    int  bad;
    text_file("a.txt", 4, 6);
    text_file("b.txt", 4, 3);
    snprintf(cmd, sizeof cmd, "%s b.txt -o alone.hdf -r -e 4 4", tool);
    if (system(cmd)) return 2;
    snprintf(cmd, sizeof cmd, "%s a.txt b.txt -o both.hdf -r -e 4 4", tool);
    if (system(cmd)) return 2;
    show("alone.hdf", "b.txt alone         ", 4);
    bad = show("both.hdf", "a.txt b.txt together", 4);
    printf(bad ? "DEFECT: the image of b.txt is not 4 wide in the run with a.txt\n" : "ok\n");
    return bad;
}
