/* dfan.c DFANIlablist line 1278: `len = Hread(aid, (int32)(maxlen - 1), lp)` - with maxlen = 1 (room for the NUL only)
 * the length is 0, which for Hread means "to the end of the element": the whole label text is written into the caller's
 * listsize * maxlen byte buffer (same defect as the one repaired in DFANIgetann / ANIreadann by d625c61).
 * Under ASan: heap-buffer-overflow WRITE in HP_read <- Hread <- DFANIlablist.  Without ASan the guard bytes change.
 * exit 0: nothing beyond listsize * maxlen bytes was written. */
#include "hdf.h"
#include <stdio.h>
#include <string.h>
int main(void)
{
    const char *p = "lablist.hdf";
    int32 f = Hopen(p, DFACC_CREATE, 0);
    Hputelement(f, 1000, 1, (const uint8 *)"abc", 3);
    Hputelement(f, 1000, 2, (const uint8 *)"abc", 3);
    Hclose(f);
    DFANputlabel(p, 1000, 1, "a long label of 30 bytes......");
    DFANputlabel(p, 1000, 2, "another long label");
    uint16 refs[2];
    char   buf[64];
    memset(buf, 0x5A, sizeof buf);         /* the caller's buffer is buf[0..1] (listsize 2 * maxlen 1), the rest is guard */
    DFANclear();
    int n = DFANlablist(p, 1000, refs, buf, 2, 1, 1);
    int over = 0;
    for (int i = 2; i < 64; i++) if (buf[i] != 0x5A) over++;
    printf("DFANlablist(listsize 2, maxlen 1) = %d; %d byte(s) written beyond the 2-byte label buffer%s\n", n, over, over ? "   VIOLATION" : "");
    return over != 0;
}
