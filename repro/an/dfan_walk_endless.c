/* dfan.c DFANIgetfann: the end-of-list marker of the DFANgetfid/DFANgetfds walk is a REFERENCE NUMBER
 * (Next_label_ref = ref of the last annotation in DD order + 1).  When an annotation with that ref exists - the
 * annotations' refs are not in DD order - or when it wraps to 0 (= DFREF_WILDCARD, last ref 65535) the documented loop
 *     for (first = 1; DFANgetfidlen(fid, first) != FAIL; first = 0) DFANgetfid(fid, buf, n, first);
 * never ends: it reports the same labels again and again.
 * Scenario A uses only DFANaddfid / Hputelement of another object / Hdeldd (no hand-picked annotation ref):
 *   labels ref 1, ref 2; label 1 deleted; another object takes the free DD; a new label gets ref 1 again (Htagnewref:
 *   lowest free ref of the tag) and the DD after label 2  ->  DD order: label 2, label 1  ->  after label 1 the marker is 2.
 * Scenario B: a file description with ref 65535 (any writer may pick its refs; Hnewref reaches it in a busy file).
 * exit 0: both walks end after the annotations that exist; exit 1: a walk was still going after 10 steps. */
#include "hdf.h"
#include <stdio.h>
static int walk(int32 f, int labels, int expect)
{
    char b[64];
    int  n = 0;
    for (int first = 1; n < 10; first = 0) {
        int32 l = labels ? DFANgetfidlen(f, first) : DFANgetfdslen(f, first);
        if (l == FAIL) break;
        l = labels ? DFANgetfid(f, b, 64, first) : DFANgetfds(f, b, 64, first);
        printf("  step %d: ref %d \"%.*s\"\n", n, (int)DFANlastref(), (int)(l < 0 ? 0 : l), b);
        n++;
    }
    printf("  -> %d reported, %d exist%s\n", n, expect, n == expect ? "" : "   VIOLATION: the walk does not end");
    return n != expect;
}
int main(void)
{
    int bad = 0;
    int32 f = Hopen("walkA.hdf", DFACC_CREATE, 0);
    DFANaddfid(f, "first");                           /* ref 1 */
    DFANaddfid(f, "second");                          /* ref 2 */
    Hdeldd(f, DFTAG_FID, 1);                          /* frees the DD in front of label 2 */
    Hputelement(f, 1000, 1, (const uint8 *)"x", 1);   /* some other object takes that DD */
    DFANaddfid(f, "third");                           /* ref 1 again, DD behind label 2 */
    Hclose(f);
    f = Hopen("walkA.hdf", DFACC_READ, 0);
    printf("A: file labels, DD order ref 2, ref 1\n");
    bad |= walk(f, 1, 2);
    Hclose(f);
    f = Hopen("walkB.hdf", DFACC_CREATE, 0);
    Hputelement(f, DFTAG_FD, 7, (const uint8 *)"seven", 5);
    Hputelement(f, DFTAG_FD, 65535, (const uint8 *)"last", 4);
    Hclose(f);
    f = Hopen("walkB.hdf", DFACC_READ, 0);
    printf("B: file descriptions ref 7, ref 65535\n");
    bad |= walk(f, 0, 2);
    Hclose(f);
    return bad;
}
