/* stale high-water mark: ncclose frees the open-file table when the last file is closed but keeps _ncdf;
 * a smaller table allocated afterwards is then indexed up to the stale _ncdf */
#include "mfhdf.h"
#include <stdio.h>
int main(void)
{
    char fn[64]; int32 id[40];
    for (int i = 0; i < 34; i++) { sprintf(fn, "/tmp/mo3_%d.hdf", i); id[i] = SDstart(fn, DFACC_CREATE); }  /* table grows beyond 32 */
    for (int i = 0; i < 34; i++) SDend(id[i]);          /* ascending: _ncdf ends at 33, table freed */
    printf("SDreset_maxopenfiles(32) = %d\n", SDreset_maxopenfiles(32));
    for (int i = 0; i < 34; i++) { sprintf(fn, "/tmp/mo3_%d.hdf", i); id[i] = SDstart(fn, DFACC_CREATE); if (id[i] == FAIL) printf("SDstart #%d failed\n", i + 1); }
    for (int i = 0; i < 34; i++) SDend(id[i]);
    printf("done\n");
    return 0;
}
