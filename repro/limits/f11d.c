/* F11b: Hwrite's append path grows the last element of the file past 2^31-1 (no range check):
 * the DD gets offset+length > INT32_MAX, after reopen f_end_off is too small and the next element
 * is allocated ON TOP of the grown element's data. */
#include "hdf.h"
#include "hfile_priv.h"
#include <stdio.h>
#include <string.h>
int main(int argc, char **argv)
{
    const char *fn = argc > 1 ? argv[1] : "/tmp/f11d.hdf";
    int32 fid = Hopen(fn, DFACC_CREATE, 0);
    int32 aid = Hstartwrite(fid, 1000, 1, 0x7fffffff - 1 - 294 - 10); /* sparse, never written: f_end_off = 2^31-12 */
    Hendaccess(aid);
    aid = Hstartaccess(fid, 1000, 2, DFACC_RDWR);
    printf("Hwrite#1 = %d\n", (int)Hwrite(aid, 8, "AAAAAAAA"));
    printf("Hwrite#2 = %d  (expected FAIL: element would end at 2^31+4)\n", (int)Hwrite(aid, 8, "BBBBBBBB"));
    Hendaccess(aid);
    printf("Hclose = %d\n", (int)Hclose(fid));
    fid = Hopen(fn, DFACC_RDWR, 0);
    int32 off, len; uint16 t = 0, r = 0;
    Hfind(fid, 1000, 2, &t, &r, &off, &len, DF_FORWARD);
    printf("after reopen: (1000,2) off %d len %d, f_end_off %d\n", (int)off, (int)len, (int)((filerec_t *)HAatom_object(fid))->f_end_off);
    printf("Hputelement(1000,3) = %d\n", (int)Hputelement(fid, 1000, 3, (const uint8 *)"XXXXXXXX", 8));
    char b[17] = {0};
    printf("Hgetelement(1000,2) = %d: %s  (written: AAAAAAAABBBBBBBB)\n", (int)Hgetelement(fid, 1000, 2, (uint8 *)b), b);
    Hclose(fid);
    return 0;
}
