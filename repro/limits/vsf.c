/* VSsetfields with n comma separated field names: scanattrs writes its static token tables before the count is checked */
#include "hdf.h"
#include <stdio.h>
#include <stdlib.h>
#include <string.h>
int main(int argc, char **argv)
{
    int n = argc > 1 ? atoi(argv[1]) : 256;
    int32 fid = Hopen("/tmp/vsf.hdf", DFACC_CREATE, 0);
    Vstart(fid);
    int32 vs = VSattach(fid, -1, "w");
    char *list = malloc((size_t)n * 8 + 8); list[0] = 0;
    for (int i = 0; i < n; i++) {
        char nm[16]; sprintf(nm, "F%d", i);
        int rc = VSfdefine(vs, nm, DFNT_UINT8, 1);
        if (rc == FAIL) printf("VSfdefine %d failed\n", i);
        if (i) strcat(list, ","); strcat(list, nm);
    }
    int rc = VSsetfields(vs, list);
    printf("VSsetfields(%d fields) = %d\n", n, rc);
    printf("VFnfields = %d, VSsizeof = %d\n", (int)VFnfields(vs), (int)VSsizeof(vs, list));
    VSdetach(vs); Vend(fid); printf("Hclose = %d\n", Hclose(fid));
    return 0;
}
