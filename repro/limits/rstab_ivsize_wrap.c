/* VSsetfields: the reserved-symbol branch (rstab[]: PX PY PZ IX IY IZ NX NY NZ) adds the field size to wlist->ivsize
 * with `wlist->ivsize += (uint16)isize` - no MAX_FIELD_SIZE test (the user-symbol branch has one): the record size wraps
 * modulo 65536.  A: uint8[65535] (accepted: 65535 <= MAX_FIELD_SIZE), then "A,PX": ivsize = (65535 + 4) % 65536 = 3,
 * PX at offset 65535.  VSwrite of one record allocates Vtbuf for 3 bytes and converts 65535 + 4 bytes into it. */
#include "hdf.h"
#include <stdio.h>
#include <stdlib.h>
#include <string.h>
int main(void)
{
    int32 fid = Hopen("rstab_wrap.hdf", DFACC_CREATE, 0);
    Vstart(fid);
    int32 vs = VSattach(fid, -1, "w");
    int   rc = VSfdefine(vs, "A", DFNT_UINT8, 65535);
    printf("VSfdefine(A, uint8, 65535) = %d\n", rc);
    rc = VSsetfields(vs, "A,PX");
    printf("VSsetfields(A,PX) = %d\n", rc);
    int32 sz = VSsizeof(vs, "A,PX");
    int32 nv, il, vsz; char flds[100], nm[100];
    VSinquire(vs, &nv, &il, flds, &vsz, nm);
    printf("VSsizeof = %d, VSinquire record size = %d (fields need 65539)\n", (int)sz, (int)vsz);
    if (getenv("DOWRITE")) {
        unsigned char *buf = calloc(1, 70000);
        rc = VSwrite(vs, buf, 1, FULL_INTERLACE);
        printf("VSwrite = %d\n", rc);
    }
    VSdetach(vs); Vend(fid); Hclose(fid);
    return 0;
}
