/* F11: allocation past 2^31-1 wraps f_end_off (hfile.c HPgetdiskblock).
 * Build: gcc -I/repo/hdf/src -I<build> -I<build>/hdf/src f11.c <build>/bin/libhdf.a -lz -ljpeg -lm */
#include "hdf.h"
#include <stdio.h>
int main(int argc, char **argv)
{
    const char *fn = argc > 1 ? argv[1] : "/tmp/f11.hdf";
    int32 fid = Hopen(fn, DFACC_CREATE, 0);
    int32 aid = Hstartwrite(fid, 1000, 1, 0x7fffffff); /* reserve 2^31-1 bytes at offset 294: end = 2^31+293 */
    printf("Hstartwrite(len=0x7fffffff) = %d (expected FAIL)\n", (int)aid);
    if (aid != FAIL) Hendaccess(aid);
    int32 off = 0, len = 0;
    int32 r2 = Hputelement(fid, 1000, 2, (const uint8 *)"abcd", 4);
    printf("Hputelement(1000,2) = %d\n", (int)r2);
    if (Hfind(fid, 1000, 2, &(uint16){0}, &(uint16){0}, &off, &len, DF_FORWARD) != FAIL)
        printf("element (1000,2): offset %d length %d\n", (int)off, (int)len);
    int rc = Hclose(fid);
    printf("Hclose = %d\n", rc);
    if (rc == FAIL) HEprint(stdout, 0);
    fid = Hopen(fn, DFACC_READ, 0);
    printf("reopen = %d\n", (int)fid);
    if (fid != FAIL) {
        uint8 b[4] = {0};
        printf("Hgetelement(1000,2) = %d\n", (int)Hgetelement(fid, 1000, 2, b));
        Hclose(fid);
    }
    return 0;
}
