/* SDcreate does not notice that no reference number is left: mfsd.c:1156 `var->ndg_ref = Hnewref(handle->hdf_file);` is not
 * checked against 0 (VSattach / Vattach / GRcreate / DFR8 do check and fail with DFE_NOREF).  With all 65535 numbers in use
 * SDcreate returns a valid id for a data set with NDG number 0; SDwritedata on it fails and so does SDend (the whole session
 * cannot be closed cleanly).  Takes ~10 s: the search for a free number is slow by design.
 * build: gcc sdcreate_noref.c -I<hdf/src> -I<mfhdf/src> -I<build/hdf/src> <build>/bin/libmfhdf.a <build>/bin/libhdf.a -lz -ljpeg -lm */
#include "mfhdf.h"
#include <stdio.h>
int main(void)
{
    const char *path = "sdcreate_noref.hdf";
    int bad = 0;
    int32 fid = Hopen(path, DFACC_CREATE, 512);
    for (int r = 65535; r >= 2; r--) { int32 aid = Hstartwrite(fid, 1200, (uint16)r, 0); Hendaccess(aid); }   /* number 1: the version descriptor */
    printf("Hnewref = %d (0: no number is free)\n", (int)Hnewref(fid));
    Hclose(fid);
    int32 sd = SDstart(path, DFACC_RDWR);
    int32 dims[1] = {3}, start[1] = {0}, data[3] = {1, 2, 3};
    int32 sds = SDcreate(sd, "ds", DFNT_INT32, 1, dims);
    printf("SDcreate = %d", (int)sds);
    if (sds != FAIL) { printf("  (NDG number %d)\nVIOLATED: SDcreate succeeds although no reference number is free\n", (int)SDidtoref(sds)); bad = 1;
        printf("SDwritedata = %d\n", (int)SDwritedata(sds, start, NULL, dims, data)); SDendaccess(sds); }
    else printf("  (refused)\n");
    int e = SDend(sd);
    printf("SDend = %d\n", e);
    if (e == FAIL) { printf("VIOLATED: SDend fails\n"); bad = 1; }
    remove(path);
    printf(bad ? "defect present\n" : "ok\n");
    return bad;
}
