/* same root cause, shortest form: a stale SD id after all files are closed dereferences the freed (NULL) table */
#include "mfhdf.h"
#include <stdio.h>
int main(void)
{
    int32 a = SDstart("/tmp/mo4_a.hdf", DFACC_CREATE), b = SDstart("/tmp/mo4_b.hdf", DFACC_CREATE);
    SDend(a); SDend(b);                       /* _ncdf stays 1, _cdfs is freed and NULL */
    int32 nd, na;
    printf("SDfileinfo(closed id) = %d (expected FAIL)\n", (int)SDfileinfo(a, &nd, &na));
    return 0;
}
