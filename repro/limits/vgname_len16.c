/* limits-name-len16-wrap: vgroup / image names are stored with a 16-bit length; a longer name must be refused,
 * not silently cut modulo 65536 on the way to the file (exit 0 = held) */
#include "hdf.h"
#include <stdio.h>
#include <stdlib.h>
#include <string.h>
static char *mk(size_t n) { char *s = malloc(n + 1); memset(s, 'a', n); s[n] = 0; return s; }
int main(void)
{
    int bad = 0;
    char *big = mk(70000), *max = mk(65535);
    int32 fid = Hopen("vgname_len16.hdf", DFACC_CREATE, 0);
    Vstart(fid);
    int32 vg = Vattach(fid, -1, "w");
    int r1 = Vsetname(vg, max), r2 = Vsetclass(vg, max);
    int r3 = Vsetname(vg, big), r4 = Vsetclass(vg, big);
    printf("Vsetname(65535) %d Vsetclass(65535) %d Vsetname(70000) %d Vsetclass(70000) %d\n", r1, r2, r3, r4);
    int32 ref = VQueryref(vg);
    Vdetach(vg);
    int32 gr = GRstart(fid), dims[2] = {2, 2};
    int32 ri = GRcreate(gr, big, 1, DFNT_UINT8, MFGR_INTERLACE_PIXEL, dims);
    printf("GRcreate(70000-char name) = %d\n", (int)ri);
    if (ri != FAIL) { uint8 px[4] = {1, 2, 3, 4}; int32 st[2] = {0, 0}; GRwriteimage(ri, st, NULL, dims, px); GRendaccess(ri); }
    int32 ri2 = GRcreate(gr, max, 1, DFNT_UINT8, MFGR_INTERLACE_PIXEL, dims);
    if (ri2 != FAIL) { uint8 px[4] = {1, 2, 3, 4}; int32 st[2] = {0, 0}; GRwriteimage(ri2, st, NULL, dims, px); GRendaccess(ri2); } else bad = 1;
    GRend(gr); Vend(fid); Hclose(fid);
    fid = Hopen("vgname_len16.hdf", DFACC_READ, 0); Vstart(fid);
    vg = Vattach(fid, ref, "r");
    uint16 nl = 0, cl = 0; Vgetnamelen(vg, &nl); Vgetclassnamelen(vg, &cl);
    printf("after reopen: name %d class %d characters\n", (int)nl, (int)cl);
    /* whatever was accepted must come back complete */
    if (r1 == FAIL || r2 == FAIL) bad = 1;
    if (r3 != FAIL || r4 != FAIL || ri != FAIL) bad = 1;
    if (nl != 65535 || cl != 65535) bad = 1;
    Vdetach(vg);
    gr = GRstart(fid);
    int32 nimg = 0, na; GRfileinfo(gr, &nimg, &na);
    for (int i = 0; i < nimg; i++) {
        char *nm = malloc(80000); int32 nc, nt, il, dm[2], a;
        ri = GRselect(gr, i); GRgetiminfo(ri, nm, &nc, &nt, &il, dm, &a);
        printf("image %d name length %d\n", i, (int)strlen(nm));
        if (strlen(nm) != 65535) bad = 1;
        GRendaccess(ri); free(nm);
    }
    if (nimg != 1) bad = 1;
    GRend(gr); Vend(fid); Hclose(fid);
    remove("vgname_len16.hdf");
    return bad;
}
