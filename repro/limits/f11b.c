/* boundary: element ending exactly at 2^31-1, then Hclose (HIextend_file writes one byte AT f_end_off) */
#include "hdf.h"
#include "hfile_priv.h"
#include <stdio.h>
int main(int argc, char **argv)
{
    const char *fn = argc > 1 ? argv[1] : "/tmp/f11b.hdf";
    int slack = argc > 2 ? atoi(argv[2]) : 0;
    int32 fid = Hopen(fn, DFACC_CREATE, 0);
    filerec_t *fr = HAatom_object(fid);
    int32 aid = Hstartwrite(fid, 1000, 1, 16);
    Hendaccess(aid);
    printf("f_end_off after small = %d\n", (int)fr->f_end_off);
    int32 len = 0x7fffffff - fr->f_end_off - slack;
    aid = Hstartwrite(fid, 1000, 2, len);
    printf("Hstartwrite(len=%d) = %d, f_end_off=%d\n", (int)len, (int)aid, (int)fr->f_end_off);
    if (aid != FAIL) Hendaccess(aid);
    int rc = Hclose(fid);
    printf("Hclose = %d\n", rc);
    if (rc == FAIL) HEprint(stdout, 0);
    fid = Hopen(fn, DFACC_READ, 0);
    printf("reopen = %d\n", (int)fid);
    if (fid != FAIL) { fr = HAatom_object(fid); printf("f_end_off=%d len(1000,2)=%d\n", (int)fr->f_end_off, (int)Hlength(fid, 1000, 2)); Hclose(fid); }
    return 0;
}
