/* Two vgroups created one after the other (the first one not yet detached) get the SAME reference number once the file's
 * reference counter has reached 65535 (any file that holds an object with reference number 65535).
 * Root cause: hfiledd.c Hnewref() in search mode returns the first number that no descriptor of the file carries;
 * Vattach(f,-1,"w") (vgp.c:1130) writes no descriptor before Vdetach, so nothing reserves the number.
 * Effect: the second Vdetach writes its vgroup, the first Vdetach fails (DFE_..) and the first vgroup (name, members) is lost.
 * build: gcc vattach_twice.c -I<hdf/src> -I<build/hdf/src> <build>/bin/libhdf.a -lz -ljpeg -lm */
#include "hdf.h"
#include <stdio.h>
int main(void)
{
    const char *path = "vattach_twice.hdf";
    int32 fid = Hopen(path, DFACC_CREATE, 16);
    uint8 b = 1;
    int bad = 0;
    Vstart(fid);
    Hputelement(fid, 1200, 65535, &b, 1);     /* the highest reference number is in use */
    int32 g1 = Vattach(fid, -1, "w"); Vsetname(g1, "one"); Vaddtagref(g1, 1200, 65535);
    int32 g2 = Vattach(fid, -1, "w");
    printf("first vgroup: number %d, second vgroup: %s number %d\n", (int)VQueryref(g1), g2 == FAIL ? "refused," : "", g2 == FAIL ? -1 : (int)VQueryref(g2));
    if (g2 != FAIL && VQueryref(g2) == VQueryref(g1)) { printf("VIOLATED: both vgroups have the reference number %d\n", (int)VQueryref(g1)); bad = 1; }
    if (g2 != FAIL) { Vsetname(g2, "two"); printf("Vdetach(second) = %d\n", (int)Vdetach(g2)); }
    int d1 = Vdetach(g1); printf("Vdetach(first)  = %d\n", d1);
    if (d1 == FAIL) { printf("VIOLATED: the first vgroup cannot be written\n"); bad = 1; }
    Vend(fid); Hclose(fid);
    fid = Hopen(path, DFACC_READ, 0); Vstart(fid);
    int32 r = -1; int n = 0, seen_one = 0;
    while ((r = Vgetid(fid, r)) != FAIL) { int32 g = Vattach(fid, r, "r"); char nm[100]; Vgetname(g, nm); printf("in the file: vgroup %d \"%s\" with %d members\n", (int)r, nm, (int)Vntagrefs(g)); if (!strcmp(nm, "one")) seen_one = 1; Vdetach(g); n++; }
    if (!seen_one) { printf("VIOLATED: vgroup \"one\" (1 member) is not in the file\n"); bad = 1; }
    Vend(fid); Hclose(fid);
    remove(path);
    printf(bad ? "defect present\n" : "ok\n");
    return bad;
}
