/* linked-block element: logical position/length near 2^31 (hblocks.c HLPwrite `bytes_written + posn`) */
#include "hdf.h"
#include <stdio.h>
int main(int argc, char **argv)
{
    int n = argc > 1 ? atoi(argv[1]) : 40;
    int32 fid = Hopen("/root/work/limits/repro/linked.hdf", DFACC_CREATE, 16);
    int32 aid = HLcreate(fid, 1100, 1, 0x10000000, 4);
    uint8 buf[64] = {1, 2, 3};
    printf("Hwrite 8 = %d\n", (int)Hwrite(aid, 8, buf));
    printf("Hseek(0x7ffffff0) = %d\n", Hseek(aid, 0x7ffffff0, DF_START));
    printf("Hwrite %d = %d\n", n, (int)Hwrite(aid, n, buf));
    int32 len = -7, pos = -7; Hinquire(aid, NULL, NULL, NULL, &len, NULL, &pos, NULL, NULL);
    printf("length %d posn %d\n", (int)len, (int)pos);
    printf("Hendaccess = %d\n", Hendaccess(aid));
    printf("Hclose = %d\n", Hclose(fid));
    fid = Hopen("/root/work/limits/repro/linked.hdf", DFACC_READ, 0);
    printf("Hlength after reopen = %d\n", (int)Hlength(fid, 1100, 1));
    Hclose(fid);
    remove("/root/work/limits/repro/linked.hdf");
    return 0;
}
