#include "mfhdf.h"
#include <stdio.h>
int main(int argc, char **argv)
{
    int mode = argc > 1 ? atoi(argv[1]) : 0;
    char fn[64]; int32 id[16];
    int n = mode == 0 ? 3 : 10;
    for (int i = 0; i < n; i++) { sprintf(fn, "/tmp/mo_%d.hdf", i); id[i] = SDstart(fn, DFACC_CREATE); }
    if (mode == 0) {
        int32 dims[1] = {4};
        SDend(id[0]);
        printf("SDreset_maxopenfiles(64) = %d\n", (int)SDreset_maxopenfiles(64));
        int32 s1 = SDcreate(id[1], "in_file_1", DFNT_INT32, 1, dims);
        int32 s2 = SDcreate(id[2], "in_file_2", DFNT_INT32, 1, dims);
        printf("SDcreate on file 1 = %d, on file 2 = %d (both files are still open)\n", (int)s1, (int)s2);
        printf("SDend(1) = %d SDend(2) = %d\n", (int)SDend(id[1]), (int)SDend(id[2]));
        int32 f = SDstart("/tmp/mo_1.hdf", DFACC_READ); int32 nd = -1, na; if (f != FAIL) { SDfileinfo(f, &nd, &na); SDend(f);} printf("file 1 holds %d datasets\n", (int)nd);
        f = SDstart("/tmp/mo_2.hdf", DFACC_READ); nd = -1; if (f != FAIL) { SDfileinfo(f, &nd, &na); SDend(f);} printf("file 2 holds %d datasets\n", (int)nd);
    } else {
        for (int i = 0; i < 8; i++) SDend(id[i]);
        printf("SDreset_maxopenfiles(3) = %d\n", (int)SDreset_maxopenfiles(3));
        int32 nd = -1, na = -1;
        printf("SDfileinfo(file 9) = %d\n", (int)SDfileinfo(id[9], &nd, &na));
        printf("SDend(8) = %d SDend(9) = %d\n", (int)SDend(id[8]), (int)SDend(id[9]));
    }
    return 0;
}
