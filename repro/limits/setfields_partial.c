/* limits-setfields-partial: a refused VSsetfields must leave the vdata as it was (exit 0 = held) */
#include "hdf.h"
#include <stdio.h>
int main(void)
{
    int bad = 0;
    int32 fid = Hopen("setfields_partial.hdf", DFACC_CREATE, 0);
    Vstart(fid);
    int32 vs = VSattach(fid, -1, "w");
    VSfdefine(vs, "G0", DFNT_CHAR8, 40000); VSfdefine(vs, "G1", DFNT_CHAR8, 20000);
    VSfdefine(vs, "G2", DFNT_CHAR8, 10000); VSfdefine(vs, "G3", DFNT_CHAR8, 5);
    int r = VSsetfields(vs, "G0,G1,G2,G3");          /* 70005 bytes per record > MAX_FIELD_SIZE */
    int n = VFnfields(vs);
    printf("VSsetfields(70005-byte record) = %d, VFnfields = %d (expected -1, 0)\n", r, n);
    if (r != FAIL || n != 0) bad = 1;
    r = VSsetfields(vs, "G3,G0");                    /* a list that fits must still be accepted */
    n = VFnfields(vs);
    printf("VSsetfields(G3,G0) = %d, VFnfields = %d (expected 0, 2)\n", r, n);
    if (r == FAIL || n != 2) bad = 1;
    VSdetach(vs); Vend(fid); Hclose(fid);
    remove("setfields_partial.hdf");
    return bad;
}
