/* second adding site: Hwrite's append path on the last element of the file */
#include "hdf.h"
#include "hfile_priv.h"
#include <stdio.h>
int main(int argc, char **argv)
{
    const char *fn = argc > 1 ? argv[1] : "/tmp/f11c.hdf";
    int mode = argc > 2 ? atoi(argv[2]) : 0;
    int32 fid = Hopen(fn, DFACC_CREATE, 0);
    filerec_t *fr = HAatom_object(fid);
    int32 aid = Hstartwrite(fid, 1000, 1, 0x7fffffff - 1 - 294 - 10); /* sparse: f_end_off = 2^31-12 */
    printf("reserve = %d f_end_off=%d\n", (int)aid, (int)fr->f_end_off);
    Hendaccess(aid);
    uint8 buf[64] = {1,2,3,4,5,6,7,8,9,10};
    if (mode == 0) {
        /* new element written through Hstartaccess + Hwrite (appendable), 8 bytes then 8 more */
        aid = Hstartaccess(fid, 1000, 2, DFACC_RDWR);
        printf("Hwrite 8 = %d f_end_off=%d\n", (int)Hwrite(aid, 8, buf), (int)fr->f_end_off);
        printf("Hwrite 8 = %d f_end_off=%d\n", (int)Hwrite(aid, 8, buf), (int)fr->f_end_off);
        Hendaccess(aid);
    } else {
        aid = Hstartaccess(fid, 1000, 2, DFACC_RDWR | DFACC_APPENDABLE);
        printf("Hwrite 8 = %d f_end_off=%d\n", (int)Hwrite(aid, 8, buf), (int)fr->f_end_off);
        printf("Hseek(0x7ffffff0) = %d\n", Hseek(aid, 0x7ffffff0, DF_START));
        printf("Hwrite 8 = %d f_end_off=%d\n", (int)Hwrite(aid, 8, buf), (int)fr->f_end_off);
        Hendaccess(aid);
    }
    int32 off, len; uint16 t = 0, r = 0;
    if (Hfind(fid, 1000, 2, &t, &r, &off, &len, DF_FORWARD) != FAIL) printf("(1000,2): off %d len %d\n", (int)off, (int)len);
    int rc = Hclose(fid);
    printf("Hclose = %d\n", rc);
    if (rc == FAIL) HEprint(stdout, 0);
    fid = Hopen(fn, DFACC_READ, 0);
    printf("reopen = %d\n", (int)fid);
    if (fid != FAIL) { fr = HAatom_object(fid); printf("f_end_off=%d len(1000,2)=%d\n", (int)fr->f_end_off, (int)Hlength(fid, 1000, 2)); Hclose(fid); }
    return 0;
}
