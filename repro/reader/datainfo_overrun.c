/* HLgetdatainfo (hdf/src/hblocks.c) writes offsetarray[]/lengtharray[] entries beyond info_count.
 * The outer loop tests `num_data_blocks < info_count` once per BLOCK TABLE; the inner loop over the blocks of a
 * table stores every block without looking at info_count.  Reachable through the public HDgetdatainfo,
 * VSgetdatainfo, SDgetdatainfo and GRgetdatainfo whenever 0 < info_count < blocks in the table being walked.
 *
 * build: gcc -g -fsanitize=address -I/repo/hdf/src -I<build> -I<build>/hdf/src datainfo_overrun.c <build>/bin/libhdf.a -lz -ljpeg -lm
 * expected (documented): at most info_count entries are written, return value <= info_count
 * observed: heap-buffer-overflow WRITE of size 4 in HLgetdatainfo (ASan); without ASan: returns 3, entries [1],[2] clobbered */
#include "hdf.h"
#include <stdio.h>
#include <stdlib.h>
int main(void)
{
    uint8 b[200]; for (int i = 0; i < 200; i++) b[i] = (uint8)i;
    int32 fid = Hopen("overrun.hdf", DFACC_CREATE, 0);
    int32 aid = HLcreate(fid, 1002, 1, 64, 3);       /* block length 64, 3 blocks per table */
    Hwrite(aid, 200, b);                              /* 4 data blocks: a full table of 3 + 1 */
    Hendaccess(aid);
    int n = HDgetdatainfo(fid, 1002, 1, NULL, 0, 0, NULL, NULL);
    printf("blocks: %d\n", n);
    int32 *off = malloc(1 * sizeof(int32)), *len = malloc(1 * sizeof(int32));   /* room for info_count = 1 entry */
    int r = HDgetdatainfo(fid, 1002, 1, NULL, 0, 1, off, len);
    printf("info_count=1 returned %d\n", r);
    Hclose(fid);
    return 0;
}
