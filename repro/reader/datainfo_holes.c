/* HLgetdatainfo (hdf/src/hblocks.c) on a linked-block element with missing blocks ("holes"):
 * the last block's length is computed as total_length - (sum of the lengths of the blocks PRESENT before it),
 * so it is larger than the block itself; inside one table the walk also stops at the first missing block.
 * expected: every reported (offset,length) lies inside the DFTAG_LINKED block it names; here the last pair is (off, 5)
 * observed: last pair is (off, 69) for an 8-byte block  */
#include "hdf.h"
#include <stdio.h>
int main(void)
{
    uint8 b[16]; for (int i = 0; i < 16; i++) b[i] = (uint8)(i + 1);
    int32 fid = Hopen("holes.hdf", DFACC_CREATE, 0);
    int32 aid = HLcreate(fid, 1002, 1, 8, 1);   /* block length 8, one block per table */
    Hwrite(aid, 8, b);                           /* block 0 */
    Hseek(aid, 72, DF_START);                    /* skip blocks 1..8 */
    Hwrite(aid, 5, b);                           /* block 9, 5 valid bytes; element length 77 */
    Hendaccess(aid);
    int32 off[16], len[16];
    int n = HDgetdatainfo(fid, 1002, 1, NULL, 0, 16, off, len);
    printf("blocks reported: %d\n", n);
    for (int i = 0; i < n; i++) printf("  (%d,%d)\n", (int)off[i], (int)len[i]);
    uint16 t = 0, r = 0; int32 o, l;
    while (Hfind(fid, DFTAG_LINKED, DFREF_WILDCARD, &t, &r, &o, &l, DF_FORWARD) != FAIL) printf("DFTAG_LINKED/%u at %d length %d\n", r, (int)o, (int)l);
    Hclose(fid);
    return 0;
}
