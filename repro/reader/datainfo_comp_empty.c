/* HDgetdatainfo (hdf/src/hdatainfo.c) on a compressed element that has no data yet: reads 14 bytes after the 2-byte
 * special code although a parameterless header (none, rle) has only 12 left; when the header ends the file the read fails.
 * expected: 0 (no data blocks)   observed: FAIL */
#include "hdf.h"
#include <stdio.h>
#include <string.h>
int main(void)
{
    comp_info ci; model_info mi; memset(&ci, 0, sizeof ci); memset(&mi, 0, sizeof mi);
    int32 fid = Hopen("compempty.hdf", DFACC_CREATE, 0);
    int32 aid = HCcreate(fid, 1003, 1, COMP_MODEL_STDIO, &mi, COMP_CODE_RLE, &ci);
    Hendaccess(aid); Hclose(fid);
    fid = Hopen("compempty.hdf", DFACC_READ, 0);
    int n = HDgetdatainfo(fid, 1003, 1, NULL, 0, 0, NULL, NULL);
    printf("HDgetdatainfo = %d (%s)\n", n, n == FAIL ? HEstring((hdf_err_code_t)HEvalue(1)) : "ok");
    Hclose(fid);
    return 0;
}
