/* Two access elements on the same chunked element through ONE file id: the chunk cache keeps the access record of the
 * one that opened the element first as its page-in/page-out cookie.  After Hendaccess of that one the record is on the
 * free list; the next chunk that has to be paged in through the second (valid) access id recycles it, the one after
 * that dereferences its NULL special_info. */
#include "hdf.h"
#include "hfile_priv.h"
#include "hchunks_priv.h"
#include <stdio.h>
#include <string.h>
#include <unistd.h>
int main(void)
{
    const char *p = "/tmp/s-c13d-cookie.hdf"; unlink(p);
    int32 fid = Hopen(p, DFACC_CREATE, 0);
    HCHUNK_DEF c; DIM_DEF pd[1]; uint8 fill = 0xEE, b[64]; memset(&c, 0, sizeof c);
    c.num_dims = 1; c.nt_size = 1; c.chunk_size = 8; c.pdims = pd; c.comp_type = COMP_CODE_NONE; c.model_type = COMP_MODEL_STDIO;
    pd[0].dim_length = 64; pd[0].chunk_length = 8; pd[0].distrib_type = 1;
    int32 aid = HMCcreate(fid, 1500, 1, 1, 1, &fill, &c);
    for (int i = 0; i < 64; i++) b[i] = (uint8)i;
    printf("write %d\n", (int)Hwrite(aid, 64, b)); Hendaccess(aid); Hclose(fid);

    fid = Hopen(p, DFACC_READ, 0);
    int32 a1 = Hstartread(fid, 1500, 1), a2 = Hstartread(fid, 1500, 1);
    printf("a1 %d a2 %d\n", (int)a1, (int)a2);
    printf("read a1 %d\n", (int)Hread(a1, 8, b));
    printf("endaccess a1 %d\n", (int)Hendaccess(a1));
    for (int i = 0; i < 8; i++) { memset(b, 0, 8); long r = Hread(a2, 8, b); printf("read a2 chunk %d -> %ld first byte %d\n", i, r, b[0]); fflush(stdout); }
    printf("endaccess a2 %d\n", (int)Hendaccess(a2));
    printf("close %d\n", (int)Hclose(fid));
    return 0;
}
