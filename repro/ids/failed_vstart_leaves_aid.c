/* A FAILED Vstart leaves its walking access element attached: the file can never be closed.  A FAILED SDstart leaves the file open.
 *
 * File with one Vgroup whose descriptor (DFTAG_VG) points beyond the end of the file (unreadable, e.g. a truncated file).
 *   Vstart -> Vinitialize -> Load_vfile: aid = Hstartread(f, DFTAG_VG, DFREF_WILDCARD); VPgetinfo(f, ref) FAILS;
 *   HGOTO_ERROR jumps over Hendaccess(aid) (and leaves vf->access incremented, the vginstance node allocated).
 *   After that Hclose(fid) fails for ever with DFE_OPENAID although the caller holds no access id.  GRstart fails the same way
 *   (it calls Vinitialize).  SDstart (NC_new_cdf) fails too and only frees memory: the file stays open under an id nobody has
 *   (Hopen(DFACC_CREATE) of the path is refused with DFE_ALROPEN for the rest of the process).
 * The same for a Vdata (DFTAG_VH) through VSPgetinfo.
 *
 * expected: Vstart FAIL, Hclose ok, SDstart FAIL, Hopen(CREATE) ok.   observed on 95d92b5: Vstart FAIL, Hclose FAIL, SDstart FAIL, Hopen(CREATE) FAIL.
 * build: gcc failed_vstart_leaves_aid.c -I<src>/hdf/src -I<src>/mfhdf/src -I<build>/hdf/src -I<build>/mfhdf/src <build>/bin/libmfhdf.a <build>/bin/libhdf.a -lz -ljpeg -lm
 */
#include "hdf.h"
#include "mfhdf.h"
#include <string.h>
static long be(const unsigned char *b, int n) { long v = 0; for (int i = 0; i < n; i++) v = (v << 8) | b[i]; return v; }
int main(void)
{
    int32 fid = Hopen("vg.hdf", DFACC_CREATE, 16); Vstart(fid); int32 vg = Vattach(fid, -1, "w"); Vsetname(vg, "g"); Vdetach(vg); Vend(fid); Hclose(fid);
    FILE *f = fopen("vg.hdf", "r+b"); unsigned char h[6], e[12]; fseek(f, 0, SEEK_END); long flen = ftell(f); fseek(f, 4, SEEK_SET); fread(h, 1, 6, f); int ndds = (int)be(h, 2), done = 0;
    for (int i = 0; i < ndds && !done; i++) { fseek(f, 10 + 12L * i, SEEK_SET); fread(e, 1, 12, f);
        if (be(e, 2) == DFTAG_VG) { long off = flen + 100; e[4] = (unsigned char)(off >> 24); e[5] = (unsigned char)(off >> 16); e[6] = (unsigned char)(off >> 8); e[7] = (unsigned char)off; fseek(f, 10 + 12L * i, SEEK_SET); fwrite(e, 1, 12, f); done = 1; } }
    fclose(f); if (!done) { printf("descriptor not found\n"); return 2; }
    fid = Hopen("vg.hdf", DFACC_READ, 0);
    int v = Vstart(fid), c = Hclose(fid);
    printf("Vstart %s, Hclose %s (error %d)\n", v == FAIL ? "FAIL" : "ok", c == FAIL ? "FAIL" : "ok", c == FAIL ? (int)HEvalue(1) : 0);
    if (c == FAIL) return 1;                     /* the file is open for ever: the second half would only repeat it */
    int32 sd = SDstart("vg.hdf", DFACC_READ);
    int32 n = Hopen("vg.hdf", DFACC_CREATE, 0);
    printf("SDstart %s, Hopen(DFACC_CREATE) %s (error %d)\n", sd == FAIL ? "FAIL" : "ok", n == FAIL ? "FAIL" : "ok", n == FAIL ? (int)HEvalue(1) : 0);
    return (v == FAIL && sd == FAIL && n != FAIL) ? 0 : 1;
}
