/* A FAILED Hstartaccess leaves an access element registered and attached: the file can never be closed.
 *
 * A compressed element (HCcreate, RLE) whose compressed data (DFTAG_COMPRESSED, comp_ref) cannot be started - here its descriptor
 * is retagged on disk, the same happens when it is unreadable - makes Hstartread / Hstartaccess fail:
 *   Hstartaccess -> HCPstread -> HCIstaccess: file_rec->attach++, HAregister_atom(AIDGROUP, access_rec)   (succeeds)
 *                             -> model stread -> HCPcrle_stread -> Hstartread(DFTAG_COMPRESSED, comp_ref)  FAILS
 *                   HCPstread returns FAIL without taking back the atom and the attach count
 *   Hstartaccess cleanup: HIrelease_accrec_node(access_rec) - the record goes to the free list while it is still registered.
 * After that: Hclose(fid) fails for ever (DFE_OPENAID: "still active aids attached through this file id"), although the caller
 * holds no access id; the registered atom designates a record on the free list, i.e. the NEXT access element anyone starts.
 *
 * expected: Hstartread FAIL, Hclose SUCCEED.   observed on HEAD 34ac7b8: Hstartread FAIL, Hclose FAIL.
 * build: gcc failed_comp_start_leaves_aid.c -I<src>/hdf/src -I<build>/hdf/src <build>/bin/libhdf.a -lz -ljpeg -lm
 */
#include "hdf.h"
#include <string.h>
static long be(const unsigned char *b, int n) { long v = 0; for (int i = 0; i < n; i++) v = (v << 8) | b[i]; return v; }
int main(void)
{
    uint8 d[40]; comp_info ci; model_info mi; memset(&ci, 0, sizeof ci); memset(&mi, 0, sizeof mi); for (int i = 0; i < 40; i++) d[i] = (uint8)(i / 5);
    int32 fid = Hopen("comp.hdf", DFACC_CREATE, 16);
    int32 aid = HCcreate(fid, 1600, 1, COMP_MODEL_STDIO, &mi, COMP_CODE_RLE, &ci); Hwrite(aid, 40, d); Hendaccess(aid); Hclose(fid);
    /* retag the DFTAG_COMPRESSED descriptor (first DD block at offset 4: ndds(2) next(4) then 12-byte descriptors) */
    FILE *f = fopen("comp.hdf", "r+b"); unsigned char h[6], e[12]; fseek(f, 4, SEEK_SET); fread(h, 1, 6, f); int ndds = (int)be(h, 2), done = 0;
    for (int i = 0; i < ndds && !done; i++) { fseek(f, 10 + 12L * i, SEEK_SET); fread(e, 1, 12, f);
        if (be(e, 2) == DFTAG_COMPRESSED) { e[0] = 0x06; e[1] = 0xa4; fseek(f, 10 + 12L * i, SEEK_SET); fwrite(e, 1, 12, f); done = 1; } }
    fclose(f); if (!done) { printf("descriptor not found\n"); return 2; }
    fid = Hopen("comp.hdf", DFACC_READ, 0);
    int32 a = Hstartread(fid, 1600, 1);
    int c = Hclose(fid);
    printf("Hstartread %s, Hclose %s (error %d)\n", a == FAIL ? "FAIL" : "ok", c == FAIL ? "FAIL" : "ok", c == FAIL ? (int)HEvalue(1) : 0);
    return (a == FAIL && c != FAIL) ? 0 : 1;
}
