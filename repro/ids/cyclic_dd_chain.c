/* Hopen never returns on a file whose DD block chain is cyclic (and eats memory without bound).
 *
 * File: magic, one DD block at offset 4 with ndds = 4, nextoffset = 4 (itself), four DFTAG_NULL descriptors.  58 bytes.
 * HTPstart (hdf/src/hfiledd.c) follows `nextoffset` for as long as it is non-zero; every round allocates a ddblock_t and
 * ndds dd_t.  Empty (DFTAG_NULL) descriptors are not entered into the tag tree, so the DFE_DUPDD test never ends the loop.
 * The same with a longer cycle (block 2 points back to block 1) as long as every descriptor on the cycle is DFTAG_NULL.
 *
 * build: gcc cyclic_dd_chain.c -I<src>/hdf/src -I<build>/hdf/src <build>/bin/libhdf.a -lz -ljpeg -lm
 * run:   ./a.out        -> "Alarm clock" after 5 s (expected: Hopen returns FAIL)
 */
#include "hdf.h"
#include <signal.h>
#include <unistd.h>
int main(void)
{
    unsigned char b[58] = {0x0e, 0x03, 0x13, 0x01, /* ndds */ 0, 4, /* next */ 0, 0, 0, 4};
    for (int i = 0; i < 4; i++) { b[10 + 12 * i] = 0; b[11 + 12 * i] = 1; }   /* tag DFTAG_NULL, ref 0, offset 0, length 0 */
    FILE *f = fopen("cyclic.hdf", "wb"); fwrite(b, 1, sizeof b, f); fclose(f);
    alarm(5);
    int32 id = Hopen("cyclic.hdf", DFACC_READ, 0);
    printf("Hopen returned %d\n", (int)id);
    return id == FAIL ? 0 : 1;
}
