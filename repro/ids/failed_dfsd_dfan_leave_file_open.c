/* A FAILED DFSDgetdims / DFANgetlablen leaves the file open, with an access element attached, under ids nobody has.
 *
 * File made with DFSDadddata + DFANputlabel; then every NDG / SDG / DIL descriptor is moved beyond the end of the file (unreadable).
 *   DFSDgetdims -> DFSDIopen -> Hopen ok, DFSDIsetnsdg_t walks all descriptors with aid = Hstartread(fid, WILDCARD, WILDCARD) and leaves through
 *     HGOTO_ERROR (DFdiread fails) without Hendaccess(aid); DFSDIopen returns FAIL without Hclose(fid).
 *   DFANgetlablen -> DFANIopen ok, DFANIlocate: aid = Hstartread(fid, DFTAG_DIL, WILDCARD), Hread of the annotation's data tag/ref fails,
 *     HGOTO_ERROR without Hendaccess(aid); the HCLOSE_GOTO_ERROR of DFANIgetannlen is then refused (DFE_OPENAID) and the id is dropped.
 * Afterwards Hopen(path, DFACC_CREATE) is refused (DFE_ALROPEN) for the rest of the process.
 * usage: ./a.out sd | an      expected: "<call> FAIL, Hopen(DFACC_CREATE) ok", exit 0.  observed on 4aaee38: "... Hopen(DFACC_CREATE) FAIL (error 3)", exit 1
 */
#include "hdf.h"
#include <string.h>
static long be(const unsigned char *b, int n) { long v = 0; for (int i = 0; i < n; i++) v = (v << 8) | b[i]; return v; }
int main(int argc, char **argv)
{
    int an = argc > 1 && strcmp(argv[1], "an") == 0; const char *p = "dfsd.hdf"; int32 dims[2] = {3, 4}; float32 v[12]; for (int i = 0; i < 12; i++) v[i] = (float32)i;
    unlink(p); DFSDsetdims(2, dims); DFSDadddata(p, 2, dims, v); DFANputlabel(p, DFTAG_NDG, DFSDlastref(), "a label");
    FILE *f = fopen(p, "r+b"); fseek(f, 0, SEEK_END); long flen = ftell(f), at = 4; unsigned char h[6], e[12]; int hit = 0;
    while (at) { fseek(f, at, SEEK_SET); fread(h, 1, 6, f); int ndds = (int)be(h, 2);
        for (int i = 0; i < ndds; i++) { fseek(f, at + 6 + 12L * i, SEEK_SET); fread(e, 1, 12, f); long t = be(e, 2);
            if (t == DFTAG_NDG || t == DFTAG_SDG || t == DFTAG_DIL) { long off = flen + 100; e[4] = (unsigned char)(off >> 24); e[5] = (unsigned char)(off >> 16); e[6] = (unsigned char)(off >> 8); e[7] = (unsigned char)off;
                fseek(f, at + 6 + 12L * i, SEEK_SET); fwrite(e, 1, 12, f); hit++; } }
        at = be(h + 2, 4); }
    fclose(f); if (!hit) { printf("no descriptor found\n"); return 2; }
    long r; if (an) { DFANclear(); r = DFANgetlablen(p, DFTAG_NDG, 2); } else { int rk; int32 sz[4]; DFSDrestart(); r = DFSDgetdims(p, &rk, sz, 4); }
    int32 n = Hopen(p, DFACC_CREATE, 0);
    printf("%s %s, Hopen(DFACC_CREATE) %s (error %d)\n", an ? "DFANgetlablen" : "DFSDgetdims", r == FAIL ? "FAIL" : "ok", n == FAIL ? "FAIL" : "ok", n == FAIL ? (int)HEvalue(1) : 0);
    return (r == FAIL && n != FAIL) ? 0 : 1;
}
