/* OBSERVATION (by design, not a defect): an external element has ONE buffered stdio stream on the external file per special-information
 * record, and that record is shared by the access ids of ONE file id (HXPcloseAID closes the stream when the LAST of them is ended).
 * Bytes written through an access id that has been ENDED are therefore still in that stream's buffer as long as another access id of the
 * same file id is attached to the element; a second file id of the same path (own record, own stream) reads the old bytes until then.
 * This is the situation of engine ids, seed 4 case 378 (thorough tier): the oracle compared such a read; it now marks it "not compared".
 * prints: other-id-while-shared=old other-id-after-release=new
 */
#include "hdf.h"
#include <string.h>
int main(void)
{
    uint8 old[40], new_[40], buf[40]; memset(old, 'o', 40); memset(new_, 'n', 40);
    int32 fid = Hopen("x.hdf", DFACC_CREATE, 16); unlink("x.ext");
    int32 aid = HXcreate(fid, 1500, 11, "x.ext", 0, 0); Hwrite(aid, 40, old); Hendaccess(aid); Hclose(fid);
    int32 f13 = Hopen("x.hdf", DFACC_RDWR, 0), f14 = Hopen("x.hdf", DFACC_RDWR, 0);
    int32 a8 = Hstartaccess(f13, 1500, 11, DFACC_RDWR), a10 = Hstartaccess(f13, 1500, 11, DFACC_READ);
    Hwrite(a8, 40, new_); Hendaccess(a8);                        /* the writer is ended; a10 keeps the stream of file id f13 open */
    int32 a11 = Hstartaccess(f14, 1500, 11, DFACC_READ); Hread(a11, 40, buf);
    printf("other-id-while-shared=%s ", memcmp(buf, new_, 40) == 0 ? "new" : memcmp(buf, old, 40) == 0 ? "old" : "mixed");
    Hendaccess(a11); Hendaccess(a10);                            /* last access id of f13 on the element: stream closed, bytes in the file */
    a11 = Hstartaccess(f14, 1500, 11, DFACC_READ); Hread(a11, 40, buf);
    printf("other-id-after-release=%s\n", memcmp(buf, new_, 40) == 0 ? "new" : memcmp(buf, old, 40) == 0 ? "old" : "mixed");
    Hendaccess(a11); Hclose(f13); Hclose(f14);
    return 0;
}
