#include "mfhdf.h"
#include <stdio.h>
#include <string.h>
#include <stdlib.h>
static char *rep(int n, char c){ char *s=malloc(n+1); memset(s,c,n); s[n]=0; return s; }
int main(int argc, char **argv){
  int t = atoi(argv[1]); const char *fn = "/tmp/attr_probe.hdf";
  if (t==1){ /* SD attr name > 64 truncated on reopen */
    int32 sd = SDstart(fn, DFACC_CREATE); char *n = rep(100,'x'); int32 v=7; char nm[400]; int32 nt,cnt;
    printf("set %d\n", SDsetattr(sd, n, DFNT_INT32, 1, &v));
    printf("find-long %d\n", SDfindattr(sd, n)); SDend(sd);
    sd = SDstart(fn, DFACC_READ); printf("after reopen find-long %d\n", SDfindattr(sd, n));
    SDattrinfo(sd,0,nm,&nt,&cnt); printf("name len %d\n",(int)strlen(nm)); SDend(sd);
  }
  if (t==2){ /* SDS name 256 chars */
    int32 sd = SDstart(fn, DFACC_CREATE); int32 d[1]={2}; char *n=rep(256,'n');
    int32 s = SDcreate(sd, n, DFNT_INT32, 1, d); printf("create %d\n", s); SDendaccess(s); printf("end %d\n",SDend(sd));
    sd = SDstart(fn, DFACC_READ); printf("reopen %d\n", sd); SDend(sd);
  }
  if (t==3){ /* rank 32 + 3000 attrs */
    int32 sd = SDstart(fn, DFACC_CREATE); int32 d[32]; for(int i=0;i<32;i++) d[i]=1;
    int32 s = SDcreate(sd, "v", DFNT_INT8, 32, d); char nm[32]; int8 v=1; int32 st[32]={0}, ed[32]; for(int i=0;i<32;i++) ed[i]=1;
    SDwritedata(s, st, NULL, ed, &v);
    for (int i=0;i<3000;i++){ sprintf(nm,"a%d",i); if (SDsetattr(s,nm,DFNT_INT8,1,&v)==FAIL) printf("fail at %d\n",i);}
    SDendaccess(s); printf("end %d\n",SDend(sd));
  }
  if (t==4){ /* Vattrinfo -1 */
    int32 f = Hopen(fn, DFACC_CREATE, 0); Vstart(f); int32 vg = Vattach(f,-1,"w"); int32 v=1; char nm[100]; int32 a,b,c;
    Vsetattr(vg,"a",DFNT_INT32,1,&v);
    printf("Vattrinfo(-1) %d\n", Vattrinfo(vg,-1,nm,&a,&b,&c));
    Vdetach(vg); Vend(f); Hclose(f);
  }
  if (t==5){ /* GR shrink of on-disk attr */
    int32 f = Hopen(fn, DFACC_CREATE, 0); int32 gr = GRstart(f); int32 v[4]={1,2,3,4}; int32 w[2]={9,8}; char nm[100]; int32 nt,cnt; int32 o[8]={0};
    printf("set %d\n", GRsetattr(gr,"a",DFNT_INT32,4,v)); GRend(gr); Hclose(f);
    f = Hopen(fn, DFACC_RDWR, 0); gr = GRstart(f); printf("reset %d\n", GRsetattr(gr,"a",DFNT_INT32,2,w));
    GRattrinfo(gr,0,nm,&nt,&cnt); printf("in-session count %d\n",cnt); GRend(gr); Hclose(f);
    f = Hopen(fn, DFACC_READ, 0); gr = GRstart(f); GRattrinfo(gr,0,nm,&nt,&cnt); GRgetattr(gr,0,o); printf("after reopen count %d vals %d %d %d %d\n",cnt,o[0],o[1],o[2],o[3]); GRend(gr); Hclose(f);
  }
  if (t==6){ /* GR grow new cached attr beyond 2048 */
    int32 f = Hopen(fn, DFACC_CREATE, 0); int32 gr = GRstart(f); int8 *b = calloc(1,3000);
    printf("set small %d\n", GRsetattr(gr,"a",DFNT_INT8,10,b)); printf("set big %d\n", GRsetattr(gr,"a",DFNT_INT8,3000,b)); GRend(gr); Hclose(f);
  }
  if (t==7){ /* SDsetattr on read-only */
    int32 sd = SDstart(fn, DFACC_CREATE); int32 v=1; SDsetattr(sd,"a",DFNT_INT32,1,&v); SDend(sd);
    sd = SDstart(fn, DFACC_READ); v=2; printf("ro set %d\n", SDsetattr(sd,"b",DFNT_INT32,1,&v)); printf("ro find %d\n", SDfindattr(sd,"b")); printf("end %d\n",SDend(sd));
    sd = SDstart(fn, DFACC_READ); printf("after find %d\n", SDfindattr(sd,"b")); SDend(sd);
  }
  if (t==8){ /* fakeDim-prefixed user name */
    int32 sd = SDstart(fn, DFACC_CREATE); int32 d[1]={2}; int32 s = SDcreate(sd,"v",DFNT_INT32,1,d); int32 dim = SDgetdimid(s,0); char nm[300]; int32 sz,nt,na;
    printf("setdimname %d\n", SDsetdimname(dim,"fakeDimension_of_mine")); SDendaccess(s); SDend(sd);
    sd = SDstart(fn, DFACC_READ); s = SDselect(sd,0); dim = SDgetdimid(s,0); SDdiminfo(dim,nm,&sz,&nt,&na); printf("name after reopen %s\n",nm); SDend(sd);
  }
  return 0;
}
