#include "mfhdf.h"
#include <stdio.h>
#include <string.h>
#include <stdlib.h>
int main(int argc, char **argv){
  const char *fn = "/tmp/attr_probe8.hdf";
  int32 sd = SDstart(fn, DFACC_CREATE); int32 d[2]={3,2}; int32 s=SDcreate(sd,"v",DFNT_INT32,2,d);
  int8 a[3]={1,2,3}, a2[3]={7,8,9}, o[3]={0}; int8 c[2]={4,5};
  printf("scale dim0 %d\n", SDsetdimscale(SDgetdimid(s,0),3,DFNT_INT8,a));
  SDsetdimstrs(SDgetdimid(s,1),"l",NULL,NULL); /* coord var without data */
  SDend(sd);
  sd = SDstart(fn, DFACC_READ); s = SDselect(sd,0);
  int rc = SDsetdimscale(SDgetdimid(s,0),3,DFNT_INT8,a2); printf("RO: set existing scale %d\n", rc); if (rc==FAIL) HEprint(stdout,0);
  printf("RO: get %d: %d %d %d\n", SDgetdimscale(SDgetdimid(s,0),o), o[0],o[1],o[2]);
  rc = SDsetdimscale(SDgetdimid(s,1),2,DFNT_INT8,c); printf("RO: set new scale %d\n", rc);
  o[0]=o[1]=0; printf("RO: get new %d: %d %d\n", SDgetdimscale(SDgetdimid(s,1),o), o[0],o[1]);
  printf("end %d\n", SDend(sd));
  sd = SDstart(fn, DFACC_READ); s = SDselect(sd,0); memset(o,0,3);
  printf("after: get %d: %d %d %d\n", SDgetdimscale(SDgetdimid(s,0),o), o[0],o[1],o[2]); SDend(sd);
  return 0;
}
