#include "mfhdf.h"
#include <stdio.h>
#include <string.h>
#include <stdlib.h>
static char *rep(int n, char c){ char *s=malloc(n+1); memset(s,c,n); s[n]=0; return s; }
int main(int argc, char **argv){
  int t = atoi(argv[1]); const char *fn = "/tmp/attr_probe3.hdf";
  if (t==9){ int32 sd = SDstart(fn, DFACC_CREATE); int32 v=1; char *n=rep(257,'q');
    printf("first(257) %d\n", SDsetattr(sd,n,DFNT_INT32,1,&v)); printf("a %d\n", SDsetattr(sd,"a",DFNT_INT32,1,&v));
    printf("second(257) ...\n"); fflush(stdout); printf("%d\n", SDsetattr(sd,n,DFNT_INT32,1,&v)); SDend(sd); }
  if (t==10){ int32 sd = SDstart(fn, DFACC_CREATE); int32 d[1]={2}; int32 s=SDcreate(sd,"v",DFNT_FLOAT64,1,d); double x=1.5, mx[4], mn[4];
    SDsetattr(s,"valid_range",DFNT_FLOAT64,1,&x); printf("getrange %d\n", SDgetrange(s,mx,mn)); SDend(sd); }
  if (t==11){ int32 sd = SDstart(fn, DFACC_CREATE); int32 d[1]={4}; int32 s=SDcreate(sd,"v",DFNT_INT8,1,d); int32 dim=SDgetdimid(s,0);
    int32 *iv = malloc(16); for(int i=0;i<4;i++) iv[i]=i+1; char *cv = malloc(4); memcpy(cv,"abcd",4); char nm[100]; int32 sz,nt,na;
    printf("scale int32 %d\n", SDsetdimscale(dim,4,DFNT_INT32,iv)); printf("scale char8 ...\n"); fflush(stdout); printf("%d\n", SDsetdimscale(dim,4,DFNT_CHAR8,cv));
    SDdiminfo(dim,nm,&sz,&nt,&na); printf("nt now %d\n",nt); SDend(sd); }
  if (t==12){ int32 sd = SDstart(fn, DFACC_CREATE); int32 d[2]={2,3}; int32 s0=SDcreate(sd,"v0",DFNT_INT8,2,d); int32 s1=SDcreate(sd,"v1",DFNT_INT8,2,d);
    char nm[100]; int32 sz,nt,na;
    SDsetdimname(SDgetdimid(s0,0),"x"); SDsetdimname(SDgetdimid(s1,0),"x");
    printf("setdimstrs %d\n", SDsetdimstrs(SDgetdimid(s1,1),"label","u","f"));
    SDdiminfo(SDgetdimid(s1,1),nm,&sz,&nt,&na); printf("before: %s nattr %d\n",nm,na); SDend(sd);
    sd = SDstart(fn, DFACC_READ); s1 = SDselect(sd,1); SDdiminfo(SDgetdimid(s1,1),nm,&sz,&nt,&na); printf("after: %s nattr %d\n",nm,na); SDend(sd); }
  return 0;
}
