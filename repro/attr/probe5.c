#include "mfhdf.h"
#include <stdio.h>
#include <string.h>
#include <stdlib.h>
static char *rep(int n, char c){ char *s=malloc(n+1); memset(s,c,n); s[n]=0; return s; }
int main(int argc, char **argv){
  int t = atoi(argv[1]); const char *fn = "/tmp/attr_probe5.hdf";
  if (t==16){ int32 sd = SDstart(fn, DFACC_CREATE); int32 d[2]={2,3}; int32 s=SDcreate(sd,"v",DFNT_INT8,2,d);
    printf("getdimid(rank) ...\n"); fflush(stdout); printf("%d\n", SDgetdimid(s,2)); SDend(sd); }
  if (t==17){ int32 sd = SDstart(fn, DFACC_CREATE); int32 d[1]={2}; int32 s=SDcreate(sd,"v",DFNT_INT8,1,d); char nm[400]; int32 sz,nt,na;
    printf("setdimname(256) %d\n", SDsetdimname(SDgetdimid(s,0), rep(256,'d'))); printf("end ...\n"); fflush(stdout); printf("%d\n", SDend(sd));
    sd = SDstart(fn, DFACC_READ); s = SDselect(sd,0); SDdiminfo(SDgetdimid(s,0),nm,&sz,&nt,&na); printf("len after %d\n",(int)strlen(nm)); SDend(sd);}
  if (t==18){ /* merge-only session not dirty */
    int32 sd = SDstart(fn, DFACC_CREATE); int32 d[1]={2}; int32 s0=SDcreate(sd,"a",DFNT_INT8,1,d); int32 s1=SDcreate(sd,"b",DFNT_INT8,1,d); char nm[400]; int32 sz,nt,na;
    SDsetdimname(SDgetdimid(s0,0),"x"); SDend(sd);
    sd = SDstart(fn, DFACC_WRITE); s1 = SDselect(sd,1); printf("merge %d\n", SDsetdimname(SDgetdimid(s1,0),"x"));
    SDdiminfo(SDgetdimid(s1,0),nm,&sz,&nt,&na); printf("in-session %s\n",nm); SDend(sd);
    sd = SDstart(fn, DFACC_READ); s1 = SDselect(sd,1); SDdiminfo(SDgetdimid(s1,0),nm,&sz,&nt,&na); printf("after reopen %s\n",nm); SDend(sd);}
  if (t==19){ /* empty create then reopen */
    int32 sd = SDstart(fn, DFACC_CREATE); printf("end %d\n", SDend(sd)); sd = SDstart(fn, DFACC_WRITE); printf("reopen %d\n", sd); int32 n,a; SDfileinfo(sd,&n,&a); printf("%d %d\n",n,a); SDend(sd); }
  return 0;
}
