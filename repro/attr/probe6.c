#include "mfhdf.h"
#include <stdio.h>
#include <string.h>
#include <stdlib.h>
int main(int argc, char **argv){
  const char *fn = "/tmp/attr_probe6.hdf"; int32 v = 5;
  int32 f = Hopen(fn, DFACC_CREATE, 0); Vstart(f); int32 vg = Vattach(f,-1,"w"); Vsetname(vg,"g");
  printf("good %d\n", Vsetattr(vg,"a",DFNT_INT32,1,&v));
  printf("bad type %d\n", Vsetattr(vg,"b",7,1,&v));
  printf("detach %d\n", Vdetach(vg)); printf("Vend %d\n", Vend(f)); int rc = Hclose(f); printf("Hclose %d\n", rc);
  if (rc == FAIL) { HEprint(stdout, 0); }
  f = Hopen(fn, DFACC_READ, 0); printf("reopen %d\n", f); if (f != FAIL) { Vstart(f); int32 r = Vgetid(f,-1); printf("first vg ref %d\n", r); if (r!=FAIL){ vg = Vattach(f,r,"r"); printf("nattrs %d\n", Vnattrs(vg)); Vdetach(vg);} Vend(f); Hclose(f);} 
  return 0;
}
