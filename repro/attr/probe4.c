#include "mfhdf.h"
#include <stdio.h>
#include <string.h>
#include <stdlib.h>
int main(int argc, char **argv){
  const char *fn = "/tmp/attr_probe4.hdf"; int32 n, na; char nm[300]; int32 nt,cnt;
  int32 f = Hopen(fn, DFACC_CREATE, 0); int32 gr = GRstart(f); int8 *b = calloc(1,3000); int32 v=5;
  int32 d[2]={2,2}; int32 ri = GRcreate(gr,"img",1,DFNT_UINT8,MFGR_INTERLACE_PIXEL,d);
  printf("global small %d\n", GRsetattr(gr,"s",DFNT_INT32,1,&v));
  printf("global big %d\n", GRsetattr(gr,"big",DFNT_INT8,3000,b));
  printf("global small2 %d\n", GRsetattr(gr,"t",DFNT_INT32,1,&v));
  printf("local big %d\n", GRsetattr(ri,"lbig",DFNT_INT8,3000,b));
  GRfileinfo(gr,&n,&na); printf("in-session: images %d gattrs %d\n",n,na);
  GRendaccess(ri); GRend(gr); Hclose(f);
  f = Hopen(fn, DFACC_READ, 0); gr = GRstart(f); GRfileinfo(gr,&n,&na); printf("after reopen: images %d gattrs %d\n",n,na);
  for (int i=0;i<na;i++){ GRattrinfo(gr,i,nm,&nt,&cnt); printf(" g%d %s nt=%d cnt=%d\n",i,nm,nt,cnt);}
  ri = GRselect(gr,0); { int32 nc,il,dd[2]; GRgetiminfo(ri,nm,&nc,&nt,&il,dd,&na); printf("img %s lattrs %d\n",nm,na);} GRendaccess(ri);
  GRend(gr); Hclose(f);
  return 0;
}
