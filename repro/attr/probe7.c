#include "mfhdf.h"
#include <stdio.h>
#include <string.h>
#include <stdlib.h>
int main(int argc, char **argv){
  const char *fn = "/tmp/attr_probe7.hdf"; int reopen = argc > 1;
  int32 sd = SDstart(fn, DFACC_CREATE); int32 d[1]={3}; int32 s=SDcreate(sd,"v",DFNT_INT32,1,d); int32 dim=SDgetdimid(s,0);
  int8 a[3]={1,2,3}; uint16 b[3]={10,20,30}; uint16 o[3]={0};
  printf("scale int8 %d\n", SDsetdimscale(dim,3,DFNT_INT8,a));
  if (reopen) { SDend(sd); sd = SDstart(fn, DFACC_WRITE); s = SDselect(sd,0); dim = SDgetdimid(s,0); }
  int rc = SDsetdimscale(dim,3,DFNT_UINT16,b); printf("scale uint16 %d\n", rc); if (rc==FAIL) HEprint(stdout,0);
  char nm[100]; int32 sz,nt,na; SDdiminfo(dim,nm,&sz,&nt,&na); printf("diminfo nt %d\n", nt);
  printf("get %d: %d %d %d\n", SDgetdimscale(dim,o), o[0],o[1],o[2]);
  SDend(sd);
  sd = SDstart(fn, DFACC_READ); s = SDselect(sd,0); dim = SDgetdimid(s,0); SDdiminfo(dim,nm,&sz,&nt,&na); printf("after reopen nt %d\n", nt); memset(o,0,6);
  printf("get %d: %d %d %d\n", SDgetdimscale(dim,o), o[0],o[1],o[2]); SDend(sd);
  return 0;
}
