#!/bin/bash
# usage: mk.sh file.c  -> builds ./file against the ASan library of the private verif copy
B=$(ls -d /verif/.work/build-asan-* | head -1)
gcc -g -fsanitize=address,undefined -fno-omit-frame-pointer -w -I/repo/hdf/src -I/repo/mfhdf/src -I$B -I$B/hdf/src -I$B/mfhdf/src "$1" -o "${1%.c}" $B/bin/libmfhdf.a $B/bin/libhdf.a -lz -ljpeg -lm
