#include "mfhdf.h"
#include <stdio.h>
#include <string.h>
#include <stdlib.h>
int main(int argc, char **argv){
  const char *fn = "/tmp/attr_probe2.hdf";
  int32 types[] = {DFNT_UCHAR8, DFNT_CHAR8, DFNT_CHAR8|DFNT_LITEND, DFNT_UINT8, DFNT_INT16|DFNT_LITEND, DFNT_FLOAT64, DFNT_UINT8|DFNT_LITEND, DFNT_UCHAR8|DFNT_LITEND};
  int32 sd = SDstart(fn, DFACC_CREATE); char nm[300]; unsigned char v[64]; for (int i=0;i<64;i++) v[i]=i+1;
  for (int i=0;i<8;i++){ sprintf(nm,"a%d",i); printf("set nt=%d -> %d\n", types[i], SDsetattr(sd,nm,types[i],5,v)); }
  SDend(sd);
  sd = SDstart(fn, DFACC_READ);
  for (int i=0;i<8;i++){ int32 nt,cnt; unsigned char o[64]={0}; if (SDattrinfo(sd,i,nm,&nt,&cnt)==FAIL) {printf("info fail %d\n",i); continue;} SDreadattr(sd,i,o); printf("%s nt=%d cnt=%d v=%02x%02x%02x%02x\n",nm,nt,cnt,o[0],o[1],o[2],o[3]); }
  SDend(sd);
  return 0;
}
