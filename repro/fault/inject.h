/* inject.h - minimal stdio fault injector for the reproductions in this directory (same idea as /verif/harness/wrap.h).
 * Link with -Wl,--wrap=fopen,--wrap=fread,--wrap=fwrite,--wrap=fseek,--wrap=fclose,--wrap=ferror,--wrap=clearerr
 * Calls on streams whose path contains ".hdf" are counted while inj_on != 0; call number inj_fail_at fails
 * (and every later one if inj_sticky).  A failing fclose still releases the stream; a failed fread/fwrite leaves the
 * stream's error indicator set until clearerr(), as a real I/O error does (the library tells a read error from a short read by ferror).
 * Build (ASan library of the tree under test in $B, sources in $R):
 *   gcc -g -fsanitize=address,undefined -fno-omit-frame-pointer -I$R/hdf/src -I$R/mfhdf/src -I$B -I$B/hdf/src -I$B/mfhdf/src x.c -o x \
 *       -Wl,--wrap=fopen,--wrap=fread,--wrap=fwrite,--wrap=fseek,--wrap=fclose,--wrap=ferror,--wrap=clearerr $B/bin/libmfhdf.a $B/bin/libhdf.a -lz -ljpeg -lm
 * (see ./build_repro.sh) */
#ifndef INJECT_H
#define INJECT_H
#include <stdio.h>
#include <string.h>
#include <errno.h>
FILE  *__real_fopen(const char *, const char *);
size_t __real_fread(void *, size_t, size_t, FILE *);
size_t __real_fwrite(const void *, size_t, size_t, FILE *);
int    __real_fseek(FILE *, long, int);
int    __real_fclose(FILE *);
static int  inj_on = 0, inj_sticky = 0;
static long inj_calls = 0, inj_fail_at = -1, inj_fired = 0;
static FILE *inj_streams[32];
static int inj_mine(FILE *f) { for (int i = 0; i < 32; i++) if (inj_streams[i] == f) return 1; return 0; }
static int inj_hit(void) { long k = inj_calls++; if (inj_fail_at >= 0 && (k == inj_fail_at || (inj_sticky && k > inj_fail_at))) { inj_fired++; return 1; } return 0; }
static void inj_arm(long k, int sticky) { inj_calls = 0; inj_fired = 0; inj_fail_at = k; inj_sticky = sticky; inj_on = 1; }
static void inj_off(void) { inj_on = 0; }
FILE *__wrap_fopen(const char *p, const char *m)
{
    int mine = strstr(p, ".hdf") != NULL;
    if (mine && inj_on && inj_hit()) { errno = EIO; return NULL; }
    FILE *f = __real_fopen(p, m);
    if (f && mine) { setvbuf(f, NULL, _IONBF, 0); for (int i = 0; i < 32; i++) if (!inj_streams[i]) { inj_streams[i] = f; break; } }
    return f;
}
int  __real_ferror(FILE *);
void __real_clearerr(FILE *);
static FILE *inj_err[32];
static void inj_seterr(FILE *f) { for (int i = 0; i < 32; i++) if (inj_err[i] == f) return; for (int i = 0; i < 32; i++) if (!inj_err[i]) { inj_err[i] = f; return; } }
static void inj_clrerr(FILE *f) { for (int i = 0; i < 32; i++) if (inj_err[i] == f) inj_err[i] = NULL; }
int  __wrap_ferror(FILE *f) { for (int i = 0; i < 32; i++) if (inj_err[i] == f) return 1; return __real_ferror(f); }
void __wrap_clearerr(FILE *f) { inj_clrerr(f); __real_clearerr(f); }
size_t __wrap_fread(void *p, size_t s, size_t n, FILE *f) { if (inj_on && inj_mine(f) && inj_hit()) { errno = EIO; inj_seterr(f); return 0; } return __real_fread(p, s, n, f); }
size_t __wrap_fwrite(const void *p, size_t s, size_t n, FILE *f) { if (inj_on && inj_mine(f) && inj_hit()) { errno = ENOSPC; inj_seterr(f); return 0; } return __real_fwrite(p, s, n, f); }
int __wrap_fseek(FILE *f, long o, int w) { if (inj_on && inj_mine(f) && inj_hit()) { errno = EIO; return -1; } return __real_fseek(f, o, w); }
int __wrap_fclose(FILE *f)
{
    int fail = inj_on && inj_mine(f) && inj_hit();
    for (int i = 0; i < 32; i++) if (inj_streams[i] == f) inj_streams[i] = NULL;
    inj_clrerr(f);
    int r = __real_fclose(f);
    if (fail) { errno = EIO; return EOF; }
    return r;
}
/* number of wrapped calls a fault-free run of `session` makes */
#define INJ_COUNT(session) (inj_arm(-1, 0), (void)(session), inj_off(), inj_calls)
#endif
