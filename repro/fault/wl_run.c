/* wl_run - run one workload of harness/workloads.h with an optional injected stdio fault (development aid).
 * usage: wl_run <workload> <path.hdf> [fail_at [sticky]]   (fail_at = -1: none; prints every stdio call kind with WL_TRACE=1) */
#include "wrap.h"
#include "workloads.h"
int main(int argc, char **argv)
{
    if (argc < 3) return 2;
    int w = -1; for (int i = 0; i < NWORKLOADS; i++) if (!strcmp(WORKLOADS[i].name, argv[1])) w = i;
    if (w < 0) return 2;
    long fail_at = argc > 3 ? atol(argv[3]) : -1; int sticky = argc > 4 ? atoi(argv[4]) : 0;
    char side[800]; snprintf(side, sizeof side, "%s.x", argv[2]); remove(argv[2]); remove(side);
    if (WORKLOADS[w].prep && WORKLOADS[w].prep(argv[2]) == FAIL) { fprintf(stderr, "prep failed\n"); return 3; }
    wr_reset(); wr_enabled = 1; wr_fail_at = fail_at; wr_sticky = sticky;
    int nf = WORKLOADS[w].run(argv[2]);
    wr_enabled = 0;
    printf("workload %s: api_failures=%d stdio_calls=%ld faults_fired=%ld first_fault_in=%s kind=%c\n", argv[1], nf, wr_calls, wr_faults_fired, wr_fault_ctx, fail_at >= 0 && fail_at < wr_calls ? wr_kinds[fail_at] : '-');
    if (getenv("WL_KINDS")) { for (long i = 0; i < wr_calls; i++) putchar(wr_kinds[i]); putchar('\n'); }
    return 0;
}
