/* (09) hbitio.c Hbitread ignores the result of HIwrite2read (flush of the bits written so far when a bit element switches to reading).
 * ./build_repro.sh hbitread_write2read.c && ./hbitread_write2read  -> "SILENT" for the seek/write of that flush */
#include "drive.h"
static void session(const char *path)
{
    int32 fid, bid; uint32 v;
    fid = Hopen(path, DFACC_RDWR, 0); if (fid == FAIL) { nfail++; return; }
    bid = Hstartbitwrite(fid, 1500, 1, 0);
    if (bid == FAIL) nfail++;
    else { CK(Hbitappendable(bid)); for (int i = 0; i < 12; i++) CK(Hbitwrite(bid, 13, 0x1234u + (uint32)i)); CK(Hbitseek(bid, 3, 2)); CK(Hbitread(bid, 11, &v)); CK(Hbitwrite(bid, 7, v)); CK(Hendbitaccess(bid, 0)); }
    CK(Hclose(fid));
}
int main(void) { return drive(prep_h, session, 0, "") > 0; }
