/* (10) dfgr.c DFGRIaddimlut drops the result of its final Hclose: DF24addimage returns SUCCEED although the descriptors of the image
 *      were not written (every stdio call inside that Hclose -> "SILENT").
 * (15) dfjpeg.c: with JPEG compression a failed Hstartwrite/Hwrite in the destination manager ends in libjpeg's error_exit -> exit()
 *      (run with argument jpeg: "CRASH (exit status ...)" lines; the process prints "Output file write error --- out of disk space?").
 * ./build_repro.sh dfgr_addimage.c && ./dfgr_addimage [jpeg] */
#include "drive.h"
static int jpeg;
static void session(const char *path)
{
    unsigned char img[16 * 8 * 3]; comp_info ci; memset(&ci, 0, sizeof ci); ci.jpeg.quality = 60; ci.jpeg.force_baseline = 1;
    for (int i = 0; i < 384; i++) img[i] = (unsigned char)((i / 48) * 30 + (i % 3) * 10);
    CK(DF24restart()); CK(DF24setil(0));
    CK(DF24setcompress(jpeg ? COMP_JPEG : COMP_NONE, &ci));
    CK(DF24addimage(path, img, 16, 8));
    CK(DF24setcompress(COMP_NONE, &ci));
}
int main(int argc, char **argv) { jpeg = argc > 1; return drive(prep_h, session, 0, "") > 0; }
