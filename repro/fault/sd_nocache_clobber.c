/* (14) cdf.c hdf_cdf_clobber ignores the result of hdf_vg_clobber.  With DD caching off for all files a failed deletion of a member of the
 * old dimension/variable vgroups (SDend rewrites the metadata) is swallowed: SDend succeeds, orphan objects stay in the file.
 * (The calls inside Hsetlength<Hwrite reported here too are defect 08.)
 * ./build_repro.sh sd_nocache_clobber.c && ./sd_nocache_clobber */
#include "drive.h"
static int prep(const char *path)
{
    int32 sd, sds, dims[2] = {4, 6}, st[2] = {0, 0}; int16 v[24]; for (int i = 0; i < 24; i++) v[i] = (int16)(i * 3 - 7);
    if (prep_h(path) == FAIL) return FAIL;
    sd = SDstart(path, DFACC_RDWR); if (sd == FAIL) return FAIL;
    sds = SDcreate(sd, "temp", DFNT_INT16, 2, dims); SDwritedata(sds, st, NULL, dims, v); SDendaccess(sds);
    return SDend(sd);
}
static void session(const char *path)
{
    int32 sd;
    CK(Hcache(CACHE_ALL_FILES, FALSE));
    sd = SDstart(path, DFACC_RDWR); if (sd == FAIL) { nfail++; return; }
    CK(SDsetattr(sd, "history", DFNT_CHAR8, 7, "nocache"));
    CK(SDend(sd));
}
int main(void) { return drive(prep, session, 0, "") > 0; }
