/* hextelt.c - three defects reached by one failing stdio call during HXcreate / a write to an external element:
 *  (01) HXcreate double free of fname on every error after the external file was opened        -> CRASH (ASan: attempting double-free)
 *  (02) HXPwrite: failed write + failed re-open -> HI_CLOSE(NULL) -> fclose(NULL)               -> CRASH (sticky run: ./hxcreate_faults sticky)
 *  (03) HXcreate re-creates (truncates) the external file when opening it fails for any reason -> SILENT (data of the first element lost)
 * ./build_repro.sh hxcreate_faults.c && ./hxcreate_faults [sticky] */
#include "drive.h"
static const char *EXT = "/tmp/r-c16-repro.hdf.x";
static void session(const char *path)
{
    unsigned char b[300]; int32 fid, aid;
    fid = Hopen(path, DFACC_RDWR, 0); if (fid == FAIL) { nfail++; return; }
    aid = HXcreate(fid, 1600, 1, EXT, 0, 0);                 /* new external element */
    if (aid == FAIL) nfail++; else { fill(b, 300, 80); CK(Hwrite(aid, 100, b)); CK(Hwrite(aid, 50, b + 100)); CK(Hendaccess(aid)); }
    aid = HXcreate(fid, 1000, 1, EXT, 200, 0);               /* existing element moved into the same external file */
    if (aid == FAIL) nfail++; else { CK(Hseek(aid, 90, DF_START)); CK(Hwrite(aid, 40, b)); CK(Hendaccess(aid)); }
    CK(Hclose(fid));
}
int main(int argc, char **argv) { return drive(prep_h, session, argc > 1, EXT) > 0; }
