/* (13) hfile.c Hclose ignores the result of HIupdate_version.  A file without version element (old writers) gets one at the Hclose of the
 * first session that accesses it; when that write fails Hclose returns SUCCEED and the file has no version element.
 * ./build_repro.sh hclose_update_version.c && ./hclose_update_version */
#include "drive.h"
static int prep(const char *path) { int32 fid; if (prep_h(path) == FAIL) return FAIL; fid = Hopen(path, DFACC_RDWR, 0); if (fid == FAIL || Hdeldd(fid, DFTAG_VERSION, 1) == FAIL) return FAIL; return Hclose(fid); }
static void session(const char *path)
{
    unsigned char b[64]; int32 fid = Hopen(path, DFACC_RDWR, 0); if (fid == FAIL) { nfail++; return; }
    fill(b, 64, 73); CK(Hputelement(fid, 1450, 1, b, 64));
    CK(Hclose(fid));
}
int main(void) { return drive(prep, session, 0, "") > 0; }
