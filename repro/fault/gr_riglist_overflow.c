/* (18) mfgr.c GRIget_image_list: heap-buffer-overflow in Store_imginfo when the RIGs of a file name more images than there are image
 *      elements (DFGRaddlut writes a RIG that names the image written last again), and behind it
 * (19) stack-buffer-overflow: Hgetelement(file, dim.nt_tag, dim.nt_ref, ntstring[4]) with the 0/0 (wildcard) number type DFGRaddlut
 *      records for its palette dimensions reads the 92-byte version element into a 4-byte buffer.
 * No fault injection: the file is written with the library's own API.   ./build_repro.sh gr_riglist_overflow.c && ./gr_riglist_overflow */
#include "drive.h"
int main(void)
{
    const char *path = "/tmp/r-c16-rig.hdf"; unsigned char img[6 * 5 * 3], lut[768]; int32 fid, gr, n = -1, na = -1;
    remove(path); prep_h(path);
    for (int i = 0; i < 90; i++) img[i] = (unsigned char)((i / 9) * 20 + 1); fill(lut, 768, 82);
    DF24restart(); DF24setil(0); DF24addimage(path, img, 6, 5); DF24addimage(path, img, 6, 5);
    DFGRsetlutdims(256, 1, 3, 0); DFGRaddlut(path, lut, 256, 1);
    DFGRsetimdims(5, 6, 3, 2); DFGRaddimage(path, img, 5, 6);
    fid = Hopen(path, DFACC_READ, 0); gr = GRstart(fid);
    if (gr != FAIL) { GRfileinfo(gr, &n, &na); GRend(gr); }
    printf("GRstart -> %d, %d images\n", (int)gr, (int)n); Hclose(fid); return 0;
}
