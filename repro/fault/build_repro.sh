#!/bin/sh
# build_repro.sh <x.c> [repo (default /repo)] : builds ./x against the ASan library build of that tree (made with /root/work/r-c16/verif/bin/vk.py)
R=${2:-/repo}
B=$(cd /root/work/r-c16/verif && VERIF_REPO=$R python3 -c "import sys; sys.path.insert(0,'bin'); import vk; print(vk.libbuild())" 2>/dev/null | tail -1)
gcc -g -fno-builtin -fsanitize=address,undefined -fno-sanitize-recover=all -fno-omit-frame-pointer -w -I$R/hdf/src -I$R/mfhdf/src -I$B -I$B/hdf/src -I$B/mfhdf/src $1 -o ${1%.c} \
  -Wl,--wrap=fopen,--wrap=fread,--wrap=fwrite,--wrap=fseek,--wrap=fclose,--wrap=ferror,--wrap=clearerr $B/bin/libmfhdf.a $B/bin/libhdf.a -lz -ljpeg -lm
