/* (17) dfgr.c DFGRsetlut passes filename NULL to DFGRIaddimlut, which does strcmp(Grlastfile, filename) before looking at it: NULL
 * dereference (UBSan: null pointer passed as argument 2) on every call.  No fault injection needed.
 * ./build_repro.sh dfgrsetlut_null.c && ./dfgrsetlut_null */
#include "drive.h"
int main(void) { unsigned char lut[768]; fill(lut, 768, 1); DFGRsetlutdims(256, 1, 3, 0); printf("DFGRsetlut -> %d\n", DFGRsetlut(lut, 256, 1)); return 0; }
