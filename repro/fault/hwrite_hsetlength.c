/* (08) hfile.c Hwrite ignores the result of Hsetlength for a new element.  DD caching off: the DD update inside Hsetlength is a
 * physical write; when it (or the seek/write that places the element) fails, Hwrite, Hendaccess and Hclose all succeed.
 * ./build_repro.sh hwrite_hsetlength.c && ./hwrite_hsetlength   -> "SILENT" lines for the calls inside Hsetlength */
#include "drive.h"
static void session(const char *path)
{
    unsigned char b[100]; int32 fid, aid;
    fid = Hopen(path, DFACC_RDWR, 0); if (fid == FAIL) { nfail++; return; }
    CK(Hcache(fid, FALSE));
    aid = Hstartaccess(fid, 1400, 1, DFACC_WRITE);
    if (aid == FAIL) nfail++; else { fill(b, 100, 70); CK(Hwrite(aid, 60, b)); CK(Hendaccess(aid)); }
    CK(Hclose(fid));
}
int main(void) { return drive(prep_h, session, 0, "") > 0; }
