/* (11) mfgr.c GRwriteimage takes a failed Hlength of the image element for "no data yet".  First partial write to a chunked image:
 * a read error on the chunked-element header inside Hlength makes GRwriteimage treat the image as new; every call succeeds, the file differs.
 * ./build_repro.sh gr_chunked_write.c && ./gr_chunked_write */
#include "drive.h"
static void session(const char *path)
{
    unsigned char b[16 * 12]; int32 fid, gr, ri, dims[2] = {16, 12}, s0[2] = {0, 0}, c0[2] = {16, 5}, s1[2] = {0, 5}, c1[2] = {16, 7}; HDF_CHUNK_DEF c;
    for (int i = 0; i < 192; i++) b[i] = (unsigned char)((i / 16) * 11 + ((i & 15) >> 2));
    memset(&c, 0, sizeof c); c.comp.chunk_lengths[0] = 8; c.comp.chunk_lengths[1] = 6; c.comp.comp_type = COMP_CODE_DEFLATE; c.comp.cinfo.deflate.level = 2;
    fid = Hopen(path, DFACC_RDWR, 0); if (fid == FAIL) { nfail++; return; }
    gr = GRstart(fid); if (gr == FAIL) { nfail++; return; }
    ri = GRcreate(gr, "cimg", 1, DFNT_UINT8, MFGR_INTERLACE_PIXEL, dims);
    if (ri == FAIL) nfail++; else { CK(GRsetchunk(ri, c, HDF_CHUNK | HDF_COMP)); CK(GRwriteimage(ri, s0, NULL, c0, b)); CK(GRwriteimage(ri, s1, NULL, c1, b + 80)); CK(GRendaccess(ri)); }
    CK(GRend(gr)); CK(Hclose(fid));
}
int main(void) { return drive(prep_h, session, 0, "") > 0; }
