/* drive.h - runs a session once fault-free (reference file), then once per stdio call index k with call k failing
 * (in a forked child), and prints what happened: "reported" (some API call returned FAIL), "benign" (all succeeded, file identical),
 * "SILENT" (all succeeded, file differs from the fault-free one), "CRASH" (signal / sanitizer abort / exit()). */
#ifndef DRIVE_H
#define DRIVE_H
#include "inject.h"
#include "mfhdf.h"
#include <stdlib.h>
#include <unistd.h>
#include <sys/wait.h>
static int nfail;
#define CK(x) do { if ((long)(x) == FAIL) nfail++; } while (0)
static long slurp(const char *p, unsigned char **b) { FILE *f = __real_fopen(p, "rb"); if (!f) { *b = NULL; return -1; } __real_fseek(f, 0, SEEK_END); long n = ftell(f); __real_fseek(f, 0, SEEK_SET); *b = malloc((size_t)n + 1); n = (long)__real_fread(*b, 1, (size_t)n, f); __real_fclose(f); return n; }
static int same_file(const char *a, const char *b) { unsigned char *x, *y; long n = slurp(a, &x), m = slurp(b, &y); int s = (n == m && (n < 0 || memcmp(x, y, (size_t)n) == 0)); free(x); free(y); return s; }
static void fill(unsigned char *b, int n, int salt) { for (int i = 0; i < n; i++) b[i] = (unsigned char)(i * 7 + salt * 13 + (i >> 5)); }
/* prep(path) builds the pre-session file; session(path) returns with nfail = number of API calls that returned FAIL.
   `side`: optional second file that belongs to the result (external element file), "" = none */
static int drive(int (*prep)(const char *), void (*session)(const char *), int sticky, const char *side)
{
    const char *path = "/tmp/r-c16-repro.hdf", *ref = "/tmp/r-c16-repro-ref.bin", *sref = "/tmp/r-c16-repro-ref-side.bin"; int found = 0;
    remove(path); if (side[0]) remove(side);
    if (prep && prep(path) == FAIL) { printf("prep failed\n"); return -1; }
    nfail = 0; inj_arm(-1, 0); session(path); inj_off(); long N = inj_calls;
    if (nfail) { printf("the fault-free session fails (%d)\n", nfail); return -1; }
    rename(path, ref); if (side[0]) rename(side, sref);
    printf("fault-free run: %ld stdio calls\n", N);
    for (long k = 0; k < N; k++) {
        fflush(stdout);
        pid_t pid = fork();
        if (pid == 0) {
            remove(path); if (side[0]) remove(side);
            if (prep && prep(path) == FAIL) _exit(43);
            nfail = 0; inj_arm(k, sticky); alarm(20); session(path); inj_off();
            if (!inj_fired) _exit(43);
            if (nfail) _exit(40);
            _exit(same_file(path, ref) && (!side[0] || same_file(side, sref)) ? 42 : 41);
        }
        int st = 0; waitpid(pid, &st, 0);
        if (WIFSIGNALED(st) || (WIFEXITED(st) && (WEXITSTATUS(st) < 40 || WEXITSTATUS(st) > 43))) {   /* a sanitizer report ends the child with status 1 */ printf("call %ld: CRASH (%s %d)\n", k, WIFSIGNALED(st) ? "signal" : "exit status", WIFSIGNALED(st) ? WTERMSIG(st) : WEXITSTATUS(st)); found++; }
        else if (WEXITSTATUS(st) == 41) { printf("call %ld: SILENT - every call succeeded, the file differs from the fault-free result\n", k); found++; }
    }
    printf("%d of %ld single%s faults crash or are swallowed\n", found, N, sticky ? " (sticky)" : "");
    return found;
}
static int prep_h(const char *path)   /* 3 plain elements, 4 DDs per block */
{
    unsigned char b[300]; int32 fid = Hopen(path, DFACC_CREATE, 4); if (fid == FAIL) return FAIL;
    fill(b, 300, 1); Hputelement(fid, 1000, 1, b, 100); fill(b, 300, 2); Hputelement(fid, 1000, 2, b, 300); fill(b, 300, 3); Hputelement(fid, 1001, 1, b, 17);
    return Hclose(fid);
}
#endif
