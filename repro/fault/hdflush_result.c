/* (16) hkit.c HDflush ignores the result of fflush: returns SUCCEED while the flush failed.  (With the unbuffered streams of the fault
 * engine a failed fflush loses nothing, so the engine counts it as benign; with a buffered stream the data is lost.)
 * Needs -Wl,--wrap=fflush as well: gcc ... -Wl,--wrap=fflush (build_repro.sh does not add it; see the command below)
 *   B=<asan build dir>; gcc -g -fsanitize=address,undefined -I/repo/hdf/src -I$B -I$B/hdf/src hdflush_result.c -o hdflush_result -Wl,--wrap=fflush $B/bin/libhdf.a -lz -ljpeg -lm */
#include <stdio.h>
#include "hdf.h"
int __real_fflush(FILE *f);
static int fail_flush;
int __wrap_fflush(FILE *f) { if (fail_flush && f) return EOF; return __real_fflush(f); }
int main(void)
{
    unsigned char b[10] = {0}; int32 fid = Hopen("/tmp/r-c16-flush.hdf", DFACC_CREATE, 0);
    Hputelement(fid, 1000, 1, b, 10);
    fail_flush = 1; int r = HDflush(fid); fail_flush = 0;
    printf("HDflush with a failing fflush returned %d (%s)\n", r, r == FAIL ? "reported" : "SWALLOWED");
    Hclose(fid); return r != FAIL;
}
