/* SDstart on a file written by the DFSD interface (old-style NDG with dimension scales and strings), one read failing:
 * (05) hdfsds.c hdf_get_sdc: free(coordbuf) before HGOTO_ERROR and again at done:                       -> CRASH (double free)
 * (06) hdfsds.c hdf_read_ndgs: hdf_get_pred_str_attr results unchecked -> strlen(NULL)                  -> CRASH; for the scale record: the
 *      data set loses its dimension scales at SDend and every call succeeds                             -> SILENT
 * ./build_repro.sh dfsd_file_sdstart.c && ./dfsd_file_sdstart */
#include "drive.h"
static int prep(const char *path)
{
    float32 v[20], sc0[4] = {1, 2, 3, 4}, sc1[5] = {10, 20, 30, 40, 50}; int32 dims[2] = {4, 5};
    if (prep_h(path) == FAIL) return FAIL;
    for (int i = 0; i < 20; i++) v[i] = (float32)i / 2;
    DFSDclear(); DFSDsetNT(DFNT_FLOAT32); DFSDsetdims(2, dims); DFSDsetdatastrs("speed", "m/s", "F6.1", "polar"); DFSDsetdimstrs(2, "angle", "deg", "F5.0");
    DFSDsetdimscale(1, 4, sc0); DFSDsetdimscale(2, 5, sc1);
    if (DFSDadddata(path, 2, dims, v) == FAIL) return FAIL;
    return DFSDclear();
}
static void session(const char *path)
{
    int32 sd = SDstart(path, DFACC_RDWR); if (sd == FAIL) { nfail++; return; }
    CK(SDsetattr(sd, "note", DFNT_CHAR8, 4, "test"));     /* makes SDend rewrite the metadata */
    CK(SDend(sd));
}
int main(void) { return drive(prep, session, 0, "") > 0; }
