/* (04) dfan.c DFANIputann / DFANIlablist test DFANIopen() == 0, DFANIopen returns FAIL (-1).  With the annotation directory not yet built
 * (new process / after DFANclear) a failed Hopen inside DFANputdesc goes on with file id -1: DFANIlocate: Hnumber(-1) = -1 ->
 * malloc((size_t)-1 * sizeof(DFANdirentry)) (ASan: requested allocation size 0xffff... exceeds maximum; with
 * ASAN_OPTIONS=allocator_may_return_null=1, i.e. an ordinary malloc, the half-initialised directory is walked by the NEXT call: wild pointer).
 * ./build_repro.sh dfan_open_failure.c && ./dfan_open_failure   -> "CRASH" for every stdio call of the Hopen in DFANputdesc */
#include "drive.h"
static int prep(const char *path) { if (prep_h(path) == FAIL) return FAIL; DFANclear(); return DFANputlabel(path, 1000, 1, "first label"); }
static void session(const char *path)
{
    char buf[64];
    CK(DFANclear());
    CK(DFANputdesc(path, 1000, 2, "a description", 13));
    CK(DFANgetdesc(path, 1000, 2, buf, 64));
}
int main(void) { return drive(prep, session, 0, "") > 0; }
