/* Appending records to an unlimited SDS in a second session:
 * (07) cdf.c hdf_read_vars ignores a failed Hlength of the data element: numrecs = (unsigned)FAIL / record size -> UBSan signed overflow in
 *      NCcoordck, records written at a wild offset                                                     -> CRASH (with UBSan) during SDwritedata
 * (12) cdf.c hdf_close `continue`s over a failed read of the NDG / SDD when it updates the old-style record count -> SILENT at SDend
 * ./build_repro.sh sd_record_append.c && ./sd_record_append */
#include "drive.h"
static int prep(const char *path)
{
    int32 sd, sds, ud[2] = {SD_UNLIMITED, 3}, st[2] = {0, 0}, ct[2] = {2, 3}; int16 v[6] = {1, 2, 3, 4, 5, 6};
    if (prep_h(path) == FAIL) return FAIL;
    sd = SDstart(path, DFACC_RDWR); if (sd == FAIL) return FAIL;
    sds = SDcreate(sd, "rec", DFNT_INT16, 2, ud); if (sds == FAIL || SDwritedata(sds, st, NULL, ct, v) == FAIL) return FAIL;
    SDendaccess(sds); return SDend(sd);
}
static void session(const char *path)
{
    int32 sd = SDstart(path, DFACC_RDWR), sds, idx; if (sd == FAIL) { nfail++; return; }
    idx = SDnametoindex(sd, "rec"); sds = idx >= 0 ? SDselect(sd, idx) : FAIL;
    if (sds == FAIL) nfail++; else { int32 st[2] = {2, 0}, ct[2] = {2, 3}; int16 v[6] = {7, 8, 9, 10, 11, 12}; CK(SDwritedata(sds, st, NULL, ct, v)); CK(SDendaccess(sds)); }
    CK(SDend(sd));
}
int main(void) { return drive(prep, session, 0, "") > 0; }
