#include "hdf.h"
#include "hfile_priv.h"
#include <stdio.h>
#include <string.h>
static uint8 buf[40000];
int main(int argc,char**argv){
  int nb = atoi(argv[1]), more = atoi(argv[2]);
  int32 fid = Hopen("/root/work/bits/scratch/p3.hdf", DFACC_CREATE, 0);
  int32 b = Hstartbitwrite(fid, 1000, 1, 0);
  Hbitappendable(b);
  for (int i=0;i<nb;i++) Hbitwrite(b, 8, (i*7+1)&0xff);
  printf("seek0=%d\n", Hbitseek(b, 0, 0));
  printf("seekend=%d\n", Hbitseek(b, nb, 0));
  for (int i=0;i<more;i++) if (Hbitwrite(b, 8, ((nb+i)*7+1)&0xff)!=8) {printf("write fail at %d\n", i); break;}
  Hendbitaccess(b, 0);
  int32 n = Hgetelement(fid, 1000, 1, buf);
  int bad=0, first=-1; for (int i=0;i<nb+more && i<n;i++) if (buf[i]!=((i*7+1)&0xff)) { if(first<0) first=i; bad++;}
  printf("nb=%d more=%d len=%d bad=%d first=%d\n", nb, more, n, bad, first);
  Hclose(fid);
  return 0;
}
