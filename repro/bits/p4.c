#include "hdf.h"
#include "hfile_priv.h"
#include <stdio.h>
#include <string.h>
static uint8 buf[40000];
static int32 fid;
static void dump(const char*name){ int32 n = Hgetelement(fid, 1000, 1, buf); printf("%s: len=%d:", name, n); for(int i=0;i<n&&i<12;i++) printf(" %02x", buf[i]); printf("\n"); }
int main(int argc,char**argv){
  uint32 v; int r1,r2; int32 b;
  char sc = argv[1][0];
  uint8 init[4] = {0xAB,0xCD,0xEF,0x01};
  fid = Hopen("/root/work/bits/scratch/p4.hdf", DFACC_CREATE, 0);
  if (sc != 'e') { Hputelement(fid, 1000, 1, init, 4); b = Hstartbitwrite(fid, 1000, 1, 4); }
  switch (sc) {
  case 'b':
  r1 = Hbitread(b, 8, &v); printf("read8 -> %d %02x\n", r1, v);
  r2 = Hbitwrite(b, 8, 0x12); printf("write8 -> %d\n", r2);
  Hendbitaccess(b, 0);
  dump("b: expect ab 12 ef 01"); break;
  case 'a':
  Hbitread(b, 4, &v); printf("read4 -> %x\n", v);
  Hbitwrite(b, 8, 0x12);
  Hendbitaccess(b, 0);
  dump("a: expect a1 2d ef 01"); break;
  case 'c':
  Hbitwrite(b, 8, 0x12);
  r1 = Hbitread(b, 8, &v); printf("c: read8 -> %d %02x (expect cd)\n", r1, v);
  Hendbitaccess(b, 0);
  dump("c: expect 12 cd ef 01"); break;
  case 'd':
  Hbitwrite(b, 4, 0x1);
  r1 = Hbitread(b, 8, &v); printf("d: read8 -> %d %02x (expect bc)\n", r1, v);
  Hendbitaccess(b, 0);
  dump("d: expect 1b cd ef 01"); break;
  case 'e':
  b = Hstartbitwrite(fid, 1000, 1, 0); Hbitappendable(b);
  Hbitwrite(b, 8, 0x12); Hbitwrite(b, 8, 0x34); Hbitwrite(b, 4, 0x5);
  printf("seek %d\n", Hbitseek(b, 0, 4));
  r1 = Hbitread(b, 8, &v); printf("e: read8 -> %d %02x (expect 23)\n", r1, v);
  r1 = Hbitread(b, 8, &v); printf("e: read8 -> %d %02x (expect 45)\n", r1, v);
  Hendbitaccess(b, 0);
  dump("e: expect 12 34 50"); break;
  case 'f': /* write, seek back in write mode, overwrite middle bits, end */
  Hbitseek(b, 1, 4); Hbitwrite(b, 8, 0x00); Hendbitaccess(b, 0);
  dump("f: expect ab c0 0f 01"); break;
  case 'g': /* read then seek then write */
  Hbitread(b, 8, &v); Hbitseek(b, 1, 0); Hbitwrite(b, 8, 0x12); Hendbitaccess(b, 0);
  dump("g: expect ab 12 ef 01"); break;
  }
  Hclose(fid);
  return 0;
}
