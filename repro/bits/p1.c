#include "hdf.h"
#include "hfile_priv.h"
#include "hcomp.h"
#include <stdio.h>
#include <string.h>
int main(void){
  /* 1. stale padding */
  int32 fid = Hopen("/root/work/bits/scratch/p1.hdf", DFACC_CREATE, 0);
  int32 b = Hstartbitwrite(fid, 1000, 1, 0);
  Hbitappendable(b);
  for (int i=0;i<4096;i++) Hbitwrite(b, 8, 0xFF);
  Hbitwrite(b, 3, 0);
  Hendbitaccess(b, 0);
  static uint8 buf[10000];
  int32 n = Hgetelement(fid, 1000, 1, buf);
  printf("len=%d last=%02x (expected 00 for zero flush)\n", n, buf[n-1]);
  /* 2. nbit read partition */
  comp_info ci; model_info mi; memset(&ci,0,sizeof ci); memset(&mi,0,sizeof mi);
  ci.nbit.nt = DFNT_INT32; ci.nbit.sign_ext=0; ci.nbit.fill_one=0; ci.nbit.start_bit=31; ci.nbit.bit_len=32;
  int32 aid = HCcreate(fid, 1001, 1, COMP_MODEL_STDIO, &mi, COMP_CODE_NBIT, &ci);
  uint8 d[12] = {1,2,3,4,5,6,7,8,9,10,11,12};
  printf("w=%d\n", Hwrite(aid, 12, d));
  Hendaccess(aid);
  aid = Hstartread(fid, 1001, 1);
  uint8 r[12]; memset(r,0xAA,12);
  int a1 = Hread(aid, 4, r); int a2 = Hread(aid, 8, r+4);
  printf("reads %d %d:", a1, a2); for(int i=0;i<12;i++) printf(" %02x", r[i]); printf("\n");
  Hendaccess(aid);
  Hclose(fid);
  return 0;
}
