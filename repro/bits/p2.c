#include "hdf.h"
#include "hfile_priv.h"
#include "hcomp.h"
#include <stdio.h>
#include <string.h>
static uint8 buf[20000];
int main(int argc,char**argv){
  int nb = atoi(argv[1]), extra = atoi(argv[2]);
  int32 fid = Hopen("/root/work/bits/scratch/p2.hdf", DFACC_CREATE, 0);
  int32 b = Hstartbitwrite(fid, 1000, 1, 0);
  Hbitappendable(b);
  for (int i=0;i<nb;i++) Hbitwrite(b, 8, (i*7+1)&0xff);
  if (extra) Hbitwrite(b, extra, 0);
  Hendbitaccess(b, 0);
  int32 n = Hgetelement(fid, 1000, 1, buf);
  printf("nb=%d extra=%d len=%d", nb, extra, n);
  if (n>nb) printf(" byte[nb]=%02x byte[nb-4096]=%02x", buf[nb], nb>=4096?buf[nb-4096]:0);
  int bad=0; for (int i=0;i<nb && i<n;i++) if (buf[i]!=((i*7+1)&0xff)) bad++;
  printf(" bad=%d\n", bad);
  Hclose(fid);
  return 0;
}
