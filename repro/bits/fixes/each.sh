#!/bin/bash
cd /root/work/bits/scratch2
for d in /root/work/bits/fixes/0*.diff; do
  git checkout -- hdf mfhdf
  git apply $d || { echo "APPLY FAIL $d"; continue; }
  cmake --build _build -j8 > /dev/null 2>&1 || { echo "BUILD FAIL $d"; continue; }
  echo "$(basename $d): $(ctest --test-dir _build -j8 --timeout 900 2>&1 | grep 'tests passed')"
done
git checkout -- hdf mfhdf
for d in /root/work/bits/fixes/0*.diff; do git apply $d; done
cmake --build _build -j8 > /dev/null 2>&1
echo "ALL: $(ctest --test-dir _build -j8 --timeout 900 2>&1 | grep 'tests passed')"
