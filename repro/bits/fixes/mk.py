#!/usr/bin/env python3
"""mk.py <NN>|all : (re)create fix NN in the scratch tree from HEAD and write fixes/NN-*.diff"""
import subprocess, sys, os
T = "/root/work/bits/scratch2"
def sub(path, old, new, count=1):
    p = os.path.join(T, path); s = open(p).read()
    assert s.count(old) >= 1, (path, old[:60])
    open(p, "w").write(s.replace(old, new, count))

def f01():  # bits-len-tail
    sub("hdf/src/hbitio.c",
"""        write_size = (int)MIN((bitfile_rec->bytez - bitfile_rec->bytea), bitfile_rec->max_offset);
""",
"""        /* the buffer holds the block starting at block_offset: only the part of it that belongs to the dataset */
        write_size = (int)MIN((bitfile_rec->bytez - bitfile_rec->bytea),
                              bitfile_rec->max_offset - bitfile_rec->block_offset);
""")

def f02():  # bits-pad-*
    sub("hdf/src/hbitio.c",
"""        if (bitfile_rec->byte_offset > bitfile_rec->max_offset) {
            if (flushbit != (-1)) /* only flush bits if asked and there are bits to flush */
                if (Hbitwrite(bitfile_rec->bit_id, bitfile_rec->count, (uint32)(flushbit ? 0xFF : 0)) == FAIL)
                    HRETURN_ERROR(DFE_WRITEERROR, FAIL);
        }      /* end if */
""",
"""        /* the byte being filled is number byte_offset: it lies past the end of the dataset
           when byte_offset == max_offset, and is then completed with the flush bit */
        if (bitfile_rec->byte_offset >= bitfile_rec->max_offset && flushbit != (-1)) {
            if (Hbitwrite(bitfile_rec->bit_id, bitfile_rec->count, (uint32)(flushbit ? 0xFF : 0)) == FAIL)
                HRETURN_ERROR(DFE_WRITEERROR, FAIL);
        }      /* end if */
""")

def f03():  # heap overflow after Hbitseek in write mode
    sub("hdf/src/hbitio.c",
"""        bitfile_rec->bytez        = n + (bitfile_rec->bytep = bitfile_rec->bytea);
        bitfile_rec->buf_read     = n; /* keep track of the number of bytes in buffer */
        bitfile_rec->block_offset = seek_pos;
""",
"""        bitfile_rec->bytep = bitfile_rec->bytea;
        /* when reading, the buffer ends with the bytes read; when writing it is the whole block */
        bitfile_rec->bytez        = bitfile_rec->bytea + (bitfile_rec->mode == 'w' ? BITBUF_SIZE : n);
        bitfile_rec->buf_read     = n; /* keep track of the number of bytes in buffer */
        bitfile_rec->block_offset = seek_pos;
""")

def f04():  # bits-read-past-end
    sub("hdf/src/hbitio.c",
"""        bitfile_rec->buf_read = (int)n;             /* keep track of the number of bytes in buffer */
        bitfile_rec->bytep    = bitfile_rec->bytea; /* set to the beginning of the buffer */
    }                                               /* end if */
    else {
        bitfile_rec->bytep    = bitfile_rec->bytez; /* set to the end of the buffer to force read */
""",
"""        bitfile_rec->buf_read = (int)n;             /* keep track of the number of bytes in buffer */
        bitfile_rec->bytep    = bitfile_rec->bytea; /* set to the beginning of the buffer */
        bitfile_rec->bytez    = bitfile_rec->bytea + n; /* the buffer ends with the bytes read */
    }                                               /* end if */
    else {
        bitfile_rec->bytep    = bitfile_rec->bytez; /* set to the end of the buffer to force read */
""")
    sub("hdf/src/hbitio.c",
"""            n = Hread(bitfile_rec->acc_id, BITBUF_SIZE, bitfile_rec->bytea);
            if (n == FAIL) { /* EOF */""",
"""            n = Hread(bitfile_rec->acc_id, BITBUF_SIZE, bitfile_rec->bytea);
            if (n <= 0) { /* EOF: Hread returns 0 bytes at the end of the element */""", 2)

def f05():  # bits-r2w-*
    sub("hdf/src/hbitio.c",
"""    if (bitfile_rec->mode == 'r')
        HIread2write(bitfile_rec);
""",
"""    if (bitfile_rec->mode == 'r')
        if (HIread2write(bitfile_rec) == FAIL)
            HRETURN_ERROR(DFE_INTERNAL, FAIL);
""")
    sub("hdf/src/hbitio.c",
"""static int
HIread2write(bitrec_t *bitfile_rec)
{

    bitfile_rec->block_offset = (int32)LONG_MIN; /* set to bogus value */
    bitfile_rec->mode         = 'w';             /* change to write mode */
    if (Hbitseek(bitfile_rec->bit_id, bitfile_rec->byte_offset, ((int)BITNUM - bitfile_rec->count)) == FAIL)
        HRETURN_ERROR(DFE_INTERNAL, FAIL);
    return SUCCEED;
""",
"""static int
HIread2write(bitrec_t *bitfile_rec)
{
    int32 pos; /* offset of the byte that takes the next bit written */
    int   bit; /* number of bits of that byte already read */

    /* bytep is past every byte fetched so far; a byte that was only partly read is the one to write into */
    pos = bitfile_rec->block_offset + (int32)(bitfile_rec->bytep - bitfile_rec->bytea);
    bit = 0;
    if (bitfile_rec->count > 0) {
        pos--;
        bit = (int)BITNUM - bitfile_rec->count;
    }

    /* position as a reader (a reader has nothing to flush), then turn the read position into a write position */
    if (Hbitseek(bitfile_rec->bit_id, pos, bit) == FAIL)
        HRETURN_ERROR(DFE_INTERNAL, FAIL);
    if (bit > 0) { /* step back onto the partly read byte and keep the bits already read */
        bitfile_rec->bytep--;
        bitfile_rec->bits &= (uint8)(maskc[bit] << bitfile_rec->count);
    }
    else {
        bitfile_rec->count = BITNUM;
        bitfile_rec->bits  = 0;
    }
    bitfile_rec->bytez = bitfile_rec->bytea + BITBUF_SIZE;
    bitfile_rec->mode  = 'w';
    /* the buffered block is written back from its beginning */
    if (Hseek(bitfile_rec->acc_id, bitfile_rec->block_offset, DF_START) == FAIL)
        HRETURN_ERROR(DFE_SEEKERROR, FAIL);
    return SUCCEED;
""")

def f06():  # skp-prefix-rewrite
    sub("hdf/src/cskphuff.c",
"""    if ((info->length != skphuff_info->offset) && (skphuff_info->offset != 0 && length <= info->length))
""",
"""    if ((info->length != skphuff_info->offset) && !(skphuff_info->offset == 0 && length >= info->length))
""")

def f07():  # nbit-read-partition
    sub("hdf/src/cnbit_priv.h",
"""    int              buf_pos;                   /* current offset in the expansion buffer */
""",
"""    int              buf_pos;                   /* current offset in the expansion buffer */
    int              buf_len;                   /* number of expanded bytes in the buffer */
""")
    sub("hdf/src/cnbit.c",
"""    nbit_info->buf_pos = NBIT_BUF_SIZE; /* start at the beginning of the buffer */
    nbit_info->nt_pos  = 0;             /* start at beginning of the NT info */
""",
"""    nbit_info->buf_pos = NBIT_BUF_SIZE; /* start at the beginning of the buffer */
    nbit_info->buf_len = 0;             /* nothing expanded yet */
    nbit_info->nt_pos  = 0;             /* start at beginning of the NT info */
""")
    sub("hdf/src/cnbit.c",
"""    buf_size    = MIN(NBIT_BUF_SIZE, length);
    buf_items   = buf_size / nbit_info->nt_size; /* compute # of items in buffer */
    orig_length = length;                        /* save this for later */
    while (length > 0) {                         /* decode until we have all the bytes */
        if (nbit_info->buf_pos >= buf_size) {    /* re-fill buffer */
            rbuf = (uint8 *)nbit_info->buffer;   /* get a ptr to the buffer */
""",
"""    orig_length = length;                          /* save this for later */
    while (length > 0) {                           /* decode until we have all the bytes */
        if (nbit_info->buf_pos >= nbit_info->buf_len) { /* everything expanded so far was delivered: re-fill buffer */
            /* expand what the rest of this request needs, at most a buffer full, at least one item */
            buf_size  = MIN(NBIT_BUF_SIZE, length);
            buf_items = MAX(buf_size / nbit_info->nt_size, 1); /* compute # of items in buffer */
            buf_size  = buf_items * nbit_info->nt_size;
            rbuf      = (uint8 *)nbit_info->buffer; /* get a ptr to the buffer */
""")
    sub("hdf/src/cnbit.c",
"""            nbit_info->buf_pos = 0; /* reset buffer position */
        }

        copy_length =
            (int)((length > (buf_size - nbit_info->buf_pos)) ? (buf_size - nbit_info->buf_pos) : length);
""",
"""            nbit_info->buf_pos = 0; /* reset buffer position */
            nbit_info->buf_len = buf_size;
        }

        copy_length = (int)((length > (nbit_info->buf_len - nbit_info->buf_pos))
                                ? (nbit_info->buf_len - nbit_info->buf_pos)
                                : length);
""")

FIX = {"01": (f01, "hbitio-flush-length"), "02": (f02, "hbitio-flushbit"), "03": (f03, "hbitio-seek-write-bufend"),
       "04": (f04, "hbitio-read-eof"), "05": (f05, "hbitio-read2write"), "06": (f06, "cskphuff-rewrite-guard"), "07": (f07, "cnbit-decode-partition")}
def make(nn):
    subprocess.run(["git", "-C", T, "checkout", "--", "hdf", "mfhdf"], check=True)
    FIX[nn][0]()
    d = subprocess.run(["git", "-C", T, "diff"], capture_output=True, text=True).stdout
    open("/root/work/bits/fixes/%s-%s.diff" % (nn, FIX[nn][1]), "w").write(d)
    print(nn, len(d.splitlines()), "lines")
if __name__ == "__main__":
    a = sys.argv[1]
    if a == "all":
        for nn in sorted(FIX): make(nn)
        subprocess.run(["git", "-C", T, "checkout", "--", "hdf", "mfhdf"], check=True)
        for nn in sorted(FIX):
            r = subprocess.run(["git", "-C", T, "apply", "/root/work/bits/fixes/%s-%s.diff" % (nn, FIX[nn][1])])
            print("apply", nn, r.returncode)
    else:
        make(a)
