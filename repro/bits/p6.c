#include "hdf.h"
#include <stdio.h>
int main(void){
  uint8 d[10] = {1,2,3,4,5,6,7,8,9,10};
  int32 fid = Hopen("/root/work/bits/scratch/p6.hdf", DFACC_CREATE, 0);
  Hputelement(fid, 1000, 1, d, 10);
  int32 b = Hstartbitread(fid, 1000, 1);
  uint32 v; long total = 0; int r;
  for (int i = 0; i < 3000; i++) {
    r = Hbitread(b, 32, &v);
    if (r != 32) { printf("Hbitread returned %d after %ld bytes\n", r, total); break; }
    total += 4;
    if (total == 12 || total == 4096 || total == 8192) printf("still 'reading' at byte %ld of a 10-byte element (v=%08x)\n", total, v);
  }
  printf("done total=%ld\n", total);
  Hendbitaccess(b, 0); Hclose(fid);
  return 0;
}
