#include "hdf.h"
#include "hfile_priv.h"
#include "hcomp.h"
#include <stdio.h>
#include <string.h>
#include <stdlib.h>
static uint8 d[70000], r[70000];
int main(int argc,char**argv){
  int n = atoi(argv[1]), m = atoi(argv[2]), kind = atoi(argv[3]);
  comp_info ci; model_info mi; memset(&ci,0,sizeof ci); memset(&mi,0,sizeof mi);
  ci.skphuff.skp_size = 1;
  srand(7);
  for (int i=0;i<n;i++) d[i] = kind==0 ? rand() : kind==1 ? 0 : (i&1);
  int32 fid = Hopen("/root/work/bits/scratch/p5.hdf", DFACC_CREATE, 0);
  int32 aid = HCcreate(fid, 1001, 1, COMP_MODEL_STDIO, &mi, COMP_CODE_SKPHUFF, &ci);
  printf("w=%d\n", Hwrite(aid, n, d));
  Hendaccess(aid);
  aid = Hstartwrite(fid, 1001, 1, n);
  uint8 x[70000]; for (int i=0;i<m;i++) x[i] = kind==1 ? 0 : 200+i%50;
  printf("prefix rewrite Hwrite(%d)=%d\n", m, Hwrite(aid, m, x));
  printf("endaccess=%d\n", Hendaccess(aid));
  aid = Hstartread(fid, 1001, 1);
  int32 len; Hinquire(aid,NULL,NULL,NULL,&len,NULL,NULL,NULL,NULL);
  printf("len=%d\n", len);
  int32 g = Hread(aid, n, r);
  int bad=0; for (int i=m;i<n;i++) if (r[i]!=d[i]) bad++;
  printf("read=%d bad(beyond prefix)=%d\n", g, bad);
  Hendaccess(aid);
  Hclose(fid);
  return 0;
}
