#include "common.h"
/* F4, consequence: the stale descriptor of a deleted element makes the file unopenable */
int main(){ const char*fn="/tmp/dd_f4b.hdf"; uint8 b[4]={1,2,3,4};
 int32 fid=Hopen(fn,DFACC_CREATE,8); Hcache(fid,0);
 Hputelement(fid,100,1,b,4); Hputelement(fid,100,2,b,4); Hputelement(fid,100,3,b,4);
 Hdeldd(fid,100,1); Hdeldd(fid,100,3);   /* neither deletion reaches the disk */
 Hputelement(fid,100,3,b,4);             /* takes the slot of (100,1); (100,3) is now twice on disk */
 list(fid);
 printf("close %d\n",Hclose(fid));
 fid=Hopen(fn,DFACC_RDWR,0); printf("reopen -> %d\n",fid); if(fid==FAIL) HEprint(stdout,0);
 return 0;}
