#include "hdf.h"
#include "hfile_priv.h"
#include <stdio.h>
#include <stdlib.h>
#include <string.h>
static void list(int32 fid){ uint16 t=0,r=0; int32 o,l; int n=0; while(Hfind(fid,0,0,&t,&r,&o,&l,DF_FORWARD)==SUCCEED && n++<40) printf("  (%u,%u) off=%d len=%d\n",t,r,o,l);}
