#include "common.h"
int main(){ const char*fn="/tmp/dd_f7.hdf"; uint8 b[4]={1,2,3,4};
 int32 fid=Hopen(fn,DFACC_CREATE,16); Hcache(fid,1);
 Hputelement(fid,100,1,b,4);
 for(int i=2;i<=65534;i++) if(Hdupdd(fid,100,i,100,1)==FAIL){printf("dup %d failed\n",i);break;}
 printf("Hnumber=%d exist(100,65535)=%d\n",Hnumber(fid,100),Hexist(fid,100,65535));
 uint16 r=Htagnewref(fid,100); printf("Htagnewref -> %u\n",r);
 Hputelement(fid,100,65535,b,4);
 r=Htagnewref(fid,100); printf("after filling 65535: Htagnewref -> %u\n",r);
 Hclose(fid); return 0;}
