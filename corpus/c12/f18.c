#include "common.h"
/* F18: HPgetdiskblock() reserves space (caching off) by writing ONE byte taken from an uninitialised stack variable */
int main(){ const char*fn="/tmp/dd_f18.hdf"; uint8 b[4]={1,2,3,4};
 int32 fid=Hopen(fn,DFACC_CREATE,4); Hcache(fid,0);
 for(int i=1;i<=4;i++) Hputelement(fid,100,i,b,4);   /* 4th put needs a second DD block */
 Hclose(fid);
 FILE*f=fopen(fn,"rb"); fseek(f,0,SEEK_END); long n=ftell(f); 
 /* second DD block: header at 162, 4 DDs; its last byte is at 162+6+48-1 = 215 */
 fseek(f,215,SEEK_SET); int c=fgetc(f); printf("file size %ld; byte 215 (low byte of the last descriptor's length, never written by the library on purpose) = 0x%02x\n",n,c); fclose(f);
 return 0;}
