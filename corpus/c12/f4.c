#include "common.h"
int main(){ const char*fn="/tmp/dd_f4.hdf"; uint8 b[4]={1,2,3,4};
 int32 fid=Hopen(fn,DFACC_CREATE,4); Hcache(fid,0);
 Hputelement(fid,100,1,b,4); Hputelement(fid,100,2,b,4);
 printf("del -> %d exist after del: %d\n",Hdeldd(fid,100,1),Hexist(fid,100,1));
 Hclose(fid);
 fid=Hopen(fn,DFACC_RDWR,0); printf("reopen -> %d; exist(100,1)=%d (0 means still there)\n",fid,Hexist(fid,100,1)); list(fid); Hclose(fid);
 return 0;}
