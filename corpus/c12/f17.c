#include "common.h"
int main(){ const char*fn="/tmp/dd_f17.hdf"; uint8 b[4]={1,2,3,4};
 int32 fid=Hopen(fn,DFACC_CREATE,16);
 Hputelement(fid,100,1,b,4); Hputelement(fid,100,2,b,4);
 printf("dup onto existing -> %d\n",Hdupdd(fid,100,2,100,1));
 list(fid);
 printf("exist(100,1) -> %d\n",Hexist(fid,100,1));
 printf("close %d\n", Hclose(fid)); 
 fid=Hopen(fn,DFACC_RDWR,0); printf("reopen -> %d\n",fid);
 return 0;}
