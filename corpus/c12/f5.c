#include "common.h"
int main(){ const char*fn="/tmp/dd_f5.hdf"; uint8 b[4]={1,2,3,4};
 int32 fid=Hopen(fn,DFACC_CREATE,5);
 Hputelement(fid,100,1,b,4);
 printf("Hnumber(100) -> %d\n",Hnumber(fid,100));
 Hclose(fid); return 0;}
