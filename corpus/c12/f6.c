#include "common.h"
int main(){ const char*fn="/tmp/dd_f6.hdf"; uint8 b[4]={1,2,3,4};
 int32 fid=Hopen(fn,DFACC_CREATE,16);
 Hputelement(fid,100,2,b,4); printf("dup -> %d\n",Hdupdd(fid,200,3,100,2));
 uint16 r=Hnewref(fid); printf("Hnewref -> %u ; Hexist(200,%u)=%d (0 = in use)\n",r,r,Hexist(fid,200,r));
 Hclose(fid); return 0;}
