#include "common.h"
int main(){ const char*fn="/tmp/dd_f3.hdf"; uint8 b[4]={1,2,3,4};
 int32 fid=Hopen(fn,DFACC_CREATE,4); Hcache(fid,0);
 for(int i=1;i<=5;i++) printf("put %d -> %d\n",i,Hputelement(fid,100,i,b,4));
 list(fid);
 printf("close %d\n",Hclose(fid));
 fid=Hopen(fn,DFACC_RDWR,0); printf("reopen -> %d\n",fid); if(fid!=FAIL){list(fid);Hclose(fid);} else HEprint(stdout,0);
 return 0;}
