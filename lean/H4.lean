import H4.Props.C05
