import H4.Props.C03
import H4.Props.C05
import H4.Props.C06
import H4.Props.C16
import H4.Props.C13Atom
import H4.Props.C04Chunk
import H4.Props.C08
import H4.Props.C11
