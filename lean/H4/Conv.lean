import H4.Gen.Conv
/-! Model of number-type conversion (C06): `hdf/src/dfkswap.c` `DFKsb2b/4b/8b` (byte reversal per element) and
    `hdf/src/dfknat.c` `DFKnb1b/2b/4b/8b` (copy), with their contiguous, strided and in-place paths.
    One memory (`List UInt8`) holds both the source and the destination region, so the in-place case
    (`source == dest`) and the out-of-place case are the same definition with different offsets.
    Which routine a number type selects (`DFKsetNT`) and its element size (`DFKNTsize`) come from
    `H4.Gen.Conv.table`, produced by calling the real library (Tie A). -/
namespace H4.Conv

abbrev Byte := UInt8

def readN (mem : List Byte) (off n : Nat) : List Byte := (mem.drop off).take n

/-- overwrite `bs.length` bytes at `off` (the model is only used with `off + bs.length ≤ mem.length`) -/
def writeN (mem : List Byte) (off : Nat) (bs : List Byte) : List Byte :=
  mem.take off ++ bs ++ mem.drop (off + bs.length)

/-- per-element transformation: reversal for the byte-swapping routines, identity for the native ones -/
def tr (swap : Bool) (e : List Byte) : List Byte := if swap then e.reverse else e

/-- the element loop of `DFKsbNb`/`DFKnbNb`: element `i` is read at `so + i*ss` (through the temporary
    `buf[]` when in place), transformed, and stored at `dO + i*ds` -/
def conv (esz : Nat) (swap : Bool) : Nat → Nat → Nat → Nat → Nat → List Byte → List Byte
  | 0, _, _, _, _, mem => mem
  | n+1, so, ss, dO, ds, mem =>
    conv esz swap n (so + ss) ss (dO + ds) ds (writeN mem dO (tr swap (readN mem so esz)))

/-- `DFKconvert` as called by the library: stride 0/0 selects the contiguous fast path (= stride `esz`);
    `num = 0` is an error (`DFE_BADCONV`) -/
def convert (esz : Nat) (swap : Bool) (num so ss dO ds : Nat) (mem : List Byte) : Option (List Byte) :=
  if num = 0 then none
  else if ss = 0 ∧ ds = 0 then some (conv esz swap num so esz dO esz mem)
  else some (conv esz swap num so ss dO ds mem)

/-- number-type code → (element size, swaps on this host), from the generated table -/
def lookup (nt : Nat) : Option (Nat × Bool) :=
  (H4.Gen.Conv.table.find? (fun r => r.1 == nt)).map (fun r => (r.2.1, r.2.2 == 1))

/-- unsigned value of a little-endian / big-endian byte string -/
def leValue : List Byte → Nat
  | [] => 0
  | b :: bs => b.toNat + 256 * leValue bs

def beValue (bs : List Byte) : Nat := bs.foldl (fun acc b => acc * 256 + b.toNat) 0

end H4.Conv
