import H4.Gen.Codecs
/-! Model of the record codecs shared by the old single-file interfaces (DFSD, DFR8, DF24, DFGR, DFP) and the
    multi-file interfaces (SD, GR) -- property C15:

    * `hdf/src/dfrle.c`  `DFCIrle` / `DFCIunrle`: the run-length coder of 8-bit rasters (DFTAG_RLE; a SECOND coder, different
      from `crle.c`, with its own limits: runs of 3..120, literal blocks of 1..121);
    * the big-endian field macros of `hdf/src/hdf_priv.h` (`UINT16ENCODE`, `INT16ENCODE`, `INT32ENCODE`, `…DECODE`);
    * the DFTAG_SDD dimension record: writers `dfsd.c DFSDIputndg` and `mfhdf/src/cdf.c hdf_write_var`, readers
      `mfhdf/src/hdfsds.c hdf_read_ndgs` (`hdf_read_rank`/`hdf_read_dimsizes`/`hdf_read_NT`) and `dfsd.c DFSDIgetndg`;
    * the 20-byte DFTAG_ID / DFTAG_LD image / palette dimension record: writers `dfgr.c DFGRaddrig`, `dfr8.c DFR8putrig`,
      `mfgr.c GRIupdateRIG`, readers `mfgr.c Decode_diminfo` (called from `GRIget_image_list`), `dfgr.c DFGRgetrig`,
      `dfr8.c DFR8getrig`.

    Tag values and the limits of the run-length coder come from `H4.Gen.Codecs` (Tie A; the coder's limits are integer
    literals in the C text and are *measured* by the generator by running the real `DFCIrle`). No Mathlib. -/
namespace H4.Codecs
open H4.Gen.Codecs

abbrev Byte := UInt8

/-! ## dfrle.c -/

/-- what `DFCIrle` emits: a literal block (count byte `n`, then `n` bytes) or a run (`128|n`, value) -/
inductive Pkt where
  | lit (l : List Byte)           -- 1 ≤ |l| ≤ 121
  | run (n : Nat) (v : Byte)      -- 3 ≤ n ≤ 120
deriving Repr, DecidableEq

def Pkt.expand : Pkt → List Byte
  | .lit l => l
  | .run n v => List.replicate n v

/-- the bytes stored: `*cfoll = (uint8)(p - begp)` followed by the copied bytes, or
    `*cfoll++ = (uint8)(128 | (uint8)(q - p)); *cfoll++ = *p;` -/
def Pkt.ser : Pkt → List Byte
  | .lit l => UInt8.ofNat l.length :: l
  | .run n v => [UInt8.ofNat (DFRLE_RUN_FLAG ||| n), v]

def Pkt.Valid : Pkt → Prop
  | .lit l => 1 ≤ l.length ∧ l.length ≤ DFRLE_MAX_LIT
  | .run n _ => DFRLE_MIN_RUN ≤ n ∧ n ≤ DFRLE_MAX_RUN

def expand (ps : List Pkt) : List Byte := ps.flatMap Pkt.expand
def ser (ps : List Pkt) : List Byte := ps.flatMap Pkt.ser

/-- number of iterations of the inner loop `while (i && i + 120 > len && *p == *q) { q++; i--; }`:
    `q` advances over bytes equal to `*p` while input remains (`i`) and `q - p < 120` (`cap` = iterations still allowed) -/
def runScan (v : Byte) : List Byte → Nat → Nat
  | [], _ => 0
  | _ :: _, 0 => 0
  | b :: bs, cap + 1 => if b = v then runScan v bs cap + 1 else 0

/-- `if (p > begp) *cfoll = (uint8)(p - begp)` : the pending literal block (bytes `begp..p`) gets its count byte -/
def flushLit (lit : List Byte) : List Pkt := if lit.isEmpty then [] else [.lit lit]

/-- the outer `while (len > 0)` loop of `DFCIrle` plus the final "fill in last bytecount".
    `lit` = the bytes between `begp` and `p` (already copied behind the reserved count position `cfoll`),
    third argument = the input from `p` on (`len` bytes). `fuel` ≥ `len` (each iteration consumes at least one byte). -/
def encLoop : Nat → List Byte → List Byte → List Pkt
  | _, lit, [] => flushLit lit
  | 0, lit, _ :: _ => flushLit lit
  | fuel + 1, lit, v :: rest =>
    let n := 1 + runScan v rest (DFRLE_MAX_RUN - 1)          -- q - p
    if n ≥ DFRLE_MIN_RUN then                                -- `if (q - p > 2)`  three in a row
      flushLit lit ++ (.run n v :: encLoop fuel [] (rest.drop (n - 1)))
    else
      let lit' := lit ++ [v]                                 -- `*clead++ = *p++`
      if lit'.length ≥ DFRLE_MAX_LIT then                    -- `if (p - begp > 120)`
        .lit lit' :: encLoop fuel [] rest
      else encLoop fuel lit' rest

def rlePkts (row : List Byte) : List Pkt := encLoop row.length [] row

/-- `DFCIrle(buf, bufto, len)`: the `return`ed number of bytes is the length of this list -/
def DFCIrle (row : List Byte) : List Byte := ser (rlePkts row)

/-- result of one `DFCIunrle` call -/
structure Unrle where
  out : List Byte      -- the `outlen` bytes stored through `bufto`
  used : Nat           -- return value: compressed bytes consumed
  save : List Byte     -- decompressed bytes not returned (static `save[savestart..saveend]`)
deriving Repr, DecidableEq

/-- the `while (q < endp)` loop of `DFCIunrle`; `need` = `endp - q`. `none` = the loop would read past the end of `buf`
    (the C has no bound on the input; callers hand it a buffer holding the whole compressed element). -/
def unrleLoop : Nat → List Byte → Nat → Option Unrle
  | _, _, 0 => some ⟨[], 0, []⟩
  | 0, _, _ + 1 => none
  | _ + 1, [], _ + 1 => none
  | fuel + 1, c :: rest, need + 1 =>
    if c.toNat &&& DFRLE_RUN_FLAG = 0 then                   -- `if (!(cnt & 128))` set of uniques
      let cnt := c.toNat
      if rest.length < cnt then none
      else
        let data := rest.take cnt
        if cnt ≤ need + 1 then
          (unrleLoop fuel (rest.drop cnt) (need + 1 - cnt)).map fun r => ⟨data ++ r.out, 1 + cnt + r.used, r.save⟩
        else some ⟨data.take (need + 1), 1 + cnt, data.drop (need + 1)⟩     -- `*saveend++ = *p++`
    else
      let cnt := c.toNat &&& (DFRLE_RUN_FLAG - 1)            -- `cnt &= 127`
      match rest with
      | [] => none
      | v :: r =>
        let data := List.replicate cnt v
        if cnt ≤ need + 1 then
          (unrleLoop fuel r (need + 1 - cnt)).map fun x => ⟨data ++ x.out, 2 + x.used, x.save⟩
        else some ⟨data.take (need + 1), 2, data.drop (need + 1)⟩

/-- `DFCIunrle(buf, bufto, outlen, resetsave)` with the static save area passed explicitly:
    first the saved bytes are copied, then packets are decoded until `outlen` bytes are out. -/
def DFCIunrleS (save : List Byte) (buf : List Byte) (outlen : Nat) (resetsave : Bool) : Option Unrle :=
  let save0 := if resetsave then [] else save
  let pre := save0.take outlen
  if save0.length < outlen then
    (unrleLoop (buf.length + 1) buf (outlen - save0.length)).map fun r => ⟨pre ++ r.out, r.used, r.save⟩
  else some ⟨pre, 0, save0.drop outlen⟩

/-- the whole-row call `DFCIunrle(buf, bufto, outlen, 1)`: the decoded row -/
def DFCIunrle (buf : List Byte) (outlen : Nat) : Option (List Byte) :=
  (DFCIunrleS [] buf outlen true).map (·.out)

/-- the row loop of `DFgetcomp` (`dfcomp.c`): `n = DFCIunrle(in, out, xdim, !i); in += n; out += xdim;`
    over rows of the given lengths -/
def unrleRows : List Byte → List Byte → Bool → List Nat → Option (List (List Byte))
  | _, _, _, [] => some []
  | save, buf, first, n :: ns =>
    match DFCIunrleS save buf n first with
    | none => none
    | some r => (unrleRows r.save (buf.drop r.used) false ns).map (r.out :: ·)

/-! ## big-endian field macros (hdf_priv.h) -/

/-- `UINT16ENCODE(p, i)` / `INT16ENCODE(p, i)` on the unsigned bit pattern: `(i >> 8) & 0xff`, `i & 0xff` -/
def enc16 (n : Nat) : List Byte := [UInt8.ofNat ((n >>> 8) &&& 0xff), UInt8.ofNat (n &&& 0xff)]

/-- `UINT32ENCODE` / `INT32ENCODE` on the `(uint32)` bit pattern -/
def enc32 (n : Nat) : List Byte :=
  [UInt8.ofNat ((n >>> 24) &&& 0xff), UInt8.ofNat ((n >>> 16) &&& 0xff), UInt8.ofNat ((n >>> 8) &&& 0xff), UInt8.ofNat (n &&& 0xff)]

/-- `UINT16DECODE` -/
def dec16 (a b : Byte) : Nat := (a.toNat <<< 8) ||| b.toNat

/-- `UINT32DECODE` -/
def dec32 (a b c d : Byte) : Nat := (a.toNat <<< 24) ||| (b.toNat <<< 16) ||| (c.toNat <<< 8) ||| d.toNat

/-- `(unsigned)(i)` restricted to 16 bits / `(uint32)(i)` of a signed value: two's complement -/
def toU16 (i : Int) : Nat := (i % 65536).toNat
def toU32 (i : Int) : Nat := (i % 4294967296).toNat

/-- sign extension done by `INT16DECODE` / `INT32DECODE` -/
def toS16 (n : Nat) : Int := if n ≥ 32768 then (n : Int) - 65536 else n
def toS32 (n : Nat) : Int := if n ≥ 2147483648 then (n : Int) - 4294967296 else n

def encI16 (i : Int) : List Byte := enc16 (toU16 i)
def encI32 (i : Int) : List Byte := enc32 (toU32 i)
def decI16 (a b : Byte) : Int := toS16 (dec16 a b)
def decI32 (a b c d : Byte) : Int := toS32 (dec32 a b c d)

/-! ## DFTAG_SDD -/

/-- content of a DFTAG_SDD record: dimension sizes, the tag/ref of the data number type and one per scale -/
structure Sdd where
  dims : List Int
  dataNt : Nat × Nat
  scaleNts : List (Nat × Nat)
deriving Repr, DecidableEq

def encTagRef (tr : Nat × Nat) : List Byte := enc16 tr.1 ++ enc16 tr.2

/-- the record layout written by both writers: `UINT16ENCODE(rank)`, `INT32ENCODE(dim)` per dimension,
    then `rank + 1` NT tag/ref pairs (`for (i = 0; i <= rank; i++)`) -/
def encodeSddRaw (rank : Nat) (dims : List Int) (nts : List (Nat × Nat)) : List Byte :=
  enc16 rank ++ dims.flatMap encI32 ++ nts.flatMap encTagRef

/-- `DFSDIputndg` (dfsd.c): rank and dims of `Writesdg`; every NT slot holds (DFTAG_NT, Ref.nt) -/
def encode_dfsd (dims : List Int) (ntRef : Nat) : List Byte :=
  encodeSddRaw dims.length dims (List.replicate (dims.length + 1) (DFTAG_NT, ntRef))

/-- `hdf_write_var` (mfhdf cdf.c, WRITE_NDG): same layout, NT ref = the element just written for this variable -/
def encode_mfsd (dims : List Int) (ntRef : Nat) : List Byte :=
  encodeSddRaw dims.length dims (List.replicate (dims.length + 1) (DFTAG_NT, ntRef))

/-- read `n` big-endian int32 values -/
def readI32s : Nat → List Byte → Option (List Int × List Byte)
  | 0, bs => some ([], bs)
  | n + 1, a :: b :: c :: d :: bs => (readI32s n bs).map fun r => (decI32 a b c d :: r.1, r.2)
  | _ + 1, _ => none

/-- read `n` tag/ref pairs (each `Hread(aid, 4, …)` + two `UINT16DECODE`) -/
def readTagRefs : Nat → List Byte → Option (List (Nat × Nat) × List Byte)
  | 0, bs => some ([], bs)
  | n + 1, a :: b :: c :: d :: bs => (readTagRefs n bs).map fun r => ((dec16 a b, dec16 c d) :: r.1, r.2)
  | _ + 1, _ => none

/-- `hdf_read_ndgs` case DFTAG_SDD (hdfsds.c): `hdf_read_rank` rejects rank ≤ 0 (as int16), `hdf_read_dimsizes`
    rejects a negative size, then one data NT and `rank` scale NTs are read. `none` = FAIL (or a short record). -/
def decode_hdfsds (bs : List Byte) : Option Sdd :=
  match bs with
  | a :: b :: rest =>
    let rank := decI16 a b
    if rank ≤ 0 then none
    else
      match readI32s rank.toNat rest with
      | none => none
      | some (dims, rest1) =>
        if dims.any (· < 0) then none
        else
          match readTagRefs 1 rest1 with
          | some ([nt], rest2) =>
            match readTagRefs rank.toNat rest2 with
            | some (snts, _) => some ⟨dims, nt, snts⟩
            | none => none
          | _ => none
  | _ => none

/-- `DFSDIgetndg` case DFTAG_SDD (dfsd.c): no range checks on rank or sizes -/
def decode_dfsd (bs : List Byte) : Option Sdd :=
  match bs with
  | a :: b :: rest =>
    let rank := (decI16 a b).toNat
    match readI32s rank rest with
    | none => none
    | some (dims, rest1) =>
      match readTagRefs 1 rest1 with
      | some ([nt], rest2) =>
        match readTagRefs rank rest2 with
        | some (snts, _) => some ⟨dims, nt, snts⟩
        | none => none
      | _ => none
  | _ => none

/-! ## DFTAG_ID / DFTAG_LD -/

/-- `DFGRdr` (dfgr.c) / `DFRdr` (dfr8.c) / `dim_info_t` (mfgr.c): image or palette description -/
structure DimRec where
  xdim : Int
  ydim : Int
  ntTag : Nat
  ntRef : Nat
  ncomps : Int
  il : Int
  compTag : Nat
  compRef : Nat
deriving Repr, DecidableEq

/-- the 20-byte record written by `DFGRaddrig`, `DFR8putrig` and `GRIupdateRIG`:
    INT32 xdim, INT32 ydim, UINT16 nt.tag, UINT16 nt.ref, INT16 ncomponents, INT16 interlace, UINT16 compr.tag, UINT16 compr.ref -/
def encodeDim (r : DimRec) : List Byte :=
  encI32 r.xdim ++ encI32 r.ydim ++ enc16 r.ntTag ++ enc16 r.ntRef ++ encI16 r.ncomps ++ encI16 r.il ++ enc16 r.compTag ++ enc16 r.compRef

/-- `DFGRaddrig` (dfgr.c; used by DF24 and DFGR): the `rig->datadesc[IMAGE|LUT]` fields as they are -/
def encode_dfgr (r : DimRec) : List Byte := encodeDim r

/-- `DFR8putrig` (dfr8.c): 8-bit image: one component, NT = (DFTAG_NT, ref), compression tag/ref as set by `DFR8Iputimage` -/
def encode_dfr8 (xdim ydim : Int) (ntRef compTag compRef : Nat) : List Byte :=
  encodeDim ⟨xdim, ydim, DFTAG_NT, ntRef, 1, 0, compTag, compRef⟩

/-- `GRIupdateRIG` (mfgr.c): the interlace on disk is forced to `MFGR_INTERLACE_PIXEL` -/
def encode_mfgr (r : DimRec) : List Byte := encodeDim { r with il := MFGR_INTERLACE_PIXEL }

/-- `Decode_diminfo` (mfgr.c, from `GRIget_image_list` for DFTAG_ID and DFTAG_LD of RIGs and RI Vgroups);
    the same field sequence is decoded inline by `DFGRgetrig` (dfgr.c). `none` = element shorter than 20 bytes. -/
def decode_mfgr (bs : List Byte) : Option DimRec :=
  match bs with
  | x0 :: x1 :: x2 :: x3 :: y0 :: y1 :: y2 :: y3 :: t0 :: t1 :: r0 :: r1 :: n0 :: n1 :: i0 :: i1 :: c0 :: c1 :: d0 :: d1 :: _ =>
    some ⟨decI32 x0 x1 x2 x3, decI32 y0 y1 y2 y3, dec16 t0 t1, dec16 r0 r1, decI16 n0 n1, decI16 i0 i1, dec16 c0 c1, dec16 d0 d1⟩
  | _ => none

def decode_dfgr (bs : List Byte) : Option DimRec := decode_mfgr bs

/-- `DFR8getrig` (dfr8.c): as above, but `if (rig->descimage.ncomponents != 1) HGOTO_ERROR(DFE_BADCALL, FAIL)` -/
def decode_dfr8 (bs : List Byte) : Option DimRec :=
  match decode_mfgr bs with
  | some r => if r.ncomps = 1 then some r else none
  | none => none

/-! ### DFR8getimage into a buffer wider than the image (dfr8.c, `if (xdim > Readrig.descimage.xdim)`)

The image (`h` rows of `w` bytes) is first read contiguously to the start of the caller's buffer; the rows are then
spread out IN PLACE to the caller's row stride `xdim`, last row first, and inside a row last column first. -/

/-- inner loop `for (x = w - 1; x >= 0; x--) image[off1 + x] = image[off2 + x]` of row `y`; `x` = columns still to do -/
def spreadRow (w xdim y : Nat) : Nat → List Byte → List Byte
  | 0, buf => buf
  | x + 1, buf => spreadRow w xdim y x (buf.set (y * xdim + x) (buf.getD (y * w + x) 0))

/-- outer loop `for (y = h - 1; y > 0; y--)`; the argument is the number of rows not yet in place (row 0 stays) -/
def spreadRowsFrom (w xdim : Nat) : Nat → List Byte → List Byte
  | 0, buf => buf
  | 1, buf => buf
  | y + 2, buf => spreadRowsFrom w xdim (y + 1) (spreadRow w xdim (y + 1) w buf)

/-- the whole step of `DFR8getimage(…, xdim, ydim, …)` after the image was read -/
def spreadRows (w h xdim : Nat) (buf : List Byte) : List Byte :=
  if xdim > w then spreadRowsFrom w xdim h buf else buf

/-- the image area of a buffer with row stride `xdim` -/
def imageArea (w h xdim : Nat) (buf : List Byte) : List Byte :=
  (List.range h).flatMap fun r => (buf.drop (r * xdim)).take w

end H4.Codecs
