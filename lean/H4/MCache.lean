import H4.Gen.Mcache
import H4.Gen.Macros

/-!
# Model of the chunk page cache `hdf/src/mcache.c` (property C04, "not on cache sizes")

The model follows `mcache_open / mcache_get / mcache_put / mcache_sync / mcache_close / mcache_set_maxcache`
and the private `mcache_bkt / mcache_write / mcache_look` branch by branch.

* A bucket (`BKT`) is identified by the page number it currently holds (the C never has two buckets with the
  same `pgno` linked at once, this is part of the proved invariant); its `flags` byte is split into the two
  booleans `pinned` (`MCACHE_PINNED`) and `dirty` (`MCACHE_DIRTY`); `page` is an opaque `Nat`.
* `lru` is the `lqh` circular queue, head = least recently used; `hqh k` is hash chain `k` (head first);
  `lhqh k` is the chain of `L_ELEM`s `(pgno, eflags)` of bucket `k`.
* The object behind the cache is an abstract backing store `backing : pgno → page` reached only through the
  `pgin`/`pgout` callbacks; every callback invocation is appended to `log` with the 0-based chunk number the C
  passes (`pgno - 1`).  `inFail`/`outFail` say for which pages the callbacks report `FAIL`.
* `garbage` is the content of a freshly `malloc`ed page buffer (the C does not clear it).
* Page number 0 and negative page numbers are not checked by the C (`HASHKEY(0)` indexes `hqh[-1]`); the model
  answers `fail` for `pgno = 0` by convention, the harness never issues it.
-/
namespace H4.MCache
open H4.Gen.Mcache

/-- `HASHKEY(pgno)` (generated from `mcache_priv.h`) -/
def hashKey (pgno : Nat) : Nat := H4.Gen.Macros.HASHKEY pgno

/-- function update -/
@[noinline] def upd {α : Type} (f : Nat → α) (k : Nat) (v : α) : Nat → α := fun j => if j = k then v else f j

/-- the C idiom `for (lp = first; lp != head; lp = next) if (p lp) { …f lp…; break; }` -/
def updFirst {α : Type} (p : α → Bool) (f : α → α) : List α → List α
  | [] => []
  | a :: l => if p a then f a :: l else a :: updFirst p f l

/-- `BKT` without its queue links -/
structure Bkt where
  data : Nat
  pinned : Bool
  dirty : Bool
deriving Repr, DecidableEq

/-- one invocation of a user filter: `pgin(cookie, chunk, page)` / `pgout(cookie, chunk, page)` and whether it succeeded -/
inductive Io where
  | pgin (chunk : Nat) (ok : Bool)
  | pgout (chunk : Nat) (data : Nat) (ok : Bool)
deriving Repr, DecidableEq

/-- `MCACHE` plus the world behind the callbacks -/
structure State where
  maxcache : Nat
  curcache : Nat := 0
  npages : Nat
  lru : List Nat := []
  hqh : Nat → List Nat := fun _ => []
  pages : Nat → Option Bkt := fun _ => none
  lhqh : Nat → List (Nat × Nat) := fun _ => []
  backing : Nat → Nat
  inFail : Nat → Bool := fun _ => false
  outFail : Nat → Bool := fun _ => false
  garbage : Nat := 0
  log : List Io := []
  closed : Bool := false

/-- `lp->pgno == pgno` -/
def isPg (pg : Nat) (e : Nat × Nat) : Bool := e.1 == pg
/-- `lp->pgno == pgno && lp->eflags != 0` (the "has this page ever been referenced" test of `mcache_get`) -/
def isPgNZ (pg : Nat) (e : Nat × Nat) : Bool := e.1 == pg && e.2 != 0

/-! ### elementary state changes (each is one or two C statements) -/

/-- `lp->eflags = ef` on the first list element of chain `HASHKEY(pg)` satisfying `p` -/
def setEflags (s : State) (p : Nat × Nat → Bool) (pg ef : Nat) : State :=
  { s with lhqh := upd s.lhqh (hashKey pg) (updFirst p (fun e => (e.1, ef)) (s.lhqh (hashKey pg))) }

/-- `lp = malloc; lp->pgno = pgno; lp->eflags = 0; INSERT_HEAD(lhead, lp)` -/
def consElem (s : State) (pg : Nat) : State :=
  { s with lhqh := upd s.lhqh (hashKey pg) ((pg, 0) :: s.lhqh (hashKey pg)) }

/-- a user filter was invoked -/
def logIo (s : State) (io : Io) : State := { s with log := s.log ++ [io] }

/-- the bucket of page `pg` now reads `b` (flags / buffer content changed in place) -/
def setBkt (s : State) (pg : Nat) (b : Bkt) : State := { s with pages := upd s.pages pg (some b) }

/-- successful `pgout` of bucket `b` of page `pg`, then `bp->flags &= ~MCACHE_DIRTY` -/
def cleanPage (s : State) (pg : Nat) (b : Bkt) : State :=
  { s with backing := upd s.backing pg b.data, pages := upd s.pages pg (some { b with dirty := false }) }

/-- `CIRCLEQ_REMOVE(hqh[HASHKEY(pgno)], bp, hq); CIRCLEQ_REMOVE(&mp->lqh, bp, q)` -/
def unlink (s : State) (pg : Nat) : State :=
  { s with hqh := upd s.hqh (hashKey pg) ((s.hqh (hashKey pg)).erase pg), lru := s.lru.erase pg, pages := upd s.pages pg none }

/-- `bp = malloc(sizeof(BKT) + pagesize); ++mp->curcache` -/
def grow (s : State) : State := { s with curcache := s.curcache + 1 }

/-- hit path of `mcache_get`: move to the head of the hash chain and the tail of the lru chain, `flags |= MCACHE_PINNED` -/
def touch (s : State) (pg : Nat) (b : Bkt) : State :=
  { s with hqh := upd s.hqh (hashKey pg) (pg :: (s.hqh (hashKey pg)).erase pg)
           lru := s.lru.erase pg ++ [pg]
           pages := upd s.pages pg (some { b with pinned := true }) }

/-- tail of `mcache_get`: `bp->pgno = pgno; bp->flags = MCACHE_PINNED; INSERT_HEAD(hqh[…]); INSERT_TAIL(lqh)` -/
def insertPage (s : State) (pgno content : Nat) : State :=
  { s with pages := upd s.pages pgno (some { data := content, pinned := true, dirty := false })
           hqh := upd s.hqh (hashKey pgno) (pgno :: s.hqh (hashKey pgno))
           lru := s.lru ++ [pgno] }

/-- `mcache_open`, list-hash initialisation loop `for (pageno = 1; pageno <= npages; ++pageno) INSERT_HEAD(lhqh[HASHKEY(pageno)], …)`
in closed form: chain `k` holds the pages `npages, …, 1` whose key is `k`, highest first, all with the same `eflags`. -/
def lhInit (npages ef : Nat) : Nat → List (Nat × Nat) := fun k =>
  (((List.range' 1 npages).reverse).filter fun pg => hashKey pg == k).map fun pg => (pg, ef)

/-- the same loop written as in the C (`lhInit_eq_loop` proves it equal to the closed form; the closed form is what the
driver executes, nested closures make this one slow) -/
def lhInitLoop (npages ef : Nat) : Nat → List (Nat × Nat) :=
  (List.range' 1 npages).foldl (fun lh pg => upd lh (hashKey pg) ((pg, ef) :: lh (hashKey pg))) (fun _ => [])

/-- `mcache_open` followed by `mcache_filter`: `maxcache == 0` means `DEF_MAXCACHE`; `flags == 0` ("object exists")
marks every page `ELEM_SYNC`, otherwise `eflags = 0` ("page does not exist on disk"). -/
def mcacheOpen (maxcache npages flags : Nat) (backing : Nat → Nat) (garbage : Nat := 0)
    (inFail outFail : Nat → Bool := fun _ => false) : State :=
  { maxcache := if maxcache = 0 then DEF_MAXCACHE else maxcache
    npages := npages
    lhqh := lhInit npages (if flags = 0 then ELEM_SYNC else 0)
    backing := backing, garbage := garbage, inFail := inFail, outFail := outFail }

/-- `mcache_look`: search hash chain `HASHKEY(pgno)` -/
def mcacheLook (s : State) (pgno : Nat) : Bool :=
  if pgno > s.npages then false else (s.hqh (hashKey pgno)).contains pgno

/-- `mcache_write` on the bucket of page `pg` (content `b`): mark the first list element of that page `ELEM_SYNC`
(before the callback, whatever its outcome), run `pgout`; on success clear `MCACHE_DIRTY`. -/
def mcacheWrite (s : State) (pg : Nat) (b : Bkt) : State × Bool :=
  let s1 := setEflags s (isPg pg) pg ELEM_SYNC
  if s1.outFail pg then (logIo s1 (Io.pgout (pg - 1) b.data false), false)
  else (cleanPage (logIo s1 (Io.pgout (pg - 1) b.data true)) pg b, true)

/-- the eviction candidate of `mcache_bkt`: first bucket in LRU order without `MCACHE_PINNED` -/
def victim (s : State) : Option (Nat × Bkt) :=
  s.lru.findSome? fun pg => match s.pages pg with
    | some b => if b.pinned then none else some (pg, b)
    | none => none

/-- `mcache_bkt`: returns the content of the buffer handed out (`none` = `NULL`).
* `curcache < maxcache`: `malloc` a new buffer (uninitialised: `garbage`), `++curcache`;
* else walk the LRU queue for the first unpinned bucket, `mcache_write` it if dirty, unlink it from both queues and
  reuse it (its old content stays in the buffer);
  if that write fails the bucket stays where it is (linked, dirty) and `NULL` is returned
  (before commit 42dfaa3 the error cleanup `free()`d the still linked bucket: use-after-free in the next queue walk);
* no unpinned bucket: "grow the cache anyway" – `malloc`, `++curcache` (so `curcache` can exceed `maxcache`). -/
def mcacheBkt (s : State) : State × Option Nat :=
  if s.curcache < s.maxcache then (grow s, some s.garbage)
  else match victim s with
    | some (pg, b) =>
      match (if b.dirty then mcacheWrite s pg b else (s, true)) with
      | (s1, false) => (s1, none)
      | (s1, true) => (unlink s1 pg, some b.data)
    | none => (grow s, some s.garbage)

/-- `mcache_get`: `none` = `NULL`.
* `pgno > npages`: fail.
* cached (`mcache_look`): move to the head of its hash chain and the tail of the LRU queue, set `MCACHE_PINNED`.
* otherwise `mcache_bkt`; then search list chain `HASHKEY(pgno)` for an element of this page with `eflags != 0`:
  - found: `eflags = ELEM_READ`, fill the buffer through `pgin(cookie, pgno-1, page)`; if `pgin` fails return `NULL`
    (the buffer from `mcache_bkt` is neither linked nor freed: it leaks and `curcache` still counts it);
  - not found: insert a new element `(pgno, 0)` at the head of the chain and hand out the buffer AS IT IS. -/
def mcacheGet (s : State) (pgno : Nat) : State × Option Nat :=
  if pgno = 0 ∨ pgno > s.npages then (s, none)
  else if mcacheLook s pgno then
    match s.pages pgno with
    | some b => (touch s pgno b, some b.data)
    | none => (s, none)
  else
    match mcacheBkt s with
    | (s1, none) => (s1, none)
    | (s1, some buf) =>
      if (s1.lhqh (hashKey pgno)).any (isPgNZ pgno) then
        let s2 := setEflags s1 (isPgNZ pgno) pgno ELEM_READ
        if s2.inFail pgno then (logIo s2 (Io.pgin (pgno - 1) false), none)
        else (insertPage (logIo s2 (Io.pgin (pgno - 1) true)) pgno (s2.backing pgno), some (s2.backing pgno))
      else
        (insertPage (consElem s1 pgno) pgno buf, some buf)

/-- the client stores `v` into the page buffer it got from `mcache_get` (not an mcache function) -/
def userWrite (s : State) (pg v : Nat) : State × Bool :=
  match s.pages pg with
  | some b => (setBkt s pg { b with data := v }, true)
  | none => (s, false)

/-- `mcache_put(mp, page, flags)` where `page` is the buffer of cached page `pg` (an uncached `pg` would be a dangling
pointer in C; the model answers `false`): clear `MCACHE_PINNED`, `flags |= flags & MCACHE_DIRTY`; if the bucket is
dirty NOW mark the first list element of the page `ELEM_WRITTEN`. -/
def mcachePut (s : State) (pg flags : Nat) : State × Bool :=
  match s.pages pg with
  | none => (s, false)
  | some b =>
    let d := b.dirty || (flags &&& MCACHE_DIRTY != 0)
    let s1 := setBkt s pg { b with pinned := false, dirty := d }
    (if d then setEflags s1 (isPg pg) pg ELEM_WRITTEN else s1, true)

/-- loop of `mcache_sync` over the LRU queue: write every dirty bucket, stop at the first failure -/
def syncWalk (s : State) : List Nat → State × Bool
  | [] => (s, true)
  | pg :: rest =>
    match s.pages pg with
    | some b =>
      if b.dirty then
        match mcacheWrite s pg b with
        | (s1, true) => syncWalk s1 rest
        | (s1, false) => (s1, false)
      else syncWalk s rest
    | none => syncWalk s rest

/-- `mcache_sync` -/
def mcacheSync (s : State) : State × Bool := syncWalk s s.lru

/-- `mcache_close`: frees every bucket and list element and the cookie; does NOT write dirty pages. -/
def mcacheClose (s : State) : State :=
  { s with lru := [], hqh := fun _ => [], pages := fun _ => none, lhqh := fun _ => [], curcache := 0, closed := true }

/-- `mcache_set_maxcache`: grows always, shrinks only to a value above `curcache` -/
def mcacheSetMaxcache (s : State) (maxcache : Nat) : State :=
  if s.maxcache < maxcache then { s with maxcache := maxcache }
  else if maxcache > s.curcache then { s with maxcache := maxcache }
  else s

/-! ## calls (what the harness executes, one `T` line each) -/

inductive Call where
  | get (pg : Nat)
  | write (pg v : Nat)
  | put (pg flags : Nat)
  | sync
  | setMax (n : Nat)
  | close
deriving Repr, DecidableEq

inductive Ret where
  | page (d : Nat)
  | val (n : Nat)
  | ok
  | fail
  | undef
deriving Repr, DecidableEq

/-- one call on the cache; after `mcache_close` everything is undefined in C (the cookie is freed) -/
def call (s : State) (c : Call) : State × Ret :=
  if s.closed then (s, .undef) else
  match c with
  | .get pg => match mcacheGet s pg with
    | (s', some d) => (s', .page d)
    | (s', none) => (s', .fail)
  | .write pg v => match userWrite s pg v with
    | (s', true) => (s', .ok)
    | (s', false) => (s', .fail)
  | .put pg fl => match mcachePut s pg fl with
    | (s', true) => (s', .ok)
    | (s', false) => (s', .fail)
  | .sync => match mcacheSync s with
    | (s', true) => (s', .ok)
    | (s', false) => (s', .fail)
  | .setMax n => ((mcacheSetMaxcache s n), .val (mcacheSetMaxcache s n).maxcache)
  | .close => (mcacheClose s, .ok)

/-! ## client operations (what the theorems quantify over) -/

/-- `putDirty pg v` = store `v` in the page buffer, then `mcache_put(…, MCACHE_DIRTY)`; `putClean pg` = `mcache_put(…, 0)` -/
inductive Op where
  | get (pg : Nat)
  | putDirty (pg v : Nat)
  | putClean (pg : Nat)
  | sync
  | setMax (n : Nat)
  | close
deriving Repr, DecidableEq

def step (s : State) : Op → State × Ret
  | .get pg => call s (.get pg)
  | .putDirty pg v => call (call s (.write pg v)).1 (.put pg MCACHE_DIRTY)
  | .putClean pg => call s (.put pg 0)
  | .sync => call s .sync
  | .setMax n => call s (.setMax n)
  | .close => call s .close

/-- final state and the list of results -/
def run (s : State) : List Op → State × List Ret
  | [] => (s, [])
  | op :: ops => let r := step s op; let rr := run r.1 ops; (rr.1, r.2 :: rr.2)

/-! ## specification: a plain map `pgno ⇀ page` -/

/-- what the object looks like when the cache is opened: with `flags = 0` every page `1..npages` exists and holds the
backing content; with `flags ≠ 0` no page exists yet (its content is unspecified until the first dirty put). -/
def specInit (npages flags : Nat) (backing : Nat → Nat) : Nat → Option Nat := fun pg =>
  if flags = 0 ∧ 1 ≤ pg ∧ pg ≤ npages then some (backing pg) else none

/-- the map changes only by a put-dirty that was accepted (i.e. the page buffer was valid = the page was cached) -/
def specStep (m : Nat → Option Nat) : Op → Ret → (Nat → Option Nat)
  | .putDirty pg v, .ok => upd m pg (some v)
  | _, _ => m

/-- what one operation must satisfy w.r.t. the map `m` (state of the map BEFORE the operation; a put-dirty does not
return data): a `get` that returns a page returns the map's page; after a successful `sync` the backing store holds
the whole map. `s'` is the cache state after the operation. -/
def Good (s' : State) (m : Nat → Option Nat) : Op → Ret → Prop
  | .get pg, .page d => ∀ v, m pg = some v → d = v
  | .sync, .ok => ∀ pg v, m pg = some v → s'.backing pg = v
  | _, _ => True

/-- every operation of the sequence is `Good` against the map as updated by the preceding operations -/
def Refines (s : State) (m : Nat → Option Nat) : List Op → Prop
  | [] => True
  | op :: ops => Good (step s op).1 m op (step s op).2 ∧ Refines (step s op).1 (specStep m op (step s op).2) ops

/-! ## specification for well-behaved clients: no cache at all -/

/-- the observable part of a result: what `mcache_set_maxcache` returns is the tuning knob itself, not data -/
def obs : Ret → Ret
  | .val _ => .val 0
  | r => r

/-- an object WITHOUT a cache: its pages, the pages the client currently holds (got and not yet put), closed or not.
Nothing in it depends on `maxcache`. -/
structure Abs where
  m : Nat → Nat
  held : List Nat := []
  closed : Bool := false

/-- one client operation on the cache-less object; `none` = the client breaks the protocol (puts a page it does not hold,
i.e. passes a buffer pointer that `mcache_get` did not give it or that it already gave back) -/
def absStep (npages : Nat) (a : Abs) (op : Op) : Option (Abs × Ret) :=
  if a.closed then some (a, .undef) else
  match op with
  | .get pg => if pg = 0 ∨ pg > npages then some (a, .fail) else some ({ a with held := pg :: a.held }, .page (a.m pg))
  | .putDirty pg v =>
    if pg ∈ a.held then some ({ a with m := upd a.m pg v, held := a.held.filter (· != pg) }, .ok) else none
  | .putClean pg => if pg ∈ a.held then some ({ a with held := a.held.filter (· != pg) }, .ok) else none
  | .sync => some (a, .ok)
  | .setMax _ => some (a, .val 0)
  | .close => some ({ a with closed := true, held := [] }, .ok)

/-- results of a whole operation sequence on the cache-less object, `none` if the client breaks the protocol somewhere -/
def absRun (npages : Nat) (a : Abs) : List Op → Option (List Ret)
  | [] => some []
  | op :: ops => match absStep npages a op with
    | none => none
    | some (a', r) => (absRun npages a' ops).map (r :: ·)

/-- number of pinned buckets -/
def pinnedCount (s : State) : Nat :=
  (s.lru.filter fun pg => match s.pages pg with | some b => b.pinned | none => false).length

/-- in every state visited while running `ops` from `s` at most `K` buckets are pinned -/
def PinBound (K : Nat) (s : State) : List Op → Prop
  | [] => pinnedCount s ≤ K
  | op :: ops => pinnedCount s ≤ K ∧ PinBound K (step s op).1 ops

end H4.MCache
