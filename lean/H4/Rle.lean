import H4.Gen.Crle
/-! Model of `hdf/src/crle.c` (C05): the run-length encoder as a packet emitter
    (`HCIcrle_encode` one byte at a time + `HCIcrle_term`), the serialiser (the bytes `HDputc`/`Hwrite`
    put on the underlying element) and the whole-stream decoder (`HCIcrle_decode` run to exhaustion).
    All limits come from the generated constants (Tie A). No Mathlib. -/
namespace H4.Rle
open H4.Gen.Crle

abbrev Byte := UInt8

inductive Pkt where
  | run (n : Nat) (v : Byte)      -- RLE_MIN_RUN ≤ n ≤ RLE_MAX_RUN
  | mix (l : List Byte)           -- RLE_MIN_MIX ≤ |l| ≤ RLE_BUF_SIZE
deriving Repr, DecidableEq

def Pkt.expand : Pkt → List Byte
  | .run n v => List.replicate n v
  | .mix l => l

/-- control byte + payload exactly as written by the C code -/
def Pkt.ser : Pkt → List Byte
  | .run n v => [UInt8.ofNat (RUN_MASK ||| (n - RLE_MIN_RUN)), v]
  | .mix l => UInt8.ofNat (l.length - RLE_MIN_MIX) :: l

def Pkt.Valid : Pkt → Prop
  | .run n _ => RLE_MIN_RUN ≤ n ∧ n ≤ RLE_MAX_RUN
  | .mix l => RLE_MIN_MIX ≤ l.length ∧ l.length ≤ RLE_BUF_SIZE

def expand (ps : List Pkt) : List Byte := ps.flatMap Pkt.expand
def ser (ps : List Pkt) : List Byte := ps.flatMap Pkt.ser

/-- whole-stream decoder (`HCIcrle_decode` until the stream is exhausted); fuel = stream length -/
def decFuel : Nat → List Byte → Option (List Byte)
  | _, [] => some []
  | 0, _ :: _ => none
  | fuel+1, c :: rest =>
    if c.toNat &&& RUN_MASK ≠ 0 then
      match rest with
      | [] => none
      | v :: r => (decFuel fuel r).map (List.replicate ((c.toNat &&& COUNT_MASK) + RLE_MIN_RUN) v ++ ·)
    else
      let n := (c.toNat &&& COUNT_MASK) + RLE_MIN_MIX
      if rest.length < n then none
      else (decFuel fuel (rest.drop n)).map (rest.take n ++ ·)

def dec (s : List Byte) : Option (List Byte) := decFuel s.length s

inductive Mode where | init | run | mix
deriving Repr, DecidableEq

/-- `comp_coder_rle_info_t` (encoder side): `last`/`second` are `none` for `RLE_NIL` -/
structure Enc where
  mode : Mode := .init
  buf : List Byte := []
  len : Nat := 0
  last : Option Byte := none
  second : Option Byte := none
deriving Repr

/-- one iteration of the `while (length > 0)` loop of `HCIcrle_encode` -/
def encStep (s : Enc) (b : Byte) : Enc × List Pkt :=
  match s.mode with
  | .init => ({ s with mode := .mix, buf := [b], len := 1, last := some b }, [])
  | .run =>
    if some b ≠ s.last then
      ({ s with mode := .mix, buf := [b], len := 1, last := some b },
        [.run s.len (s.last.getD 0)])
    else
      let len' := s.len + 1
      if len' ≥ RLE_MAX_RUN then
        ({ s with mode := .init, len := len', last := none, second := none },
          [.run len' (s.last.getD 0)])
      else ({ s with len := len' }, [])
  | .mix =>
    if some b = s.last ∧ some b = s.second then
      ({ s with mode := .run, len := RLE_MIN_RUN },
        if s.len > RLE_MIN_RUN - 1 then [.mix (s.buf.take (s.len - (RLE_MIN_RUN - 1)))] else [])
    else
      let buf' := s.buf ++ [b]
      let len' := s.len + 1
      if len' ≥ RLE_BUF_SIZE then
        ({ s with mode := .init, buf := buf', len := len', last := none, second := none },
          [.mix buf'])
      else ({ s with buf := buf', len := len', second := s.last, last := some b }, [])

/-- `HCIcrle_term` (called only when the state is not INIT) -/
def encTerm (s : Enc) : List Pkt :=
  match s.mode with
  | .init => []
  | .run => [.run s.len (s.last.getD 0)]
  | .mix => [.mix s.buf]

def encRun : Enc → List Byte → Enc × List Pkt
  | s, [] => (s, [])
  | s, b :: bs =>
    let (s1, o1) := encStep s b
    let (s2, o2) := encRun s1 bs
    (s2, o1 ++ o2)

def encode (bs : List Byte) : List Pkt :=
  let (s, o) := encRun {} bs
  o ++ encTerm s

/-- the bytes stored under DFTAG_COMPRESSED for an element written sequentially with `bs` -/
def compress (bs : List Byte) : List Byte := ser (encode bs)

end H4.Rle
