import H4.Gen.Hbitio
import H4.Bits
/-! Model of `hdf/src/hbitio.c` (C05): the bit-granular access layer as a state machine over the bytes of the
    underlying element.  One `St` is one `bitrec_t` together with the H-layer access record it owns
    (`elem` = the element's bytes, `posn` = the access position of `acc_id`).

    The 4096-byte buffer `bytea` is a zipper: `pre` holds `bytea[0 .. bytep)` reversed, `post` holds
    `bytea[bytep .. BITBUF_SIZE)`; `bytep`/`bytez` are kept as indices relative to `bytea` because the C code can
    move them past each other (see `Hbitseek`); a dereference of `bytep` outside the buffer sets `oob`
    (in C: heap-buffer-overflow).  Registers are `Nat`s reduced exactly where C casts to `uint8`/`uint32`.
    Constants and the mask tables come from the generated `H4.Gen.Hbitio` (Tie A).  No Mathlib. -/
namespace H4.BitIO
open H4.Gen.Hbitio H4.Bits

abbrev Byte := UInt8

structure St where
  /-- bytes of the underlying element (H layer) -/
  elem : List Byte := []
  /-- position of the H-layer access record `acc_id` -/
  posn : Nat := 0
  /-- `access_rec->new_elem`: created by `Hstartwrite`, nothing written yet (`Hread` refuses such elements) -/
  isNew : Bool := false
  /-- `access == 'w'` -/
  wAccess : Bool := false
  /-- `mode == 'w'` -/
  wMode : Bool := false
  blockOff : Nat := 0
  maxOff : Nat := 0
  byteOff : Nat := 0
  count : Nat := 0
  bufRead : Nat := 0
  bits : Nat := 0
  pre : List Byte := []
  post : List Byte := []
  bytep : Nat := 0
  bytez : Nat := BITBUF_SIZE
  /-- a dereference of `bytep` outside `bytea[0..BITBUF_SIZE)` happened (undefined behaviour in C) -/
  oob : Bool := false
  /-- an H-layer call failed inside a bit-level call -/
  err : Bool := false
deriving Repr

def maskC (k : Nat) : Nat := maskc.getD k 0
def maskL (k : Nat) : Nat := maskl.getD k 0

/-- the whole buffer `bytea[0..BITBUF_SIZE)` -/
def St.buf (s : St) : List Byte := s.pre.reverse ++ s.post

/-- `bytep = bytea + p` -/
def St.setPtr (s : St) (p : Nat) : St :=
  let b := s.buf
  { s with bytep := p, pre := (b.take p).reverse, post := b.drop p }

/-- `memcpy(bytea, data, n)` as done by `Hread(acc_id, n, bytea)`; leaves `bytep` where it is (callers reset it) -/
def St.load (s : St) (data : List Byte) : St :=
  let b := data ++ s.buf.drop data.length
  { s with pre := (b.take s.bytep).reverse, post := b.drop s.bytep }

/-- `Hwrite(acc_id, |data|, data)` on an appendable element: overwrite/extend at `posn` -/
def hWrite (s : St) (data : List Byte) : St :=
  { s with elem := s.elem.take s.posn ++ data ++ s.elem.drop (s.posn + data.length),
           posn := s.posn + data.length, isNew := false }

/-- `Hread(acc_id, len, ·)`: `none` = FAIL (new element); a request past the end is clipped, `len = 0` reads to the end;
    at the end of the element the result is 0 bytes, NOT a failure -/
def hRead (s : St) (len : Nat) : Option (List Byte × St) :=
  if s.isNew then none
  else
    let n := if len = 0 ∨ len + s.posn > s.elem.length then s.elem.length - s.posn else len
    some ((s.elem.drop s.posn).take n, { s with posn := s.posn + n })

/-- `Hseek(acc_id, off, DF_START)` (appendable element at the end of the file: every offset accepted) -/
def hSeek (s : St) (off : Nat) : St := { s with posn := off }

/-- `*(bytep) = b` -/
def St.store (s : St) (b : Byte) : St :=
  match s.post with
  | [] => { s with oob := true }
  | _ :: r => { s with post := b :: r }

/-- `*(bytep)` -/
def St.peek (s : St) : Byte × St :=
  match s.post with
  | [] => (0, { s with oob := true })
  | x :: _ => (x, s)

/-- `bytep++` -/
def St.adv (s : St) : St :=
  match s.post with
  | [] => { s with bytep := s.bytep + 1 }
  | x :: r => { s with bytep := s.bytep + 1, pre := x :: s.pre, post := r }

/-- `Hstartbitread`: element `e` exists; the first block is pre-read into the zeroed (`calloc`) buffer, which then ends
    with the bytes read (`bytez = bytea + n`) -/
def startRead (e : List Byte) : St :=
  let s0 : St := { elem := e, posn := 0, maxOff := e.length, byteOff := 0, wAccess := false, wMode := false,
                   bytez := BITBUF_SIZE, pre := [], post := List.replicate BITBUF_SIZE 0, bytep := 0 }
  let s1 :=
    if s0.maxOff > s0.byteOff then
      match hRead s0 (min (s0.maxOff - s0.byteOff) BITBUF_SIZE) with
      | none => { s0 with err := true }
      | some (d, s) => { (({ (s.load d) with bufRead := d.length }).setPtr 0) with bytez := d.length }
    else { (s0.setPtr s0.bytez) with bufRead := 0 }
  { s1 with blockOff := 0, count := 0 }

/-- `Hstartbitwrite` (+ `Hbitappendable`): `e = none` when the tag/ref does not exist yet -/
def startWrite (e : Option (List Byte)) : St :=
  let s0 : St := { elem := e.getD [], posn := 0, isNew := e.isNone, byteOff := 0, blockOff := 0,
                   pre := [], post := List.replicate BITBUF_SIZE 0, bytep := 0 }
  let s1 :=
    match e with
    | some d =>
      let s := { s0 with maxOff := d.length }
      if s.maxOff > s.byteOff then
        match hRead s (min (s.maxOff - s.byteOff) BITBUF_SIZE) with
        | none => { s with err := true }
        | some (r, s') => hSeek { (s'.load r) with bufRead := r.length } s'.blockOff
      else s
    | none => { s0 with maxOff := 0, bufRead := 0 }
  { (s1.setPtr 0) with wAccess := true, wMode := true, bytez := BITBUF_SIZE, count := BITNUM, bits := 0 }

/-- the block `if (++bytep == bytez) { ... }` that `Hbitwrite` repeats after every stored byte -/
def afterStore (s : St) : St :=
  let s := s.adv
  if s.bytep = s.bytez then
    let writeSize := s.bytez
    let data := s.buf.take writeSize
    let s := s.setPtr 0
    let s := hWrite s data
    let s := { s with blockOff := s.blockOff + writeSize }
    if s.maxOff > s.byteOff then
      match hRead s (min (s.maxOff - s.byteOff) BITBUF_SIZE) with
      | none => { s with err := true }
      | some (r, s') => hSeek { (s'.load r) with bufRead := r.length } s'.blockOff
    else s
  else s

/-- `*(bytep) = b; byte_offset++; if (++bytep == bytez) ...` -/
def putByte (s : St) (b : Nat) : St :=
  let s := s.store (UInt8.ofNat b)
  afterStore { s with byteOff := s.byteOff + 1 }

/-- `while (count >= BITNUM) { *(bytep) = (uint8)(data >> (count -= BITNUM)); ... }`; fuel = count -/
def wholeBytes : Nat → St → Nat → Nat → St × Nat
  | 0, s, _, c => (s, c)
  | f+1, s, data, c =>
    if c ≥ BITNUM then wholeBytes f (putByte s ((data >>> (c - BITNUM)) % 256)) data (c - BITNUM)
    else (s, c)

/-- body of `Hbitwrite` after the argument checks and the mode switch (`count` already clipped to `DATANUM`) -/
def bitwriteCore (s : St) (count data0 : Nat) : St :=
  let data := data0 &&& maskL count
  if count < s.count then
    let c' := s.count - count
    { s with count := c', bits := s.bits ||| ((data <<< c') % 256) }
  else
    let c1 := count - s.count
    let s1 := putByte s ((s.bits ||| ((data >>> c1) % 256)) % 256)
    let (s2, c2) := wholeBytes c1 s1 data c1
    let cnt := BITNUM - c2
    let s3 := if cnt > 0 then { s2 with count := cnt, bits := (data <<< cnt) % 256 } else { s2 with count := cnt }
    if s3.byteOff > s3.maxOff then { s3 with maxOff := s3.byteOff } else s3

/-- `HIbitflush(rec, flushbit, writeout)`; `flushbit = none` is `-1` -/
def bitflush (s : St) (flushbit : Option Bool) (writeout : Bool) : St :=
  let s :=
    if s.count < BITNUM then
      if s.byteOff ≥ s.maxOff ∧ flushbit.isSome then
        bitwriteCore s (min s.count DATANUM) (if flushbit.getD false then 0xFF else 0)
      else
        let (x, s) := s.peek
        let m := (255 ^^^ ((maskC (BITNUM - s.count) <<< s.count) % 256))
        let s := s.store (UInt8.ofNat (((x.toNat &&& m) ||| s.bits) % 256))
        let s := s.adv
        let s := { s with byteOff := s.byteOff + 1 }
        let s := if s.byteOff > s.maxOff then { s with maxOff := s.byteOff } else s
        { s with count := BITNUM, bits := 0 }
    else s
  if writeout then
    let writeSize := min s.bytez (s.maxOff - s.blockOff)
    if writeSize > 0 then hWrite s (s.buf.take writeSize) else s
  else s

/-- `Hbitseek(bitid, byte_offset, bit_offset)`; the Boolean is SUCCEED -/
def bitseek (s : St) (byteOffset bitOffset : Nat) : St × Bool :=
  if bitOffset > BITNUM - 1 ∨ byteOffset > s.maxOff then (s, false)
  else
    let newBlock := byteOffset < s.blockOff ∨ byteOffset ≥ s.blockOff + BITBUF_SIZE
    let s := if s.wMode then bitflush s none newBlock else s
    let r : Option St :=
      if newBlock then
        let seekPos := (byteOffset / BITBUF_SIZE) * BITBUF_SIZE
        let s := hSeek s seekPos
        match hRead s (min (s.maxOff - seekPos) BITBUF_SIZE) with
        | none => none
        | some (d, s) =>
          let bz := if s.wMode then BITBUF_SIZE else d.length   -- reading: the bytes read; writing: the whole block
          let s := { ((s.load d).setPtr 0) with bytez := bz, bufRead := d.length, blockOff := seekPos }
          some (if s.wMode then hSeek s seekPos else s)
      else some s
    match r with
    | none => ({ s with err := true }, false)
    | some s =>
      let s := { s with byteOff := byteOffset }
      let s := s.setPtr (byteOffset - s.blockOff)
      if bitOffset > 0 then
        let s := { s with count := BITNUM - bitOffset }
        if s.wMode then
          let (x, s) := s.peek
          ({ s with bits := x.toNat &&& ((maskC bitOffset <<< s.count) % 256) }, true)
        else
          let (x, s) := s.peek
          ({ s.adv with bits := x.toNat }, true)
      else
        if s.wMode then ({ s with count := BITNUM, bits := 0 }, true)
        else ({ s with count := 0 }, true)

/-- `HIread2write`: the byte that takes the next bit is found from `bytep` (a partly read byte is stepped back onto),
    `Hbitseek` positions there as a reader, then the read position is turned into a write position; `false` = FAIL -/
def read2write (s : St) : St × Bool :=
  let pos0 := s.blockOff + s.bytep
  let (pos, bit) := if s.count > 0 then (pos0 - 1, BITNUM - s.count) else (pos0, 0)
  let (s, ok) := bitseek s pos bit
  if !ok then (s, false)
  else
    let s :=
      if bit > 0 then
        let s := s.setPtr (s.bytep - 1)
        { s with bits := s.bits &&& ((maskC bit <<< s.count) % 256) }
      else { s with count := BITNUM, bits := 0 }
    (hSeek { s with bytez := BITBUF_SIZE, wMode := true } s.blockOff, true)

/-- `HIwrite2read` -/
def write2read (s : St) : St :=
  let prevCount := s.count
  let prevOffset := s.byteOff
  let s := bitflush s none true
  let s := { s with blockOff := LONG_MIN_AS_INT32, wMode := false }
  (bitseek s prevOffset (BITNUM - prevCount)).1

/-- `Hbitwrite(bitid, count, data)`; result `none` = FAIL, else the `count` passed in -/
def bitwrite (s : St) (count data : Nat) : St × Option Nat :=
  if count = 0 then (s, none)
  else if !s.wAccess then (s, none)
  else
    let c := min count DATANUM
    let (s, ok) := if !s.wMode then read2write s else (s, true)
    if !ok then (s, none)
    else
      let s := bitwriteCore s c (data % 2 ^ DATANUM)
      if s.err then (s, none) else (s, some count)

/-- the refill `if (bytep == bytez) { n = Hread(acc_id, BITBUF_SIZE, bytea); ... }` of `Hbitread`; `none` = EOF branch -/
def refill (s : St) : Option St :=
  if s.bytep = s.bytez then
    match hRead s BITBUF_SIZE with
    | none => none
    | some (d, s') =>
      if d.length = 0 then none   -- `n <= 0`: `Hread` returns 0 bytes at the end of the element
      else some { ((s'.load d).setPtr 0) with blockOff := s'.blockOff + s'.bufRead, bytez := d.length, bufRead := d.length }
  else some s

/-- `l = *bytep++; byte_offset++; if (byte_offset > max_offset) max_offset = byte_offset` -/
def getByte (s : St) : Nat × St :=
  let (x, s) := s.peek
  let s := s.adv
  let s := { s with byteOff := s.byteOff + 1 }
  (x.toNat, if s.byteOff > s.maxOff then { s with maxOff := s.byteOff } else s)

/-- `while (count >= BITNUM) { refill; l = *bytep++; b |= l << (count -= BITNUM); ... }`;
    result: state, accumulated `b`, remaining count, EOF flag; fuel = count -/
def readWhole : Nat → St → Nat → Nat → St × Nat × Nat × Bool
  | 0, s, b, c => (s, b, c, false)
  | f+1, s, b, c =>
    if c ≥ BITNUM then
      match refill s with
      | none => ({ s with count := 0 }, b, c, true)
      | some s =>
        let (l, s) := getByte s
        readWhole f s (b ||| ((l <<< (c - BITNUM)) % 2 ^ DATANUM)) (c - BITNUM)
    else (s, b, c, false)

/-- `Hbitread(bitid, count, &data)`; result `(bits read, data)`, `none` = FAIL -/
def bitread (s : St) (count : Nat) : St × Option (Nat × Nat) :=
  if count = 0 then (s, none)
  else
    let s := if s.wMode then write2read s else s
    let count := min count DATANUM
    if count ≤ s.count then
      let c' := s.count - count
      ({ s with count := c' }, some (count, (s.bits >>> c') &&& maskC count))
    else
      let orig := count
      let (b, count) :=
        if s.count > 0 then (((s.bits &&& maskC s.count) <<< (count - s.count)) % 2 ^ DATANUM, count - s.count)
        else (0, count)
      let (s, b, count, eof) := readWhole count s b count
      if eof then (s, some (orig - count, b))
      else if count > 0 then
        match refill s with
        | none => ({ s with count := 0 }, some (orig - count, b))
        | some s =>
          let s := { s with count := BITNUM - count }
          let (l, s) := getByte s
          let s := { s with bits := l }
          (s, some (orig, b ||| (l >>> s.count)))
      else ({ s with count := 0 }, some (orig, b))

/-- `Hendbitaccess(bitid, flushbit)`: the bytes of the element afterwards -/
def endAccess (s : St) (flushbit : Option Bool) : List Byte :=
  (if s.wMode then bitflush s flushbit true else s).elem

/-- sequential `Hbitwrite`s -/
def writeFields (s : St) : List (Nat × Nat) → St
  | [] => s
  | (w, v) :: fs => writeFields (bitwrite s w v).1 fs

/-- sequential `Hbitread`s; the list of returned data words and the state afterwards (a failing or short read yields `none`) -/
def readFieldsS (s : St) : List Nat → Option (List Nat × St)
  | [] => some ([], s)
  | w :: ws =>
    match bitread s w with
    | (s', some (n, v)) => if n = w then (readFieldsS s' ws).map (fun r => (v :: r.1, r.2)) else none
    | (_, none) => none

/-- sequential `Hbitread`s; the list of returned data words -/
def readFields (s : St) (ws : List Nat) : Option (List Nat) := (readFieldsS s ws).map (·.1)

/-- bytes stored by writing `fs` to a fresh element and ending access -/
def pack (fs : List (Nat × Nat)) (flushbit : Option Bool := some false) : List Byte :=
  endAccess (writeFields (startWrite none) fs) flushbit

/-- values obtained by reading the widths `ws` from the start of element `e` -/
def unpack (e : List Byte) (ws : List Nat) : Option (List Nat) := readFields (startRead e) ws

end H4.BitIO
