import H4.BitIO
import H4.Gen.Fn.Hbitio2
/-! C05, function-level Tie A for `hdf/src/hbitio.c`: the plumbing between the hand-written model `H4.BitIO` and the functions
    TRANSLATED from the C text (`H4.Gen.Fn.Hbitio2`, written by gen/c2lean.py on every run).

    `CRec` is what the translated functions work on: the integer members of one `bitrec_t`, its 4096-byte buffer `bytea` with the two
    cursors `bytep` / `bytez` as indices into it, and the underlying element of `acc_id` (bytes, position, "new element" flag).
    `St.toC` is the C view of a model state (the abstraction function of the refinement theorems `H4.Props.C05BitsFn`);
    `cBitwrite` / `cBitread` / `cBitseek` / `cBitflush` / `cEnd` run one translated call on a `CRec`.
    Used by the theorems and by the cross-run of engine `bits` (`H4.Driver.Bits`).  Core only. -/
namespace H4.BitIO
open H4.Gen.Fn.Hbitio2

structure CRec where
  access : Int
  mode : Int
  count : Int
  bits : Int
  bufRead : Int
  byteOff : Int
  maxOff : Int
  blockOff : Int
  bytep : Int
  bytez : Int
  bytea : List Int
  elt : List Int
  epos : Int
  enew : Int
deriving DecidableEq, Repr

/-- a byte string as the `uint8` cells the translated code sees -/
def ints (l : List Byte) : List Int := l.map fun b => (b.toNat : Int)

/-- `'w'` / `'r'` -/
def modeChar (w : Bool) : Int := if w then 119 else 114

/-- the C view of a model state -/
def St.toC (m : St) : CRec :=
  { access := modeChar m.wAccess, mode := modeChar m.wMode, count := m.count, bits := m.bits, bufRead := m.bufRead,
    byteOff := m.byteOff, maxOff := m.maxOff, blockOff := m.blockOff, bytep := m.bytep, bytez := m.bytez,
    bytea := ints m.buf, elt := ints m.elem, epos := m.posn, enew := if m.isNew then 1 else 0 }

/-- result of one translated call: the record afterwards, the return value, the flags of the translation
    (`ub` = the C code would have undefined behaviour, `oof` = a loop ran out of fuel) -/
structure COut where
  crec : CRec
  ret : Int
  ub : Bool
  oof : Bool
deriving DecidableEq, Repr

/-- the id under which the record is registered; the translated functions pass it around but never look at it -/
def bitId : Int := 0

/-- one translated `Hbitwrite(bitid, count, data)` on the record `r` -/
def cBitwrite (fuel : Nat) (r : CRec) (count data : Int) : COut :=
  let s := Hbitwrite fuel (bitid := bitId) (count := count) (data := data) (rec_null := false) (rec_access := r.access)
    (rec_mode := r.mode) (rec_block_offset := r.blockOff) (rec_bytea := r.bytea) (rec_bytep := r.bytep) (rec_count := r.count)
    (rec_bit_id := bitId) (rec_max_offset := r.maxOff) (rec_byte_offset := r.byteOff) (rec_bits := r.bits) (rec_bytez := r.bytez)
    (rec_buf_read := r.bufRead) (io_elt := r.elt) (io_epos := r.epos) (io_enew := r.enew)
  { crec := { access := s.rec_access, mode := s.rec_mode, count := s.rec_count, bits := s.rec_bits, bufRead := s.rec_buf_read,
              byteOff := s.rec_byte_offset, maxOff := s.rec_max_offset, blockOff := s.rec_block_offset, bytep := s.rec_bytep,
              bytez := s.rec_bytez, bytea := s.rec_bytea, elt := s.io_elt, epos := s.io_epos, enew := s.io_enew },
    ret := s.ret, ub := s.ub, oof := s.oof }

/-- one translated `Hbitread(bitid, count, &data)` with `data = d0` before the call; the second component is `data` afterwards -/
def cBitread (fuel : Nat) (r : CRec) (count d0 : Int) : COut × Int :=
  let s := Hbitread fuel (bitid := bitId) (count := count) (data := [d0]) (rec_null := false) (rec_access := r.access)
    (rec_mode := r.mode) (rec_block_offset := r.blockOff) (rec_bytea := r.bytea) (rec_bytep := r.bytep) (rec_count := r.count)
    (rec_bit_id := bitId) (rec_max_offset := r.maxOff) (rec_byte_offset := r.byteOff) (rec_bits := r.bits) (rec_bytez := r.bytez)
    (rec_buf_read := r.bufRead) (io_elt := r.elt) (io_epos := r.epos) (io_enew := r.enew)
  ({ crec := { access := s.rec_access, mode := s.rec_mode, count := s.rec_count, bits := s.rec_bits, bufRead := s.rec_buf_read,
               byteOff := s.rec_byte_offset, maxOff := s.rec_max_offset, blockOff := s.rec_block_offset, bytep := s.rec_bytep,
               bytez := s.rec_bytez, bytea := s.rec_bytea, elt := s.io_elt, epos := s.io_epos, enew := s.io_enew },
     ret := s.ret, ub := s.ub, oof := s.oof }, s.data.getD 0 0)

/-- one translated `Hbitseek(bitid, byte_offset, bit_offset)` (the function never looks at `access`) -/
def cBitseek (fuel : Nat) (r : CRec) (byteOffset bitOffset : Int) : COut :=
  let s := Hbitseek fuel (bitid := bitId) (byte_offset := byteOffset) (bit_offset := bitOffset) (rec_null := false)
    (rec_mode := r.mode) (rec_block_offset := r.blockOff) (rec_bytea := r.bytea) (rec_bytep := r.bytep)
    (rec_count := r.count) (rec_max_offset := r.maxOff) (rec_byte_offset := r.byteOff) (rec_bits := r.bits)
    (rec_bytez := r.bytez) (rec_buf_read := r.bufRead) (io_elt := r.elt) (io_epos := r.epos) (io_enew := r.enew)
  { crec := { access := r.access, mode := s.rec_mode, count := s.rec_count, bits := s.rec_bits, bufRead := s.rec_buf_read,
              byteOff := s.rec_byte_offset, maxOff := s.rec_max_offset, blockOff := s.rec_block_offset, bytep := s.rec_bytep,
              bytez := s.rec_bytez, bytea := s.rec_bytea, elt := s.io_elt, epos := s.io_epos, enew := s.io_enew },
    ret := s.ret, ub := s.ub, oof := s.oof }

/-- one translated `HIbitflush(bitfile_rec, flushbit, writeout)` -/
def cBitflush (fuel : Nat) (r : CRec) (flushbit writeout : Int) : COut :=
  let s := HIbitflush fuel (rec_access := r.access) (rec_mode := r.mode) (rec_block_offset := r.blockOff) (rec_bytea := r.bytea)
    (rec_bytep := r.bytep) (rec_count := r.count) (rec_bit_id := bitId) (rec_max_offset := r.maxOff) (rec_byte_offset := r.byteOff)
    (rec_bits := r.bits) (rec_bytez := r.bytez) (rec_buf_read := r.bufRead) (flushbit := flushbit) (writeout := writeout)
    (io_elt := r.elt) (io_epos := r.epos) (io_enew := r.enew)
  { crec := { access := s.rec_access, mode := s.rec_mode, count := s.rec_count, bits := s.rec_bits, bufRead := s.rec_buf_read,
              byteOff := s.rec_byte_offset, maxOff := s.rec_max_offset, blockOff := s.rec_block_offset, bytep := s.rec_bytep,
              bytez := s.rec_bytez, bytea := s.rec_bytea, elt := s.io_elt, epos := s.io_epos, enew := s.io_enew },
    ret := s.ret, ub := s.ub, oof := s.oof }

/-- one translated `HIwrite2read(bitfile_rec)` -/
def cWrite2read (fuel : Nat) (r : CRec) : COut :=
  let s := HIwrite2read fuel (rec_access := r.access) (rec_mode := r.mode) (rec_block_offset := r.blockOff) (rec_bytea := r.bytea)
    (rec_bytep := r.bytep) (rec_count := r.count) (rec_bit_id := bitId) (rec_max_offset := r.maxOff) (rec_byte_offset := r.byteOff)
    (rec_bits := r.bits) (rec_bytez := r.bytez) (rec_buf_read := r.bufRead) (io_elt := r.elt) (io_epos := r.epos) (io_enew := r.enew)
  { crec := { access := s.rec_access, mode := s.rec_mode, count := s.rec_count, bits := s.rec_bits, bufRead := s.rec_buf_read,
              byteOff := s.rec_byte_offset, maxOff := s.rec_max_offset, blockOff := s.rec_block_offset, bytep := s.rec_bytep,
              bytez := s.rec_bytez, bytea := s.rec_bytea, elt := s.io_elt, epos := s.io_epos, enew := s.io_enew },
    ret := s.ret, ub := s.ub, oof := s.oof }

/-- one translated `HIread2write(bitfile_rec)` (the function never looks at `access`) -/
def cRead2write (fuel : Nat) (r : CRec) : COut :=
  let s := HIread2write fuel (rec_mode := r.mode) (rec_block_offset := r.blockOff) (rec_bytea := r.bytea)
    (rec_bytep := r.bytep) (rec_count := r.count) (rec_bit_id := bitId) (rec_max_offset := r.maxOff) (rec_byte_offset := r.byteOff)
    (rec_bits := r.bits) (rec_bytez := r.bytez) (rec_buf_read := r.bufRead) (io_elt := r.elt) (io_epos := r.epos) (io_enew := r.enew)
  { crec := { access := r.access, mode := s.rec_mode, count := s.rec_count, bits := s.rec_bits, bufRead := s.rec_buf_read,
              byteOff := s.rec_byte_offset, maxOff := s.rec_max_offset, blockOff := s.rec_block_offset, bytep := s.rec_bytep,
              bytez := s.rec_bytez, bytea := s.rec_bytea, elt := s.io_elt, epos := s.io_epos, enew := s.io_enew },
    ret := s.ret, ub := s.ub, oof := s.oof }

/-- `-1` / `0` / `1`: the `flushbit` argument of `Hendbitaccess` -/
def flushArg : Option Bool → Int
  | none => -1
  | some false => 0
  | some true => 1

/-- the part of `Hendbitaccess(bitid, flushbit)` that touches the element:
    `if (bitfile_rec->mode == 'w') HIbitflush(bitfile_rec, flushbit, TRUE)` on the translated `HIbitflush` -/
def cEnd (fuel : Nat) (r : CRec) (flushbit : Option Bool) : COut :=
  if r.mode = 119 then cBitflush fuel r (flushArg flushbit) 1 else { crec := r, ret := 0, ub := false, oof := false }

/-- fuel that suffices for every call: the loops of `Hbitwrite` / `Hbitread` run at most 4 times (32 bits = 4 whole bytes) -/
def callFuel : Nat := 5

end H4.BitIO
