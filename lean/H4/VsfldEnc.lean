import H4.VData
import H4.Gen.Fn.Vsfld
/-! The C image of the Vdata schema state of the model `H4.VData` (symbol table, write list, read list), as the functions of
    vsfld.c translated by gen/c2lean.py (`H4.Gen.Fn.Vsfld`) see it: one region per member of the array of structs `vs->usym[]`
    (the names as an array of NUL-terminated rows), the five `uint16` arrays of `vs->wlist` inside the one block `bptr`.
    Used by the refinement theorems (`H4.Props.C07Fld`) and, executed, by the drivers of engines `vs` and `limits` (the
    translated functions are run beside the model on every `fdefine` / `setfields` line).  Core only. -/
namespace H4.VsfldEnc
open H4.VData H4.Gen.Fn.Vsfld

/-- the character codes of a name (one cell per character) -/
def chars (s : String) : List Int := s.toList.map fun c => (c.toNat : Int)
/-- a name as a C string: its character codes followed by the NUL -/
def cstr (s : String) : List Int := chars s ++ [0]

/-- `vs->usym[].name`: one exact NUL-terminated row per symbol (each row is a `strdup` block) -/
def nameRows (usym : List SymDef) : List (List Int) := usym.map fun sd => cstr sd.name
/-- `vs->usym[].type`, `.isize`, `.order` -/
def typeCol (usym : List SymDef) : List Int := usym.map fun sd => (sd.type : Int)
def isizeCol (usym : List SymDef) : List Int := usym.map fun sd => (sd.isize : Int)
def orderCol (usym : List SymDef) : List Int := usym.map fun sd => (sd.order : Int)

/-- `vs->wlist.name[]` -/
def wNames (w : WList) : List (List Int) := w.fields.map fun f => cstr f.name
/-- the block `vs->wlist.bptr`: `type[n]`, `off[n]`, `isize[n]`, `order[n]`, `esize[n]` one behind the other -/
def wBptr (w : WList) : List Int :=
  w.fields.map (fun f => (f.type : Int)) ++ w.fields.map (fun f => (f.off : Int)) ++ w.fields.map (fun f => (f.isize : Int)) ++
    w.fields.map (fun f => (f.order : Int)) ++ w.fields.map (fun f => (f.esize : Int))

/-- `VSIDGROUP` (atom.h), the answer of `HAatom_group` for a vdata key -/
def VSIDGROUP : Int := 4

/-- `VSfdefine` as translated from the C text, run on the C image of the symbol table `usym` with the single token `tok`
    delivered by `scanattrs` (`vs->usym == NULL` exactly when the table is empty) -/
def runFdefine (fuel : Nat) (usym : List SymDef) (tok : String) (t order : Int) : VSfdefine.St :=
  VSfdefine fuel 0 t order 1 [cstr tok] VSIDGROUP false false 0 usym.length (nameRows usym) usym.isEmpty
    (isizeCol usym) (typeCol usym) (orderCol usym)

/-- `VSsetfields` as translated from the C text, run on the C image of the model vdata `v` with the tokens `names` delivered by
    `scanattrs` (`'w'` = 119, `'r'` = 114; `marked`, `new_h_sz` start at 0) -/
def runSetfields (fuel : Nat) (v : VS) (names : List String) : VSsetfields.St :=
  let n : Int := v.w.n
  VSsetfields fuel 0 false names.length (names.map cstr) VSIDGROUP false false 0 (if v.writable then 119 else 114) v.nvertices n v.w.ivsize
    (wBptr v.w) v.w.fields.isEmpty 0 n (2 * n) (3 * n) (4 * n) (wNames v.w) v.w.fields.isEmpty v.usym.length (nameRows v.usym)
    (orderCol v.usym) (typeCol v.usym) (isizeCol v.usym) 0 0 v.rlist.length (v.rlist.map Int.ofNat) v.rlist.isEmpty

/-- does the vdata part of the state `s` hold the C image of the model vdata `v`? (what the drivers compare) -/
def sameVdata (v : VS) (s : VSsetfields.St) : Bool :=
  s.vs_wlist_n == (v.w.n : Int) && s.vs_wlist_ivsize == (v.w.ivsize : Int) && s.vs_wlist_bptr == wBptr v.w && s.vs_wlist_name == wNames v.w &&
  s.vs_wlist_bptr_null == v.w.fields.isEmpty && s.vs_wlist_name_null == v.w.fields.isEmpty &&
  s.vs_usym_name == nameRows v.usym && s.vs_usym_type == typeCol v.usym && s.vs_usym_isize == isizeCol v.usym &&
  s.vs_usym_order == orderCol v.usym && s.vs_nusym == (v.usym.length : Int) && s.vs_nvertices == (v.nvertices : Int) &&
  s.vs_rlist_n == (v.rlist.length : Int) && s.vs_rlist_item.take v.rlist.length == v.rlist.map Int.ofNat

end H4.VsfldEnc
