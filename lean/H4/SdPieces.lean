import H4.Slab
import H4.Gen.SdBuf
/-! Model of the PIECEWISE loops of the SD data path (C03), `mfhdf/src/putget.c` `hdf_xdr_NCvdata`.

    The first `hdf_xdr_NCvdata(XDR_ENCODE)` on a data element that has no data yet (`elem_length <= 0`) writes, when fill values are
    wanted (`(handle->flags & NC_NOFILL) == 0 || isspecial == SPECIAL_COMP`),
      * the `where` bytes in front of the request as fill values   (`if (elem_length <= 0 && where > 0)`),
      * the request itself,
      * the `vp->len - (where + byte_count)` bytes behind it as fill values (`if (elem_length <= 0 && bytes_left > 0)`),
    all with consecutive `Hwrite`s on the new element (no `Hseek`).  The fill values go out in pieces of at most `MAX_SIZE` bytes
    (`H4.Gen.SdBuf.MAX_SIZE`, Tie A) by the loop

        chunk_size = MIN(buf_size, MAX_SIZE);
        do { Hwrite(vp->aid, chunk_size, write_buf); buf_size -= chunk_size; chunk_size = MIN(chunk_size, buf_size); } while (buf_size > 0);

    Every later request (the other runs of the same SDwritedata, later calls) finds `elem_length > 0` and is one `Hseek` + one `Hwrite`.
    Units are BYTES here (the run decomposition of `H4.Slab` is in elements).  Allocation failures (the "try half the size" loops
    around `SDIresizebuf`) are not modelled: the buffers are obtained at the first attempt. -/
namespace H4.SdPieces
open H4.Slab

/-- the `do … while (buf_size > 0)` loop: the lengths of the `Hwrite` calls.  `buf` = `buf_size`, `chunk` = `chunk_size`; the C's
    `int32` subtraction `buf_size -= chunk_size` ends the loop when it reaches or passes zero, and so does the truncated subtraction.
    `fuel` bounds the number of iterations. -/
def pieceLoop : Nat → Nat → Nat → List Nat
  | 0, _, _ => []
  | fuel + 1, buf, chunk =>
    chunk :: (if 0 < buf - chunk then pieceLoop fuel (buf - chunk) (min chunk (buf - chunk)) else [])

/-- the pieces written for `n > 0` bytes of fill values with piece size `P`: `chunk_size = MIN(buf_size, MAX_SIZE)`, then the loop -/
def pieces (P n : Nat) : List Nat := pieceLoop (n + 1) n (min n P)

/-- ... behind the guards `where > 0` / `bytes_left > 0` -/
def fillPieces (P n : Nat) : List Nat := if 0 < n then pieces P n else []

/-- consecutive writes of the given lengths from position `pos` on: `(position, length)` per `Hwrite` -/
def place : Nat → List Nat → List (Nat × Nat)
  | _, [] => []
  | pos, l :: ls => (pos, l) :: place (pos + l) ls

/-- the `Hwrite` calls `(position in the element, length)` of ONE `hdf_xdr_NCvdata(XDR_ENCODE)` for `bytes` bytes at byte `wher` of a
    fixed-size variable of `len` bytes.  `fresh`: the element has no data yet; `fill`: fill values are written. -/
def vdataWrites (P : Nat) (fresh fill : Bool) (len wher bytes : Nat) : List (Nat × Nat) :=
  if fresh && fill then
    place 0 (fillPieces P wher) ++ [(wher, bytes)] ++ place (wher + bytes) (fillPieces P (len - (wher + bytes)))
  else [(wher, bytes)]

/-- the requests `(element offset, element count)` one SDwritedata hands to `hdf_xdr_NCvdata`: `NCvario`'s runs, per `NCgenio` request when a stride is given -/
def reqRuns (shape start stride count : List Nat) : List (Nat × Nat) :=
  if stride.all (· == 1) then runs shape start count 0
  else (genioReqs start stride count).flatMap (fun r => runs shape r.1 r.2 0)

/-- the `Hwrite` calls of the FIRST SDwritedata on a newly created fixed-size data set of element size `esz`: the first run meets the empty
    element, the others an element of full length -/
def firstWriteLog (P esz : Nat) (fill : Bool) (shape start stride count : List Nat) : List (Nat × Nat) :=
  match reqRuns shape start stride count with
  | [] => []
  | r :: rest => vdataWrites P true fill (prod shape * esz) (r.1 * esz) (r.2 * esz) ++ rest.map (fun q => (q.1 * esz, q.2 * esz))

/-- `n` bytes of the fill buffer: the fill value `pat` (one element, `esz = pat.length` bytes) repeated (`HDmemfill` / `NC_arrayfill`) -/
def patBytes (pat : List UInt8) (n : Nat) : List UInt8 := (List.range n).map (fun j => pat.getD (j % pat.length) 0)

/-- the bytes of the element after the first `hdf_xdr_NCvdata` with fill values: every piece is a prefix of the one fill buffer -/
def firstImage (P : Nat) (pat data : List UInt8) (len wher : Nat) : List UInt8 :=
  (fillPieces P wher).flatMap (patBytes pat) ++ data ++ (fillPieces P (len - (wher + data.length))).flatMap (patBytes pat)

end H4.SdPieces
