import H4.Gen.Hdf
/-! Model of `GRIil_convert` (`hdf/src/mfgr.c`, C09): conversion of a raster image buffer of
    `W × H` pixels with `ncomp` components of `csz` bytes each between the three interlace schemes
    `MFGR_INTERLACE_PIXEL / LINE / COMPONENT`.

    Two layers:
    * closed-form address maps `ilAddr il W H ncomp (x, y, c)` (element index of a component in a buffer);
    * `convert`, an executable transcription of the C function: the `in_comp_ptr/out_comp_ptr`,
      `*_pixel_add`, `*_line_add` arrays become `List Nat` of byte offsets, and the three nested loops
      are `List.range n |>.foldl`, i.e. `for (i = 0; i < n; i++)` with the loop state threaded through.
    No Mathlib. Constants from `H4.Gen.Hdf` (Tie A). -/
namespace H4.Interlace
open H4.Gen.Hdf

abbrev Byte := UInt8

/-- `gr_interlace_t` -/
inductive Il where
  | pixel | line | component
deriving Repr, DecidableEq

/-- numeric value of the C enumerator (generated constants) -/
def Il.code : Il → Nat
  | .pixel => MFGR_INTERLACE_PIXEL
  | .line => MFGR_INTERLACE_LINE
  | .component => MFGR_INTERLACE_COMPONENT

def Il.ofCode (n : Nat) : Option Il :=
  if n = MFGR_INTERLACE_PIXEL then some .pixel
  else if n = MFGR_INTERLACE_LINE then some .line
  else if n = MFGR_INTERLACE_COMPONENT then some .component
  else none

/-- coordinates of one component value: column `x < W`, row `y < H`, component `c < ncomp` -/
structure Coord where
  x : Nat
  y : Nat
  c : Nat
deriving Repr, DecidableEq

def Coord.InRange (W H ncomp : Nat) (p : Coord) : Prop := p.x < W ∧ p.y < H ∧ p.c < ncomp

instance (W H ncomp : Nat) (p : Coord) : Decidable (p.InRange W H ncomp) := by
  unfold Coord.InRange; infer_instance

/-- closed-form element index of component `(x,y,c)` in a buffer with interlace `il`:
    PIXEL `(y·W + x)·ncomp + c`; LINE `(y·ncomp + c)·W + x`; COMPONENT `(c·H + y)·W + x`. -/
def ilAddr (il : Il) (W H ncomp : Nat) (p : Coord) : Nat :=
  match il with
  | .pixel => (p.y * W + p.x) * ncomp + p.c
  | .line => (p.y * ncomp + p.c) * W + p.x
  | .component => (p.c * H + p.y) * W + p.x

/-- inverse of `ilAddr il` on `[0, W·H·ncomp)` -/
def coordOf (il : Il) (W H ncomp : Nat) (a : Nat) : Coord :=
  match il with
  | .pixel => { c := a % ncomp, x := a / ncomp % W, y := a / ncomp / W }
  | .line => { x := a % W, c := a / W % ncomp, y := a / W / ncomp }
  | .component => { x := a % W, y := a / W % H, c := a / W / H }

/-! ### byte buffers -/

/-- `n` bytes of `b` from byte offset `off` (source operand of `memcpy`) -/
def slice (b : List Byte) (off n : Nat) : List Byte := (b.drop off).take n

/-- `memcpy(dst + off, src, |src|)` on a buffer that is long enough; bytes that would fall past the
    end of `dst` are dropped so that the length of `dst` never changes (a C buffer does not grow). -/
def blit (dst : List Byte) (off : Nat) (src : List Byte) : List Byte :=
  dst.take off ++ src.take (dst.length - off) ++ dst.drop (off + src.length)

/-! ### `GRIil_convert` -/

/-- the three per-component arrays set up by one `switch` of `GRIil_convert` (byte offsets) -/
structure Setup where
  ptr : List Nat      -- in_comp_ptr / out_comp_ptr  (offset from the buffer start)
  pixAdd : List Nat   -- in_pixel_add / out_pixel_add
  lineAdd : List Nat  -- in_line_add / out_line_add
deriving Repr

/-- `switch (inil)` / `switch (outil)` of `GRIil_convert`: `for (i = 0; i < ncomp; i++) {...}` -/
def setup (il : Il) (W H ncomp csz : Nat) : Setup :=
  let pixel_size := csz * ncomp
  match il with
  | .pixel =>
    { ptr := (List.range ncomp).map fun i => i * csz
      pixAdd := (List.range ncomp).map fun _ => pixel_size
      lineAdd := (List.range ncomp).map fun _ => 0 }
  | .line =>
    { ptr := (List.range ncomp).map fun i => i * W * csz
      pixAdd := (List.range ncomp).map fun _ => csz
      lineAdd := (List.range ncomp).map fun _ => (ncomp - 1) * W * csz }
  | .component =>
    { ptr := (List.range ncomp).map fun i => i * H * W * csz
      pixAdd := (List.range ncomp).map fun _ => csz
      lineAdd := (List.range ncomp).map fun _ => 0 }

/-- loop state of the "push pixels" loops -/
structure St where
  inp : List Nat     -- in_comp_ptr[]
  outp : List Nat    -- out_comp_ptr[]
  out : List Byte    -- contents of outbuf
deriving Repr

/-- body of `for (k = 0; k < ncomp; k++)`:
    `memcpy(out_comp_ptr[k], in_comp_ptr[k], comp_size); out_comp_ptr[k] += out_pixel_add[k]; in_comp_ptr[k] += in_pixel_add[k];` -/
def kBody (inb : List Byte) (csz : Nat) (ipa opa : List Nat) (s : St) (k : Nat) : St :=
  { out := blit s.out (s.outp.getD k 0) (slice inb (s.inp.getD k 0) csz)
    outp := s.outp.set k (s.outp.getD k 0 + opa.getD k 0)
    inp := s.inp.set k (s.inp.getD k 0 + ipa.getD k 0) }

/-- body of the wrap loop: `out_comp_ptr[k] += out_line_add[k]; in_comp_ptr[k] += in_line_add[k];` -/
def wrapBody (ila ola : List Nat) (s : St) (k : Nat) : St :=
  { s with
    outp := s.outp.set k (s.outp.getD k 0 + ola.getD k 0)
    inp := s.inp.set k (s.inp.getD k 0 + ila.getD k 0) }

/-- body of `for (j = 0; j < dims[XDIM]; j++)` -/
def jBody (inb : List Byte) (ncomp csz : Nat) (ipa opa : List Nat) (s : St) (_j : Nat) : St :=
  (List.range ncomp).foldl (kBody inb csz ipa opa) s

/-- body of `for (i = 0; i < dims[YDIM]; i++)`: the pixel loop, then
    `if (inil == MFGR_INTERLACE_LINE || outil == MFGR_INTERLACE_LINE)` the wrap loop -/
def iBody (inb : List Byte) (W ncomp csz : Nat) (i o : Setup) (wrap : Bool) (s : St) (_i : Nat) : St :=
  let s := (List.range W).foldl (jBody inb ncomp csz i.pixAdd o.pixAdd) s
  if wrap then (List.range ncomp).foldl (wrapBody i.lineAdd o.lineAdd) s else s

/-- `GRIil_convert(inbuf, inil, outbuf, outil, dims = {W, H}, ncomp, nt)` with
    `csz = DFKNTsize((nt | DFNT_NATIVE) & ~DFNT_LITEND)`; `outb` is the prior content of `outbuf`,
    the result its content on return. `inil == outil` is a single `memcpy` of `W·H·pixel_size` bytes. -/
def convert (a b : Il) (W H ncomp csz : Nat) (inb outb : List Byte) : List Byte :=
  if a = b then
    blit outb 0 (inb.take (W * H * (csz * ncomp)))
  else
    let i := setup a W H ncomp csz
    let o := setup b W H ncomp csz
    let wrap := decide (a = .line) || decide (b = .line)
    ((List.range H).foldl (iBody inb W ncomp csz i o wrap) { inp := i.ptr, outp := o.ptr, out := outb }).out

end H4.Interlace
