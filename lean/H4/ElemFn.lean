import H4.Elem
/-! The entry points of the element layer for EVERY `int32` argument (the model `H4.Elem` takes lengths as `Nat`), and the encoding of a model
    access record as the entry fields of the functions translated from `hdf/src/hfile.c` (unit `H4.Gen.Fn.Hfile2`).  Used by the refinement
    theorems `H4.Props.C01Fn*` and by the cross-run of driver `elem`.  Core only. -/
namespace H4.ElemFn
open H4.Elem H4.Gen.Hdf

/-- a C truth value (`TRUE` / `FALSE`) -/
def b2i (b : Bool) : Int := if b then 1 else 0

/-- the integer a C entry point returns for the model's result (`SUCCEED` = 0, `FAIL` = -1, a count) -/
def resCode : Res → Int
  | .ok => 0
  | .fail => -1
  | .num n => n
  | .data n _ => n
  | .info _ _ _ _ => 0
  | .crash => -2

/-- byte count `Hread` / the model's `hreadCore` hand to `HP_read` / `hpRead`: 0 = to the end, clipped at the end, 0 beyond the end -/
def readLen (a : Acc) (d : DD) (length : Int) : Int :=
  max 0 (if length = 0 ∨ length + a.posn > ddLen d then ddLen d - a.posn else length)

/-- position the model's `hseek` computes for an ordinary element -/
def seekOff (a : Acc) (d : DD) (offset : Int) (origin : Nat) : Int :=
  offset + (if origin = DF_CURRENT then (a.posn : Int) else 0) + (if origin = DF_END then ddLen d else 0)

/-- the value is an `int32` -/
def fits32 (x : Int) : Prop := -2147483648 ≤ x ∧ x ≤ 2147483647

instance (x : Int) : Decidable (fits32 x) := by unfold fits32; infer_instance

/-- `Hseek` for every `int32` offset and every `int` origin: a negative origin is none of `DF_START`, `DF_CURRENT`, `DF_END`; on an ordinary
    element a position `offset + posn` / `offset + length` that does not fit an `int32` is refused (7739a98), nothing changes -/
def hseekI (w : World) (h : Nat) (offset origin : Int) : World × Res :=
  if origin < 0 then (w, .fail) else
  match w.acc h with
  | none => (w, .fail)
  | some a =>
    if a.special = false ∧ origin.toNat ≤ 2 ∧ ¬ fits32 (seekOff a ((w.file a.file).dd a.slot) offset origin.toNat) then (w, .fail)
    else hseek w h offset origin.toNat

/-- `Htrunc` for every `int32` argument: a negative length is refused (20ed5b8), nothing changes -/
def htruncI (w : World) (h : Nat) (n : Int) : World × Res := if n < 0 then (w, .fail) else htrunc w h n.toNat

/-- `Hsetlength` for every `int32` argument: a negative length is refused by `HPgetdiskblock` after `HIrefresh_new` has run -/
def hsetlengthI (w : World) (h : Nat) (n : Int) : World × Res := if n < 0 then (w.refresh h, .fail) else hsetlength w h n.toNat

/-- `Hwrite` with a NEGATIVE length (the byte-list model covers lengths ≥ 0): refused - invalid id / no write access before `HIrefresh_new`,
    otherwise after it (a new element: `Hsetlength` is refused by `HPgetdiskblock`; one with a length: `length <= 0`).
    The special-element write functions are outside (`none`). -/
def hwriteNeg (w : World) (h : Nat) : Option (World × Res) :=
  match w.acc h with
  | none => some (w, .fail)
  | some a => if a.canWrite = false then some (w, .fail) else if a.special = true then none else some (w.refresh h, .fail)

end H4.ElemFn
