import H4.Gen.Bitvect
/-! # Model of `hdf/src/bitvect.c` (the per-tag "ref in use" bit-vector of the DD directory)

Follows the C branch by branch.  `bv_base` is `uint8`; a byte is a `Nat < 256` here.  The three static tables
`bv_bit_value`, `bv_bit_mask`, `bv_first_zero` are the ones generated from the source (`H4.Gen.Bitvect`).
Only what `hfiledd.c` uses is modelled: `bv_new(-1)`, `bv_set`, `bv_get`, `bv_find_next_zero`
(`malloc`/`realloc` failures are out of scope). Core-only (no Mathlib): the driver links this. -/
namespace H4.Bitvect
open H4.Gen.Bitvect

/-- `struct bv_struct_tag` -/
structure BV where
  /-- `bits_used` -/
  bitsUsed : Nat
  /-- `array_size` (number of `bv_base` elements) -/
  arraySize : Nat
  /-- `last_zero` (an `int32` that is never negative) -/
  lastZero : Nat
  /-- `buffer` -/
  buf : List Nat
  deriving Repr, DecidableEq, Inhabited

/-- `bv_bit_value[k]` -/
def bitValue (k : Nat) : Nat := bv_bit_value.getD k 0
/-- `bv_bit_mask[n]` -/
def bitMask (n : Nat) : Nat := bv_bit_mask.getD n 0
/-- `bv_first_zero[x]` -/
def firstZero (x : Nat) : Nat := bv_first_zero.getD x 0

/-- `bv_new(-1)`: `num_bits = BV_DEFAULT_BITS`, buffer of whole chunks, all zero, `last_zero = 0`. -/
def BV.new : BV :=
  let numBits := BV_DEFAULT_BITS
  let baseElements := if numBits % BV_BASE_BITS > 0 then numBits / BV_BASE_BITS + 1 else numBits / BV_BASE_BITS
  let arraySize := (baseElements / BV_CHUNK_SIZE + 1) * BV_CHUNK_SIZE
  { bitsUsed := numBits, arraySize := arraySize, lastZero := 0, buf := List.replicate arraySize 0 }

/-- the growing part of `bv_set` (`if (bit_num >= b->bits_used) {...}`) -/
def BV.grow (b : BV) (bitNum : Nat) : BV :=
  let baseElem := bitNum / BV_BASE_BITS
  if bitNum ≥ b.bitsUsed then
    if baseElem < b.arraySize then
      { b with bitsUsed := bitNum + 1 }
    else
      let numChunks := ((bitNum / BV_BASE_BITS + 1) - b.arraySize) / BV_CHUNK_SIZE + 1
      { b with buf := b.buf ++ List.replicate (numChunks * BV_CHUNK_SIZE) 0,
               arraySize := b.arraySize + numChunks * BV_CHUNK_SIZE,
               bitsUsed := bitNum + 1 }
  else b

/-- `bv_set(b, bit_num, value)` (`bit_num >= 0`). Clearing uses `&= ~bv_bit_value[bit]` on a `uint8`
    (= `&&& (255 - value)`), and lowers `last_zero`. -/
def BV.set (b : BV) (bitNum : Nat) (value : Bool) : BV :=
  let baseElem := bitNum / BV_BASE_BITS
  let bitElem := bitNum % BV_BASE_BITS
  let b := b.grow bitNum
  if value = false then
    { b with buf := b.buf.modify baseElem (fun x => x &&& (255 - bitValue bitElem)),
             lastZero := if baseElem < b.lastZero then baseElem else b.lastZero }
  else
    { b with buf := b.buf.modify baseElem (fun x => x ||| bitValue bitElem) }

/-- `bv_get(b, bit_num)`: `BV_FALSE` (0) beyond `bits_used`, else `(buffer[base] & value[bit]) >> bit`. -/
def BV.get (b : BV) (bitNum : Nat) : Nat :=
  if bitNum ≥ b.bitsUsed then 0
  else
    let baseElem := bitNum / BV_BASE_BITS
    let bitElem := bitNum % BV_BASE_BITS
    ((b.buf.getD baseElem 0) &&& bitValue bitElem) >>> bitElem

/-- `while (i < bytes_used && *tmp_buf == 255) { i++; tmp_buf++; }`, `tmp_buf` walking the list -/
def skipFull : List Nat → Nat → Nat → Nat
  | [], i, _ => i
  | x :: xs, i, bytesUsed => if i < bytesUsed ∧ x = 255 then skipFull xs (i + 1) bytesUsed else i

/-- `bv_find_next_zero(b)`: returns the bit offset and the updated vector (`last_zero` cache, possibly one more bit in use). -/
def BV.findNextZero (b : BV) : Nat × BV :=
  let bytesUsed := b.bitsUsed / BV_BASE_BITS
  let i := skipFull (b.buf.drop b.lastZero) b.lastZero bytesUsed
  if i < bytesUsed then
    (i * BV_BASE_BITS + firstZero (b.buf.getD i 0), { b with lastZero := i })
  else
    let slush := (b.buf.getD i 0) &&& bitMask (b.bitsUsed - bytesUsed * BV_BASE_BITS)
    if bytesUsed * BV_BASE_BITS < b.bitsUsed ∧ slush ≠ 255 then
      (i * BV_BASE_BITS + firstZero slush, { b with lastZero := i })
    else
      -- beyond the current end of the bit-vector: extend it by one (zero) bit
      (b.bitsUsed, b.set b.bitsUsed false)

end H4.Bitvect
