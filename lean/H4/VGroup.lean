import H4.Gen.Hdf
/-! Model of the Vgroup layer (C08): `hdf/src/vgp.c` (member arrays, record codec, attach/detach,
    iteration) and `hdf/src/vg.c` (`Vlone`, `VSlone`, `Vfind`, `Vfindclass`).

    Three levels, all executable and core-only:
    * `Mem`     – the `tag[]`/`ref[]` arrays of `VGROUP` with `nvelt : uint16` and `msize : int`
                  (the two parallel arrays are always (re)allocated together with the same size, so they are
                  kept as ONE list of `(tag, ref)` cells of length `msize`);
    * `VG`      – the persistent content of a Vgroup and the `DFTAG_VG` record codec `vpackvg`/`vunpackvg`;
    * `File`    – the per-file tables of `vfile_t` (`vgtree`, `vstree`), the `DFTAG_VG` elements on disk,
                  and the attach handles; `step : File → Op → File × Out`.
    `Graph`/`gstep` is the reference graph model the property is stated against (no arrays, no marks, no disk).
    Constants come from `H4.Gen.Hdf` (Tie A). -/
namespace H4.VGroup
open H4.Gen.Hdf

abbrev Byte := UInt8
abbrev Bytes := List Byte
/-- a member: `(tag, ref)`, both `uint16` -/
abbrev Pair := Nat × Nat

/-! ## 1. member arrays -/

/-- `VGROUP.{nvelt, msize, tag, ref}`. `arr` has `msize` cells; only the first `nvelt` are meaningful. -/
structure Mem where
  nvelt : Nat
  msize : Nat
  arr : List Pair
deriving Repr, DecidableEq

/-- `Vattach(f,-1,"w")`: `msize = MAXNVELT`, two fresh `malloc`s (content indeterminate; modelled as zeros) -/
def Mem.fresh : Mem := ⟨0, MAXNVELT, List.replicate MAXNVELT (0, 0)⟩

/-- the abstraction: the ordered member list -/
def Mem.members (m : Mem) : List Pair := m.arr.take m.nvelt

/-- representation invariant of the arrays -/
def Mem.OK (m : Mem) : Prop := m.arr.length = m.msize ∧ m.nvelt ≤ m.msize ∧ 0 < m.msize ∧ m.nvelt < 65536

instance (m : Mem) : Decidable m.OK := by unfold Mem.OK; infer_instance

/-- the growth step of `vinsertpair`: `if ((int)vg->nvelt >= vg->msize) { vg->msize *= 2; realloc; realloc }` -/
def Mem.grow (m : Mem) : Mem :=
  if m.nvelt ≥ m.msize then { m with msize := 2 * m.msize, arr := m.arr ++ List.replicate m.msize (0, 0) } else m

/-- `vinsertpair` (as fixed by /repo dc883d2): `if (vg->nvelt == MAX_REF) FAIL` — the 16-bit member counter is never
    wrapped; otherwise grow if full, store at index `nvelt`, `vg->nvelt++`, return `(int32)vg->nvelt`.
    `none` = FAIL (the Vgroup is left untouched, not even marked).
    History: before dc883d2 the 65536th insertion wrapped `nvelt` to 0 and the Vgroup silently lost its members
    (finding F12, rediscovered and proved on the old model as `nvelt_wrap_loses_members`). -/
def vinsertpair (m : Mem) (t r : Nat) : Option (Mem × Nat) :=
  if m.nvelt = MAX_REF then none else
  let m1 := m.grow
  let m2 := { m1 with arr := m1.arr.set m1.nvelt (t, r), nvelt := (m1.nvelt + 1) % 65536 }
  some (m2, m2.nvelt)

/-- `Vdeletetagref`: first index `i < nvelt` with matching tag and ref; shift the cells `i+1 .. nvelt-1` down by one,
    reset the last used cell to `(DFTAG_NULL, 0)`, `nvelt--`.  `none` = pair not found (`FAIL`). -/
def vdeletetagref (m : Mem) (t r : Nat) : Option Mem :=
  match List.idxOf? (t, r) m.members with
  | none => none
  | some i => some { m with arr := m.members.eraseIdx i ++ (DFTAG_NULL, 0) :: m.arr.drop m.nvelt, nvelt := m.nvelt - 1 }

/-- `Vinqtagref`: linear scan of the first `nvelt` cells -/
def vinqtagref (m : Mem) (t r : Nat) : Bool := m.members.contains (t, r)

/-- `Vntagrefs` -/
def vntagrefs (m : Mem) : Nat := m.nvelt

/-- `Vgettagrefs(vkey, tagarray, refarray, n)` for `n ≥ 0`: the first `min n nvelt` pairs -/
def vgettagrefs (m : Mem) (n : Nat) : List Pair := m.arr.take (min n m.nvelt)

/-- `Vgettagref(vkey, which, …)`: `which < 0 || which > nvelt - 1` is a range error -/
def vgettagref (m : Mem) (which : Int) : Option Pair :=
  if which < 0 ∨ which > (m.nvelt : Int) - 1 then none else m.arr[which.toNat]?

/-- `Vnrefs` -/
def vnrefs (m : Mem) (t : Nat) : Nat := (m.members.filter (fun p => p.1 == t)).length

def isVset (t : Nat) : Bool := t == DFTAG_VG || t == VSDESCTAG

/-- the scan loop of `Vgetnext`: the first cell that is a Vgroup/Vdata with ref `id` decides -/
def getnextLoop (id : Nat) : List Pair → Option Nat
  | [] => none
  | p :: rest =>
    if isVset p.1 && p.2 == id then
      match rest with
      | [] => none
      | q :: _ => if isVset q.1 then some q.2 else none
    else getnextLoop id rest

/-- `Vgetnext(vkey, id)` for `id ≥ -1` -/
def vgetnext (m : Mem) (id : Int) : Option Nat :=
  match m.members with
  | [] => none
  | p :: _ =>
    if id == -1 && isVset p.1 then some p.2
    else getnextLoop (id % 65536).toNat m.members   -- `(uint16)id`

/-! ## 2. the DFTAG_VG record -/

/-- persistent content of a Vgroup (what `vpackvg` stores) -/
structure VG where
  members : List Pair := []
  name : Option Bytes := none      -- `vgname` (`none` = NULL pointer)
  cls : Option Bytes := none       -- `vgclass`
  extag : Nat := 0
  exref : Nat := 0
  version : Nat := 0               -- `int16 version`, kept as its 16-bit pattern
  more : Nat := 0
  flags : Nat := 0                 -- `uint32 flags`
  attrs : List Pair := []          -- `alist[0 .. nattrs)`
deriving Repr, DecidableEq

/-- `UINT16ENCODE` (big endian); values ≥ 65536 are truncated exactly like the `(uint16)` casts -/
def u16 (n : Nat) : Bytes := [UInt8.ofNat (n / 256), UInt8.ofNat n]
/-- `UINT32ENCODE` / `INT32ENCODE` -/
def u32 (n : Nat) : Bytes := [UInt8.ofNat (n / 16777216), UInt8.ofNat (n / 65536), UInt8.ofNat (n / 256), UInt8.ofNat n]

/-- value of a 16-bit pattern read as `int16` -/
def toI16 (v : Nat) : Int := if v % 65536 < 32768 then (v % 65536 : Nat) else ((v % 65536 : Nat) : Int) - 65536

/-- `strlen` on a stored name (`NULL` counts as 0) then `(uint16)` cast, length prefix and the first `temp_len` bytes -/
def packStr (s : Option Bytes) : Bytes :=
  let l := (s.getD []).length % 65536
  u16 l ++ (s.getD []).take l

/-- the version field as `vpackvg` leaves it: `if (vg->flags) { if (vg->version < VSET_NEW_VERSION) vg->version = VSET_NEW_VERSION; …}` -/
def packVersion (g : VG) : Nat :=
  if g.flags ≠ 0 ∧ toI16 g.version < VSET_NEW_VERSION then VSET_NEW_VERSION else g.version

def packPairs (l : List Pair) : Bytes := l.flatMap (fun a => u16 a.1 ++ u16 a.2)

/-- does the record carry the 4-byte flags word?  Current code: `if (vg->flags)`.  With the proposed fix of finding 3
    (`fixed3`): also whenever the version written is VSET_NEW_VERSION, because that is what `vunpackvg` keys on. -/
def hasFlagsWord (fixed3 : Bool) (g : VG) : Bool :=
  g.flags != 0 || (fixed3 && toI16 g.version == VSET_NEW_VERSION)

/-- `vpackvg`: nvelt, tags, refs, name, class, extag, exref, [flags, [nattrs, alist]], version, more, and the
    historical extra byte (`*size = (bb - buf) + 1; *bb = 0`) -/
def vpackvgF (fixed3 : Bool) (g : VG) : Bytes :=
  u16 g.members.length ++ g.members.flatMap (fun p => u16 p.1) ++ g.members.flatMap (fun p => u16 p.2)
  ++ packStr g.name ++ packStr g.cls ++ u16 g.extag ++ u16 g.exref
  ++ (if hasFlagsWord fixed3 g then
        u32 g.flags ++ (if g.flags &&& VG_ATTR_SET ≠ 0 then u32 g.attrs.length ++ packPairs g.attrs else [])
      else [])
  ++ u16 (packVersion g) ++ u16 g.more ++ [0]

/-- the code as it is in /repo -/
def vpackvg (g : VG) : Bytes := vpackvgF false g

def getU16 : Bytes → Option (Nat × Bytes)
  | a :: b :: r => some (a.toNat * 256 + b.toNat, r)
  | _ => none

def getU32 : Bytes → Option (Nat × Bytes)
  | a :: b :: c :: d :: r => some (((a.toNat * 256 + b.toNat) * 256 + c.toNat) * 256 + d.toNat, r)
  | _ => none

def getU16s : Nat → Bytes → Option (List Nat × Bytes)
  | 0, r => some ([], r)
  | n + 1, r => match getU16 r with
    | none => none
    | some (x, r1) => match getU16s n r1 with
      | none => none
      | some (xs, r2) => some (x :: xs, r2)

def getPairs : Nat → Bytes → Option (List Pair × Bytes)
  | 0, r => some ([], r)
  | n + 1, r => match getU16 r with
    | none => none
    | some (x, r1) => match getU16 r1 with
      | none => none
      | some (y, r2) => match getPairs n r2 with
        | none => none
        | some (xs, r3) => some ((x, y) :: xs, r3)

/-- name/class field of `vunpackvg`: length 0 ⇒ NULL pointer; otherwise `HIstrncpy(dst, bb, len+1)`
    (stops at the first NUL byte) and `bb += len` -/
def getStr (r : Bytes) : Option (Option Bytes × Bytes) :=
  match getU16 r with
  | none => none
  | some (n, r1) =>
    if n = 0 then some (none, r1)
    else if r1.length < n then none
    else some (some ((r1.take n).takeWhile (· ≠ 0)), r1.drop n)

/-- `vunpackvg(vg, buf, len)`.  `none` = the C code would read outside `buf[0..len)` (or `malloc` of a negative
    `nattrs` fails).  version and more come from `buf[len-5 ..]`; a version > 4 leaves every other field zero. -/
def vunpackvg (buf : Bytes) : Option VG :=
  if buf.length < 5 then none else
  match getU16 (buf.drop (buf.length - 5)) with
  | none => none
  | some (version, t1) =>
  match getU16 t1 with
  | none => none
  | some (more, _) =>
  if toI16 version ≤ 4 then
    match getU16 buf with
    | none => none
    | some (n, r) =>
    match getU16s n r with
    | none => none
    | some (tags, r) =>
    match getU16s n r with
    | none => none
    | some (refs, r) =>
    match getStr r with
    | none => none
    | some (name, r) =>
    match getStr r with
    | none => none
    | some (cls, r) =>
    match getU16 r with
    | none => none
    | some (extag, r) =>
    match getU16 r with
    | none => none
    | some (exref, r) =>
    if toI16 version = VSET_NEW_VERSION then
      match getU32 r with
      | none => none
      | some (flags, r) =>
      if flags &&& VG_ATTR_SET ≠ 0 then
        match getU32 r with
        | none => none
        | some (na, r) =>
        if na ≥ 2147483648 then none else
        match getPairs na r with
        | none => none
        | some (al, _) =>
          some { members := tags.zip refs, name, cls, extag, exref, version, more, flags, attrs := al }
      else some { members := tags.zip refs, name, cls, extag, exref, version, more, flags, attrs := [] }
    else some { members := tags.zip refs, name, cls, extag, exref, version, more, flags := 0, attrs := [] }
  else some { version, more }

/-- a C string argument: the bytes before the first NUL -/
def cstr (s : Bytes) : Bytes := s.takeWhile (· ≠ 0)

/-- a name as it can sit in memory: a C string shorter than 65536 bytes (`some []` = `""`, `none` = NULL) -/
def NameMemOK (s : Option Bytes) : Prop :=
  match s with
  | none => True
  | some b => b.length < 65536 ∧ (0 : Byte) ∉ b

instance (s : Option Bytes) : Decidable (NameMemOK s) := by unfold NameMemOK; cases s <;> infer_instance

/-- a name the record can represent exactly: the empty string is stored like "no name" -/
def NameOK (s : Option Bytes) : Prop := NameMemOK s ∧ s ≠ some []

instance (s : Option Bytes) : Decidable (NameOK s) := by unfold NameOK; infer_instance

/-- what a name looks like after a trip through the file: `""` comes back as NULL -/
def normName : Option Bytes → Option Bytes
  | some [] => none
  | s => s

def VG.norm (g : VG) : VG := { g with name := normName g.name, cls := normName g.cls }

def PairOK (p : Pair) : Prop := p.1 < 65536 ∧ p.2 < 65536
instance (p : Pair) : Decidable (PairOK p) := by unfold PairOK; infer_instance

/-- `VG.WFmem` without the clause "no flags ⇒ not version 4": what the FIXED `vpackvg` stores without loss -/
def VG.WFfixmem (g : VG) : Prop :=
  g.members.length < 65536 ∧ (∀ p ∈ g.members, PairOK p) ∧
  NameMemOK g.name ∧ NameMemOK g.cls ∧ g.extag < 65536 ∧ g.exref < 65536 ∧ g.more < 65536 ∧
  g.version < 65536 ∧ toI16 g.version ≤ 4 ∧
  (g.flags ≠ 0 → g.version = VSET_NEW_VERSION) ∧
  g.flags < 4294967296 ∧
  (g.flags &&& VG_ATTR_SET ≠ 0 → g.attrs.length < 2147483648 ∧ ∀ p ∈ g.attrs, PairOK p) ∧
  (g.flags &&& VG_ATTR_SET = 0 → g.attrs = [])

instance (g : VG) : Decidable g.WFfixmem := by unfold VG.WFfixmem; infer_instance

def VG.WFfix (g : VG) : Prop := g.WFfixmem ∧ g.name ≠ some [] ∧ g.cls ≠ some []

instance (g : VG) : Decidable g.WFfix := by unfold VG.WFfix; infer_instance

/-- what `vpackvg` can store without loss, except that an empty name/class is stored like an absent one -/
def VG.WFmem (g : VG) : Prop :=
  g.members.length < 65536 ∧ (∀ p ∈ g.members, PairOK p) ∧
  NameMemOK g.name ∧ NameMemOK g.cls ∧ g.extag < 65536 ∧ g.exref < 65536 ∧ g.more < 65536 ∧
  g.version < 65536 ∧ toI16 g.version ≤ 4 ∧
  (g.flags ≠ 0 → g.version = VSET_NEW_VERSION) ∧ (g.flags = 0 → g.version ≠ VSET_NEW_VERSION) ∧
  g.flags < 4294967296 ∧
  (g.flags &&& VG_ATTR_SET ≠ 0 → g.attrs.length < 2147483648 ∧ ∀ p ∈ g.attrs, PairOK p) ∧
  (g.flags &&& VG_ATTR_SET = 0 → g.attrs = [])

instance (g : VG) : Decidable g.WFmem := by unfold VG.WFmem; infer_instance

/-- well-formed persistent Vgroup: everything `vpackvg` can store without loss -/
def VG.WF (g : VG) : Prop := g.WFmem ∧ g.name ≠ some [] ∧ g.cls ≠ some []

instance (g : VG) : Decidable g.WF := by unfold VG.WF; infer_instance

/-! ## 3. in-memory Vgroup (`VGROUP` + `vginstance_t`) -/

def accR : Nat := 114   -- 'r'
def accW : Nat := 119   -- 'w'

structure VGroup where
  mem : Mem := Mem.fresh
  name : Option Bytes := none
  cls : Option Bytes := none
  extag : Nat := 0
  exref : Nat := 0
  version : Nat := VSET_VERSION
  more : Nat := 0
  flags : Nat := 0
  attrs : List Pair := []
  access : Nat := accW
  marked : Bool := true
  newvg : Bool := true
  nattach : Nat := 1
deriving Repr, DecidableEq

def VGroup.toVG (g : VGroup) : VG :=
  { members := g.mem.members, name := g.name, cls := g.cls, extag := g.extag, exref := g.exref,
    version := g.version, more := g.more, flags := g.flags, attrs := g.attrs }

/-- `VPgetinfo`/`vunpackvg` into a zeroed node: `msize = max nvelt MAXNVELT`, fresh arrays, not attached -/
def VGroup.ofVG (v : VG) : VGroup :=
  let n := v.members.length
  let ms := if n > MAXNVELT then n else MAXNVELT
  { mem := ⟨n, ms, v.members ++ List.replicate (ms - n) (0, 0)⟩, name := v.name, cls := v.cls, extag := v.extag,
    exref := v.exref, version := v.version, more := v.more, flags := v.flags, attrs := v.attrs,
    access := 0, marked := false, newvg := false, nattach := 0 }

/-! ## 4. sorted association lists (the TBBTs keyed by ref, the DD list of DFTAG_VG) -/

def alook {α} (k : Nat) : List (Nat × α) → Option α
  | [] => none
  | (k', v) :: r => if k' = k then some v else alook k r

/-- insert or replace, keeping ascending key order -/
def ains {α} (k : Nat) (v : α) : List (Nat × α) → List (Nat × α)
  | [] => [(k, v)]
  | (k', v') :: r => if k < k' then (k, v) :: (k', v') :: r else if k = k' then (k, v) :: r else (k', v') :: ains k v r

def adel {α} (k : Nat) (l : List (Nat × α)) : List (Nat × α) := l.filter (fun p => p.1 != k)

/-- remove the first entry with key `k` -/
def adel1 {α} (k : Nat) : List (Nat × α) → List (Nat × α)
  | [] => []
  | (k', v) :: r => if k' = k then r else (k', v) :: adel1 k r

/-- replace the value at an existing key -/
def aset {α} (k : Nat) (v : α) (l : List (Nat × α)) : List (Nat × α) := l.map (fun p => if p.1 = k then (k, v) else p)

def akeys {α} (l : List (Nat × α)) : List Nat := l.map (·.1)

/-- ascending insertion into a list of refs -/
def nins (k : Nat) : List Nat → List Nat
  | [] => [k]
  | k' :: r => if k < k' then k :: k' :: r else if k = k' then k' :: r else k' :: nins k r

/-! ## 5. the file -/

structure File where
  vgs : List (Nat × VGroup) := []     -- `vf->vgtree` in key (= ref) order
  vds : List Nat := []                -- `vf->vstree`: refs of the Vdatas (stubs), ascending
  disk : List (Nat × Bytes) := []     -- the DFTAG_VG data elements of the file
  slots : List (Nat × Nat) := []      -- live attach handles (harness slot ↦ Vgroup ref)
  fixed3 : Bool := false              -- configuration: the library under test has the finding-3 fix of `vpackvg`
deriving Repr

inductive Out where
  | fail | ok | bad
  | int (i : Int)
  | pairs (l : List Pair)
  | bytes (b : Bytes)
  | nats (l : List Nat)
deriving Repr, DecidableEq

inductive Op where
  | new (slot ref : Nat)                 -- `Vattach(f, -1, "w")` returned a handle whose ref is `ref`
  | attach (slot ref : Nat) (w : Bool)   -- `Vattach(f, ref, "r"/"w")`
  | detach (slot : Nat)                  -- `Vdetach`
  | setname (slot : Nat) (s : Bytes)
  | setclass (slot : Nat) (s : Bytes)
  | addtagref (slot tag ref : Nat)
  | insertvg (slot slot2 : Nat)          -- `Vinsert(h, h2)` with a Vgroup handle
  | insertvs (slot vsref : Nat)          -- `VSattach(f, vsref, "r")`, `Vinsert`, `VSdetach`
  | deltagref (slot tag ref : Nat)
  | setattr (slot vsref : Nat)           -- `Vsetattr` with a new attribute name; `vsref` = ref of the attribute Vdata created
  | vdelete (ref : Nat)
  | vsdelete (ref : Nat)
  | vsnew (ref : Nat)                    -- a Vdata with ref `ref` was created and detached
  | reopen                               -- `Vend; Hclose; Hopen; Vstart`
  | ntagrefs (slot : Nat)
  | inq (slot tag ref : Nat)
  | gettagrefs (slot n : Nat)
  | gettagref (slot : Nat) (i : Int)
  | nrefs (slot tag : Nat)
  | getname (slot : Nat)
  | getclass (slot : Nat)
  | getnamelen (slot : Nat)
  | getclasslen (slot : Nat)
  | getid (id : Int)
  | getnext (slot : Nat) (id : Int)
  | vsgetid (id : Int)
  | vlone
  | vslone
  | find (s : Bytes)
  | findclass (s : Bytes)
deriving Repr, DecidableEq

/-- what `Vdetach` does to a marked Vgroup: `vpackvg` (which may bump the version), `Hputelement`, clear the marks -/
def flushVG (fx : Bool) (disk : List (Nat × Bytes)) (r : Nat) (g : VGroup) : List (Nat × Bytes) × VGroup :=
  if g.marked then
    (ains r (vpackvgF fx g.toVG) disk, { g with version := packVersion g.toVG, marked := false, newvg := false })
  else (disk, g)

/-- `Vattach(f, ref, "r")` immediately followed by `Vdetach` on one Vgroup (the body of the loops in `Vlone`/`VSlone`) -/
def touchVG (fx : Bool) (disk : List (Nat × Bytes)) (r : Nat) (g : VGroup) : List (Nat × Bytes) × VGroup :=
  if g.nattach > 0 then flushVG fx disk r { g with access := max g.access accR }
  else (disk, { g with access := accR, marked := false })

def touchAll (fx : Bool) : List (Nat × Bytes) → List (Nat × VGroup) → List (Nat × Bytes) × List (Nat × VGroup)
  | disk, [] => (disk, [])
  | disk, (r, g) :: rest =>
    let p1 := touchVG fx disk r g
    let p2 := touchAll fx p1.1 rest
    (p2.1, (r, p1.2) :: p2.2)

/-- run `k` on the Vgroup behind a handle; `fail` for a stale handle -/
def withSlotG {β} (vgs : List (Nat × β)) (slots : List (Nat × Nat)) (slot : Nat) (k : β → β × Out) :
    List (Nat × β) × Out :=
  match alook slot slots with
  | none => (vgs, .fail)
  | some r =>
    match alook r vgs with
    | none => (vgs, .bad)
    | some g => (aset r (k g).1 vgs, (k g).2)

def withSlot (s : File) (slot : Nat) (k : VGroup → VGroup × Out) : File × Out :=
  let r := withSlotG s.vgs s.slots slot k
  ({ s with vgs := r.1 }, r.2)

def nameOut (n : Option Bytes) : Out := .bytes (n.getD [])
def lenOut (n : Option Bytes) : Out := .int (((n.getD []).length % 65536 : Nat) : Int)

/-- the clearing loops of `Vlone` (tag = DFTAG_VG) / `VSlone` (tag = DFTAG_VH): start from the flagged refs and
    un-flag every ref that occurs with tag `t` in some Vgroup; the survivors are reported in ascending order -/
def loneOf {β} (mem : β → List Pair) (t : Nat) (flagged : List Nat) (vgs : List (Nat × β)) : List Nat :=
  flagged.filter (fun r => ! vgs.any (fun e => (mem e.2).contains (t, r)))

/-- `Vgetid`/`VSgetid` on an ascending list of refs -/
def getidIn (refs : List Nat) (id : Int) : Out :=
  if id < -1 then .fail
  else if id = -1 then (match refs with | [] => .fail | r :: _ => .int r)
  else match refs.dropWhile (fun (r : Nat) => decide ((r : Int) ≠ id)) with
    | _ :: nxt :: _ => .int nxt
    | _ => .fail

/-- `Vfind` / `Vfindclass`: first Vgroup (ascending ref) whose name/class is set and equals the argument; 0 if none -/
def findBy {β} (sel : β → Option Bytes) (s : Bytes) (vgs : List (Nat × β)) : Out :=
  match vgs.find? (fun e => sel e.2 == some (cstr s)) with
  | some e => .int e.1
  | none => .int 0

/-- `Load_vfile`: one instance per DFTAG_VG element, each read with `VPgetinfo`; any failure fails `Vstart` -/
def loadAll : List (Nat × Bytes) → Option (List (Nat × VGroup))
  | [] => some []
  | (r, b) :: rest =>
    match vunpackvg b, loadAll rest with
    | some v, some l => some ((r, VGroup.ofVG v) :: l)
    | _, _ => none

def step (s : File) : Op → File × Out
  | .new slot ref =>
    if ref = 0 ∨ ref ≥ 65536 ∨ (alook ref s.vgs).isSome ∨ (alook slot s.slots).isSome then (s, .bad)
    else ({ s with vgs := ains ref {} s.vgs, slots := (slot, ref) :: s.slots }, .int ref)
  | .attach slot ref w =>
    if (alook slot s.slots).isSome then (s, .bad) else
    match alook ref s.vgs with
    | none => (s, .fail)
    | some g =>
      let acc := if w then accW else accR
      let g' := if g.nattach > 0 then { g with access := max g.access acc, nattach := g.nattach + 1 }
                else { g with access := acc, marked := false, nattach := 1 }
      ({ s with vgs := aset ref g' s.vgs, slots := (slot, ref) :: s.slots }, .int ref)
  | .detach slot =>
    match alook slot s.slots with
    | none => (s, .fail)
    | some r =>
      match alook r s.vgs with
      | none => (s, .bad)
      | some g =>
        let p := flushVG s.fixed3 s.disk r g
        ({ s with vgs := aset r { p.2 with nattach := p.2.nattach - 1 } s.vgs, disk := p.1, slots := adel1 slot s.slots }, .ok)
  | .setname slot n => withSlot s slot fun g =>
      if g.access ≠ accW then (g, .fail) else ({ g with name := some (cstr n), marked := true }, .ok)
  | .setclass slot n => withSlot s slot fun g =>
      if g.access ≠ accW then (g, .fail) else ({ g with cls := some (cstr n), marked := true }, .ok)
  | .addtagref slot t r => withSlot s slot fun g =>
      if g.access ≠ accW then (g, .fail) else       -- `if (vg->access != 'w') HGOTO_ERROR(DFE_BADACC, FAIL)` (6287f87)
      match vinsertpair g.mem (t % 65536) (r % 65536) with
      | none => (g, .fail)
      | some p => ({ g with mem := p.1, marked := true }, .int p.2)
  | .insertvg slot slot2 =>
    match alook slot2 s.slots with
    | none => (s, .fail)
    | some r2 => withSlot s slot fun g =>
      if g.access ≠ accW then (g, .fail)
      else if g.mem.members.contains (DFTAG_VG, r2 % 65536) then (g, .fail)
      else
        match vinsertpair g.mem DFTAG_VG (r2 % 65536) with
        | none => (g, .fail)
        | some p => ({ g with mem := p.1, marked := true }, .int ((p.2 : Int) - 1))
  | .insertvs slot vsref =>
    if ¬ s.vds.contains vsref then (s, .fail) else
    withSlot s slot fun g =>
      if g.access ≠ accW then (g, .fail)
      else if g.mem.members.contains (DFTAG_VH, vsref % 65536) then (g, .fail)
      else
        match vinsertpair g.mem DFTAG_VH (vsref % 65536) with
        | none => (g, .fail)
        | some p => ({ g with mem := p.1, marked := true }, .int ((p.2 : Int) - 1))
  | .deltagref slot t r => withSlot s slot fun g =>
      if g.access ≠ accW then (g, .fail) else       -- 6287f87
      match vdeletetagref g.mem (t % 65536) (r % 65536) with
      | none => (g, .fail)
      | some m => ({ g with mem := m, marked := true }, .ok)
  | .setattr slot vsref =>
    match alook slot s.slots with
    | none => (s, .fail)
    | some r =>
      match alook r s.vgs with
      | none => (s, .bad)
      | some g =>
        if g.access ≠ accW then (s, .fail)
        else if g.attrs.any (fun a => ! s.vds.contains a.2) then (s, .fail)
        else if vsref = 0 ∨ vsref ≥ 65536 ∨ s.vds.contains vsref then (s, .bad)
        else
          let g' := { g with attrs := g.attrs ++ [(DFTAG_VH, vsref)], flags := g.flags ||| VG_ATTR_SET,
                             version := VSET_NEW_VERSION, marked := true }
          ({ s with vgs := aset r g' s.vgs, vds := nins vsref s.vds }, .ok)
  | .vdelete ref =>
    match alook ref s.vgs with
    | none => (s, .fail)
    | some _ =>
      ({ s with vgs := adel ref s.vgs, disk := adel ref s.disk },
        if (alook ref s.disk).isSome then .ok else .fail)
  | .vsdelete ref =>
    if s.vds.contains ref then ({ s with vds := s.vds.filter (· != ref) }, .ok) else (s, .fail)
  | .vsnew ref =>
    if ref = 0 ∨ ref ≥ 65536 ∨ s.vds.contains ref then (s, .bad) else ({ s with vds := nins ref s.vds }, .ok)
  | .reopen =>
    match loadAll s.disk with
    | none => ({ s with vgs := [], slots := [] }, .fail)
    | some l => ({ s with vgs := l, slots := [] }, .ok)
  | .ntagrefs slot => withSlot s slot fun g => (g, .int (vntagrefs g.mem))
  | .inq slot t r => withSlot s slot fun g => (g, .int (if vinqtagref g.mem (t % 65536) (r % 65536) then 1 else 0))
  | .gettagrefs slot n => withSlot s slot fun g => (g, .pairs (vgettagrefs g.mem n))
  | .gettagref slot i => withSlot s slot fun g =>
      (g, match vgettagref g.mem i with | none => .fail | some p => .pairs [p])
  | .nrefs slot t => withSlot s slot fun g => (g, .int (vnrefs g.mem (t % 65536)))
  | .getname slot => withSlot s slot fun g => (g, nameOut g.name)
  | .getclass slot => withSlot s slot fun g => (g, nameOut g.cls)
  | .getnamelen slot => withSlot s slot fun g => (g, lenOut g.name)
  | .getclasslen slot => withSlot s slot fun g => (g, lenOut g.cls)
  | .getid id => (s, getidIn (akeys s.vgs) id)
  | .getnext slot id => withSlot s slot fun g =>
      (g, if id < -1 then .fail else match vgetnext g.mem id with | none => .fail | some r => .int r)
  | .vsgetid id => (s, getidIn s.vds id)
  | .vlone =>
    let p := touchAll s.fixed3 s.disk s.vgs
    ({ s with vgs := p.2, disk := p.1 }, .nats (loneOf (·.mem.members) DFTAG_VG (akeys s.vgs) s.vgs))
  | .vslone =>
    let p := touchAll s.fixed3 s.disk s.vgs
    ({ s with vgs := p.2, disk := p.1 }, .nats (loneOf (·.mem.members) DFTAG_VH s.vds s.vgs))
  | .find n => (s, findBy (·.name) n s.vgs)
  | .findclass n => (s, findBy (·.cls) n s.vgs)

def run (s : File) : List Op → File × List Out
  | [] => (s, [])
  | op :: ops =>
    let r1 := step s op
    let r2 := run r1.1 ops
    (r2.1, r1.2 :: r2.2)

end H4.VGroup
