import H4.Slab
import H4.Interlace
import H4.Conv
import H4.Gen.Gr
/-! Model of the REGION / STRIDE / FILL machinery of the general raster interface (`hdf/src/mfgr.c`, C09):
    `GRwriteimage`, `GRreadimage`, `GRcreate`, `GRreqimageil`, `GRwritelut`/`GRreadlut`/`GRgetlutinfo`/`GRreqlutil`
    and the part of `GRend`/`GRstart` that the image state survives.

    Three layers.
    * **Pixel layer** (generic in the pixel type `α`, units are PIXELS – the C multiplies by `pixel_disk_size`
      at the very end): the raster data element (`DFTAG_RI`) is a `List α`, row-major: pixel `(x, y)` lives at
      `xdim*y + x = Slab.offset [H, W] [y, x]`.  The plain path of `GRwriteimage`/`GRreadimage` issues
      `Hseek/Hwrite|Hread` requests `(offset, length)` (`ioRuns`: whole-image fast path, one run per line of a
      solid block, one per pixel when sub-sampling; the `img_offset += …`/`local_offset += stride_add`
      accumulators are the accumulator arguments of the loops below).  The FIRST partial write of a new image
      does not seek at all: it emits the whole element front to back as a sequence of `Hwrite` calls whose
      source is either the caller's (converted) buffer or the `fill_line` buffer – that sequence is the
      `Seg` trace built by `firstSolid`/`firstStrided`, and `render` is the resulting element.
    * **Byte layer**: a pixel is `ncomp·csz` bytes; `GRwriteimage` = `GRIil_convert`(create-interlace → PIXEL)
      ∘ `DFKconvert` ∘ pixel-layer write, `GRreadimage` = pixel-layer read ∘ `DFKconvert` ∘ `GRIil_convert`
      (PIXEL → requested interlace), re-using `H4.Interlace.convert` and `H4.Conv.tr`.
    * **Palette**: only the 256×3 `uint8` pixel-interlaced shape is accepted by `GRwritelut`.

    * **Compression** (`GRsetcompress`) has no logical effect: a compressed element is always accessed through the
      `HBconvert` buffer – created by `GRsetcompress`, or, for a compressed image loaded from the file, because
      `GRIget_image_list` asks `GRIisspecial_type(...) == SPECIAL_COMP` – so every partial write is a read-modify-write of
      the whole element, flushed from offset 0 by `HBPcloseAID`; the model's element is that buffer.

    * **Several RI ids on one image** (`Book`, `Img`): `GRcreate` and every `GRselect` register an atom for the SAME
      `ri_info_t`; `access` counts them, `GRendaccess` closes the element's access id only when the last one goes. The C
      decides "the image has data" (`new_image` / `image_data`) from `img_tag/img_ref`, `data_modified` and `Hlength`;
      for a compressed image `Hlength` stays 0 until the access id is closed, so `data_modified` carries the decision
      while other ids keep the access id open. `Img.write`/`Img.read` take that decision from the bookkeeping, NOT from
      the logical element; `Props/C09Region.lean` proves the two always agree (`gr_ids_are_views`).

    `Variant` selects the source revision that is modelled.  `Variant.current` is the code as it is now
    (with `fix:` commits 9076f25 – selections outside the image are refused –, 80405e4 – a strided first
    write fills exactly the unwritten lines –, 50122da – images loaded from a file keep `fill_img` – and
    a7ec6cc – little-endian/native number types survive `GRend`).
    `Variant.legacy` is the code before those commits and is
    kept only for the historical counter-witnesses in `Props/C09Region.lean`.
    No Mathlib. -/
namespace H4.GRegion
open H4.Slab H4.Interlace

abbrev Byte := UInt8

/-- which revision of `mfgr.c` is modelled -/
structure Variant where
  /-- 9076f25: `start >= dim || count-1 > (dim-1-start)/stride` ⇒ `DFE_RANGE` in `GRwriteimage`/`GRreadimage` -/
  rangeCheck : Bool := true
  /-- 80405e4: sub-sampling fill branch: y-stride fill lines only between two selected rows + "lines above the block" -/
  f15Fixed : Bool := true
  /-- 50122da: `GRIget_image_list` sets `fill_img = TRUE` for images loaded from the file, so that the first
      partial write of an image created (without data) in an earlier session takes the fill path too -/
  lateFill : Bool := true
  /-- a7ec6cc: `GRIupdatemeta` records the machine subclass of a `DFNT_LITEND`/`DFNT_NATIVE` number type in the NT
      record (before: always class `DFNTC_BYTE`, so the flags were lost at `GRend`) -/
  ntFlagsKept : Bool := true
deriving Repr, DecidableEq

def Variant.current : Variant := {}
def Variant.legacy : Variant := { rangeCheck := false, f15Fixed := false, lateFill := false, ntFlagsKept := false }

/-- `start[2]`, `stride[2]`, `count[2]` of `GRwriteimage`/`GRreadimage` (`XDIM = 0`, `YDIM = 1`) -/
structure Req where
  sx : Nat
  sy : Nat
  tx : Nat
  ty : Nat
  cx : Nat
  cy : Nat
deriving Repr, DecidableEq

/-- the request as rank-2 `H4.Slab` vectors, slowest dimension (Y) first -/
def Req.start (r : Req) : List Nat := [r.sy, r.sx]
def Req.stride (r : Req) : List Nat := [r.ty, r.tx]
def Req.count (r : Req) : List Nat := [r.cy, r.cx]
/-- extents of the image as a `Slab` shape -/
def shape (W H : Nat) : List Nat := [H, W]

/-- "Sanity check the start, stride, and count args": `stride < 1 || count < 1` ⇒ `DFE_BADDIM`
    (negative starts cannot be expressed with `Nat`; the driver refuses them before calling the model) -/
def Req.sane (r : Req) : Bool := decide (1 ≤ r.tx) && decide (1 ≤ r.ty) && decide (1 ≤ r.cx) && decide (1 ≤ r.cy)

/-- the range check of 9076f25, written as in the C (division form, cannot overflow) -/
def Req.inImage (W H : Nat) (r : Req) : Bool :=
  !(decide (r.sx ≥ W) || decide (r.sy ≥ H) || decide (r.cx - 1 > (W - 1 - r.sx) / r.tx) ||
    decide (r.cy - 1 > (H - 1 - r.sy) / r.ty))

/-- `solid_block`: `stride[XDIM] == 1 && stride[YDIM] == 1` -/
def Req.solid (r : Req) : Bool := r.tx == 1 && r.ty == 1

/-- `whole_image`: solid block, start (0,0), count = (xdim, ydim) -/
def Req.whole (W H : Nat) (r : Req) : Bool := r.solid && r.sx == 0 && r.sy == 0 && r.cx == W && r.cy == H

/-! ## plain path: the `Hseek`/`Hwrite|Hread` requests -/

/-- `img_offset = (xdim * start[YDIM] + start[XDIM]) * pixel_disk_size` (in pixels) -/
def imgOffset (W : Nat) (r : Req) : Nat := W * r.sy + r.sx

/-- solid block: `for (i = 0; i < count[YDIM]; i++) { Hseek(img_offset); H…(pix_len); img_offset += xdim; }` -/
def solidLoop (W cx : Nat) : Nat → Nat → List (Nat × Nat)
  | 0, _ => []
  | n + 1, off => (off, cx) :: solidLoop W cx n (off + W)

/-- inner sub-sampling loop: `for (j …) { Hseek(local_offset); H…(pixel_disk_size); local_offset += stride_add; }` -/
def pixLoop (tx : Nat) : Nat → Nat → List (Nat × Nat)
  | 0, _ => []
  | n + 1, off => (off, 1) :: pixLoop tx n (off + tx)

/-- outer sub-sampling loop: `local_offset = img_offset; …; img_offset += xdim * stride[YDIM]` -/
def stridedLoop (W tx ty cx : Nat) : Nat → Nat → List (Nat × Nat)
  | 0, _ => []
  | n + 1, off => pixLoop tx cx off ++ stridedLoop W tx ty cx n (off + W * ty)

/-- the `(offset, length)` transfers of the plain path of `GRwriteimage`/`GRreadimage` -/
def ioRuns (W H : Nat) (r : Req) : List (Nat × Nat) :=
  if r.whole W H then [(0, r.cx * r.cy)]
  else if r.solid then solidLoop W r.cx r.cy (imgOffset W r)
  else stridedLoop W r.tx r.ty r.cx r.cy (imgOffset W r)

/-- pixel offsets touched, in transfer order (= order of the pixels in the caller's pixel-interlaced buffer) -/
def ioOffsets (W H : Nat) (r : Req) : List Nat := expandRuns (ioRuns W H r)

/-! ## first write of a new image: the `Hwrite` trace -/

/-- one `Hwrite` of the fill path -/
inductive Seg (α : Type) where
  /-- `Hwrite(img_aid, n * pixel_disk_size, fill_line)` -/
  | fill (n : Nat)
  /-- `Hwrite(img_aid, |vs| * pixel_disk_size, tmp_data)`; `tmp_data` advances by the same amount -/
  | data (vs : List α)
deriving Repr

def Seg.len {α} : Seg α → Nat
  | .fill n => n
  | .data vs => vs.length

/-- total number of pixels written by a trace -/
def slen {α} : List (Seg α) → Nat
  | [] => 0
  | s :: r => s.len + slen r

/-- content of the element after the trace (the access id starts at position 0 of an empty element and is
    never repositioned), `f` = the disk form of the fill pixel that `fill_line` is made of -/
def render {α} (f : α) : List (Seg α) → List α
  | [] => []
  | .fill n :: r => List.replicate n f ++ render f r
  | .data vs :: r => vs ++ render f r

/-- pixel offsets at which the caller's pixels land, `p` = position of the access id before the trace -/
def positions {α} : Nat → List (Seg α) → List Nat
  | _, [] => []
  | p, .fill n :: r => positions (p + n) r
  | p, .data vs :: r => List.range' p vs.length ++ positions (p + vs.length) r

/-- the caller's pixels in the order they are consumed -/
def dvals {α} : List (Seg α) → List α
  | [] => []
  | .fill _ :: r => dvals r
  | .data vs :: r => vs ++ dvals r

/-- `if (cond) Hwrite(…)` -/
def opt {α} (c : Bool) (s : Seg α) : List (Seg α) := if c then [s] else []

/-- `fill_lo_size`: `if (start[XDIM] > 0) fill_lo_size = pixel_disk_size * start[XDIM]` -/
def fillLo (r : Req) : Nat := if 0 < r.sx then r.sx else 0

/-- last selected column / row: `start + (count - 1) * stride` -/
def lastCol (r : Req) : Nat := r.sx + (r.cx - 1) * r.tx
def lastRow (r : Req) : Nat := r.sy + (r.cy - 1) * r.ty

/-- `fill_hi_size`: `if (lastCol + 1 < xdim) fill_hi_size = pixel_disk_size * (xdim - (lastCol + 1))` -/
def fillHi (W : Nat) (r : Req) : Nat := if lastCol r + 1 < W then W - (lastCol r + 1) else 0

/-- "write out lines below the block": `for (i = 0; i < start[YDIM]; i++) Hwrite(fill_line_size, fill_line)` -/
def linesBelow {α} (W : Nat) (r : Req) : List (Seg α) := List.replicate r.sy (.fill W)

/-- "write out lines above the block": `for (i = lastRow + 1; i < ydim; i++) Hwrite(fill_line_size, fill_line)` -/
def linesAbove {α} (W H : Nat) (r : Req) : List (Seg α) := List.replicate (H - (lastRow r + 1)) (.fill W)

/-- solid block, `fill_image`: `for (i …) { Hwrite(pix_len, tmp_data); if (hi+lo > 0 && i < count[YDIM]-1)
    Hwrite(hi+lo, fill_line); tmp_data += pix_len; }` – first argument = iterations left -/
def solidRows {α} (cx hl : Nat) : Nat → List α → List (Seg α)
  | 0, _ => []
  | n + 1, vals =>
    .data (vals.take cx) :: (opt (decide (0 < hl) && decide (n ≠ 0)) (.fill hl) ++ solidRows cx hl n (vals.drop cx))

/-- the trace of the solid-block fill branch of `GRwriteimage` -/
def firstSolid {α} (W H : Nat) (r : Req) (vals : List α) : List (Seg α) :=
  linesBelow W r ++ opt (decide (0 < fillLo r)) (.fill (fillLo r))
    ++ solidRows r.cx (fillHi W r + fillLo r) r.cy vals
    ++ opt (decide (0 < fillHi W r)) (.fill (fillHi W r)) ++ linesAbove W H r

/-- sub-sampling, `fill_image`, one row: `for (j …) { Hwrite(pixel_disk_size, tmp_data);
    if (fill_xdim && j < count[XDIM]-1) Hwrite(fill_stride_size, fill_line); tmp_data += pixel_disk_size; }` -/
def pixRun {α} (tx : Nat) : List α → List (Seg α)
  | [] => []
  | [v] => [.data [v]]
  | v :: w :: vs => .data [v] :: (opt (decide (1 < tx)) (.fill (tx - 1)) ++ pixRun tx (w :: vs))

/-- sub-sampling, `fill_image`, the row loop: pixels of the row, then "Fill in the y-dim stride lines"
    (`stride[YDIM]-1` writes of one `fill_line`; before 80405e4 also after the LAST selected row), then the
    wrap-around `hi+lo` write when another row follows -/
def stridedRows {α} (v : Variant) (W tx ty cx hl : Nat) : Nat → List α → List (Seg α)
  | 0, _ => []
  | n + 1, vals =>
    pixRun tx (vals.take cx)
      ++ (if decide (1 < ty) && (!v.f15Fixed || decide (n ≠ 0)) then List.replicate (ty - 1) (.fill W) else [])
      ++ opt (decide (0 < hl) && decide (n ≠ 0)) (.fill hl)
      ++ stridedRows v W tx ty cx hl n (vals.drop cx)

/-- the trace of the sub-sampling fill branch of `GRwriteimage` -/
def firstStrided {α} (v : Variant) (W H : Nat) (r : Req) (vals : List α) : List (Seg α) :=
  linesBelow W r ++ opt (decide (0 < fillLo r)) (.fill (fillLo r))
    ++ stridedRows v W r.tx r.ty r.cx (fillHi W r + fillLo r) r.cy vals
    ++ opt (decide (0 < fillHi W r)) (.fill (fillHi W r))
    ++ (if v.f15Fixed then linesAbove W H r else [])

/-- the `Hwrite` trace of the first partial write of a new image -/
def firstTrace {α} (v : Variant) (W H : Nat) (r : Req) (vals : List α) : List (Seg α) :=
  if r.solid then firstSolid W H r vals else firstStrided v W H r vals

/-! ## `GRwriteimage` / `GRreadimage`, pixel layer -/

/-- what the file holds for one image -/
structure Store (α : Type) where
  /-- the raster element; `none` = no image data yet: `new_image` / `!image_data`, i.e. no tag/ref, or nothing
      written in this session (`data_modified`) and `Hlength(img_tag, img_ref) <= 0`. The `data_modified` test makes the
      data of a compressed image count while they still sit in the `HBconvert` buffer, where `Hlength` does not see them. -/
  elem : Option (List α) := none
  /-- `ri_ptr->fill_img`: TRUE from `GRcreate`; for an image loaded from the file by `GRstart` TRUE since
      50122da, FALSE before -/
  fillImg : Bool := true
deriving Repr, DecidableEq

/-- `GRwriteimage(riid, start, stride, count, data)` with `data` already pixel-interlaced and in disk format,
    `f` = disk form of the fill pixel. `none` = `FAIL` (nothing changed). -/
def grWrite {α} (v : Variant) (W H : Nat) (f : α) (r : Req) (vals : List α) (st : Store α) : Option (Store α) :=
  if !r.sane then none
  else if v.rangeCheck && !r.inImage W H then none
  else if r.whole W H then
    -- `Hseek(img_aid, 0, DF_START); Hwrite(img_aid, pixel_disk_size * count[XDIM] * count[YDIM], img_data)`
    some { st with elem := some (vals ++ (st.elem.getD []).drop vals.length) }
  else
    match st.elem with
    | none =>
      if st.fillImg then some { st with elem := some (render f (firstTrace v W H r vals)) }
      else none  -- plain path on an empty, non-appendable element: `Hseek` past its end ⇒ DFE_SEEKERROR
    | some e =>
      if (ioOffsets W H r).all (· < e.length) then some { st with elem := some (writeAt e (ioOffsets W H r) vals) }
      else none

/-- `GRreadimage` up to the point where `img_data` holds the pixel-interlaced disk-format pixels.
    `inl n` = no image data: the caller gets `n` copies of the (memory form of the) fill pixel. -/
def grRead {α} (v : Variant) (W H : Nat) (d : α) (r : Req) (st : Store α) : Option (Nat ⊕ List α) :=
  if !r.sane then none
  else if v.rangeCheck && !r.inImage W H then none
  else
    match st.elem with
    | none => some (.inl (r.cx * r.cy))
    | some e =>
      if (ioOffsets W H r).all (· < e.length) then some (.inr (readAt d e (ioOffsets W H r))) else none

/-! ## several RI ids on one image: the bookkeeping behind "the image has data" -/

/-- the `ri_info_t` fields behind `new_image` (`GRwriteimage`) / `image_data` (`GRreadimage`). All RI ids of an image are
    atoms (`HAregister_atom(RIIDGROUP, ri_ptr)`) for the same `ri_info_t`: ids are views of ONE image state. -/
structure Book where
  /-- the open RI ids (handle names are chosen by the caller of the model). `ri_ptr->access` is their number: it is
      incremented exactly where an atom is registered (`GRcreate`, `GRselect`) and decremented where one is removed
      (`GRendaccess`) -/
  ids : List Nat := []
  /-- `img_tag`/`img_ref` assigned (`GRIgetaid`, `GRsetchunk`, or loaded from the RIG) -/
  tagSet : Bool := false
  /-- `img_aid != 0` -/
  aid : Bool := false
  /-- `acc_perm & DFACC_WRITE` of the open access id -/
  aidW : Bool := false
  /-- compressed element (`GRsetcompress`, `use_buf_drvr`; or loaded with `GRIisspecial_type == SPECIAL_COMP`): what is
      written stays in the coder's / `HBconvert` buffer – and the length in the compression header stays what it was –
      until the access id is closed (`HCPendaccess`/`HBPcloseAID`) -/
  buffered : Bool := false
  /-- data written through the open access id of a buffered element, not yet flushed -/
  pending : Bool := false
  /-- `Hlength(file, img_tag, img_ref) > 0` -/
  hlen : Bool := false
  /-- `ri_ptr->data_modified`: set by `GRwriteimage`, never cleared while the `ri_info_t` lives (`GRend` clears it just
      before freeing the record) -/
  dataModified : Bool := false
deriving Repr, DecidableEq

/-- `ri_ptr->access` -/
def Book.access (b : Book) : Nat := b.ids.length

/-- the C's `!new_image` (`GRwriteimage`) = `image_data` (`GRreadimage`):
    `!(img_tag == DFTAG_NULL || img_ref == DFREF_WILDCARD) && (data_modified == TRUE || Hlength(...) > 0)` -/
def Book.hasData (b : Book) : Bool := b.tagSet && (b.dataModified || b.hlen)

/-- `Hendaccess(ri_ptr->img_aid); ri_ptr->img_aid = 0`: a buffered element is flushed, its length becomes visible -/
def Book.closeAid (b : Book) : Book :=
  { b with aid := false, aidW := false, hlen := b.hlen || b.pending, pending := false }

/-- `GRIgetaid(ri_ptr, acc_perm)`: assigns tag/ref; "Close the old AID (which only had read permission)" when write
    access is wanted; opens the access id when there is none (`ri_ptr->comp_img` is only set inside `GRsetcompress`) -/
def Book.getaid (w : Bool) (b : Book) : Book :=
  let b1 := { b with tagSet := true }
  let b2 := if b1.aid && w && !b1.aidW then b1.closeAid else b1
  if b2.aid then b2 else { b2 with aid := true, aidW := w }

/-- end of a successful `GRwriteimage`: `data_modified = TRUE`; the bytes are in the file (plain, chunked: `Hlength > 0`)
    or in the buffer of the compressed element -/
def Book.wrote (b : Book) : Book :=
  { b with dataModified := true, pending := b.pending || b.buffered, hlen := b.hlen || !b.buffered }

/-- `GRselect(grid, index)` into handle `k`: `ri_ptr->access++; HAregister_atom`. `none`: the handle name is in use. -/
def Book.select (k : Nat) (b : Book) : Option Book :=
  if b.ids.contains k then none else some { b with ids := k :: b.ids }

/-- `GRendaccess(riid)`: `HAatom_object == NULL` ⇒ `DFE_RINOTFOUND` for an id that is not open; `access--`;
    `if (!(access > 0) && img_aid != 0) { Hendaccess(img_aid); img_aid = 0; }`; the atom is removed.
    `data_modified` is NOT touched. -/
def Book.endaccess (k : Nat) (b : Book) : Option Book :=
  if !b.ids.contains k then none
  else
    let b1 := { b with ids := b.ids.erase k }
    some (if b1.ids.isEmpty && b1.aid then b1.closeAid else b1)

/-- `GRsetcompress`: `use_buf_drvr` already set ⇒ `DFE_CANTMOD`; else `comp_img = TRUE; use_buf_drvr = 1;
    GRIgetaid(ri_ptr, DFACC_WRITE)` – with `comp_img` set that closes the access id and creates the compressed
    element (`HCcreate`, length 0 in its header until data are flushed) -/
def Book.setcompress (b : Book) : Option Book :=
  if b.buffered then none
  else
    let b1 := { b.closeAid with buffered := true, tagSet := true }
    some { b1 with aid := true, aidW := true }

/-- `GRsetchunk`: assigns tag/ref, `HMCcreate` (the chunked element exists: `Hlength > 0`), closes the old access id and
    keeps the new one -/
def Book.setchunk (b : Book) : Book :=
  { b.closeAid with tagSet := true, hlen := true, aid := true, aidW := true }

/-- every id released (the last `GRendaccess` closes the access id), `GRend`, `Hclose`; `Hopen`, `GRstart`:
    a fresh `ri_info_t` built by `GRIget_image_list` – tag/ref from the RIG, `data_modified = FALSE`, no id, no access id -/
def Book.reopened (b : Book) : Book :=
  { b.closeAid with ids := [], dataModified := false }

/-- one image, pixel layer: the logical element and the bookkeeping -/
structure Img (α : Type) where
  st : Store α := {}
  bk : Book := {}
deriving Repr

/-- the element as the library sees it: when the bookkeeping says "no data" the calls behave as for an image without
    data whatever the element holds (fill values are returned; a partial write streams a new fill-padded image).
    `gr_ids_are_views` shows the bookkeeping and the element never disagree, so this is the identity on every reachable
    state; on unreachable ones the exact bytes the C would produce depend on the position of the access id and are
    not modelled. -/
def Img.view {α} (im : Img α) : Store α := if im.bk.hasData then im.st else { im.st with elem := none }

/-- `GRwriteimage` through id `k`. `false` = `FAIL`. Order as in the C: id lookup, argument checks, `new_image` from the
    bookkeeping, `GRIgetaid(DFACC_WRITE)` (its effects stay when the transfer fails), the transfer, `data_modified`. -/
def Img.write {α} (v : Variant) (W H : Nat) (f : α) (k : Nat) (r : Req) (vals : List α) (im : Img α) : Img α × Bool :=
  if !im.bk.ids.contains k then (im, false)
  else if !r.sane || (v.rangeCheck && !r.inImage W H) then (im, false)
  else
    match grWrite v W H f r vals im.view with
    | none => ({ im with bk := im.bk.getaid true }, false)
    | some st' => ({ st := st', bk := (im.bk.getaid true).wrote }, true)

/-- `GRreadimage` through id `k`. `none` = `FAIL`. `image_data` from the bookkeeping; `GRIgetaid(DFACC_READ)` only when
    there is something to read. -/
def Img.read {α} (v : Variant) (W H : Nat) (d : α) (k : Nat) (r : Req) (im : Img α) : Img α × Option (Nat ⊕ List α) :=
  if !im.bk.ids.contains k then (im, none)
  else if !r.sane || (v.rangeCheck && !r.inImage W H) then (im, none)
  else ({ im with bk := if im.bk.hasData then im.bk.getaid false else im.bk }, grRead v W H d r im.view)

/-- `GRend … GRstart` at the pixel layer (`fill_img` of a loaded image: see `reopen`) -/
def Img.reopen {α} (v : Variant) (im : Img α) : Img α :=
  { st := { im.st with fillImg := v.lateFill }, bk := im.bk.reopened }

/-! ## byte layer -/

/-- split a byte string into `n`-byte pieces (`fuel` ≥ number of pieces) -/
def chunksAux (n : Nat) : Nat → List Byte → List (List Byte)
  | 0, _ => []
  | k + 1, bs => if bs.isEmpty then [] else bs.take n :: chunksAux n k (bs.drop n)

def chunks (n : Nat) (bs : List Byte) : List (List Byte) := chunksAux n bs.length bs

/-- contiguous `DFKconvert(src, dst, nt, num, acc, 0, 0)`: every `csz`-byte element copied or byte-reversed -/
def dfk (csz : Nat) (swap : Bool) (bs : List Byte) : List Byte := (chunks csz bs).flatMap (H4.Conv.tr swap)

/-- the in-memory record of one raster image (`ri_info_t`) plus its data -/
structure RI where
  W : Nat
  H : Nat
  ncomp : Nat
  /-- `img_dim.nt` -/
  nt : Nat
  /-- `DFKNTsize(nt)` (= size in memory for every number type on this host, see `H4.Gen.Conv.table`) -/
  csz : Nat
  /-- `DFKconvert` for this number type reverses the element bytes -/
  swap : Bool
  /-- `img_dim.il`: interlace given to `GRcreate` = layout of the buffers handed to `GRwriteimage` -/
  il : Il
  /-- `im_il`: interlace requested with `GRreqimageil` for `GRreadimage` results (reset to PIXEL by `GRstart`) -/
  imIl : Il := .pixel
  /-- value of the `FILL_ATTR` attribute, memory format, `ncomp·csz` bytes -/
  fill : Option (List Byte) := none
  st : Store (List Byte) := {}
  /-- ids / access id / `data_modified` bookkeeping of the image (`Book`) -/
  bk : Book := {}
  /-- palette: `lut_il` requested with `GRreqlutil`, and the `DFTAG_LUT` element -/
  lutIl : Il := .pixel
  lut : Option (List Byte) := none
  /-- `lut_dim.nt`: `DFNT_UINT8` when `GRwritelut` creates the palette, `DFNT_UCHAR8` when loaded from the file -/
  lutNt : Nat := H4.Gen.Hdf.DFNT_UINT8
deriving Repr

def RI.psz (ri : RI) : Nat := ri.ncomp * ri.csz

/-- `fill_pixel` in memory form: the attribute value, or all-zero components -/
def RI.fillMem (ri : RI) : List Byte := ri.fill.getD (List.replicate ri.psz 0)

/-- `fill_pixel` in disk form (`DFKconvert(fill_value, fill_pixel, nt, ncomps, DFACC_WRITE, 0, 0)`) -/
def RI.fillDisk (ri : RI) : List Byte := dfk ri.csz ri.swap ri.fillMem

/-- `GRwriteimage`: `GRIil_convert(data, img_dim.il, pixel_buf, PIXEL, count, …)` when the create interlace
    is not PIXEL, `DFKconvert(…, DFACC_WRITE)`, then the region write. `none` = `FAIL`. -/
def GRwriteimage (v : Variant) (ri : RI) (r : Req) (data : List Byte) : Option RI :=
  let pixelBuf :=
    if ri.il ≠ .pixel then convert ri.il .pixel r.cx r.cy ri.ncomp ri.csz data (List.replicate data.length 0) else data
  let imgData := dfk ri.csz ri.swap pixelBuf
  (grWrite v ri.W ri.H ri.fillDisk r (chunks ri.psz imgData) ri.st).map fun st => { ri with st := st }

/-- the caller's buffer after the read and `DFKconvert(…, DFACC_READ)`, still pixel-interlaced -/
def readPixelBuf (v : Variant) (ri : RI) (r : Req) : Option (List Byte) :=
  (grRead v ri.W ri.H [] r ri.st).map fun
    | .inl n => (List.replicate n ri.fillMem).flatten       -- `HDmemfill(data, fill_pixel, pixel_mem_size, count)`
    | .inr px => dfk ri.csz ri.swap px.flatten

/-- `GRreadimage`: …then `GRIil_convert(data, PIXEL, pixel_buf, im_il, count, …)` + `memcpy` back when the
    requested interlace is not PIXEL. `none` = `FAIL`. -/
def GRreadimage (v : Variant) (ri : RI) (r : Req) : Option (List Byte) :=
  (readPixelBuf v ri r).map fun buf =>
    if ri.imIl ≠ .pixel then convert .pixel ri.imIl r.cx r.cy ri.ncomp ri.csz buf (List.replicate buf.length 0) else buf

/-- the image record with the element as the library sees it (`Img.view`) -/
def RI.view (ri : RI) : RI := { ri with st := (Img.mk ri.st ri.bk).view }

/-- `GRwriteimage(riid_k, …)`: byte layer of `Img.write` (same order of checks and effects) -/
def GRwriteimageId (v : Variant) (ri : RI) (k : Nat) (r : Req) (data : List Byte) : RI × Bool :=
  if !ri.bk.ids.contains k then (ri, false)
  else if !r.sane || (v.rangeCheck && !r.inImage ri.W ri.H) then (ri, false)
  else
    match GRwriteimage v ri.view r data with
    | none => ({ ri with bk := ri.bk.getaid true }, false)
    | some ri' => ({ ri' with bk := (ri.bk.getaid true).wrote }, true)

/-- `GRreadimage(riid_k, …)`: byte layer of `Img.read` -/
def GRreadimageId (v : Variant) (ri : RI) (k : Nat) (r : Req) : RI × Option (List Byte) :=
  if !ri.bk.ids.contains k then (ri, none)
  else if !r.sane || (v.rangeCheck && !r.inImage ri.W ri.H) then (ri, none)
  else ({ ri with bk := if ri.bk.hasData then ri.bk.getaid false else ri.bk }, GRreadimage v ri.view r)

/-- `GRreqimageil(riid, il)` -/
def GRreqimageil (ri : RI) (il : Il) : RI := { ri with imIl := il }

/-- `DFKgetPNSC(nt, DF_MT)`: machine subclass of a number type on this host (generated table) -/
def pnsc (nt : Nat) : Nat :=
  ((H4.Gen.Gr.NT_CODES.zip H4.Gen.Gr.NT_PNSC).find? (fun r => r.1 == nt % 256)).elim 0 (·.2)

def isNative (nt : Nat) : Bool := nt / H4.Gen.Hdf.DFNT_NATIVE % 2 == 1
def isLitend (nt : Nat) : Bool := nt / H4.Gen.Hdf.DFNT_LITEND % 2 == 1

/-- `ntstring[1]`, `ntstring[3]` written by `GRIupdatemeta`: `(uint8)nt` and the class – since a7ec6cc
    `DFKisnativeNT(nt) ? DFKgetPNSC(nt, DF_MT) : (DFKislitendNT(nt) ? DFNTF_PC : DFNTC_BYTE)` -/
def ntRecord (v : Variant) (nt : Nat) : Nat × Nat :=
  (nt % 256,
   if !v.ntFlagsKept then H4.Gen.Gr.DFNTC_BYTE
   else if isNative nt then pnsc nt else if isLitend nt then H4.Gen.Gr.DFNTF_PC else H4.Gen.Gr.DFNTC_BYTE)

/-- the number type `GRIget_image_list` reconstructs from the NT record: an unknown class leaves the plain
    code; otherwise "native or little endian": class ≠ `DFNTF_PC` ⇒ `|= DFNT_NATIVE`, else `|= DFNT_LITEND`
    (on a little-endian host the subclass of a native integer/float IS `DFNTF_PC`, so it comes back as LITEND) -/
def ntLoad (code cls : Nat) : Nat :=
  if cls ≠ H4.Gen.Gr.DFNTF_HDFDEFAULT ∧ cls ≠ H4.Gen.Gr.DFNTF_PC ∧ cls ≠ pnsc code then code
  else if cls ≠ H4.Gen.Gr.DFNTF_HDFDEFAULT then
    (if cls ≠ H4.Gen.Gr.DFNTF_PC then code + H4.Gen.Hdf.DFNT_NATIVE else code + H4.Gen.Hdf.DFNT_LITEND)
  else code

/-- what survives `GRendaccess; GRend; Hclose; Hopen; GRstart; GRselect`: dimensions, component count, `FILL_ATTR`,
    the data element and the palette.
    * the requested interlaces `im_il`, `lut_il` are reset to PIXEL;
    * `img_dim.il` comes back as PIXEL (`GRIupdatemeta`: "all data is written out in 'pixel' interlace, so force the
      interlace stored on disk to match"): the interlace given to `GRcreate` describes that session's write buffers;
    * the number type goes through the NT record (`ntRecord`, `ntLoad`);
    * `fill_img` of a loaded image is `lateFill`; the palette's number type is reported as `DFNT_UCHAR8`;
    * no RI id survives, `data_modified` starts FALSE again (`Book.reopened`). -/
def reopen (v : Variant) (ri : RI) : RI :=
  let rec_ := ntRecord v ri.nt
  let nt' := ntLoad rec_.1 rec_.2
  let (csz', swap') := (H4.Conv.lookup nt').getD (ri.csz, ri.swap)
  { ri with nt := nt', csz := csz', swap := swap', il := .pixel, imIl := .pixel, lutIl := .pixel,
            st := { ri.st with fillImg := v.lateFill }, bk := ri.bk.reopened,
            lutNt := if ri.lut.isSome then H4.Gen.Hdf.DFNT_UCHAR8 else ri.lutNt }

/-- `GRsetchunk`: `HMCcreate(…, fill value = disk fill pixel, …)`: the element exists from now on
    (`Hlength > 0`) and every pixel reads as the fill pixel until written -/
def GRsetchunk (ri : RI) : RI :=
  { ri with st := { ri.st with elem := some (List.replicate (ri.W * ri.H) ri.fillDisk) }, bk := ri.bk.setchunk }

/-! ## palettes -/

/-- `GRwritelut(lutid, ncomps, nt, il, nentries, data)`: only `3, DFNT_UINT8|DFNT_UCHAR8, PIXEL, 256` is
    supported (`DFE_UNSUPPORTED` otherwise); the data go to the `DFTAG_LUT` element unconverted.
    `ntIsU8` = `nt == DFNT_UINT8 || nt == DFNT_UCHAR8` -/
def GRwritelut (ri : RI) (ncomps : Nat) (ntIsU8 : Bool) (il : Nat) (nentries : Nat) (data : List Byte) : Option RI :=
  if ncomps = 3 ∧ ntIsU8 = true ∧ il = H4.Gen.Hdf.MFGR_INTERLACE_PIXEL ∧ nentries = 256 then
    some { ri with lut := some (data.take (3 * 256)), lutNt := if ri.lut.isSome then ri.lutNt else H4.Gen.Hdf.DFNT_UINT8 }
  else none

/-- `GRreadlut(lutid, data)`: `Hgetelement` of the palette, then `GRIil_convert(data, PIXEL, pixel_buf, lut_il,
    {1, 256}, 3, uint8)` when another interlace was requested with `GRreqlutil`. Without a palette the
    buffer is left alone (`buf` = its prior content, same length as a palette). -/
def GRreadlut (ri : RI) (buf : List Byte) : List Byte :=
  match ri.lut with
  | none => buf
  | some l => if ri.lutIl ≠ .pixel then convert .pixel ri.lutIl 1 256 3 1 l (List.replicate l.length 0) else l

/-- `GRgetlutinfo`: `(ncomp, nt, il, nentries)`; `(0, DFNT_NONE = 0, -1, 0)` when no palette is defined -/
def GRgetlutinfo (ri : RI) : Int × Int × Int × Int :=
  match ri.lut with
  | none => (0, 0, -1, 0)
  | some _ => (3, ri.lutNt, H4.Gen.Hdf.MFGR_INTERLACE_PIXEL, 256)

end H4.GRegion
