import H4.Gen.Hdf
import H4.Gen.Limits
/-! # C20 — format limits: int32-faithful allocation model and the counter / size / name limits

Every place where the C code adds two `int32` values is written `wrap32 (a + b)` here, so the model has the
two's-complement result the (`-fwrapv`) C code has; whether a value ever leaves the int32 range is then a theorem
about the model (`H4.Props.C20.no_wrap`), not an assumption.

Part 1: `hfile.c` / `hfiledd.c` allocation: `HPgetdiskblock`, `HTInew_dd_block`, `HTPcreate`, `Hsetlength`,
        `HTPupdate`/`HTIupdate_dd`, `Hseek`+`Hwrite` on a non-special element, `HIsync`, `HTPstart`.
        `Cfg.fixA` = range check in `HPgetdiskblock` (commit bffe1fd), `Cfg.fixB` = range check in `Hwrite`
        (commit 905f433).  HEAD is `fixA = fixB = true`; the `false` variants are the code before those commits
        and are kept to exhibit the defects (F11).
Part 2: reference numbers (`Hnewref`, `Htagnewref`); the reference-number state of a file across `maxref = 65535`
        (`RefSt`: explicit numbers, deletions, object creation through `Hnewref`, exhaustion).
Part 3: Vdata field limits (`VSfdefine`, `VSsetfields`), Vgroup member limit (cited from C08).
Part 4: name-length rules of the nine name-taking entry points.
Part 5: `SDcreate` rank and the SD open-file table (`NC_open`, `ncclose`, `NC_reset_maxopenfiles`). -/
namespace H4.Limits
open H4.Gen.Hdf

/-! ## int32 -/

def I32MAX : Int := (H4.Gen.Limits.INT32_MAX : Nat)

/-- two's-complement reduction of an exact integer to `int32` -/
def wrap32 (x : Int) : Int := (x + 2147483648) % 4294967296 - 2147483648

/-- the largest end of file the fixed code lets an allocation reach (`INT32_MAX - 1`: `HIextend_file` still puts
    one pad byte AT `f_end_off`, after which `f_cur_off = f_end_off + 1` must still be an `int32`) -/
def maxEnd : Int := I32MAX - 1

/-! ## Part 1: allocation -/

/-- a data descriptor (`dd_t`): `off = len = -1` (`INVALID_OFFSET`/`INVALID_LENGTH`) = created, no data yet -/
structure DD where
  tag : Nat
  ref : Nat
  off : Int
  len : Int
deriving Repr, DecidableEq, Inhabited

/-- `filerec_t` as far as allocation is concerned -/
structure St where
  endOff : Int            -- f_end_off
  ndds : Nat              -- ddhead->ndds: descriptors per DD block
  free : Nat              -- number of DFTAG_NULL descriptors
  blocks : List Int       -- myoffset of every DD block
  dds : List DD           -- descriptors in use
deriving Repr, DecidableEq, Inhabited

structure Cfg where
  fixA : Bool := true     -- HPgetdiskblock refuses `block_size >= INT32_MAX - f_end_off`
  fixB : Bool := true     -- Hwrite refuses `length > (INT32_MAX - 1) - data_off - posn`
  cache : Bool := true    -- file_rec->cache (DD caching; changes which seeks HPgetdiskblock performs)
deriving Repr, DecidableEq

def head : Cfg := {}

/-- bytes of a DD block: `NDDS_SZ + OFFSET_SZ + ndds * DD_SZ` (computed in `int`; `ndds` is an `int16`, so exact) -/
def blockSize (ndds : Nat) : Int := ((NDDS_SZ + OFFSET_SZ + ndds * DD_SZ : Nat) : Int)

def DD.invalid (d : DD) : Bool := d.off == INVALID_OFFSET && d.len == INVALID_LENGTH

/-- `HPgetdiskblock(file_rec, n, moveto)`: returns the offset of the block and the new state, `none` = FAIL.
    A seek to a negative offset fails (`fseek`). -/
def getdiskblock (c : Cfg) (s : St) (n : Int) (moveto : Bool) : Option (Int × St) :=
  if n < 0 then none                                             -- block_size < 0: DFE_ARGS
  else if c.fixA && decide (n ≥ wrap32 (I32MAX - s.endOff)) then none   -- block_size >= INT32_MAX - f_end_off
  else
    let ret := s.endOff
    -- cache off: HPseek(ret + block_size - 1) and one byte written there
    if n > 0 && !c.cache && decide (wrap32 (wrap32 (ret + n) - 1) < 0) then none
    else if moveto && decide (ret < 0) then none                 -- HPseek(ret_value)
    else some (ret, { s with endOff := wrap32 (s.endOff + n) })  -- f_end_off += block_size

/-- `HTIupdate_dd`, last statement: the end of file follows a descriptor that reaches beyond it -/
def endRule (e off len : Int) : Int :=
  if off != INVALID_OFFSET && len != INVALID_LENGTH && decide (wrap32 (off + len) > e) then wrap32 (off + len) else e

/-- `HTPupdate(ddid, off, len)` (+ `HTIupdate_dd`) on the descriptor (tag, ref) -/
def updateDD (s : St) (tag ref : Nat) (off len : Int) : St :=
  { s with dds := s.dds.map (fun d => if d.tag == tag && d.ref == ref then { d with off := off, len := len } else d),
           endOff := endRule s.endOff off len }

/-- `HTInew_dd_block`: room for a block at the end of the file, then `f_end_off = myoffset + size` -/
def newBlock (c : Cfg) (s : St) : Option St :=
  match getdiskblock c s (blockSize s.ndds) true with
  | none => none
  | some (off, s1) =>
    some { s1 with endOff := wrap32 (off + blockSize s.ndds), blocks := s1.blocks ++ [off], free := s1.free + s.ndds }

/-- `HTPcreate(file_rec, tag, ref)`: take a free descriptor (allocate a DD block when there is none) -/
def htpCreate (c : Cfg) (s : St) (tag ref : Nat) : Option St :=
  let s1? := if s.free = 0 then newBlock c s else some s
  s1?.map fun s1 => { s1 with free := s1.free - 1, dds := s1.dds ++ [{ tag, ref, off := INVALID_OFFSET, len := INVALID_LENGTH }] }

def findDD (s : St) (tag ref : Nat) : Option DD := s.dds.find? (fun d => d.tag == tag && d.ref == ref)

/-- `Hsetlength(aid, len)` on a new element -/
def setlength (c : Cfg) (s : St) (tag ref : Nat) (len : Int) : St × Bool :=
  match getdiskblock c s len false with
  | none => (s, false)
  | some (off, s2) => (updateDD s2 tag ref off len, true)

/-- `Hstartwrite(fid, tag, ref, len)` followed by `Hendaccess`: `true` = an access id was returned -/
def reserve (c : Cfg) (s : St) (tag ref : Nat) (len : Int) : St × Bool :=
  match findDD s tag ref with
  | none =>
    match htpCreate c s tag ref with
    | none => (s, false)                                  -- DFE_NOFREEDD: nothing was changed
    | some s1 => setlength c s1 tag ref len               -- on failure the descriptor stays, without data
  | some d =>
    if d.invalid then setlength c s tag ref len           -- "written without its length being set": new again
    else (s, true)                                        -- existing element: the length argument is ignored

inductive WRes where
  | fail
  | wrote (n : Int)
  | convert      -- the C code would turn the element into a linked-block element (HLconvert): outside this model
deriving Repr, DecidableEq

/-- `Hwrite(aid, n, data)` on a non-special element `d` with the access record at `posn` -/
def hwrite (c : Cfg) (s : St) (d : DD) (appendable : Bool) (posn n : Int) : St × WRes :=
  if c.fixB && decide (n > 0) && decide (d.off ≥ 0) && decide (n > wrap32 (wrap32 ((I32MAX - 1) - d.off) - posn)) then (s, .fail)
  else if n ≤ 0 || (!appendable && decide (wrap32 (n + posn) > d.len)) then (s, .fail)       -- DFE_BADSEEK
  else
    -- appendable and the write reaches beyond the current length
    let grow := appendable && decide (wrap32 (n + posn) > d.len)
    if grow && decide (wrap32 (d.len + d.off) ≠ s.endOff) then (s, .convert)
    else
      let s1 := if grow then updateDD s d.tag d.ref d.off (wrap32 (posn + n)) else s   -- HTPupdate(ddid, -2, posn + length)
      let t := wrap32 (posn + d.off)                                                    -- HPseek(posn + data_off)
      if t < 0 then (s1, .fail)
      else
        let cur := wrap32 (t + n)                                                       -- HP_write: f_cur_off += bytes
        ({ s1 with endOff := if cur > s1.endOff then cur else s1.endOff }, .wrote n)

/-- `Hseek(aid, pos, DF_START)` from position 0 on a non-special element: `some posn` or FAIL; `convert` as above -/
def hseek (s : St) (d : DD) (appendable : Bool) (pos : Int) : Option (Option Int) :=
  if pos = 0 then some (some 0)
  else if pos < 0 || (!appendable && decide (pos > d.len)) then some none
  else if appendable && decide (pos ≥ d.len) && decide (wrap32 (d.len + d.off) ≠ s.endOff) then none
  else some (some pos)

/-- `Hstartaccess(RDWR)`; `Happendable`; `Hseek(pos)`; `Hwrite(n)`; `Hendaccess` on an element that has data -/
def append (c : Cfg) (s : St) (tag ref : Nat) (pos n : Int) : St × WRes :=
  match findDD s tag ref with
  | none => (s, .convert)
  | some d =>
    if d.invalid then (s, .convert) else
    match hseek s d true pos with
    | none => (s, .convert)
    | some none => (s, .fail)
    | some (some p) => hwrite c s d true p n

/-- `Hstartwrite` of an existing element; `Hseek(pos)`; `Hwrite(n)`: in-place write, never grows -/
def write (c : Cfg) (s : St) (tag ref : Nat) (pos n : Int) : St × WRes :=
  match findDD s tag ref with
  | none => (s, .convert)
  | some d =>
    if d.invalid then (s, .convert) else
    match hseek s d false pos with
    | none => (s, .convert)
    | some none => (s, .fail)
    | some (some p) => hwrite c s d false p n

/-- `Hsync` / the flush in `Hclose` (`HIsync`): with DD caching `HIextend_file` seeks to `f_end_off` -/
def sync (c : Cfg) (s : St) : Bool := !(c.cache && decide (s.endOff < 0))

/-- `HTPstart` (after `Hclose` + `Hopen`): the end of file is recomputed from the DD blocks and descriptors;
    unused descriptors count with `(-1) + (-1)` -/
def reopenEnd (s : St) : Int :=
  let e1 := s.blocks.foldl (fun e b => if wrap32 (b + blockSize s.ndds) > e then wrap32 (b + blockSize s.ndds) else e) 0
  s.dds.foldl (fun e d => if wrap32 (d.off + d.len) > e then wrap32 (d.off + d.len) else e) e1

def reopen (c : Cfg) (s : St) : St × Bool :=
  if sync c s then ({ s with endOff := reopenEnd s }, true) else (s, false)

inductive Op where
  | reserve (tag ref : Nat) (len : Int)
  | append (tag ref : Nat) (pos n : Int)
  | write (tag ref : Nat) (pos n : Int)
  | sync
  | reopen
deriving Repr, DecidableEq

inductive Res where
  | ok | fail | wrote (n : Int) | convert
deriving Repr, DecidableEq

def WRes.toRes : WRes → Res
  | .fail => .fail | .wrote n => .wrote n | .convert => .convert

def step (c : Cfg) (s : St) : Op → St × Res
  | .reserve t r l => let (s', ok) := reserve c s t r l; (s', if ok then .ok else .fail)
  | .append t r p n => let (s', w) := append c s t r p n; (s', w.toRes)
  | .write t r p n => let (s', w) := write c s t r p n; (s', w.toRes)
  | .sync => (s, if sync c s then .ok else .fail)
  | .reopen => let (s', ok) := reopen c s; (s', if ok then .ok else .fail)

def run (c : Cfg) (s : St) : List Op → St × List Res
  | [] => (s, [])
  | o :: os => let (s1, r) := step c s o; let (s2, rs) := run c s1 os; (s2, r :: rs)

/-! ### linked-block elements: logical position and length (`hblocks.c`) -/

/-- `linkinfo_t.length` and `accrec_t.posn` of a linked-block element -/
structure LL where
  len : Int
  posn : Int
deriving Repr, DecidableEq

/-- `HLPseek(access_rec, off, DF_START)`: "there is no upper bound to posn" -/
def llSeek (l : LL) (off : Int) : Option LL := if off < 0 then none else some { l with posn := off }

/-- `HLPwrite(access_rec, n, data)` as far as position and length go (the blocks themselves are allocated through
    `Hstartwrite`, i.e. `reserve`).  `fixed` = with `if (length > INT32_MAX - posn) FAIL` (proposed, see REPORT);
    without it `bytes_written + posn` and `posn += bytes_written` wrap. -/
def llWrite (fixed : Bool) (l : LL) (n : Int) : Option LL :=
  if n ≤ 0 then none
  else if fixed && decide (n > wrap32 (I32MAX - l.posn)) then none
  else
    let tmp := wrap32 (n + l.posn)
    some { len := if tmp > l.len then tmp else l.len, posn := wrap32 (l.posn + n) }

/-! ## Part 2: reference numbers -/

/-- first reference number in `lo .. 65535` that is not in use, if any -/
def firstFree (used : Nat → Bool) (lo : Nat) : Option Nat :=
  (List.range' lo (MAX_REF + 1 - lo)).find? (fun r => !used r)

/-- `Htagnewref(fid, tag)` (HEAD, commit b11c62e): `bv_find_next_zero` of the tag's bit vector (bit 0 is always set;
    a tag without descriptors has no bit vector: 1); a first zero beyond `MAX_REF` means every ref is in use: 0. -/
def tagnewref (used : Nat → Bool) : Nat := (firstFree used 1).getD 0

/-- before b11c62e the result was tested AFTER the cast to `uint16`: a bit vector whose first zero is 65535 gave
    `(uint16)65535 == (uint16)FAIL`: 0 (F7 of DESIGN.md), and one that is full up to 65535 yielded bit 65536 = `(uint16)0`. -/
def tagnewrefOld (used : Nat → Bool) : Nat :=
  let z := (firstFree used 1).getD (MAX_REF + 1)
  let r := z % 65536
  if r = 65535 then 0 else r

/-- `Hnewref(fid)`: next after `maxref` while that is below `MAX_REF`, else the first ref used by NO tag;
    returns the ref (0 = none) and the new `maxref` -/
def newref (maxref : Nat) (usedAnyTag : Nat → Bool) : Nat × Nat :=
  if maxref < MAX_REF then (maxref + 1, maxref + 1)
  else ((firstFree usedAnyTag 1).getD 0, maxref)

/-- `Hopen(path, DFACC_CREATE, ndds)` / `HTPinit`: the number of descriptors per DD block (`int16`): negative is refused,
    0 is the default, anything below `MIN_NDDS` is raised to it -/
def nddsEff (req : Int) : Option Nat :=
  if req < 0 then none
  else if req = 0 then some DEF_NDDS
  else if req < (MIN_NDDS : Nat) then some MIN_NDDS
  else some req.toNat

/-! ### the reference-number state of an open file, across the limit

`Hnewref` is one half of every "create a new object" entry point (`VSattach(-1,"w")`, `Vattach(-1,"w")`, `GRcreate`,
`SDcreate`, DFR8/DFSD ...): the number it hands out becomes the reference number of the descriptors the object is
made of.  The state below is what decides its answer: `file_rec->maxref` and the reference numbers of the descriptors
in use (any tag).  The ORDER of the descriptors in the DD list is deliberately not part of it. -/

/-- `maxref` and the descriptors in use: one entry `(lo, hi)` stands for one descriptor for every reference number
    `lo .. hi` (a single descriptor is `(r, r)`; two tags with the same number are two entries) -/
structure RefSt where
  maxref : Nat
  used : List (Nat × Nat)
deriving Repr, DecidableEq, Inhabited

/-- some descriptor (of any tag) carries the reference number `r`: `HTIfind_dd(DFTAG_WILDCARD, r)` succeeds -/
def RefSt.inUse (s : RefSt) (r : Nat) : Bool := s.used.any (fun p => decide (p.1 ≤ r) && decide (r ≤ p.2))

/-- descriptors with the explicit reference numbers `lo .. hi` are created
    (`HTPcreate`: `if (ref > file_rec->maxref) file_rec->maxref = ref`) -/
def refPut (s : RefSt) (lo hi : Nat) : RefSt :=
  { maxref := if hi > s.maxref then hi else s.maxref, used := s.used ++ [(lo, hi)] }

/-- `n` descriptors with the same reference number `r` (an object made of several tags, e.g. DFTAG_VH + DFTAG_VS) -/
def refPutN (s : RefSt) (r : Nat) : Nat → RefSt
  | 0 => s
  | n + 1 => refPutN (refPut s r r) r n

/-- one descriptor with the reference number `r` leaves the list -/
def delRun : List (Nat × Nat) → Nat → List (Nat × Nat)
  | [], _ => []
  | (lo, hi) :: rest, r =>
    if lo ≤ r ∧ r ≤ hi then
      (if lo < r then [(lo, r - 1)] else []) ++ (if r < hi then [(r + 1, hi)] else []) ++ rest
    else (lo, hi) :: delRun rest r

/-- `Hdeldd` / `HTPdelete` of one descriptor with the reference number `r`: `maxref` is NOT lowered -/
def refDel (s : RefSt) (r : Nat) : RefSt := { s with used := delRun s.used r }

/-- `Hnewref` followed by the creation of `n` descriptors with the number handed out (`n = 0`: nothing is written yet,
    e.g. `Vattach(-1,"w")` before `Vdetach`).  Answer 0 (`DFREF_NONE`): no number is free; the caller fails and nothing
    is created. -/
def refAlloc (s : RefSt) (n : Nat) : Nat × RefSt :=
  let x := newref s.maxref s.inUse
  if x.1 = 0 then (0, s) else (x.1, refPutN { s with maxref := x.2 } x.1 n)

inductive RefOp where
  | put (lo hi : Nat)
  | del (r : Nat)
  | alloc (n : Nat)
deriving Repr, DecidableEq

/-- one operation; the answer of `alloc`, 0 for the others -/
def refStep (s : RefSt) : RefOp → Nat × RefSt
  | .put lo hi => (0, refPut s lo hi)
  | .del r => (0, refDel s r)
  | .alloc n => refAlloc s n

def refRun (s : RefSt) : List RefOp → List Nat × RefSt
  | [] => ([], s)
  | o :: os => let x := refStep s o; let y := refRun x.2 os; (x.1 :: y.1, y.2)

/-! ## Part 3: Vdata field limits -/

/-- `VSfdefine(vs, field, type, order)` as far as sizes go: `isize = DFKNTsize(type)` (`none` = FAIL) -/
def fdefineOk (isize : Option Nat) (order : Int) : Bool :=
  if order < 1 || order > (MAX_ORDER : Nat) then false       -- DFE_BADORDER
  else match isize with
    | none => false
    | some sz => !decide ((sz : Int) * order > (MAX_FIELD_SIZE : Nat))   -- DFE_BADFIELDS

/-- the field loop of `VSsetfields` on an empty writable vdata: sizes are `order * isize` of the named fields.
    Returns success, the number of fields put into the write list so far and the record size so far. -/
def setfieldsLoop : List Nat → Nat → Nat → Bool × Nat × Nat
  | [], iv, k => (true, k, iv)
  | sz :: rest, iv, k =>
    if sz > MAX_FIELD_SIZE then (false, k, iv)
    else if iv + sz > MAX_FIELD_SIZE then (false, k, iv)
    else setfieldsLoop rest (iv + sz) (k + 1)

/-- `VSsetfields` with `sizes.length` comma separated names (`scanattrs` refuses more than `VSFIELDMAX` tokens
    before touching its static tables).  Returns success, `wlist.n` and `wlist.ivsize` afterwards.  A list that is
    refused in the middle leaves NO field behind: the `done:` block releases the half-built write list and resets
    `wlist.n`/`wlist.ivsize` (`fixed = false`: the code before that repair kept the fields processed so far). -/
def setfieldsV (fixed : Bool) (sizes : List Nat) : Bool × Nat × Nat :=
  if sizes.length = 0 || sizes.length > VSFIELDMAX then (false, 0, 0)
  else
    let r := setfieldsLoop sizes 0 0
    if r.1 || !fixed then r else (false, 0, 0)

def setfields (sizes : List Nat) : Bool × Nat × Nat := setfieldsV true sizes

/-- `scanattrs` token tables: `symptr[VSFIELDMAX + 1]`, `sym[VSFIELDMAX][FIELDNAMELENMAX + 1]`.  Number of `symptr`
    slots written (tokens + the NULL terminator) and of `sym` rows written for `n ≥ 1` tokens, `none` = FAIL.
    `fixed = false` is the code before commit 9759786. -/
def scanattrsSlots (fixed : Bool) (n : Nat) : Option (Nat × Nat) :=
  if fixed && decide (n > VSFIELDMAX) then none else some (n + 1, n)

/-- `vinsertpair` (vgp.c, after commit dc883d2): a vgroup holds at most 65535 members (`uint16 nvelt`) -/
def vinsertOk (nvelt : Nat) : Bool := nvelt < H4.Gen.Limits.UINT16_MAX

/-! ## Part 4: names -/

inductive NameApi where
  | vsname | vsclass | vgname | vgclass | field | sdname | dimname | attrname | grname
deriving Repr, DecidableEq

abbrev Name := List UInt8

/-- `strncpy(buf, name, lim); buf[lim] = 0` resp. `strcpy` when it fits: the bytes put into a `lim + 1` byte buffer -/
def copyTrunc (lim : Nat) (name : Name) : Name := name.take lim ++ [0]

/-- what the library keeps in memory for a name (`none` = the call is refused) -/
def nameStored : NameApi → Name → Option Name
  | .vsname, n | .vsclass, n => some (n.take VSNAMELENMAX)          -- VSsetname / VSsetclass: fixed char[65], truncate
  | .field, n => some (n.take FIELDNAMELENMAX)                       -- scanattrs: truncate to FIELDNAMELENMAX
  | .vgname, n | .vgclass, n =>                                      -- Vsetname / Vsetclass: malloc(strlen + 1),
    if n.length > H4.Gen.Limits.UINT16_MAX then none else some n     --   refused beyond the 16-bit length field of the record
  | .grname, n =>                                                    -- GRcreate: GRgetiminfo copies the name into the caller's
    if n.length ≥ H4.Gen.Limits.H4_MAX_GR_NAME then none else some n --   char[H4_MAX_GR_NAME]: a name that does not fit there is refused
  | .sdname, n | .dimname, n =>                                      -- NC_new_string: count > H4_MAX_NC_NAME refused
    if n.length > H4_MAX_NC_NAME then none else some n
  | .attrname, n =>                                                  -- SDsetattr: the attribute becomes a vdata NAMED by VSsetname;
    if n.length > VSNAMELENMAX then none else some n                 --   a name that vdata name cannot hold is refused

/-- `vpackvg` / `vunpackvg`: the name goes to the file with `(uint16)strlen(name)` as its length -/
def vgRecordName (n : Name) : Name := n.take (n.length % 65536)

/-- what is read back after the file was closed and reopened -/
def nameReopened : NameApi → Name → Option Name
  | .vgname, n => (nameStored .vgname n).map vgRecordName
  | .vgclass, n => (nameStored .vgclass n).map vgRecordName
  | .grname, n => (nameStored .grname n).map vgRecordName
  | a, n => nameStored a n

/-! ## Part 5: SD rank and the open-file table -/

/-- `SDcreate`: `rank > H4_MAX_VAR_DIMS` is refused -/
def sdrankOk (rank : Nat) : Bool := !decide (rank > H4_MAX_VAR_DIMS)

/-- `SDcreate`: `handle->vars->count >= H4_MAX_NC_VARS` is refused: a file holds at most 5000 data sets -/
def sdvarOk (count : Nat) : Bool := decide (count < H4_MAX_NC_VARS)

/-- `SDsetattr` with a name that is not yet in the list: `(*ap)->count >= H4_MAX_NC_ATTRS` is refused
    (one list per file and one per data set) -/
def sdattrOk (count : Nat) : Bool := decide (count < H4_MAX_NC_ATTRS)

/-- `n` requests one after the other (`ok` = the accept rule): how many entries the list has afterwards -/
def countRun (ok : Nat → Bool) (count : Nat) : Nat → Nat
  | 0 => count
  | n + 1 => countRun ok (if ok count then count + 1 else count) n

/-- `_cdfs`, `_cdfs_size` (= slots.length, 0 when the list is not allocated), `_ncdf`, `_curr_opened`, `max_NC_open` -/
structure Tab where
  slots : List Bool := []      -- true = a file is open in this slot (file id = slot index)
  alloc : Bool := false        -- _cdfs != NULL
  ncdf : Nat := 0
  opened : Nat := 0
  maxOpen : Nat := H4.Gen.Limits.H4_MAX_NC_OPEN
deriving Repr, DecidableEq

/-- the cap on open files (`MAX_AVAIL_OPENFILES`, depends on the process' descriptor limit) is a parameter -/
def resetMax (sys : Nat) (t : Tab) (req : Int) : Tab × Int :=
  if req < 0 then (t, -1)
  else
    let req := req.toNat
    if !t.alloc then
      let sz := if req = 0 then t.maxOpen else req
      ({ t with slots := List.replicate sz false, alloc := true, maxOpen := sz }, sz)
    else if req ≤ t.opened then (t, t.slots.length)
    else
      -- alloc_size = req_max capped by the system limit; then `if (alloc_size < _ncdf) alloc_size = _ncdf`:
      -- every open file keeps its slot
      let a := max t.ncdf (min req sys)
      let kept := t.slots.take a
      ({ t with slots := kept ++ List.replicate (a - kept.length) false, maxOpen := a }, a)

/-- the table after `SDreset_maxopenfiles(H4_MAX_NC_OPEN)` with no file open (start of every `maxopen` case) -/
def tabInit (sys : Nat) : Tab := (resetMax sys {} ((H4.Gen.Limits.H4_MAX_NC_OPEN : Nat) : Int)).1

/-- `NC_open`: the file id handed out, `none` = failure -/
def tabOpen (sys : Nat) (t : Tab) : Tab × Option Nat :=
  let t1 := if !t.alloc then (resetMax sys t 0).1 else t
  let id := if !t.alloc then 0 else ((List.range t1.ncdf).find? (fun i => !(t1.slots.getD i false))).getD t1.ncdf
  let grow := t.alloc && id == t1.slots.length && decide (t1.ncdf ≥ t1.maxOpen)
  if grow && t1.maxOpen == sys then (t1, none)
  else
    let t2 := if grow then (resetMax sys t1 sys).1 else t1
    if id ≥ t2.slots.length then (t2, none)      -- (cannot happen: see `H4.Props.C20.tab_open_in_range`)
    else ({ t2 with slots := t2.slots.set id true, ncdf := if id = t2.ncdf then t2.ncdf + 1 else t2.ncdf, opened := t2.opened + 1 }, some id)

/-- `ncclose(id)` of an open file -/
def tabClose (t : Tab) (id : Nat) : Tab × Bool :=
  if !(id < t.ncdf && t.slots.getD id false) then (t, false)
  else
    let t1 := { t with slots := t.slots.set id false, ncdf := if id = t.ncdf - 1 then t.ncdf - 1 else t.ncdf, opened := t.opened - 1 }
    if t1.opened = 0 then ({ t1 with slots := [], alloc := false, ncdf := 0 }, true)     -- ncreset_cdflist
    else (t1, true)

/-- `NC_check_id`: does this id address an open file -/
def tabValid (t : Tab) (id : Nat) : Bool := id < t.ncdf && t.slots.getD id false

end H4.Limits
