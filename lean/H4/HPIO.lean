/-! Model of the physical I/O wrappers of `hdf/src/hfile.c` (C16): `HPseek`, `HP_read`, `HP_write` with the cached
    file position (`f_cur_off`, `last_op`) over a stdio stream that can FAIL.  A failed/short `fread`/`fwrite`
    leaves the stream position indeterminate (C standard), which the model expresses by letting the fault carry
    the arbitrary new position (and, for writes, the number of bytes that still reached the file).
    `fixed = true` is the code after commit c81ac94 ("forget the cached file position after a failed read or
    write"); `fixed = false` is the code before it and is kept only to exhibit the defect. -/
namespace H4.HPIO

abbrev Byte := UInt8

/-- the stdio stream: file bytes and file position indicator -/
structure Stream where
  data : List Byte
  pos : Nat
deriving Repr, DecidableEq

inductive LastOp where | unknown | seek | read | write
deriving Repr, DecidableEq

/-- `filerec_t` as far as physical I/O is concerned -/
structure HP where
  s : Stream
  cur : Nat          -- f_cur_off
  last : LastOp      -- last_op
deriving Repr, DecidableEq

/-- what a failing primitive does: the position afterwards, and how many bytes of a write got through -/
structure Fault where
  pos : Nat
  wrote : Nat
deriving Repr, DecidableEq

/-- overwrite `bs` at `off`, zero-filling a gap beyond the end (POSIX); a transfer of zero bytes changes nothing,
    in particular it does not extend the file up to a position beyond its end -/
def overwrite (d : List Byte) (off : Nat) (bs : List Byte) : List Byte :=
  if bs.isEmpty then d else
  let d' := if d.length < off then d ++ List.replicate (off - d.length) 0 else d
  d'.take off ++ bs ++ d'.drop (off + bs.length)

/-- `HPseek`: the seek is skipped when the cached position already equals `off` (and is trusted) -/
def hpSeek (h : HP) (off : Nat) (flt : Option Fault) : HP × Bool :=
  if h.cur ≠ off ∨ h.last = .unknown then
    match flt with
    | some _ => (h, false)                       -- a failed fseek does not move the stream; cache untouched
    | none => ({ s := { h.s with pos := off }, cur := off, last := .seek }, true)
  else (h, true)

/-- `HP_read` of `n` bytes. `fseek`/`fread` faults are given separately. -/
def hpRead (fixed : Bool) (h : HP) (n : Nat) (fseekF freadF : Option Fault) : HP × Option (List Byte) :=
  -- switching from write (or unknown) forces a seek to the cached offset
  let (h1, ok) := if h.last = .write ∨ h.last = .unknown then hpSeek { h with last := .unknown } h.cur fseekF else (h, true)
  if !ok then (h1, none) else
  match freadF with
  | some f => ({ h1 with s := { h1.s with pos := f.pos }, last := if fixed then .unknown else h1.last }, none)
  | none =>
    if h1.s.pos + n ≤ h1.s.data.length then
      ({ s := { h1.s with pos := h1.s.pos + n }, cur := h1.cur + n, last := .read }, some ((h1.s.data.drop h1.s.pos).take n))
    else -- short read at end of file: reported as failure, position moves to the end
      ({ h1 with s := { h1.s with pos := h1.s.data.length }, last := if fixed then .unknown else h1.last }, none)

/-- `HP_read` as the C text is now (after af826f2, "Hread delivers zeros for space allocated in this session that is not yet in the
    file"): `zok` = the descriptor cache is on, the end of the file is dirty (`FILE_END_DIRTY`) and the request lies below `f_end_off`
    (`bytes <= f_end_off - f_cur_off`).  A fault-free read that the file ends inside of then delivers what is there followed by zeros and
    advances `f_cur_off`; the stream stands at the end of the file, so `last_op` is UNKNOWN.  With `zok = false` this is `hpRead true`
    (`hpReadZ_false`), the function the engine `hp` drives (it opens its file without the cache). -/
def hpReadZ (h : HP) (n : Nat) (zok : Bool) (fseekF freadF : Option Fault) : HP × Option (List Byte) :=
  let (h1, ok) := if h.last = .write ∨ h.last = .unknown then hpSeek { h with last := .unknown } h.cur fseekF else (h, true)
  if !ok then (h1, none) else
  match freadF with
  | some f => ({ h1 with s := { h1.s with pos := f.pos }, last := .unknown }, none)
  | none =>
    if h1.s.pos + n ≤ h1.s.data.length then
      ({ s := { h1.s with pos := h1.s.pos + n }, cur := h1.cur + n, last := .read }, some ((h1.s.data.drop h1.s.pos).take n))
    else if zok then
      let got := (h1.s.data.drop h1.s.pos).take n
      ({ s := { h1.s with pos := h1.s.data.length }, cur := h1.cur + n, last := .unknown }, some (got ++ List.replicate (n - got.length) 0))
    else
      ({ h1 with s := { h1.s with pos := h1.s.data.length }, last := .unknown }, none)

/-- `HP_write` of `bs` -/
def hpWrite (fixed : Bool) (h : HP) (bs : List Byte) (fseekF fwriteF : Option Fault) : HP × Bool :=
  let (h1, ok) := if h.last = .read ∨ h.last = .unknown then hpSeek { h with last := .unknown } h.cur fseekF else (h, true)
  if !ok then (h1, false) else
  match fwriteF with
  | some f => ({ h1 with s := { data := overwrite h1.s.data h1.s.pos (bs.take f.wrote), pos := f.pos },
                          last := if fixed then .unknown else h1.last }, false)
  | none => ({ s := { data := overwrite h1.s.data h1.s.pos bs, pos := h1.s.pos + bs.length },
               cur := h1.cur + bs.length, last := .write }, true)

inductive Op where
  | seek (off : Nat) (f : Option Fault)
  | read (n : Nat) (fs fr : Option Fault)
  | write (bs : List Byte) (fs fw : Option Fault)
deriving Repr

inductive Res where | ok | fail | data (bs : List Byte)
deriving Repr, DecidableEq

def step (fixed : Bool) (h : HP) : Op → HP × Res
  | .seek off f => let (h', ok) := hpSeek h off f; (h', if ok then .ok else .fail)
  | .read n fs fr => match hpRead fixed h n fs fr with
    | (h', some bs) => (h', .data bs)
    | (h', none) => (h', .fail)
  | .write bs fs fw => let (h', ok) := hpWrite fixed h bs fs fw; (h', if ok then .ok else .fail)

def run (fixed : Bool) : HP → List Op → HP × List Res
  | h, [] => (h, [])
  | h, op :: ops => let (h1, r) := step fixed h op; let (h2, rs) := run fixed h1 ops; (h2, r :: rs)

/-- state right after `Hopen` (`f_cur_off = 0`, `last_op = H4_OP_UNKNOWN`) -/
def opened (d : List Byte) : HP := { s := { data := d, pos := 0 }, cur := 0, last := .unknown }

end H4.HPIO
