import H4.Gen.NdgAttrs
/-! # The character attributes the SD interface makes of an old-style (pre-Vgroup) scientific data set

    Model of the text part of `hdf_read_ndgs` (mfhdf/src/hdfsds.c): `hdf_get_sdc`, `hdf_get_desc_annot`, `hdf_get_label_annot`,
    `hdf_get_pred_str_attr` + `hdf_luf_to_attrs` for the data set itself.  Inputs are what the OLD interfaces hold: the raw
    DFTAG_SDC / SDL / SDU / SDF elements of the NDG and the texts of its description and label annotations exactly as
    `ANreadann` returns them, in `ANannlist` order.  Output: the NC_CHAR attributes of the variable `Data-Set-<ref>` in the
    order SD numbers them (the numeric attributes - range, calibration - are checked by the engine only).
    Names come from `H4.Gen.NdgAttrs` (bytes of `_HDF_Remarks`, `_HDF_AnnoLabel`, ... compiled against the current headers). -/
namespace H4.NdgAttrs
open H4.Gen.NdgAttrs

abbrev Byte := UInt8
abbrev Bytes := List Byte

/-- `strlen` / `NC_new_attr(name, NC_CHAR, strlen(buf), buf)`: the bytes before the first NUL.  Every buffer the C code
    hands to `strlen` here is NUL-terminated behind the text (zeroed `malloc(len + 1)`, `coordbuf[len] = '\0'`, three NULs
    appended by `hdf_get_pred_str_attr`), so the walk ends inside the buffer and sees the whole text. -/
def cstr (b : Bytes) : Bytes := b.takeWhile (· != 0)

structure Ndg where
  /-- raw DFTAG_SDC element (`[]`: no such member) -/
  sdc : Bytes
  /-- description annotations (DFTAG_DIA) of the data set's tag/ref, `ANannlist` order, bytes as `ANreadann` returns them -/
  descs : List Bytes
  /-- label annotations (DFTAG_DIL), likewise -/
  labels : List Bytes
  /-- raw DFTAG_SDL / SDU / SDF elements: data string, then one string per dimension, NUL-separated -/
  sdl : Bytes
  sdu : Bytes
  sdf : Bytes

structure Attr where
  /-- character codes of the attribute name -/
  name : List Nat
  value : Bytes
deriving DecidableEq, Repr

/-- `sprintf(hremark, "%s-%d", _HDF_Remarks, i + 1)` -/
def nameOf (base : List Nat) (k : Nat) : List Nat := base ++ [45] ++ (Nat.toDigits 10 k).map Char.toNat

/-- `hdf_get_sdc`, `hdf_luf_to_attrs`: an attribute only if the string is not empty (`buf[0] != '\0'`) -/
def strAttr (name : List Nat) (s : Bytes) : List Attr := if cstr s = [] then [] else [⟨name, cstr s⟩]

/-- `hdf_get_desc_annot` / `hdf_get_label_annot`: one attribute per annotation, numbered from 1 in `ANannlist` order, each made
    from ITS OWN text only (a fresh zeroed buffer of `ann_len + 1` bytes per annotation) -/
def annAttrs (base : List Nat) (l : List Bytes) : List Attr := l.mapIdx fun i t => ⟨nameOf base (i + 1), cstr t⟩

/-- `hdf_read_ndgs`: coordsys (found while walking the group), then `remarks-<k>`, `anno_label-<k>`, `long_name`, `units`, `format` -/
def ndgCharAttrs (g : Ndg) : List Attr :=
  strAttr NAME_COORDSYS g.sdc ++ (annAttrs NAME_REMARKS g.descs ++ (annAttrs NAME_ANNO_LABEL g.labels ++
    (strAttr NAME_LONG_NAME g.sdl ++ (strAttr NAME_UNITS g.sdu ++ strAttr NAME_FORMAT g.sdf))))

end H4.NdgAttrs
