import H4.DD
/-! Which variant of `hfiledd.c`/`hfile.c` the model (engine `dd`, Tie B) follows: the C AS IT IS in /repo today.
    One flag per confirmed defect (false = the defective code, true = the fix). All six fixes are in /repo now:
    * F3  fda7a17 "write a complete empty DD block to the file when it is allocated, in both caching modes"
    * F17 e50dd65 "refuse to create a descriptor for a tag/ref that already exists before taking a slot"
    * F4  5bd49ce, F5 e99f658, F6 1740592, F7 b11c62e (the diffs of /root/work/dd/fixes)
    The full theorems of `H4.Props.C12` / `H4.Props.C17` are stated for `Cfg.fixed`; the `…_partial` ones hold for every
    `Cfg` (the defective variants stay in the model as documented counter-witnesses). -/
namespace H4.DD
def currentCfg : Cfg := Cfg.fixed
end H4.DD
