import H4.ExtElem
import H4.Driver.Util
/-! Line-protocol glue for engine `ext` (harness/e_ext.c): every `T ext <op> …` line is replayed on `H4.ExtElem.XWorld`. -/
namespace H4.Driver
open H4.ExtElem

def showXRes : XRes → String
  | .fail => "fail"
  | .ok => "ok"
  | .num n => toString n
  | .data buf => s!"{buf.length} {toHex buf}"
  | .info len posn sp => s!"{len} {posn} {sp}"

/-- engine `ext` -/
def stepExt (w : XWorld) (args : List String) : XWorld × String :=
  let bad := (w, "bad-op")
  let run (r : Option (XWorld × XRes)) : XWorld × String := match r with
    | some (w, r) => (w, showXRes r)
    | none => bad
  match args with
  -- the external file as the harness prepared it before the first `HXcreate`
  | ["prefill", f, d] => run do pure ((w.setFile (← parseNat f) (← parseHex d)), XRes.ok)
  | ["create", h, e, f, off, sl, d] => run do
      pure (xcreate w (← parseNat h) (← parseNat e) (← parseNat f) (← parseNat off) (← parseNat sl) (← parseHex d))
  | ["open", h, e, m] => run do pure (xopen w (← parseNat h) (← parseNat e) (m == "w"))
  | ["seek", h, off, org] => run do pure (xseek w (← parseNat h) (← parseInt off) (← parseNat org))
  | ["read", h, n] => run do pure (xread w (← parseNat h) (← parseInt n))
  | ["write", h, d] => run do pure (xwrite w (← parseNat h) (← parseHex d))
  | ["inquire", h] => run do pure (xinquire w (← parseNat h))
  | ["end", h] => run do pure (xend w (← parseNat h))
  -- `Hclose` + `Hopen` with every access record ended: the special information is re-read from the description records
  | ["reopen"] => (w, "ok")
  -- the external file as it is on disk
  | ["raw", f] => match parseNat f with
    | some f => (w, s!"{(w.file f).length} {toHex (w.file f)}")
    | none => bad
  | _ => bad

end H4.Driver
