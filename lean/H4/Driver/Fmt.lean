import H4.Format
import H4.Driver.Util
/-! `h4model read <path>`: canonical dump of an HDF4 file through the independent reader `H4.Format.decodeFile` (C02).

```
DD <tag> <ref> <kind> <offset> <length> <logical length> <fmtFnv64 of the logical data | ?>     one per live descriptor, file order
BLOCKS <tag> <ref> <n> <offset>,<length> ...      raw data blocks of every special element that is not chunked
CHUNK <tag> <ref> <origin> <n> <offset>,<length> ...   raw data blocks of every chunk of a chunked element
VH <ref> …   VG <ref> …   VERSION …               record summaries
WF ok | WF FAIL <clause> <detail>
```
Lines starting with `#` are informative (DD block chain). -/
namespace H4.Driver
open H4.Format

def fmtFnv64 (a : ByteArray) : UInt64 := Id.run do
  let mut h : UInt64 := 0xcbf29ce484222325
  for x in a do
    h := (h ^^^ x.toUInt64) * 0x100000001b3
  pure h

def fmtHex64 (v : UInt64) : String :=
  String.ofList ((List.range 16).map fun i => hexDigit ((v >>> (UInt64.ofNat (60 - 4 * i))).toNat % 16))

def fmtHexs (b : List UInt8) : String := toHex b

def fmtShowBlocks (l : List DataBlock) : String :=
  " ".intercalate (toString l.length :: l.map fun k => s!"{k.off},{k.len}")

def fmtShowVH (ref : Nat) (v : VH) : String :=
  let fs := ";".intercalate (v.fields.map fun f => s!"{f.type}:{f.isize}:{f.off}:{f.order}:{fmtHexs f.name}")
  let as := ";".intercalate (v.attrs.map fun a => s!"{a.findex}:{a.atag}:{a.aref}")
  s!"VH {ref} n={fmtHexs v.name} c={fmtHexs v.cls} il={v.interlace} nv={v.nvert} ivsize={v.ivsize} nf={v.fields.length} fields={if fs.isEmpty then "-" else fs} ex={v.extag}/{v.exref} ver={v.version} more={v.more} flags={v.flags} attrs={if as.isEmpty then "-" else as}"

def fmtShowVG (ref : Nat) (g : VG) : String :=
  let ms := ";".intercalate (g.members.map fun m => s!"{m.1}/{m.2}")
  let as := ";".intercalate (g.attrs.map fun m => s!"{m.1}/{m.2}")
  s!"VG {ref} n={fmtHexs g.name} c={fmtHexs g.cls} nvelt={g.members.length} members={if ms.isEmpty then "-" else ms} ex={g.extag}/{g.exref} ver={g.version} more={g.more} flags={g.flags} attrs={if as.isEmpty then "-" else as}"

def fmtShowOrigin (o : List Int) : String := if o.isEmpty then "-" else ",".intercalate (o.map toString)

/-- external elements: the bytes live in another file; the driver (not the pure reader) fetches them -/
def extData (h : ExtHdr) : IO (Option ByteArray) := do
  match String.fromUTF8? ⟨h.name.toArray⟩ with
  | none => pure none
  | some name =>
    try
      let f ← IO.FS.readBinFile name
      let o := h.offset.toNat
      let n := h.length.toNat
      if f.size < o + n then pure none else pure (some (f.extract o (o + n)))
    catch _ => pure none

def dumpContent (c : FileContent) : IO (List String) := do
  let mut out : List String := []
  for k in c.blocks do
    out := s!"# BLK {k.off} ndds={k.ndds} next={k.next}" :: out
  for e in c.elems do
    let data ← match e.kind with
      | .ext h => extData h
      | _ => pure e.ldata.data
    let dg := match data with
      | some a => fmtHex64 (fmtFnv64 a)
      | none => "?"
    out := s!"DD {e.dd.tag} {e.dd.ref} {e.kind.name} {e.dd.off} {e.dd.len} {e.ldata.len} {dg}" :: out
    match e.kind with
    | .plain | .empty => pure ()
    | .chunked _ _ =>
      for (o, bl) in e.chunks do
        out := s!"CHUNK {e.dd.tag} {e.dd.ref} {fmtShowOrigin o} {fmtShowBlocks bl}" :: out
    | _ => out := s!"BLOCKS {e.dd.tag} {e.dd.ref} {fmtShowBlocks e.blocks}" :: out
  for (r, v) in c.vhs do out := fmtShowVH r v :: out
  for (r, g) in c.vgs do out := fmtShowVG r g :: out
  match c.version with
  | some v => out := s!"VERSION {v.major} {v.minor} {v.release}" :: out
  | none => pure ()
  pure out.reverse

def readCmd (path : String) : IO UInt32 := do
  let b ← IO.FS.readBinFile path
  match decodeFile b with
  | .ok c =>
    for l in (← dumpContent c) do IO.println l
    IO.println "WF ok"
    pure 0
  | .error e =>
    -- what the structural part could read, for diagnosis
    match readRaw b with
    | .ok r => for d in r.dds do IO.println s!"# DD {d.tag} {d.ref} {d.off} {d.len}"
    | .error _ => pure ()
    for (cl, d) in allDescComplaints b do IO.println s!"# DESC {cl} {d}"
    match e with
    | .fuel => IO.println "WF FAIL fuel chain walk ran out of fuel"
    | .bad c d => IO.println s!"WF FAIL {c} {d}"
    pure 0

end H4.Driver
