import H4.Chunk
import H4.Gen.Fn.Hchunks
import H4.Driver.Util
namespace H4.Driver
open H4.Chunk

/-- state of engine `chunk`: the element of the current case (set by `api_new`) -/
structure ChunkSt where
  elem : Option Elem := none

/-- driver-side speed-up only: re-tabulate the store (same values on every chunk/offset of the element) so that
    look-ups do not walk through one closure per `memcpy` done so far -/
def flattenElem (e : Elem) : Elem :=
  let nChunks := (e.dd.map (·.numChunks)).foldl (· * ·) 1
  let chunkBytes := (e.dd.map (·.chunkLength)).foldl (· * ·) 1 * e.ntSize
  let st := e.store
  let arr : Array UInt8 := Array.ofFn (n := nChunks * chunkBytes) fun i => st.get (i.val / chunkBytes) (i.val % chunkBytes)
  { e with store := ⟨fun c o => if c < nChunks ∧ o < chunkBytes then arr.getD (c * chunkBytes + o) 0 else st.get c o⟩ }

def showPieces (ps : List Piece) : String :=
  if ps.isEmpty then "-" else
  ",".intercalate (ps.map fun p => s!"{p.pos}:{p.chunk}:{p.seek}:{p.size}")

/-! The functions TRANSLATED from the current C text of hchunks.c (`H4.Gen.Fn.Hchunks`, gen/c2lean.py) are run on the same
    arguments as the hand-written model: when the two differ (or the translated code reports undefined behaviour / fuel
    exhaustion) the answer carries a ` GEN=…` suffix, which the comparison with the real library's answer reports as a DIFF.
    This validates the translator itself by differential testing against the compiled C. -/
namespace GenChunk
open H4.Gen.Fn.Hchunks
def il (l : List Nat) : List Int := l.map Int.ofNat
def field (dd : List DimRec) (f : DimRec → Nat) : List Int := dd.map fun d => Int.ofNat (f d)
def showI (l : List Int) : String := if l.isEmpty then "-" else ",".intercalate (l.map toString)
def tag (model : String) (ub oof : Bool) (gen : String) : String :=
  if ub then s!"{model} GEN=ub" else if oof then s!"{model} GEN=oof" else if gen == model then model else s!"{model} GEN={gen}"
def zeros (n : Nat) : List Int := List.replicate n 0
def ucis (dd : List DimRec) (nt sloc : Nat) (model : String) : String :=
  let n := dd.length
  let s := update_chunk_indices_seek (n + 1) sloc n nt (zeros n) (zeros n) (field dd (·.dimLength)) (field dd (·.chunkLength))
  tag model s.ub s.oof s!"{showI s.sbi} {showI s.spb}"
def c2a (dd : List DimRec) (sbi spb : List Nat) (model : String) : String :=
  let n := dd.length
  let s := compute_chunk_to_array (n + 1) (il sbi) (il spb) (zeros n) n (field dd (·.chunkLength)) (field dd (·.numChunks)) (field dd (·.lastChunkLength))
  tag model s.ub s.oof (showI s.array_indices)
def a2s (dd : List DimRec) (nt : Nat) (arr : List Nat) (model : String) : String :=
  let n := dd.length
  let s := compute_array_to_seek (n + 1) [0] (il arr) nt n (field dd (·.dimLength))
  tag model s.ub s.oof (showI s.user_seek)
def sic (dd : List DimRec) (nt : Nat) (spb : List Nat) (model : String) : String :=
  let n := dd.length
  let s := calculate_seek_in_chunk (n + 1) [0] n nt (il spb) (field dd (·.chunkLength))
  tag model s.ub s.oof (showI s.chunk_seek)
def usp (dd : List DimRec) (nt cseek : Nat) (model : String) : String :=
  let n := dd.length
  let s := update_seek_pos_chunk (n + 1) cseek n nt (zeros n) (field dd (·.chunkLength))
  tag model s.ub s.oof (showI s.spb)
def cnum (dd : List DimRec) (sbi : List Nat) (model : String) : String :=
  let n := dd.length
  let s := calculate_chunk_num (n + 1) [0] n (il sbi) (field dd (·.numChunks))
  tag model s.ub s.oof (showI s.chunk_num)
def cfc (dd : List DimRec) (nt len done : Nat) (sbi spb : List Nat) (model : String) : String :=
  let n := dd.length
  let s := calculate_chunk_for_chunk (n + 1) [0] n nt len done (il sbi) (il spb) (field dd (·.numChunks)) (field dd (·.lastChunkLength)) (field dd (·.chunkLength))
  tag model s.ub s.oof (showI s.chunk_size)
end GenChunk

private def geom (ds cs : String) : Option (List DimRec) := do
  let d ← natList ds
  let c ← natList cs
  if d.length != c.length then none else some (mkDims d c)

/-- engine `chunk`.  Pure ops (geometry given on every line):
    `dimrec d c` · `ucis dims cdims nt sloc` · `c2a dims cdims sbi spb` · `a2s dims cdims nt arr` ·
    `sic dims cdims nt spb` · `usp dims cdims nt cseek` · `cnum dims cdims sbi` ·
    `cfc dims cdims nt len done sbi spb` · `walk dims cdims nt pos len` · `cioposn dims cdims nt origin`.
    Stateful ops (one element per case): `api_new dims cdims nt fill` · `api_seek off origin` ·
    `api_write hex` · `api_read len` · `api_reopen`. -/
def stepChunk (st : ChunkSt) (args : List String) : ChunkSt × String :=
  let bad := (st, "bad-op")
  match args with
  | ["dimrec", d, c] =>
    match parseNat d, parseNat c with
    | some d, some c => let r := mkDimRec d c
                        (st, s!"{r.dimLength} {r.chunkLength} {r.numChunks} {r.lastChunkLength}")
    | _, _ => bad
  | ["ucis", ds, cs, nt, sloc] =>
    match geom ds cs, parseNat nt, parseNat sloc with
    | some dd, some nt, some sloc =>
      let r := updateChunkIndicesSeek dd nt sloc
      (st, GenChunk.ucis dd nt sloc s!"{showNatList r.1} {showNatList r.2}")
    | _, _, _ => bad
  | ["c2a", ds, cs, sbi, spb] =>
    match geom ds cs, natList sbi, natList spb with
    | some dd, some sbi, some spb => (st, GenChunk.c2a dd sbi spb (showNatList (computeChunkToArray dd sbi spb)))
    | _, _, _ => bad
  | ["a2s", ds, cs, nt, arr] =>
    match geom ds cs, parseNat nt, natList arr with
    | some dd, some nt, some arr => (st, GenChunk.a2s dd nt arr (toString (computeArrayToSeek dd nt arr)))
    | _, _, _ => bad
  | ["sic", ds, cs, nt, spb] =>
    match geom ds cs, parseNat nt, natList spb with
    | some dd, some nt, some spb => (st, GenChunk.sic dd nt spb (toString (calculateSeekInChunk dd nt spb)))
    | _, _, _ => bad
  | ["usp", ds, cs, nt, cseek] =>
    match geom ds cs, parseNat nt, parseNat cseek with
    | some dd, some nt, some cseek => (st, GenChunk.usp dd nt cseek (showNatList (updateSeekPosChunk dd nt cseek)))
    | _, _, _ => bad
  | ["cnum", ds, cs, sbi] =>
    match geom ds cs, natList sbi with
    | some dd, some sbi => (st, GenChunk.cnum dd sbi (toString (calculateChunkNum dd sbi)))
    | _, _ => bad
  | ["cfc", ds, cs, nt, len, done, sbi, spb] =>
    match geom ds cs, parseNat nt, parseNat len, parseNat done, natList sbi, natList spb with
    | some dd, some nt, some len, some done, some sbi, some spb =>
      (st, GenChunk.cfc dd nt len done sbi spb (toString (calculateChunkForChunk dd nt len done sbi spb)))
    | _, _, _, _, _, _ => bad
  | ["walk", ds, cs, nt, pos, len] =>
    match geom ds cs, parseNat nt, parseNat pos, parseNat len with
    | some dd, some nt, some pos, some len => (st, showPieces (walk dd nt pos len))
    | _, _, _, _ => bad
  | ["cioposn", ds, cs, nt, origin] =>
    match geom ds cs, natList cs, parseNat nt, natList origin with
    | some dd, some c, some nt, some origin => (st, toString (chunkIOPosn dd nt (c.foldl (· * ·) 1) origin))
    | _, _, _, _ => bad
  | ["api_new", ds, cs, nt, fill] =>
    match geom ds cs, parseNat nt, parseHex fill with
    | some dd, some nt, some fill =>
      let length := (dd.map (·.dimLength)).foldl (· * ·) 1
      ({ elem := some { dd := dd, ntSize := nt, length := length, store := initStore fill } },
       s!"{length * nt} {(dd.map (·.numChunks)).foldl (· * ·) 1}")
    | _, _, _ => bad
  | ["api_seek", off, origin] =>
    match st.elem, parseInt off, parseNat origin with
    | some e, some off, some origin =>
      match hmcpSeek e off origin with
      | some e' => ({ elem := some e' }, toString e'.posn)
      | none => (st, "fail")
    | _, _, _ => bad
  | ["api_write", hex] =>
    match st.elem, parseHex hex with
    | some e, some data =>
      match hmcpWrite e data with
      | some (n, e') => ({ elem := some (flattenElem e') }, s!"{n} {e'.posn}")
      | none => (st, "fail")
    | _, _ => bad
  | ["api_read", len] =>
    match st.elem, parseInt len with
    | some e, some len =>
      match hmcpRead e len with
      | some (out, e') => ({ elem := some e' }, s!"{toHex out} {e'.posn}")
      | none => (st, "fail")
    | _, _ => bad
  | ["api_reopen"] =>
    match st.elem with
    | some e => ({ elem := some { e with posn := 0 } }, "ok")
    | none => bad
  | _ => bad

end H4.Driver
