import H4.BitIO
import H4.Driver.Util
namespace H4.Driver
open H4.BitIO

/-- "w:v,w:v,..." -/
def parseFields (s : String) : Option (List (Nat × Nat)) :=
  if s == "-" then some [] else
  (s.splitOn ",").mapM fun f =>
    match f.splitOn ":" with
    | [a, b] => do let x ← a.toNat?; let y ← b.toNat?; pure (x, y)
    | _ => none

inductive BitOp where
  | wr (w v : Nat) | rd (w : Nat) | seek (byte bit : Nat)

def parseOp (f : String) : Option BitOp :=
  match f.toList with
  | 'w' :: r => match (String.ofList r).splitOn ":" with
    | [a, b] => do let x ← a.toNat?; let y ← b.toNat?; pure (.wr x y)
    | _ => none
  | 'r' :: r => (String.ofList r).toNat?.map .rd
  | 's' :: r => match (String.ofList r).splitOn ":" with
    | [a, b] => do let x ← a.toNat?; let y ← b.toNat?; pure (.seek x y)
    | _ => none
  | _ => none

def runOps : St → List BitOp → List String → St × List String
  | s, [], acc => (s, acc.reverse)
  | s, .wr w v :: ops, acc =>
    let (s', r) := bitwrite s w v
    runOps s' ops ((match r with | some n => s!"w{n}" | none => "wfail") :: acc)
  | s, .rd w :: ops, acc =>
    let (s', r) := bitread s w
    runOps s' ops ((match r with | some (n, v) => s!"{n}:{v}" | none => "rfail") :: acc)
  | s, .seek a b :: ops, acc =>
    let (s', ok) := bitseek s a b
    runOps s' ops ((if ok then "s0" else "sfail") :: acc)

/-- engine `bits`:
    `pack <w:v,...>` => bytes of a fresh element after the writes and `Hendbitaccess(id, 0)`
    `pack1 <w:v,...>` => same with flushbit 1
    `unpack <hex> <w,...>` => values read | fail
    `script <new|hex> <w|r> <ops>` => per-op results, then the element bytes after `Hendbitaccess(id, 0)`;
       ops: `wW:V` Hbitwrite, `rW` Hbitread, `sB:b` Hbitseek; access `w` = Hstartbitwrite(+appendable), `r` = Hstartbitread -/
def stepBits (args : List String) : String :=
  match args with
  | ["pack", f] => match parseFields f with
    | some fs => toHex (pack fs (some false))
    | none => "bad-op"
  | ["pack1", f] => match parseFields f with
    | some fs => toHex (pack fs (some true))
    | none => "bad-op"
  | ["unpack", d, w] => match parseHex d, natList w with
    | some bs, some ws => match unpack bs ws with
      | some vs => showNatList vs
      | none => "fail"
    | _, _ => "bad-op"
  | ["script", init, acc, o] =>
    let ops := if o == "-" then some [] else (o.splitOn ",").mapM parseOp
    let st : Option St :=
      if acc == "w" then
        (if init == "new" then some (startWrite none) else (parseHex init).map fun e => startWrite (some e))
      else (parseHex init).map startRead
    match ops, st with
    | some ops, some s =>
      let (s', res) := runOps s ops []
      let fin := endAccess s' (some false)
      (if res.isEmpty then "-" else ",".intercalate res) ++ " " ++ (if s'.oob then "oob" else toHex fin)
    | _, _ => "bad-op"
  | _ => "bad-op"

end H4.Driver
