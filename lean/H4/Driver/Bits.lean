import H4.BitIO
import H4.BitIOFn
import H4.Driver.Util
namespace H4.Driver
open H4.BitIO

/-- "w:v,w:v,..." -/
def parseFields (s : String) : Option (List (Nat × Nat)) :=
  if s == "-" then some [] else
  (s.splitOn ",").mapM fun f =>
    match f.splitOn ":" with
    | [a, b] => do let x ← a.toNat?; let y ← b.toNat?; pure (x, y)
    | _ => none

inductive BitOp where
  | wr (w v : Nat) | rd (w : Nat) | seek (byte bit : Nat)

def parseOp (f : String) : Option BitOp :=
  match f.toList with
  | 'w' :: r => match (String.ofList r).splitOn ":" with
    | [a, b] => do let x ← a.toNat?; let y ← b.toNat?; pure (.wr x y)
    | _ => none
  | 'r' :: r => (String.ofList r).toNat?.map .rd
  | 's' :: r => match (String.ofList r).splitOn ":" with
    | [a, b] => do let x ← a.toNat?; let y ← b.toNat?; pure (.seek x y)
    | _ => none
  | _ => none

def runOps : St → List BitOp → List String → St × List String
  | s, [], acc => (s, acc.reverse)
  | s, .wr w v :: ops, acc =>
    let (s', r) := bitwrite s w v
    runOps s' ops ((match r with | some n => s!"w{n}" | none => "wfail") :: acc)
  | s, .rd w :: ops, acc =>
    let (s', r) := bitread s w
    runOps s' ops ((match r with | some (n, v) => s!"{n}:{v}" | none => "rfail") :: acc)
  | s, .seek a b :: ops, acc =>
    let (s', ok) := bitseek s a b
    runOps s' ops ((if ok then "s0" else "sfail") :: acc)

/- function-level Tie A cross-run: `Hbitwrite` / `Hbitread` / `Hbitseek` / `HIbitflush` (with `HIread2write` / `HIwrite2read` inside) as
    TRANSLATED from hbitio.c by gen/c2lean.py (`H4.Gen.Fn.Hbitio2`, run through the wrappers of `H4.BitIOFn`) are executed in lockstep
    with the hand-written model on every `T bits pack/pack1/unpack/script` line: the record starts as the C view `St.toC` of the model's
    `startWrite` / `startRead` state (Hstartbitwrite / Hstartbitread are not translated), and after EVERY call the return value, the data
    word, the `ub` flag (against the model's `oob`) and the WHOLE record (all `bitrec_t` members, the 4096-byte buffer, the element, its
    position) are compared with the model's; at the end the translated flush of `Hendbitaccess` must leave the model's element bytes.
    A difference (or `oof`) is appended as ` GEN=…` and so shows up as a DIFF against the real C (`H4.Props.C05BitsFn` proves the
    part of this that is a theorem). -/
namespace GenBits
def errAt (i : Nat) (what : String) : Except String α := .error s!"{what}@op{i}"

def check (i : Nat) (o : COut) (m' : St) : Except String Unit :=
  if o.oof then errAt i "oof"
  else if o.ub != m'.oob then errAt i (if o.ub then "ub" else "model-oob-only")
  else if !m'.oob && !m'.err && o.crec != m'.toC then errAt i "state"
  else .ok ()

def run : St → CRec → List BitOp → Nat → Except String (St × CRec)
  | m, r, [], _ => .ok (m, r)
  | m, r, op :: ops, i => do
    if m.oob || m.err then return (m, r)       -- the model has left the states it shares with the C record
    match op with
    | .wr w v =>
      let (m', res) := bitwrite m w v
      let o := cBitwrite callFuel r w (v % 2 ^ 32)
      check i o m'
      if o.ret != (match res with | some n => (n : Int) | none => -1) then errAt i s!"wret={o.ret}"
      run m' o.crec ops (i + 1)
    | .rd w =>
      let (m', res) := bitread m w
      let (o, d) := cBitread callFuel r w 0xDEADBEEF
      check i o m'
      match res with
      | some (n, v) => if o.ret != n || d != v then errAt i s!"read={o.ret}:{d}"
      | none => if o.ret != -1 || d != 0xDEADBEEF then errAt i s!"read={o.ret}:{d}"
      run m' o.crec ops (i + 1)
    | .seek a b =>
      let (m', ok) := bitseek m a b
      let o := cBitseek callFuel r a b
      check i o m'
      if o.ret != (if ok then 0 else -1) then errAt i s!"sret={o.ret}"
      run m' o.crec ops (i + 1)

/-- the whole line: ops, then the flush of `Hendbitaccess(id, fb)`; `none` = no difference -/
def line (m0 : St) (ops : List BitOp) (fb : Bool) : Option String :=
  match run m0 m0.toC ops 0 with
  | .error e => some e
  | .ok (m, r) =>
    if m.oob || m.err then none
    else
      let o := cEnd callFuel r (some fb)
      if o.ub then some "end-ub" else if o.oof then some "end-oof" else if o.ret != 0 then some s!"end-ret={o.ret}"
      else if o.crec.elt != ints (endAccess m (some fb)) then some "end-bytes"
      else none

def tag (model : String) (g : Option String) : String :=
  match g with
  | none => model
  | some x => s!"{model} GEN={x}"
end GenBits

/-- engine `bits`:
    `pack <w:v,...>` => bytes of a fresh element after the writes and `Hendbitaccess(id, 0)`
    `pack1 <w:v,...>` => same with flushbit 1
    `unpack <hex> <w,...>` => values read | fail
    `script <new|hex> <w|r> <ops>` => per-op results, then the element bytes after `Hendbitaccess(id, 0)`;
       ops: `wW:V` Hbitwrite, `rW` Hbitread, `sB:b` Hbitseek; access `w` = Hstartbitwrite(+appendable), `r` = Hstartbitread -/
def stepBits (args : List String) : String :=
  match args with
  | ["pack", f] => match parseFields f with
    | some fs => GenBits.tag (toHex (pack fs (some false))) (GenBits.line (startWrite none) (fs.map fun f => .wr f.1 f.2) false)
    | none => "bad-op"
  | ["pack1", f] => match parseFields f with
    | some fs => GenBits.tag (toHex (pack fs (some true))) (GenBits.line (startWrite none) (fs.map fun f => .wr f.1 f.2) true)
    | none => "bad-op"
  | ["unpack", d, w] => match parseHex d, natList w with
    | some bs, some ws => GenBits.tag (match unpack bs ws with
        | some vs => showNatList vs
        | none => "fail") (GenBits.line (startRead bs) (ws.map .rd) false)
    | _, _ => "bad-op"
  | ["script", init, acc, o] =>
    let ops := if o == "-" then some [] else (o.splitOn ",").mapM parseOp
    let st : Option St :=
      if acc == "w" then
        (if init == "new" then some (startWrite none) else (parseHex init).map fun e => startWrite (some e))
      else (parseHex init).map startRead
    match ops, st with
    | some ops, some s =>
      let (s', res) := runOps s ops []
      let fin := endAccess s' (some false)
      GenBits.tag ((if res.isEmpty then "-" else ",".intercalate res) ++ " " ++ (if s'.oob then "oob" else toHex fin))
        (GenBits.line s ops false)
    | _, _ => "bad-op"
  | _ => "bad-op"

end H4.Driver
