import H4.Annot
import H4.Driver.Util
/-! Line protocol of engine `an` (C11): every line is parsed into an `H4.Annot.Op` and run by `H4.Annot.step`. -/
namespace H4.Driver
open H4.Annot

def parseAnOp (args : List String) : Option Op :=
  match args with
  | ["start"] => some .start
  | ["endan"] => some .endan
  | ["restart"] => some .restart
  | ["hput", a, b, h] => do some (.hput (← a.toNat?) (← b.toNat?) (← parseHex h))
  | ["fileinfo"] => some .fileinfo
  | ["create", t, a, b, r] => do some (.create (← t.toNat?) (← a.toNat?) (← b.toNat?) (← r.toNat?))
  | ["writeann", t, r, h] => do some (.writeann (← t.toNat?) (← r.toNat?) (← parseHex h))
  | ["readann", t, r, m] => do some (.readann (← t.toNat?) (← r.toNat?) (← m.toNat?))
  | ["annlen", t, r] => do some (.annlen (← t.toNat?) (← r.toNat?))
  | ["numann", t, a, b] => do some (.numann (← t.toNat?) (← a.toNat?) (← b.toNat?))
  | ["annlist", t, a, b] => do some (.annlist (← t.toNat?) (← a.toNat?) (← b.toNat?))
  | ["select", t, i] => do some (.select (← t.toNat?) (← i.toInt?))
  | ["gettagref", t, i] => do some (.gettagref (← t.toNat?) (← i.toInt?))
  | ["tagref2id", a, b] => do some (.tagref2id (← a.toNat?) (← b.toNat?))
  | ["rawelem", a, b] => do some (.rawelem (← a.toNat?) (← b.toNat?))
  | ["dfput", t, a, b, r, h] => do some (.dfput (← t.toNat?) (← a.toNat?) (← b.toNat?) (← r.toNat?) (← parseHex h))
  | ["dfget", t, a, b, m] => do some (.dfget (← t.toNat?) (← a.toNat?) (← b.toNat?) (← m.toNat?))
  | ["dfgetlen", t, a, b] => do some (.dfgetlen (← t.toNat?) (← a.toNat?) (← b.toNat?))
  | ["dfaddf", t, r, h] => do some (.dfaddf (← t.toNat?) (← r.toNat?) (← parseHex h))
  | ["hdel", a, b] => do some (.hdel (← a.toNat?) (← b.toNat?))
  | ["dfflen", t, f] => do some (.dfflen (← t.toNat?) (← f.toNat?))
  | ["dffget", t, f, m] => do some (.dffget (← t.toNat?) (← f.toNat?) (← m.toNat?))
  | ["dflablist", t, n, m, p] => do some (.dflablist (← t.toNat?) (← n.toNat?) (← m.toNat?) (← p.toNat?))
  | _ => none

def showAnOut : Out → String
  | .fail => "fail"
  | .ok => "ok"
  | .int i => toString i
  | .nats l => showNatList l
  | .bytes b => toHex b
  | .read b w => s!"{toHex b} {w}"
  | .lablist r l => s!"{showNatList r} {if l.isEmpty then "-" else ",".intercalate (l.map toHex)}"

def stepAn (s : AnState) (args : List String) : AnState × String :=
  match parseAnOp args with
  | some op => let r := step s op; (r.1, showAnOut r.2)
  | none => (s, "bad-op")

end H4.Driver
