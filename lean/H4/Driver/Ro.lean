import H4.ReadOnly
import H4.Driver.Util
import H4.Driver.Attr
namespace H4.Driver
open H4.ReadOnly

/-- engine `ro` (stateful): the H-layer access-control model.  User-visible handles are `f<k>` / `a<k>` = the k-th file id /
    access id the harness obtained; the maps translate them to the model's ids (the model also allocates access ids
    internally, e.g. inside `Hgetelement`). -/
structure RoSt where
  s : State := State.closed []
  fmap : List Nat := []
  amap : List Nat := []
  /-- part B, SD interface: the SD file machine (`H4.AttrSD`) of the read-only session; `sdLoad` collects what the harness
      found in the file (`sd.dim` / `sd.var` / `sd.att` lines) until `sd.start r` opens it -/
  sd : AttrSD.File := {}
  sdLoad : AttrSD.Disk := {}

/-- the `sd.*` lines of engine `ro`: a description of the file as `hdf_read_xdr_cdf` built it (dimension table, variables,
    attribute lists), then `sd.start r`, then the calls of the session.  `sd.diminfo3` is `SDdiminfo` without the scale type
    (the C reports it from `numrecs`, which a READ of the coordinate variable's data raises: not part of this model). -/
def stepRoSd (st : RoSt) (args : List String) : RoSt × String :=
  let n (t : String) : Nat := t.toNat?.getD 0
  match args with
  | ["sd.dim", nm, sz] => match parseHex nm with
    | some b => ({ st with sdLoad := { st.sdLoad with dims := st.sdLoad.dims ++ [⟨b, n sz⟩] } }, "ok")
    | none => (st, "bad-op")
  | ["sd.var", nm, nt, slots, vt, rf, hd] => match parseHex nm, natList slots with
    | some b, some sl =>
      let v : AttrSD.Var := { name := b, hdftype := n nt, dims := sl, attrs := [], vtype := n vt, ref := n rf, hasData := hd != "0", scale := [] }
      ({ st with sdLoad := { st.sdLoad with vars := st.sdLoad.vars ++ [v] } }, "ok")
    | _, _ => (st, "bad-op")
  | ["sd.att", tgt, nm, nt, cnt, val] => match parseHex nm, parseHex val with
    | some b, some vb =>
      let a : H4.Attr.Attr := { name := b, nt := n nt, count := n cnt, val := vb }
      if tgt == "g" then ({ st with sdLoad := { st.sdLoad with gattrs := st.sdLoad.gattrs ++ [a] } }, "ok")
      else match (tgt.drop 1).toString.toNat? with
        | some i =>
          if tgt.startsWith "v" && i < st.sdLoad.vars.length then
            let v := st.sdLoad.vars.getD i default
            ({ st with sdLoad := { st.sdLoad with vars := st.sdLoad.vars.set i { v with attrs := v.attrs ++ [a] } } }, "ok")
          else (st, "bad-op")
        | none => (st, "bad-op")
    | _, _ => (st, "bad-op")
  | ["sd.start", "r"] => ({ st with sd := AttrSD.openF { disk := st.sdLoad } false }, "ok")
  | ["sd.diminfo3", s] =>
    match AttrSD.sdDimInfo st.sd (n s) with
    | (f, .items [a, b, _, d]) => ({ st with sd := f }, showAttrOut (.items [a, b, d]))
    | (f, o) => ({ st with sd := f }, showAttrOut o)
  | _ =>
    match sdStep st.sd args with
    | some (f, o) => ({ st with sd := f }, showAttrOut o)
    | none => (st, "bad-op")

private def hdl (pfx : Char) (m : List Nat) (t : String) : Nat :=
  match t.toList with
  | c :: rest => if c == pfx then match (String.ofList rest).toNat? with
      | some k => m.getD k (1000000 + k)
      | none => 2000000
    else 2000000
  | [] => 2000000

private def showRes (st : RoSt) (r : State × Res) (kind : Char) : RoSt × String :=
  match r.2 with
  | .fail => ({ st with s := r.1 }, "fail")
  | .ok => ({ st with s := r.1 }, "ok")
  | .pass => ({ st with s := r.1 }, "pass")
  | .num n => ({ st with s := r.1 }, if n == -1 then "fail" else toString n)   -- a C function that returns -1 returns FAIL
  | .id n =>
    if kind == 'f' then ({ st with s := r.1, fmap := st.fmap ++ [n] }, s!"f{st.fmap.length}")
    else ({ st with s := r.1, amap := st.amap ++ [n] }, s!"a{st.amap.length}")

def stepRoH (st : RoSt) (args : List String) : RoSt × String :=
  let cfg := Cfg.current
  let F := hdl 'f' st.fmap
  let A := hdl 'a' st.amap
  let n (t : String) : Nat := t.toNat?.getD 0
  let z (t : String) : Int := t.toInt?.getD 0
  match args with
  | ["file", d] => match parseHex d with
    | some bs => ({ s := State.closed bs }, "ok")
    | none => (st, "bad-op")
  | ["open", acc] => showRes st (step cfg st.s (.hopen (n acc))) 'f'
  | ["close", f] => showRes st (step cfg st.s (.hclose (F f))) 'f'
  | ["cache", f, on] => showRes st (step cfg st.s (.hcache (F f) (on != "0"))) 'f'
  | ["sync", f] => showRes st (step cfg st.s (.hsync (F f))) 'f'
  | ["startaccess", f, t, r, fl] => showRes st (step cfg st.s (.startaccess (F f) (n t) (n r) (n fl))) 'a'
  | ["startread", f, t, r] => showRes st (step cfg st.s (.startread (F f) (n t) (n r))) 'a'
  | ["startwrite", f, t, r, l] => showRes st (step cfg st.s (.startwrite (F f) (n t) (n r) (n l))) 'a'
  | ["setlength", a, l] => showRes st (step cfg st.s (.setlength (A a) (n l))) 'a'
  | ["appendable", a] => showRes st (step cfg st.s (.appendable (A a))) 'a'
  | ["seek", a, o, w] => showRes st (step cfg st.s (.seek (A a) (z o) (n w))) 'a'
  | ["read", a, l] => showRes st (step cfg st.s (.read (A a) (z l))) 'a'
  | ["write", a, d] => match parseHex d with
    | some bs => showRes st (step cfg st.s (.write (A a) bs)) 'a'
    | none => (st, "bad-op")
  | ["trunc", a, l] => showRes st (step cfg st.s (.trunc (A a) (z l))) 'a'
  | ["endaccess", a] => showRes st (step cfg st.s (.endaccess (A a))) 'a'
  | ["getelement", f, t, r] => showRes st (step cfg st.s (.getelement (F f) (n t) (n r))) 'a'
  | ["putelement", f, t, r, d] => match parseHex d with
    | some bs => showRes st (step cfg st.s (.putelement (F f) (n t) (n r) bs)) 'a'
    | none => (st, "bad-op")
  | ["length", f, t, r] => showRes st (step cfg st.s (.hlength (F f) (n t) (n r))) 'a'
  | ["exist", f, t, r] => showRes st (step cfg st.s (.hexist (F f) (n t) (n r))) 'a'
  | ["deldd", f, t, r] => showRes st (step cfg st.s (.deldd (F f) (n t) (n r))) 'a'
  | ["dupdd", f, t, r, ot, orf] => showRes st (step cfg st.s (.dupdd (F f) (n t) (n r) (n ot) (n orf))) 'a'
  | ["reuse", f, t, r] => showRes st (step cfg st.s (.reuse (F f) (n t) (n r))) 'a'
  | ["hlcreate", f, t, r, b, k] => showRes st (step cfg st.s (.hlcreate (F f) (n t) (n r) (z b) (z k))) 'a'
  | ["hlconvert", a, b, k] => showRes st (step cfg st.s (.hlconvert (A a) (z b) (z k))) 'a'
  | ["hxcreate", f, t, r, o] => showRes st (step cfg st.s (.hxcreate (F f) (n t) (n r) (z o))) 'a'
  | ["hccreate", f, t, r] => showRes st (step cfg st.s (.hccreate (F f) (n t) (n r))) 'a'
  | ["hmccreate", f, t, r] => showRes st (step cfg st.s (.hmccreate (F f) (n t) (n r))) 'a'
  | ["dump"] => (st, toHex st.s.f.disk)
  | ["dumpcmp", d] => match parseHex d with
    | some bs =>
      -- the file bytes as the harness read them: "same", or the first offsets at which the model's image differs
      let m := st.s.f.disk
      if m == bs then (st, "same")
      else
        let n := max m.length bs.length
        let bad := (List.range n).filter (fun i => m[i]? != bs[i]?)
        (st, s!"differ:len={m.length}/{bs.length}:at=" ++ ",".intercalate ((bad.take 12).map toString))
    | none => (st, "bad-op")
  | ["log"] => (st, toString st.s.log.length)
  | ["state"] => (st, s!"acc={st.s.f.access},rc={st.s.f.refcount},att={st.s.f.attach},dirty={st.s.f.dirty},end={st.s.f.endOff}")
  | _ => (st, "bad-op")

def stepRo (st : RoSt) (args : List String) : RoSt × String :=
  match args with
  | op :: _ => if op.startsWith "sd." then stepRoSd st args else stepRoH st args
  | [] => (st, "bad-op")

end H4.Driver
