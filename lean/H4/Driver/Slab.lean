import H4.Slab
import H4.Driver.Util
namespace H4.Driver
open H4.Slab

/-- engine `sd`: `offs <shape> <start> <stride> <count>` => element offset of the k-th value, k = 0.. -/
def stepSd (args : List String) : String :=
  match args with
  | ["offs", sh, st, sd, ct] =>
    match natList sh, natList st, natList sd, natList ct with
    | some shape, some start, some stride, some count => showNatList (slabOffsets shape start stride count)
    | _, _, _, _ => "bad-op"
  | _ => "bad-op"

end H4.Driver
