import H4.Slab
import H4.Gen.Fn.Putget
import H4.Driver.Util
namespace H4.Driver
open H4.Slab

/-! `NCvcmaxcontig` TRANSLATED from the current C text of putget.c (`H4.Gen.Fn.Putget`, gen/c2lean.py) is run on the same arguments as
    the hand-written model `Slab.maxContig`: when the two differ (or the translated code reports undefined behaviour / fuel exhaustion)
    the answer carries a ` GEN=…` suffix, which the comparison with the real library's answer reports as a DIFF.  This validates the
    translator itself by differential testing against the compiled C. -/
namespace GenSlab
open H4.Gen.Fn.Putget
def il (l : List Nat) : List Int := l.map Int.ofNat
def tag (model : String) (ub oof : Bool) (gen : String) : String :=
  if ub then s!"{model} GEN=ub" else if oof then s!"{model} GEN=oof" else if gen == model then model else s!"{model} GEN={gen}"
def showAnswer : Option Nat → String
  | none => "null"
  | some k => toString k
def maxcontig (shape origin edges : List Nat) (recsize len : Nat) (model : String) : String :=
  let n := shape.length
  let s := NCvcmaxcontig (n + 1) recsize false (il shape) n len (il origin) (il edges)
  tag model s.ub s.oof (if !s.done then "noreturn" else if s.retnull then "null" else toString s.ret)
end GenSlab

/-- engine `sd`: `offs <shape> <start> <stride> <count>` => element offset of the k-th value, k = 0..;
    `maxcontig <shape> <origin> <edges> <recsize> <len>` => index into `edges` returned by `NCvcmaxcontig`, or `null` -/
def stepSd (args : List String) : String :=
  match args with
  | ["offs", sh, st, sd, ct] =>
    match natList sh, natList st, natList sd, natList ct with
    | some shape, some start, some stride, some count => showNatList (slabOffsets shape start stride count)
    | _, _, _, _ => "bad-op"
  | ["maxcontig", sh, org, ed, rs, ln] =>
    match natList sh, natList org, natList ed, rs.toNat?, ln.toNat? with
    | some shape, some origin, some edges, some recsize, some len =>
      if shape.isEmpty || origin.length != shape.length || edges.length != shape.length then "bad-op" else
      GenSlab.maxcontig shape origin edges recsize len (GenSlab.showAnswer (maxContig recsize len shape origin edges))
    | _, _, _, _, _ => "bad-op"
  | _ => "bad-op"

end H4.Driver
