import H4.Slab
import H4.SdPieces
import H4.VarShape
import H4.Gen.Fn.Putget
import H4.Gen.Fn.Putget2
import H4.Gen.Fn.Var
import H4.Driver.Util
namespace H4.Driver
open H4.Slab H4.VarShape

/-! `NCvcmaxcontig` TRANSLATED from the current C text of putget.c (`H4.Gen.Fn.Putget`, gen/c2lean.py) is run on the same arguments as
    the hand-written model `Slab.maxContig`: when the two differ (or the translated code reports undefined behaviour / fuel exhaustion)
    the answer carries a ` GEN=…` suffix, which the comparison with the real library's answer reports as a DIFF.  This validates the
    translator itself by differential testing against the compiled C. -/
namespace GenSlab
open H4.Gen.Fn.Putget
def il (l : List Nat) : List Int := l.map Int.ofNat
def tag (model : String) (ub oof : Bool) (gen : String) : String :=
  if ub then s!"{model} GEN=ub" else if oof then s!"{model} GEN=oof" else if gen == model then model else s!"{model} GEN={gen}"
def showAnswer : Option Nat → String
  | none => "null"
  | some k => toString k
def maxcontig (shape origin edges : List Nat) (recsize len : Nat) (model : String) : String :=
  let n := shape.length
  let s := NCvcmaxcontig (n + 1) recsize false (il shape) n len (il origin) (il edges)
  tag model s.ub s.oof (if !s.done then "noreturn" else if s.retnull then "null" else toString s.ret)

/-! `NC_var_shape` (var.c), `NC_varoffset` and `NCcoordck` (putget.c) TRANSLATED from the current C text (`H4.Gen.Fn.Var`, `H4.Gen.Fn.Putget2`)
    are run on the arguments of the `varshape` / `varoffset` / `coordck` lines beside the model `H4.VarShape`. -/
open H4.Gen.Fn.Var H4.Gen.Fn.Putget2

def showCompiled (ret : Int) (shape dsz : List Int) (len : Int) : String :=
  s!"{ret} {showIntList shape} {showIntList dsz} {len}"

/-- the translated `NC_var_shape`; `len0` is the (arbitrary) previous `var->len`, printed when the function fails -/
def varshape (dimsizes : List Nat) (ids : List Int) (xszof ft ty : Nat) (model : String) : String :=
  let n := ids.length
  let s := NC_var_shape (n + 1) xszof n 0 ids true ft ty false dimsizes.length (List.replicate dimsizes.length 0) (il dimsizes)
  tag model s.ub s.oof (if s.ret < 0 then "fail" else showCompiled s.ret s.shape_blk s.dsizes_blk s.var_len)

/-- the translated `NC_varoffset` on the `dsizes` the translated `NC_var_shape` stores for this shape -/
def varoffset (ft : Nat) (shape : List Nat) (xszof begin recsize : Nat) (coords : List Nat) (model : String) : String :=
  let n := shape.length
  let v := NC_var_shape (n + 1) xszof n 0 ((List.range n).map Int.ofNat) true ft 4 false n (List.replicate n 0) (il shape)
  let s := NC_varoffset (n + 1) ft recsize n begin (n == 0) (il shape) v.dsizes_blk (il coords)
  tag model (s.ub || v.ub) (s.oof || v.oof) (toString s.ret)

/-- the translated `NCcoordck` (no fill I/O is reached on these lines: NC_NOFILL is set whenever the record dimension grows) -/
def coordck (ft xop ncapi flags : Nat) (vnum : Int) (hnum : Nat) (shape : List Nat) (coords : List Int) (model : String) : String :=
  let n := shape.length
  let fuel := n + 2 + (coords.getD 0 0).toNat
  let s := NCcoordck fuel ft xop hnum flags false (il shape) n vnum 7 4 4 4 coords ncapi 0 true 0 0 0 1 1 1
  tag model s.ub s.oof s!"{s.ret} {s.vp_numrecs} {s.handle_numrecs} {s.handle_flags}"
end GenSlab

/-- engine `sd`: `offs <shape> <start> <stride> <count>` => element offset of the k-th value, k = 0..;
    `maxcontig <shape> <origin> <edges> <recsize> <len>` => index into `edges` returned by `NCvcmaxcontig`, or `null`;
    `varshape <dimsizes> <ids> <xszof> <filetype> <nctype>` => `<rank> <shape> <dsizes> <len>` as `NC_var_shape` leaves them, or `fail`;
    `varoffset <filetype> <shape> <xszof> <begin> <recsize> <coords>` => the `unsigned long` `NC_varoffset` returns (on the `dsizes`
    `NC_var_shape` computed for `<shape>`);
    `coordck <filetype> <x_op> <nc_api> <flags> <vp numrecs> <handle numrecs> <shape> <coords>` => `<TRUE/FALSE> <vp numrecs> <handle numrecs> <flags>`
    after `NCcoordck`;
    `fw <element size> <shape> <start> <stride> <count> <fill values are written: 0/1>` => `<position>:<length>,…` of the `Hwrite` calls of the FIRST
    SDwritedata on a new fixed-size data set (`H4.SdPieces.firstWriteLog` with the piece size `H4.Gen.SdBuf.MAX_SIZE` of the current putget.c) -/
def stepSd (args : List String) : String :=
  match args with
  | ["offs", sh, st, sd, ct] =>
    match natList sh, natList st, natList sd, natList ct with
    | some shape, some start, some stride, some count => showNatList (slabOffsets shape start stride count)
    | _, _, _, _ => "bad-op"
  | ["maxcontig", sh, org, ed, rs, ln] =>
    match natList sh, natList org, natList ed, rs.toNat?, ln.toNat? with
    | some shape, some origin, some edges, some recsize, some len =>
      if shape.isEmpty || origin.length != shape.length || edges.length != shape.length then "bad-op" else
      GenSlab.maxcontig shape origin edges recsize len (GenSlab.showAnswer (maxContig recsize len shape origin edges))
    | _, _, _, _, _ => "bad-op"
  | ["varshape", ds, is_, xs, fts, tys] =>
    match natList ds, intList is_, xs.toNat?, fts.toNat?, tys.toNat? with
    | some dimsizes, some ids, some xszof, some ft, some ty =>
      let m := match varShapeC dimsizes ids xszof ft ty with
        | none => "fail"
        | some c => GenSlab.showCompiled ids.length (GenSlab.il c.shape) (GenSlab.il c.dsizes) c.len
      GenSlab.varshape dimsizes ids xszof ft ty m
    | _, _, _, _, _ => "bad-op"
  | ["varoffset", fts, sh, xs, bs, rs, cs] =>
    match fts.toNat?, natList sh, xs.toNat?, bs.toNat?, rs.toNat?, natList cs with
    | some ft, some shape, some xszof, some begin, some recsize, some coords =>
      if coords.length != shape.length then "bad-op" else
      GenSlab.varoffset ft shape xszof begin recsize coords (toString (varOffset ft begin recsize xszof shape coords % W))
    | _, _, _, _, _, _ => "bad-op"
  | ["coordck", fts, xo, na, fl, vn, hn, sh, cs] =>
    match fts.toNat?, xo.toNat?, na.toNat?, fl.toNat?, vn.toInt?, hn.toNat?, natList sh, intList cs with
    | some ft, some xop, some ncapi, some flags, some vnum, some hnum, some shape, some coords =>
      if shape.isEmpty || coords.length != shape.length then "bad-op" else
      let m := VarShape.coordck ft (xop == H4.Gen.Ncvar.XDR_ENCODE) (ncapi != 0) flags vnum hnum shape coords
      GenSlab.coordck ft xop ncapi flags vnum hnum shape coords s!"{if m.ok then 1 else 0} {m.vpNumrecs} {m.hNumrecs} {m.flags}"
    | _, _, _, _, _, _, _, _ => "bad-op"
  | ["fw", es, sh, st, sd, ct, fl] =>
    match es.toNat?, natList sh, natList st, natList sd, natList ct, fl.toNat? with
    | some esz, some shape, some start, some stride, some count, some fill =>
      if shape.isEmpty || start.length != shape.length || stride.length != shape.length || count.length != shape.length then "bad-op" else
      let log := H4.SdPieces.firstWriteLog H4.Gen.SdBuf.MAX_SIZE esz (fill != 0) shape start stride count
      if log.isEmpty then "-" else ",".intercalate (log.map fun r => s!"{r.1}:{r.2}")
    | _, _, _, _, _, _ => "bad-op"
  | _ => "bad-op"

end H4.Driver
