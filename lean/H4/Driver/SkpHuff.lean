import H4.SkpHuffIO
import H4.Gen.Fn.Cskphuff
import H4.Driver.Util
namespace H4.Driver
open H4.SkpHuff

/- function-level Tie A cross-run: `HCIcskphuff_splay` as TRANSLATED from cskphuff.c (`H4.Gen.Fn.Cskphuff`) is executed on the
    arrays of the `splay` T line; a result different from the model's (or ub / out of fuel) is appended as ` GEN=…` and so shows
    up as a DIFF against the real C -/
namespace GenSkp
open H4.Gen.Fn.Cskphuff
def il (l : List Nat) : List Int := l.map Int.ofNat
def tag (model : String) (ub oof : Bool) (gen : String) : String :=
  if ub then s!"{model} GEN=ub" else if oof then s!"{model} GEN=oof" else if gen == model then model else s!"{model} GEN={gen}"
def splay (l r u : List Nat) (plain : Nat) (model : String) : String :=
  let s := HCIcskphuff_splay H4.Gen.Cskphuff.TWICEMAX 0 (il l) (il r) (il u) plain
  tag model s.ub s.oof s!"{showIntList s.skphuff_info_left} {showIntList s.skphuff_info_right} {showIntList s.skphuff_info_up}"
end GenSkp

/-- engine `skphuff`:
    `enc <skip> <hex data>` => raw DFTAG_COMPRESSED bytes
    `dec <skip> <n> <hex raw>` => the `n` decoded bytes (through the bit-id state machine) | fail
    `decb <skip> <n> <hex raw>` => same on the plain bit list (the function the round-trip theorem is about)
    `lens <skip> <hex data>` => `<maxbits> <maxwords> <totalbits>`: longest code, most words of the encoder's bit stack used by
       one code, length of the bit stream (computed from the model's `Hbitwrite` list; the engine measures them on a replica tree)
    `splay <left> <right> <up> <plain>` => `<left'> <right'> <up'>`: one `HCIcskphuff_splay` on one tree (decimal arrays:
       `left[SUCCMAX]`, `right[SUCCMAX]`, `up[TWICEMAX]`), model `splay` + the translated C function (`GenSkp`) -/
def stepSkpHuff (args : List String) : String :=
  match args with
  | ["enc", k, d] => match k.toNat?, parseHex d with
    | some k, some bs => toHex (compress k bs)
    | _, _ => "bad-op"
  | ["dec", k, n, d] => match k.toNat?, n.toNat?, parseHex d with
    | some k, some n, some raw => match decompressIO k raw n with
      | some o => toHex o
      | none => "fail"
    | _, _, _ => "bad-op"
  | ["decb", k, n, d] => match k.toNat?, n.toNat?, parseHex d with
    | some k, some n, some raw => match decompress k raw n with
      | some o => toHex o
      | none => "fail"
    | _, _, _ => "bad-op"
  | ["lens", k, d] => match k.toNat?, parseHex d with
    | some k, some bs => let r := codeLens k bs; s!"{r.1} {r.2.1} {r.2.2}"
    | _, _ => "bad-op"
  | ["splay", l, r, u, p] => match natList l, natList r, natList u, p.toNat? with
    | some l, some r, some u, some p =>
      let t := splay { left := l.toArray, right := r.toArray, up := u.toArray } p
      GenSkp.splay l r u p s!"{showNatList t.left.toList} {showNatList t.right.toList} {showNatList t.up.toList}"
    | _, _, _, _ => "bad-op"
  | _ => "bad-op"

end H4.Driver
