import H4.SkpHuffIO
import H4.Gen.Fn.Cskphuff
import H4.Driver.Util
namespace H4.Driver
open H4.SkpHuff

/- function-level Tie A cross-run: `HCIcskphuff_splay` as TRANSLATED from cskphuff.c (`H4.Gen.Fn.Cskphuff`) is executed on the
    arrays of the `splay` T line; a result different from the model's (or ub / out of fuel) is appended as ` GEN=…` and so shows
    up as a DIFF against the real C -/
namespace GenSkp
open H4.Gen.Fn.Cskphuff
def il (l : List Nat) : List Int := l.map Int.ofNat
def tag (model : String) (ub oof : Bool) (gen : String) : String :=
  if ub then s!"{model} GEN=ub" else if oof then s!"{model} GEN=oof" else if gen == model then model else s!"{model} GEN={gen}"
def splay (l r u : List Nat) (plain : Nat) (model : String) : String :=
  let s := HCIcskphuff_splay H4.Gen.Cskphuff.TWICEMAX 0 (il l) (il r) (il u) plain
  tag model s.ub s.oof s!"{showIntList s.skphuff_info_left} {showIntList s.skphuff_info_right} {showIntList s.skphuff_info_up}"

/-! `HCIcskphuff_encode` / `HCIcskphuff_decode` as TRANSLATED from cskphuff.c (they call the translated `HCIcskphuff_splay`), run beside
    the model on the `enc` / `dec` T lines.  As the library does (`HCPcskphuff_write` / `_read` are called with pieces of the data), the
    stream is handed to the translated function in pieces, the coder state `skphuff_info` (rows, `skip_pos`, `offset`) carried from one
    call to the next; regions `io_out` / `io_in` are per call (the translated functions index them with `List` operations, so short
    regions keep the run linear).  Fuel as in `H4.Props.C05SkpFn`: `length + 511` / `length + bits + 254`. -/
structure CSt where
  left : List (List Int)
  right : List (List Int)
  up : List (List Int)
  pos : Int := 0
  off : Int := 0

/-- `HCIcskphuff_init`: `skip_size` fresh trees, lane 0, offset 0 -/
def initSt (skip : Nat) : CSt :=
  { left := List.replicate skip (il Tree.init.left.toList), right := List.replicate skip (il Tree.init.right.toList),
    up := List.replicate skip (il Tree.init.up.toList) }

def pairs : List Int → List (Nat × Nat)
  | c :: d :: rest => (c.toNat, d.toNat) :: pairs rest
  | _ => []

/-- the `Hbitwrite(count, data)` calls of the translated encoder for `bs`, 128 bytes per call -/
def encRun (skip : Nat) : Nat → CSt → List UInt8 → List (List (Nat × Nat)) → Except String (List (Nat × Nat))
  | 0, _, _, acc => .ok acc.reverse.flatten
  | f + 1, st, bs, acc =>
    if bs.isEmpty then .ok acc.reverse.flatten else
    let c := bs.take 128
    let s := HCIcskphuff_encode (c.length + 511) st.pos st.up st.right st.left skip st.off c.length (c.map fun b => (b.toNat : Int)) []
    if s.ub then .error "ub" else if s.oof then .error "oof" else if s.ret ≠ 0 then .error s!"ret={s.ret}" else
    encRun skip f { left := s.skphuff_info_left, right := s.skphuff_info_right, up := s.skphuff_info_up, pos := s.skphuff_info_skip_pos,
                    off := s.skphuff_info_offset } (bs.drop 128) (pairs s.io_out :: acc)

/-- answer of a T line with the verdict of the cross-run: the model's answer itself when the translated function agrees, otherwise marked
    with `GEN=…` (for a long answer in front - the DIFF report shows only the beginning of an answer - and reduced to
    `@<index of the first byte that differs>:<12 bytes from there>(len=<bytes>)`) -/
def mark (model g : String) : String :=
  if model.length ≤ 100 then s!"{model} GEN={g}" else
  let rec fd : List Char → List Char → Nat → Nat
    | a :: as, b :: bs, i => if a == b then fd as bs (i + 1) else i
    | _, _, i => i
  let i := fd g.toList model.toList 0
  s!"GEN=@{i / 2}:{String.ofList ((g.toList.drop (i - i % 2)).take 24)}(len={g.length / 2}) {model}"

/-- bytes per `enc` line that go through the translated encoder (the translated functions work on `List`s, about 30 times slower than the
    model's arrays: ~0.1 ms per byte); longer streams are cross-run up to this byte and the bit stream compared as a prefix -/
def encCap : Nat := 4096
/-- same for `dec` lines (decoding has no code-length-dependent paths beyond the descent loop; `enc` covers the deep-code region) -/
def decCap : Nat := 256

def isPrefix : List Bool → List Bool → Bool
  | [], _ => true
  | _ :: _, [] => false
  | a :: as, b :: bs => a == b && isPrefix as bs

/-- the translated encoder beside the model's answer for `enc <skip> <data>`: `raw` = the model's DFTAG_COMPRESSED bytes -/
def enc (skip : Nat) (bs : List UInt8) (raw : List UInt8) : String :=
  let model := toHex raw
  let bs' := bs.take encCap
  match encRun skip (bs'.length + 1) (initSt skip) bs' [] with
  | .error e => mark model e
  | .ok fs =>
    if bs'.length == bs.length then
      let g := toHex (H4.BitIO.pack fs (some false))
      if g == model then model else mark model g
    else if isPrefix (H4.Bits.fieldsBits fs) (H4.Bits.bytesBits raw) then model
    else mark model (toHex (H4.BitIO.pack fs (some false)))

/-- `n` bytes through the translated decoder, 16 bytes per call on a window of the unread bits: first `24 * 16` bits; if the call fails
    for want of bits, `520 * 16` (a code of a well-formed tree has at most 512 bits), then everything left - so FAIL is reported only at
    the real end of the input -/
def decRun (skip : Nat) : Nat → CSt → List Int → Nat → List (List Int) → Except String (List Int)
  | 0, _, _, _, acc => .ok acc.reverse.flatten
  | f + 1, st, bits, n, acc =>
    if n = 0 then .ok acc.reverse.flatten else
    let m := min n 16
    let run (win : List Int) := HCIcskphuff_decode (m + win.length + 254) st.pos st.left st.right st.up skip st.off m (List.replicate m 0) win 0
    let s := run (bits.take (24 * m))
    let s := if s.ret ≠ 0 ∧ !s.ub ∧ !s.oof then run (bits.take (520 * m)) else s
    let s := if s.ret ≠ 0 ∧ !s.ub ∧ !s.oof then run bits else s
    if s.ub then .error "ub" else if s.oof then .error "oof" else if s.ret ≠ 0 then .error "fail" else
    decRun skip f { left := s.skphuff_info_left, right := s.skphuff_info_right, up := s.skphuff_info_up, pos := s.skphuff_info_skip_pos,
                    off := s.skphuff_info_offset } (bits.drop s.io_pos.toNat) (n - m) (s.buf :: acc)

/-- the translated decoder beside the model's answer `model` for `dec <skip> <n> <raw>`: the first `decCap` bytes -/
def dec (skip n : Nat) (raw : List UInt8) (model : String) : String :=
  let bits := (H4.Bits.bytesBits raw).map fun b => if b then (1 : Int) else 0
  let n' := if model == "fail" then n else min n decCap
  let g := match decRun skip (n' + 1) (initSt skip) bits n' [] with
    | .error e => e
    | .ok out => toHex (out.map fun v => UInt8.ofNat v.toNat)
  let want := if n' = n then model else String.ofList (model.toList.take (2 * n'))
  if g == want then model else mark model g
end GenSkp

/-- engine `skphuff`:
    `enc <skip> <hex data>` => raw DFTAG_COMPRESSED bytes; model `compress` + the translated `HCIcskphuff_encode` (`GenSkp.enc`: its
       `Hbitwrite` calls packed by the same `H4.BitIO.pack`)
    `dec <skip> <n> <hex raw>` => the `n` decoded bytes (through the bit-id state machine) | fail; + the translated `HCIcskphuff_decode`
       (`GenSkp.dec`) on the bits of `raw`
    `decb <skip> <n> <hex raw>` => same on the plain bit list (the function the round-trip theorem is about)
    `lens <skip> <hex data>` => `<maxbits> <maxwords> <totalbits>`: longest code, most words of the encoder's bit stack used by
       one code, length of the bit stream (computed from the model's `Hbitwrite` list; the engine measures them on a replica tree)
    `splay <left> <right> <up> <plain>` => `<left'> <right'> <up'>`: one `HCIcskphuff_splay` on one tree (decimal arrays:
       `left[SUCCMAX]`, `right[SUCCMAX]`, `up[TWICEMAX]`), model `splay` + the translated C function (`GenSkp`) -/
def stepSkpHuff (args : List String) : String :=
  match args with
  | ["enc", k, d] => match k.toNat?, parseHex d with
    | some k, some bs => GenSkp.enc k bs (compress k bs)
    | _, _ => "bad-op"
  | ["dec", k, n, d] => match k.toNat?, n.toNat?, parseHex d with
    | some k, some n, some raw => GenSkp.dec k n raw (match decompressIO k raw n with
      | some o => toHex o
      | none => "fail")
    | _, _, _ => "bad-op"
  | ["decb", k, n, d] => match k.toNat?, n.toNat?, parseHex d with
    | some k, some n, some raw => match decompress k raw n with
      | some o => toHex o
      | none => "fail"
    | _, _, _ => "bad-op"
  | ["lens", k, d] => match k.toNat?, parseHex d with
    | some k, some bs => let r := codeLens k bs; s!"{r.1} {r.2.1} {r.2.2}"
    | _, _ => "bad-op"
  | ["splay", l, r, u, p] => match natList l, natList r, natList u, p.toNat? with
    | some l, some r, some u, some p =>
      let t := splay { left := l.toArray, right := r.toArray, up := u.toArray } p
      GenSkp.splay l r u p s!"{showNatList t.left.toList} {showNatList t.right.toList} {showNatList t.up.toList}"
    | _, _, _, _ => "bad-op"
  | _ => "bad-op"

end H4.Driver
