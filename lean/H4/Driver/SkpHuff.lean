import H4.SkpHuffIO
import H4.Driver.Util
namespace H4.Driver
open H4.SkpHuff

/-- engine `skphuff`:
    `enc <skip> <hex data>` => raw DFTAG_COMPRESSED bytes
    `dec <skip> <n> <hex raw>` => the `n` decoded bytes (through the bit-id state machine) | fail
    `decb <skip> <n> <hex raw>` => same on the plain bit list (the function the round-trip theorem is about) -/
def stepSkpHuff (args : List String) : String :=
  match args with
  | ["enc", k, d] => match k.toNat?, parseHex d with
    | some k, some bs => toHex (compress k bs)
    | _, _ => "bad-op"
  | ["dec", k, n, d] => match k.toNat?, n.toNat?, parseHex d with
    | some k, some n, some raw => match decompressIO k raw n with
      | some o => toHex o
      | none => "fail"
    | _, _, _ => "bad-op"
  | ["decb", k, n, d] => match k.toNat?, n.toNat?, parseHex d with
    | some k, some n, some raw => match decompress k raw n with
      | some o => toHex o
      | none => "fail"
    | _, _, _ => "bad-op"
  | _ => "bad-op"

end H4.Driver
