import H4.CompHdr
import H4.Gen.Fn.MfgrRec
import H4.Codecs
import H4.Driver.Util
/-! engine `rec` (C02 / C05 / C15): the small record codecs, replayed on the hand-written codecs and — for the validation of the
    translator — on the definitions `gen/c2lean.py` translated from the C text (`GEN=` suffix when they differ from the model's
    answer, set `ub` or run out of fuel).

    `hdrenc mt ct a1..a5` → `<ret> <24 bytes>` (`HCPencode_header`), `hdrdec L <24 bytes>` → `short` | `<ret> mt ct a1..a5`
    (`HCPdecode_header`); `idenc xdim ydim nt_tag nt_ref ncomps comp_tag comp_ref` → `<20 bytes>` (the block of `GRIupdatemeta`),
    `iddec L <24 bytes>` → `short` | the eight fields (`Decode_diminfo`); see harness/e_rec.c. -/
namespace H4.Driver
open H4.Format H4.CompHdr H4.Gen.Hdf H4.Gen.Fmt

namespace Rec

def tag (model : String) (ub oof : Bool) (gen : String) : String :=
  if ub then s!"{model} GEN=ub" else if oof then s!"{model} GEN=oof" else if gen == model then model else s!"{model} GEN={gen}"

/-- the 24-byte buffer of the harness before the call -/
def pattern : List Int := (List.range 24).map fun i => ((0xa0 + i : Nat) : Int)

def toBytes (l : List Int) : List UInt8 := l.map fun x => UInt8.ofNat (x % 256).toNat
def ofBytes (l : List UInt8) : List Int := l.map fun b => (b.toNat : Int)

/-- the members of the coder's part of the union, in the order of the C struct -/
def members (ct : Int) (c : CInfo) : List Int :=
  if ct = 2 then [c.nt, c.sign_ext, c.fill_one, c.start_bit, c.bit_len]
  else if ct = 3 then [c.skp_size, 0, 0, 0, 0]
  else if ct = 4 then [c.level, 0, 0, 0, 0]
  else if ct = 5 then [c.pixels, c.pixels_per_scanline, c.options_mask, c.bits_per_pixel, c.pixels_per_block]
  else [0, 0, 0, 0, 0]

def mkCInfo (ct : Int) (a : List Int) : CInfo :=
  let g (i : Nat) : Int := a.getD i 0
  if ct = 2 then { nt := g 0, sign_ext := g 1, fill_one := g 2, start_bit := g 3, bit_len := g 4 }
  else if ct = 3 then { skp_size := g 0 }
  else if ct = 4 then { level := g 0 }
  else if ct = 5 then { pixels := g 0, pixels_per_scanline := g 1, options_mask := g 2, bits_per_pixel := g 3, pixels_per_block := g 4 }
  else {}

def showMembers (l : List Int) : String := " ".intercalate (l.map toString)

def hdrenc (mt ct : Int) (a : List Int) : String :=
  let c := mkCInfo ct a
  let fails : Bool := decide (EncFails ct c)
  let recB : List UInt8 := if fails then enc16 mt.toNat ++ enc16 ct.toNat else encodeCoderInfo ⟨mt.toNat, coderOf ct c⟩
  let buf : List Int := ofBytes recB ++ pattern.drop recB.length
  let model := s!"{if fails then (-1 : Int) else 0} {toHex (toBytes buf)}"
  let s := HCPencode_headerC 0 pattern mt false ct false c
  tag model s.ub s.oof s!"{s.ret} {toHex (toBytes s.p)}"

def hdrdec (L : Nat) (bytes : List UInt8) : String :=
  let b := bytes.take L
  let s := HCPdecode_headerC 0 (ofBytes b) false [0] false false [0] false {}
  match decodeCoderInfo b with
  | none => if s.ub then "short" else "short GEN=no-ub"
  | some (ci, _) =>
    let code : Int := ci.coder.code
    let model := s!"0 {ci.model} {code} {showMembers (members code (applyCoder ci.coder {}))}"
    let ct := s.coder_type.getD 0 0
    tag model s.ub s.oof s!"{s.ret} {s.model_type.getD 0 0} {ct} {showMembers (members ct (cinfoOfD s))}"

/-! ### DFTAG_ID / DFTAG_LD of the GR interface -/

open H4.Gen.Fn.MfgrRec in
def idenc (a : List Int) : String :=
  let g (i : Nat) : Int := a.getD i 0
  let r : H4.Codecs.DimRec := ⟨g 0, g 1, (g 2).toNat, (g 3).toNat, g 4, 0, (g 5).toNat, (g 6).toNat⟩
  let model := toHex (H4.Codecs.encode_mfgr r)
  let s := GRIupdatemeta_id (fuel := 0) (p := List.replicate 20 0) (img_ptr_img_dim_xdim := g 0) (img_ptr_img_dim_ydim := g 1)
    (img_ptr_img_dim_nt_tag := g 2) (img_ptr_img_dim_nt_ref := g 3) (img_ptr_img_dim_ncomps := g 4) (img_ptr_img_dim_comp_tag := g 5)
    (img_ptr_img_dim_comp_ref := g 6)
  tag model s.ub s.oof (toHex (toBytes s.p))

open H4.Gen.Fn.MfgrRec in
def iddec (L : Nat) (bytes : List UInt8) : String :=
  let b := bytes.take L
  let s := Decode_diminfo (fuel := 0) (p := ofBytes b) (dim_info_xdim := 0) (dim_info_ydim := 0) (dim_info_nt_tag := 0) (dim_info_nt_ref := 0)
    (dim_info_ncomps := 0) (dim_info_il := 0) (dim_info_comp_tag := 0) (dim_info_comp_ref := 0)
  match H4.Codecs.decode_mfgr b with
  | none => if s.ub then "short" else "short GEN=no-ub"
  | some r =>
    let model := s!"{r.xdim} {r.ydim} {r.ntTag} {r.ntRef} {r.ncomps} {r.il} {r.compTag} {r.compRef}"
    tag model s.ub s.oof
      s!"{s.dim_info_xdim} {s.dim_info_ydim} {s.dim_info_nt_tag} {s.dim_info_nt_ref} {s.dim_info_ncomps} {s.dim_info_il} {s.dim_info_comp_tag} {s.dim_info_comp_ref}"

end Rec

def stepRec (args : List String) : String :=
  match args with
  | ["hdrenc", mt, ct, a1, a2, a3, a4, a5] =>
    match parseInt mt, parseInt ct, [a1, a2, a3, a4, a5].mapM parseInt with
    | some mt, some ct, some a => Rec.hdrenc mt ct a
    | _, _, _ => "bad-args"
  | ["hdrdec", l, hex] =>
    match parseNat l, parseHex hex with
    | some l, some b => Rec.hdrdec l b
    | _, _ => "bad-args"
  | ["idenc", a1, a2, a3, a4, a5, a6, a7] =>
    match [a1, a2, a3, a4, a5, a6, a7].mapM parseInt with
    | some a => Rec.idenc a
    | none => "bad-args"
  | ["iddec", l, hex] =>
    match parseNat l, parseHex hex with
    | some l, some b => Rec.iddec l b
    | _, _ => "bad-args"
  | _ => "bad-op"

end H4.Driver
