import H4.Elem
import H4.Driver.Util
/-! Line-protocol glue for engine `elem` (harness/e_elem.c): every `T elem <op> …` line is replayed on `H4.Elem.World`. -/
namespace H4.Driver
open H4.Elem H4.Gen.Hdf

def showElemRes : Res → String
  | .fail => "fail"
  | .ok => "ok"
  | .num n => toString n
  | .data n buf => s!"{n} {toHex ((buf ++ List.replicate 32768 0x5a).take (min n.toNat 32768))}"
  | .info len off posn sp => s!"{len} {off} {posn} {sp}"
  | .crash => "crash"

def elemModeOf (s : String) : Option Nat :=
  match s with | "c" => some DFACC_CREATE | "w" => some DFACC_RDWR | "r" => some DFACC_READ | _ => none

/-- engine `elem` -/
def stepElem (w : World) (args : List String) : World × String :=
  let bad := (w, "bad-op")
  let run (r : Option (World × Res)) : World × String := match r with
    | some (w, r) => (w, showElemRes r)
    | none => bad
  match args with
  | ["fixed", b] => ({ w with cfg := { fixed := b == "1" } }, "ok")
  | ["open", fi, m, nd] => run do
      let fi ← parseNat fi; let m ← elemModeOf m; let nd ← parseNat nd
      -- make room for the file index
      let w := if fi < w.files.length then w else { w with files := w.files ++ List.replicate (fi + 1 - w.files.length) {} }
      pure (hopen w fi m nd)
  | ["close", fi] => run do pure (hclose w (← parseNat fi))
  | ["cache", fi, b] => run do pure (hcache w (← parseNat fi) (b == "1"))
  | ["startaccess", h, fi, tag, ref, fl] => run do
      pure (hstartaccess w (← parseNat h) (← parseNat fi) (← parseNat tag) (← parseNat ref) (fl == "w" || fl == "wa") (fl == "wa" || fl == "ra"))
  | ["startwrite", h, fi, tag, ref, len] => run do
      pure (hstartwrite w (← parseNat h) (← parseNat fi) (← parseNat tag) (← parseNat ref) (← parseNat len))
  | ["setlength", h, len] => run do pure (hsetlength w (← parseNat h) (← parseNat len))
  | ["hlcreate", h, fi, tag, ref, bl, nb] => run do
      pure (hlcreate w (← parseNat h) (← parseNat fi) (← parseNat tag) (← parseNat ref) (← parseNat bl) (← parseNat nb))
  | ["hlconvert", h, bl, nb] => run do pure (hlconvert w (← parseNat h) (← parseNat bl) (← parseNat nb))
  | ["setblockinfo", h, bl, nb] => run do pure (hsetblockinfo w (← parseNat h) (← parseInt bl) (← parseInt nb))
  | ["appendable", h] => run do pure (happendable w (← parseNat h))
  | ["seek", h, off, org] => run do pure (hseek w (← parseNat h) (← parseInt off) (← parseNat org))
  | ["tell", h] => run do pure (htell w (← parseNat h))
  | ["inquire", h] => run do pure (hinquire w (← parseNat h))
  | ["read", h, n] => run do pure (hread w (← parseNat h) (← parseInt n))
  | ["write", h, d] => run do pure (hwrite w (← parseNat h) (← parseHex d))
  | ["trunc", h, n] => run do pure (htrunc w (← parseNat h) (← parseNat n))
  | ["endaccess", h] => run do pure (hendaccess w (← parseNat h))
  | ["dupdd", fi, t, r, ot, or_] => run do
      pure (hdupdd w (← parseNat fi) (← parseNat t) (← parseNat r) (← parseNat ot) (← parseNat or_))
  | ["deldd", fi, t, r] => run do pure (hdeldd w (← parseNat fi) (← parseNat t) (← parseNat r))
  | ["length", fi, t, r] => run do pure (hlength w (← parseNat fi) (← parseNat t) (← parseNat r))
  | ["getelement", fi, t, r] => run do pure (hgetelement w (← parseNat fi) (← parseNat t) (← parseNat r))
  | ["putelement", fi, t, r, d] => run do pure (hputelement w (← parseNat fi) (← parseNat t) (← parseNat r) (← parseHex d))
  | _ => bad

end H4.Driver
