import H4.Elem
import H4.ElemFn
import H4.Gen.Fn.Hfile2
import H4.Driver.Util
/-! Line-protocol glue for engine `elem` (harness/e_elem.c): every `T elem <op> …` line is replayed on `H4.Elem.World`. -/
namespace H4.Driver
open H4.Elem H4.Gen.Hdf H4.ElemFn

def showElemRes : Res → String
  | .fail => "fail"
  | .ok => "ok"
  | .num n => toString n
  | .data n buf => s!"{n} {toHex ((buf ++ List.replicate 32768 0x5a).take (min n.toNat 32768))}"
  | .info len off posn sp => s!"{len} {off} {posn} {sp}"
  | .crash => "crash"

def elemModeOf (s : String) : Option Nat :=
  match s with | "c" => some DFACC_CREATE | "w" => some DFACC_RDWR | "r" => some DFACC_READ | _ => none


/-! Cross-run of the functions TRANSLATED from `hdf/src/hfile.c` (`H4.Gen.Fn.Hfile2`, regenerated from /repo's current text): for every
    `seek` / `read` / `write` / `inquire` / `trunc` / `setlength` line on an ordinary (non-special) access record the translated function is run
    on the encoding of the model's record, descriptor and file (`H4.ElemFn`), the calls of the layer below answering as the model says
    (`HP_read` FAILs iff `hpRead` does, `HLconvert` FAILs iff the model refuses the conversion, the call on the converted element returns the
    model's result).  Result, new position, flags, descriptor and end of file are compared with the model's; a difference, undefined
    behaviour or an unfinished loop is appended as ` GEN=…` to the answer, i.e. reported as a DIFF against the compiled C. -/
namespace GenElem
open H4.Gen.Fn.Hfile2 H4.ElemFn

def cmp (model : String) (ub oof : Bool) (m g : String) : String :=
  if ub then s!"{model} GEN=ub" else if oof then s!"{model} GEN=oof" else if m == g then model else s!"{model} GEN={g}|MODEL={m}"

def accWord (a : Acc) : Int := if a.canWrite then 3 else 1

/-- position / flags of the model's record after the call -/
def accStr (w : World) (h : Nat) : String :=
  match w.acc h with
  | some a => s!"{a.posn} {b2i a.appendable} {b2i a.newElem}"
  | none => "none"

def ddStr (w : World) (a : Acc) : String :=
  let f := w.file a.file
  s!"{ddOff (f.dd a.slot)} {ddLen (f.dd a.slot)} {f.endOff}"

def promoted (calls : List (List Int)) : Bool := calls.any (fun r => r.head? == some 6)

def seek (w : World) (h : Nat) (off org : Int) (r : World × Res) (model : String) : String :=
  match w.acc h with
  | none =>
    let s := Hseek 1 h off org true 0 0 0 [] 0 0 0 0 0 0 0 true 0 0 0 0
    cmp model s.ub s.oof s!"{resCode r.2}" s!"{s.ret}"
  | some a =>
    if a.special then model else
    let f := w.file a.file
    let d := f.dd a.slot
    let conv : Int := if f.writable = false ∨ (d.ext = none ∧ a.canWrite = false) then -1 else 0
    let s := Hseek 1 h off org false 0 0 a.slot [] d.tag d.ref (ddOff d) (ddLen d) a.posn (b2i a.appendable) f.endOff false conv
      a.blockSize a.numBlocks 0
    let a' := (r.1.acc h).getD a
    if promoted s.calls || a'.special then
      cmp model s.ub s.oof s!"{resCode r.2} {a'.posn} {promoted s.calls}" s!"{s.ret} {s.access_rec_posn} {a'.special || (conv == -1)}"
    else
      cmp model s.ub s.oof s!"{resCode r.2} {a'.posn} {b2i a'.appendable}" s!"{s.ret} {s.access_rec_posn} {s.access_rec_appendable}"

def read (w : World) (h : Nat) (len : Int) (r : World × Res) (model : String) : String :=
  match w.acc h with
  | none =>
    let s := Hread 1 h len false true 0 0 0 0 [] 0 0 0 0 true 0 0 0 0 0
    cmp model s.ub s.oof s!"{resCode r.2}" s!"{s.ret}"
  | some a =>
    if a.special then model else
    let f := w.file a.file
    let d := f.dd a.slot
    let readr : Int := match f.hpRead ((ddOff d).toNat + a.posn) (readLen a d len).toNat with | none => -1 | some _ => 0
    let s := Hread 1 h len false false (b2i a.newElem) 0 a.slot 0 [] d.tag d.ref (ddOff d) (ddLen d) false 1 0 a.posn 0 readr
    let a' := (r.1.acc h).getD a
    cmp model s.ub s.oof s!"{resCode r.2} {a'.posn} {b2i a'.newElem}" s!"{s.ret} {s.access_rec_posn} {s.access_rec_new_elem}"

def write (w : World) (h : Nat) (len : Int) (r : World × Res) (model : String) : String :=
  match w.acc h with
  | none =>
    let s := Hwrite 1 h len false true 0 0 true 0 0 0 0 [] 0 0 0 0 0 0 0 0 0 0 0 0 0 0 0 0
    cmp model s.ub s.oof s!"{resCode r.2}" s!"{s.ret}"
  | some a =>
    if a.special then model else
    let f := w.file a.file
    let d := f.dd a.slot
    let conv : Int := if f.writable = false then -1 else 0
    let fuel := a.posn / 512 + 2
    let blk : Int := if len < 0 then -1 else f.endOff      -- `HPgetdiskblock` refuses a negative size
    let s := Hwrite fuel h len false false (accWord a) 0 false 1 (b2i a.newElem) a.slot 0 [] d.tag d.ref (ddOff d) (ddLen d) blk f.endOff 0
      (b2i a.appendable) a.posn conv a.blockSize a.numBlocks (resCode r.2) 0 0 0
    let a' := (r.1.acc h).getD a
    if promoted s.calls || a'.special then
      cmp model s.ub s.oof s!"{resCode r.2} {a'.special || (conv == -1)}" s!"{s.ret} {promoted s.calls}"
    else
      cmp model s.ub s.oof s!"{resCode r.2} {accStr r.1 h} {ddStr r.1 a}"
        s!"{s.ret} {s.access_rec_posn} {s.access_rec_appendable} {s.access_rec_new_elem} {s.dd_off} {s.dd_len} {s.file_rec_f_end_off}"

def trunc (w : World) (h : Nat) (n : Int) (r : World × Res) (model : String) : String :=
  match w.acc h with
  | none =>
    let s := Htrunc 1 h n true 0 0 0 0 [] 0 0 0 0 0 0 0
    cmp model s.ub s.oof s!"{resCode r.2}" s!"{s.ret}"
  | some a =>
    if a.special then model else
    let f := w.file a.file
    let d := f.dd a.slot
    let s := Htrunc 1 h n false (accWord a) 0 0 a.slot [] d.tag d.ref (ddOff d) (ddLen d) 0 f.endOff a.posn
    let a' := (r.1.acc h).getD a
    cmp model s.ub s.oof s!"{resCode r.2} {a'.posn} {ddStr r.1 a}" s!"{s.ret} {s.access_rec_posn} {s.dd_off} {s.dd_len} {s.file_rec_f_end_off}"

def setlength (w : World) (h : Nat) (n : Int) (r : World × Res) (model : String) : String :=
  match w.acc h with
  | none =>
    let s := Hsetlength 1 h n true 0 0 0 0 [] 0 0 0 0 0 true 0 0 0 0
    cmp model s.ub s.oof s!"{resCode r.2}" s!"{s.ret}"
  | some a =>
    if a.special then model else
    let f := w.file a.file
    let d := f.dd a.slot
    let blk : Int := if n < 0 then -1 else f.endOff
    let s := Hsetlength 1 h n false (b2i a.newElem) 0 a.slot 0 [] d.tag d.ref (ddOff d) (ddLen d) (accWord a) false 1 blk f.endOff 0
    let a' := (r.1.acc h).getD a
    cmp model s.ub s.oof s!"{resCode r.2} {b2i a'.newElem} {ddStr r.1 a}" s!"{s.ret} {s.access_rec_new_elem} {s.dd_off} {s.dd_len} {s.file_rec_f_end_off}"

def inquire (w : World) (h : Nat) (model : String) : String :=
  match w.acc h with
  | none =>
    let s := Hinquire 1 h true [] [] true [] true [] false [] false false [] true [] false [] true 0 0 0 0 [] 0 0 0 0 0 0
    cmp model s.ub s.oof "fail" (if s.ret == -1 then "fail" else "ok")
  | some a =>
    if a.special then model else
    let f := w.file a.file
    let d := f.dd a.slot
    let s := Hinquire 1 h true [] [] true [] true [0] false [0] false false [0] true [] false [0] false 0 a.file 0 a.slot [] d.tag d.ref
      (ddOff d) (ddLen d) a.posn (accWord a)
    cmp model s.ub s.oof model
      (if s.ret == -1 then "fail" else s!"{s.plength.getD 0 0} {s.poffset.getD 0 0} {s.pposn.getD 0 0} {s.pspecial.getD 0 0}")
end GenElem

/-- engine `elem` -/
def stepElem (w : World) (args : List String) : World × String :=
  let bad := (w, "bad-op")
  let run (r : Option (World × Res)) : World × String := match r with
    | some (w, r) => (w, showElemRes r)
    | none => bad
  match args with
  | ["fixed", b] => ({ w with cfg := { fixed := b == "1" } }, "ok")
  | ["open", fi, m, nd] => run do
      let fi ← parseNat fi; let m ← elemModeOf m; let nd ← parseNat nd
      -- make room for the file index
      let w := if fi < w.files.length then w else { w with files := w.files ++ List.replicate (fi + 1 - w.files.length) {} }
      pure (hopen w fi m nd)
  | ["close", fi] => run do pure (hclose w (← parseNat fi))
  | ["cache", fi, b] => run do pure (hcache w (← parseNat fi) (b == "1"))
  | ["startaccess", h, fi, tag, ref, fl] => run do
      pure (hstartaccess w (← parseNat h) (← parseNat fi) (← parseNat tag) (← parseNat ref) (fl == "w" || fl == "wa") (fl == "wa" || fl == "ra"))
  | ["startwrite", h, fi, tag, ref, len] => run do
      pure (hstartwrite w (← parseNat h) (← parseNat fi) (← parseNat tag) (← parseNat ref) (← parseNat len))
  | ["setlength", h, len] =>
    match parseNat h, parseInt len with
    | some h, some len => let r := hsetlengthI w h len; (r.1, GenElem.setlength w h len r (showElemRes r.2))
    | _, _ => bad
  | ["hlcreate", h, fi, tag, ref, bl, nb] => run do
      pure (hlcreate w (← parseNat h) (← parseNat fi) (← parseNat tag) (← parseNat ref) (← parseNat bl) (← parseNat nb))
  | ["hlconvert", h, bl, nb] => run do pure (hlconvert w (← parseNat h) (← parseNat bl) (← parseNat nb))
  | ["setblockinfo", h, bl, nb] => run do pure (hsetblockinfo w (← parseNat h) (← parseInt bl) (← parseInt nb))
  | ["appendable", h] => run do pure (happendable w (← parseNat h))
  | ["seek", h, off, org] =>
    match parseNat h, parseInt off, parseInt org with
    | some h, some off, some org => let r := hseekI w h off org; (r.1, GenElem.seek w h off org r (showElemRes r.2))
    | _, _, _ => bad
  | ["tell", h] => run do pure (htell w (← parseNat h))
  | ["inquire", h] =>
    match parseNat h with
    | some h => let r := hinquire w h; (r.1, GenElem.inquire w h (showElemRes r.2))
    | _ => bad
  | ["read", h, n] =>
    match parseNat h, parseInt n with
    | some h, some n => let r := hread w h n; (r.1, GenElem.read w h n r (showElemRes r.2))
    | _, _ => bad
  | ["write", h, d] =>
    match parseNat h, parseHex d with
    | some h, some d => let r := hwrite w h d; (r.1, GenElem.write w h d.length r (showElemRes r.2))
    | _, _ => bad
  -- `Hwrite` with a negative length (a dummy buffer): refused
  | ["writen", h, n] =>
    match parseNat h, parseInt n with
    | some h, some n =>
      if n ≥ 0 then bad else
      match hwriteNeg w h with
      | some r => (r.1, GenElem.write w h n r (showElemRes r.2))
      | none => (w, "fail")
    | _, _ => bad
  | ["trunc", h, n] =>
    match parseNat h, parseInt n with
    | some h, some n => let r := htruncI w h n; (r.1, GenElem.trunc w h n r (showElemRes r.2))
    | _, _ => bad
  | ["endaccess", h] => run do pure (hendaccess w (← parseNat h))
  | ["dupdd", fi, t, r, ot, or_] => run do
      pure (hdupdd w (← parseNat fi) (← parseNat t) (← parseNat r) (← parseNat ot) (← parseNat or_))
  | ["deldd", fi, t, r] => run do pure (hdeldd w (← parseNat fi) (← parseNat t) (← parseNat r))
  | ["length", fi, t, r] => run do pure (hlength w (← parseNat fi) (← parseNat t) (← parseNat r))
  | ["getelement", fi, t, r] => run do pure (hgetelement w (← parseNat fi) (← parseNat t) (← parseNat r))
  | ["putelement", fi, t, r, d] => run do pure (hputelement w (← parseNat fi) (← parseNat t) (← parseNat r) (← parseHex d))
  | _ => bad

end H4.Driver
