import H4.Conv
import H4.Gen.Fn.Dfkswap
import H4.Gen.Fn.Dfknat
import H4.Driver.Util
namespace H4.Driver
open H4.Conv

/-! The kernels TRANSLATED from the current C text of dfkswap.c / dfknat.c (`H4.Gen.Fn.Dfkswap`, `H4.Gen.Fn.Dfknat`, gen/c2lean.py) are run
    on the same memory image as the hand-written model: the routine is the one `DFKconvert` dispatches to for the number type (`hconv_priv.h`
    `*_IN`/`*_OUT` macros on this host = element size + swap flag of the generated table).  When the translated routine's answer differs from
    the model's (or it reports undefined behaviour / fuel exhaustion) the answer carries a ` GEN=…` suffix, which the comparison with the
    real library's answer reports as a DIFF.  This validates the translator by differential testing against the compiled C. -/
namespace GenConv
open H4.Gen.Fn.Dfkswap H4.Gen.Fn.Dfknat

/-- the C view of a byte memory (`H4.Lemmas.C06Fn.bytes`) -/
def img (m : List UInt8) : List Int := m.map (fun b => (b.toNat : Int))

def showMem (l : List Int) : String :=
  if l.all (fun v => 0 ≤ v ∧ v < 256) then toHex (l.map fun v => UInt8.ofNat v.toNat) else "nonbyte:" ++ showIntList l

/-- (ub, oof, ret, mem) of the routine `DFKconvert` dispatches to; `s`/`d` are the addresses `so`/`dO` inside the one memory -/
def run (esz : Nat) (swap : Bool) (fuel so : Nat) (M : List Int) (dO num ss ds : Nat) : Option (Bool × Bool × Int × List Int) :=
  match esz, swap with
  | 1, false => let r := DFKnb1b fuel so M dO num ss ds; some (r.ub, r.oof, r.ret, r.mem)
  | 2, false => let r := DFKnb2b fuel so M dO num ss ds; some (r.ub, r.oof, r.ret, r.mem)
  | 4, false => let r := DFKnb4b fuel so M dO num ss ds; some (r.ub, r.oof, r.ret, r.mem)
  | 8, false => let r := DFKnb8b fuel so M dO num ss ds; some (r.ub, r.oof, r.ret, r.mem)
  | 2, true => let r := DFKsb2b fuel so M dO num ss ds; some (r.ub, r.oof, r.ret, r.mem)
  | 4, true => let r := DFKsb4b fuel so M dO num ss ds; some (r.ub, r.oof, r.ret, r.mem)
  | 8, true => let r := DFKsb8b fuel so M dO num ss ds; some (r.ub, r.oof, r.ret, r.mem)
  | _, _ => none

def cross (esz : Nat) (swap : Bool) (num so ss dO ds : Nat) (mem : List UInt8) (model : String) : String :=
  match run esz swap (num + 1) so (img mem) dO num ss ds with
  | none => s!"{model} GEN=no-routine"
  | some (ub, oof, ret, m) =>
    if ub then s!"{model} GEN=ub" else if oof then s!"{model} GEN=oof" else
    let gen := if ret == -1 then (if m == img mem then "fail" else "fail-but-wrote:" ++ showMem m)
               else if ret == 0 then showMem m else s!"ret={ret}"
    if gen == model then model else s!"{model} GEN={gen}"
end GenConv

/-- engine `conv`: `cv <nt> <num> <so> <ss> <dO> <ds> <hex mem>` => memory after `DFKconvert` | fail -/
def stepConv (args : List String) : String :=
  match args with
  | ["cv", nt, num, so, ss, dO, ds, m] =>
    match nt.toNat?, num.toNat?, so.toNat?, ss.toNat?, dO.toNat?, ds.toNat?, parseHex m with
    | some nt, some num, some so, some ss, some dO, some ds, some mem =>
      match lookup nt with
      | some (esz, swap) =>
        let model := match convert esz swap num so ss dO ds mem with
          | some r => toHex r
          | none => "fail"
        GenConv.cross esz swap num so ss dO ds mem model
      | none => "fail"
    | _, _, _, _, _, _, _ => "bad-op"
  | _ => "bad-op"

end H4.Driver
