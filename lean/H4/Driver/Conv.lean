import H4.Conv
import H4.Driver.Util
namespace H4.Driver
open H4.Conv

/-- engine `conv`: `cv <nt> <num> <so> <ss> <dO> <ds> <hex mem>` => memory after `DFKconvert` | fail -/
def stepConv (args : List String) : String :=
  match args with
  | ["cv", nt, num, so, ss, dO, ds, m] =>
    match nt.toNat?, num.toNat?, so.toNat?, ss.toNat?, dO.toNat?, ds.toNat?, parseHex m with
    | some nt, some num, some so, some ss, some dO, some ds, some mem =>
      match lookup nt with
      | some (esz, swap) => match convert esz swap num so ss dO ds mem with
        | some r => toHex r
        | none => "fail"
      | none => "fail"
    | _, _, _, _, _, _, _ => "bad-op"
  | _ => "bad-op"

end H4.Driver
