import H4.GRegion
import H4.Driver.Util
namespace H4.Driver
open H4.GRegion H4.Interlace

/-- state of engine `gr`: one raster image (none before `create`) – its open RI ids live in `ri.bk.ids` – and the
    handle the following calls go through -/
structure GrState where
  ri : Option RI := none
  cur : Nat := 0

/-- `start`/`stride`/`count` arrive as C `int32`s; a negative start is `DFE_BADDIM`, negative stride/count too -/
def parseReq (a : List String) : Option (Option Req) :=
  match a.mapM parseInt with
  | some [sx, sy, tx, ty, cx, cy] =>
    if sx < 0 ∨ sy < 0 ∨ tx < 1 ∨ ty < 1 ∨ cx < 1 ∨ cy < 1 then some none
    else some (some ⟨sx.toNat, sy.toNat, tx.toNat, ty.toNat, cx.toNat, cy.toNat⟩)
  | _ => none

def ilOfInt (s : String) : Option (Option Il) :=
  match parseInt s with
  | some i => if i < 0 then some none else some (Il.ofCode i.toNat)
  | none => none

/-- engine `gr`. The model variant is the source revision as it is now (`Variant.current`).
    * `create W H ncomp nt il`        => ok | fail
    * `setfill <hex>`                 => ok               (`GRsetattr(FILL_ATTR)`, memory-format pixel)
    * `setcomp`                       => ok               (`GRsetcompress`: no effect on the logical image)
    * `setchunk`                      => ok               (`GRsetchunk`: element exists, pre-filled)
    * `reqil il`                      => ok | fail
    * `write sx sy tx ty cx cy <hex>` => ok | fail
    * `read sx sy tx ty cx cy`        => <hex> | fail
    * `raw`                           => <hex of the DFTAG_RI element> | none
    * `reopen`                        => ok
    * `info`                          => W,H,ncomp,nt,il
    * `wlut ncomp nt il n <hex>`      => ok | fail
    * `reqlutil il`                   => ok | fail
    * `rlut`                          => <hex of the 768-byte buffer, pre-set to 5a>
    * `lutinfo`                       => ncomp,nt,il,nentries
    * `select k`                      => ok               (`GRselect` into handle `k`; `create`/`reopen` open handle 0)
    * `endaccess k`                   => ok | fail        (`GRendaccess`)
    * `use k`                         => ok               (the calls that follow go through handle `k`;
                                                            through a handle that is not open every call is `fail`) -/
def stepGr (st : GrState) (args : List String) : GrState × String :=
  let v := Variant.current
  -- calls that take an RI id: `HAatom_object(riid) == NULL` ⇒ FAIL when the handle is not open
  let viaId := match args with
    | "create" :: _ | "select" :: _ | "endaccess" :: _ | "use" :: _ | "reopen" :: _ | "raw" :: _ => false
    | _ => true
  if viaId && (st.ri.elim false fun ri => !ri.bk.ids.contains st.cur) then (st, "fail") else
  match args, st.ri with
  | ["select", k], some ri =>
    match parseNat k with
    | some k =>
      match ri.bk.select k with
      | some bk => ({ st with ri := some { ri with bk := bk } }, "ok")
      | none => (st, "bad-op")
    | none => (st, "bad-op")
  | ["endaccess", k], some ri =>
    match parseNat k with
    | some k =>
      match ri.bk.endaccess k with
      | some bk => ({ st with ri := some { ri with bk := bk } }, "ok")
      | none => (st, "fail")
    | none => (st, "bad-op")
  | ["use", k], some _ =>
    match parseNat k with
    | some k => ({ st with cur := k }, "ok")
    | none => (st, "bad-op")
  | ["create", w, h, nc, nt, il], _ =>
    match parseNat w, parseNat h, parseNat nc, parseNat nt, parseNat il with
    | some w, some h, some nc, some nt, some il =>
      match H4.Conv.lookup nt, Il.ofCode il with
      | some (csz, swap), some il =>
        if w = 0 ∨ h = 0 ∨ nc = 0 then (st, "fail")
        else
          let ri0 : RI := { W := w, H := h, ncomp := nc, nt := nt, csz := csz, swap := swap, il := il, bk := { ids := [0] } }
          ({ ri := some ri0, cur := 0 }, "ok")
      | _, _ => (st, "fail")
    | _, _, _, _, _ => (st, "bad-op")
  | ["setfill", hx], some ri =>
    match parseHex hx with
    | some b => ({ st with ri := some { ri with fill := some b } }, "ok")
    | none => (st, "bad-op")
  | ["setcomp"], some ri =>
    match ri.bk.setcompress with
    | some bk => ({ st with ri := some { ri with bk := bk } }, "ok")
    | none => (st, "fail")
  | ["setchunk"], some ri => ({ st with ri := some (GRsetchunk ri) }, "ok")
  | ["reqil", il], some ri =>
    match ilOfInt il with
    | some (some il) => ({ st with ri := some (GRreqimageil ri il) }, "ok")
    | some none => (st, "fail")
    | none => (st, "bad-op")
  | ["write", sx, sy, tx, ty, cx, cy, hx], some ri =>
    match parseReq [sx, sy, tx, ty, cx, cy], parseHex hx with
    | some (some r), some data =>
      if v.rangeCheck && !(r.sane && r.inImage ri.W ri.H) then (st, "fail")   -- refused before the buffer is looked at
      else if data.length ≠ r.cx * r.cy * ri.psz then (st, "bad-op") else
      match GRwriteimageId v ri st.cur r data with
      | (ri', true) => ({ st with ri := some ri' }, "ok")
      | (ri', false) => ({ st with ri := some ri' }, "fail")
    | some none, some _ => (st, "fail")
    | _, _ => (st, "bad-op")
  | ["read", sx, sy, tx, ty, cx, cy], some ri =>
    match parseReq [sx, sy, tx, ty, cx, cy] with
    | some (some r) =>
      match GRreadimageId v ri st.cur r with
      | (ri', some b) => ({ st with ri := some ri' }, toHex b)
      | (ri', none) => ({ st with ri := some ri' }, "fail")
    | some none => (st, "fail")
    | none => (st, "bad-op")
  | ["raw"], some ri =>
    match ri.st.elem with
    | some e => (st, toHex e.flatten)
    | none => (st, "none")
  | ["reopen"], some ri =>
    -- every id released, `GRend`, `Hclose`, `Hopen`, `GRstart`, then `GRselect` into handle 0
    let ri' := reopen v ri
    ({ ri := some { ri' with bk := (ri'.bk.select 0).getD ri'.bk }, cur := 0 }, "ok")
  | ["info"], some ri => (st, s!"{ri.W},{ri.H},{ri.ncomp},{ri.nt},{ri.il.code}")
  | ["wlut", nc, nt, il, n, hx], some ri =>
    match parseNat nc, parseNat nt, parseInt il, parseNat n, parseHex hx with
    | some nc, some nt, some il, some n, some data =>
      if il < 0 then (st, "fail") else
      match GRwritelut ri nc (nt == H4.Gen.Hdf.DFNT_UINT8 || nt == H4.Gen.Hdf.DFNT_UCHAR8) il.toNat n data with
      | some ri' => ({ st with ri := some ri' }, "ok")
      | none => (st, "fail")
    | _, _, _, _, _ => (st, "bad-op")
  | ["reqlutil", il], some ri =>
    match ilOfInt il with
    | some (some il) => ({ st with ri := some { ri with lutIl := il } }, "ok")
    | some none => (st, "fail")
    | none => (st, "bad-op")
  | ["rlut"], some ri => (st, toHex (GRreadlut ri (List.replicate 768 0x5a)))
  | ["lutinfo"], some ri =>
    let (a, b, c, d) := GRgetlutinfo ri
    (st, s!"{a},{b},{c},{d}")
  | _, _ => (st, "bad-op")

end H4.Driver
