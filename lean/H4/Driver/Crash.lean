import H4.DDOpen
import H4.Driver.Util
/-! Line-protocol glue for engine `crash` (harness/e_crash.c), part (3): the flags of the file record around a session.
    State = `H4.DD.OpenTab` (reset at every CASE: the engine restores `default_cache` at the end of each case).
    `T crash open <iface> <r|w>`, `close <iface>`, `cache <0|1>`, `sopen` (the session's own open, for writing; the
    implementation's answer is the record as it is at the first physical write of the session), `sclose` (the session's own
    close) answer `<refcount> <write> <cache>` or `none`; `cacheall <0|1>` answers `ok`. -/
namespace H4.Driver
open H4.DD

def showTab (t : OpenTab) : String :=
  match t.frec with
  | none => "none"
  | some r => s!"{r.refcount} {if r.write then 1 else 0} {if r.cache then 1 else 0}"

def stepCrash (t : OpenTab) (args : List String) : OpenTab × String :=
  match args with
  | ["open", _, m] => let t' := t.step (.open (m == "w")); (t', showTab t')
  | ["sopen"] => let t' := t.step (.open true); (t', showTab t')
  | ["close", _] => let t' := t.step .close; (t', showTab t')
  | ["sclose"] => let t' := t.step .close; (t', showTab t')
  | ["cache", c] => let t' := t.step (.cache (c != "0")); (t', showTab t')
  | ["cacheall", c] => (t.step (.cacheAll (c != "0")), "ok")
  | _ => (t, "bad-op")

end H4.Driver
