import H4.Rle
import H4.RleSess
import H4.Gen.Fn.Crle
import H4.Driver.Util
namespace H4.Driver
open H4.Rle

/- function-level Tie A cross-run: `HCIcrle_encode` / `HCIcrle_term` / `HCIcrle_decode` as TRANSLATED from crle.c by gen/c2lean.py
    (`H4.Gen.Fn.Crle`) are executed beside the hand-written model on every `T rle enc` / `T rle dec` line; a difference (or `ub` / `oof` /
    an unexpected FAIL of the translated code) is appended as ` GEN=…` and so shows up as a DIFF against the real C
    (`H4.Props.C05Rle` proves that no such difference exists).
    The data is pushed through the translated functions twice: in ONE call (inputs up to `wholeMax` bytes: the translated code works on
    linked lists, a call costs O(n²)) and as a SEQUENCE of calls of varying lengths (0, 1, 2, 3, 64, 127 … 131, 256 bytes) with the coder
    record carried from call to call, as `HCPcrle_write` / `HCPcrle_read` do.  In the sequence every encode call starts with an empty
    output stream and every decode call sees the input from its current position on (a window of 2·n + 200 bytes, enough for n output
    bytes), so that a case costs O(n). -/
namespace GenRle
open H4.Gen.Fn.Crle H4.Gen.Crle
def ints (l : List Byte) : List Int := l.map fun b => (b.toNat : Int)
/-- `none` if a cell does not hold a `uint8` value -/
def toBytes (l : List Int) : Option (List Byte) :=
  if l.all (fun x => decide (0 ≤ x ∧ x < 256)) then some (l.map fun x => UInt8.ofNat x.toNat) else none
def hex (l : List Int) : String := match toBytes l with | some b => toHex b | none => "range"
def nil32 : Int := RLE_NIL % 4294967296
def wholeMax : Nat := 1024
def sizeAt (k : Nat) : Nat := [1, 2, 3, 127, 128, 129, 130, 131, 256, 0, 64].getD (k % 11) 1

/-- the `comp_coder_rle_info_t` record between two calls -/
structure Rec where
  st : Int := 0
  len : Int := 0
  pos : Int := 0
  last : Int := nil32
  second : Int := nil32
  offset : Int := 0
  encoding : Int := 0
  buffer : List Int := List.replicate RLE_BUF_SIZE 0

def encCall (r : Rec) (bs : List Byte) : Except String (Rec × List Int) :=
  let s := HCIcrle_encode bs.length r.encoding r.st r.buffer r.last r.len r.pos r.second r.offset bs.length (ints bs) []
  if s.ub then .error "ub" else if s.oof then .error "oof" else if s.ret != 0 then .error "encode-fail"
  else .ok ({ st := s.rle_rle_state, len := s.rle_buf_length, pos := s.rle_buf_pos, last := s.rle_last_byte, second := s.rle_second_byte,
              offset := s.rle_offset, encoding := s.rle_encoding, buffer := s.rle_buffer }, s.io_out)

/-- `HCPcrle_endaccess`: `if (encoding && rle_state != RLE_INIT) HCIcrle_term(info)` -/
def termCall (r : Rec) : Except String (List Int) :=
  if r.encoding ≠ 0 ∧ r.st ≠ 0 then
    let s := HCIcrle_term 0 r.st r.len r.last r.buffer r.encoding r.second []
    if s.ub then .error "ub" else if s.oof then .error "oof" else if s.ret != 0 then .error "term-fail" else .ok s.io_out
  else .ok []

def encSeq : Nat → Rec → List Byte → List (List Int) → Except String (List Int)
  | 0, _, _, _ => .error "pieces"
  | f + 1, r, bs, acc =>
    if bs.isEmpty then do
      let t ← termCall r
      pure (t :: acc).reverse.flatten
    else do
      let n := sizeAt f
      let (r', o) ← encCall r (bs.take n)
      encSeq f r' (bs.drop n) (o :: acc)

def encWhole (bs : List Byte) : Except String (List Int) := do
  let (r, o) ← encCall {} bs
  let t ← termCall r
  pure (o ++ t)

def show_ (model : String) (what : String) : Except String (List Int) → Option String
  | .error e => some s!"{what}:{e}"
  | .ok o => if hex o == model then none else some s!"{what}:{hex o}"

def enc (bs : List Byte) (model : String) : String :=
  let a := if bs.length ≤ wholeMax then show_ model "whole" (encWhole bs) else none
  let b := show_ model "seq" (encSeq (2 * bs.length + 12) {} bs [])
  match a, b with
  | none, none => model
  | some x, _ => s!"{model} GEN={x}"
  | none, some y => s!"{model} GEN={y}"

/-- one `HCIcrle_decode(n)` on the input `inp` from position `io_pos`; result: record, new position, the `n` bytes delivered -/
def decCall (r : Rec) (n : Nat) (inp : List Int) (io_pos : Int) : Except String (Rec × Int × List Int) :=
  let s := HCIcrle_decode n r.st r.len r.last r.buffer r.pos r.offset n (List.replicate n 0xA5) inp io_pos
  if s.ub then .error "ub" else if s.oof then .error "oof" else if s.ret != 0 then .error "decode-fail"
  else .ok ({ r with st := s.rle_rle_state, len := s.rle_buf_length, pos := s.rle_buf_pos, last := s.rle_last_byte, offset := s.rle_offset,
                     buffer := s.rle_buffer }, s.io_pos, s.buf)

/-- at the end of the data a further 1-byte read must return FAIL without ub -/
def eofOk (r : Rec) (inp : List Int) (io_pos : Int) : Except String Unit :=
  let s := HCIcrle_decode 1 r.st r.len r.last r.buffer r.pos r.offset 1 [0xA5] inp io_pos
  if s.ub then .error "eof-ub" else if s.oof then .error "eof-oof" else if s.ret != -1 then .error "no-eof" else .ok ()

def decSeq : Nat → Rec → List Int → Nat → List (List Int) → Except String (List Int)
  | 0, _, _, _, _ => .error "pieces"
  | f + 1, r, rest, want, acc =>
    if want = 0 then do
      if !rest.isEmpty then throw "trailing"
      eofOk r rest 0
      pure acc.reverse.flatten
    else do
      let n := min want (sizeAt f)
      let (r', p, o) ← decCall r n (rest.take (2 * n + 200)) 0
      decSeq f r' (rest.drop p.toNat) (want - n) (o :: acc)

def decWhole (raw : List Byte) (n : Nat) : Except String (List Int) := do
  let (r, p, o) ← decCall {} n (ints raw) 0
  if p != raw.length then throw "trailing"
  eofOk r (ints raw) p
  pure o

def dec (raw : List Byte) (n : Nat) (model : String) : String :=
  let a := if raw.length ≤ wholeMax ∧ n ≤ 4 * wholeMax then show_ model "whole" (decWhole raw n) else none
  let b := show_ model "seq" (decSeq (2 * n + 12) {} (ints raw) n [])
  match a, b with
  | none, none => model
  | some x, _ => s!"{model} GEN={x}"
  | none, some y => s!"{model} GEN={y}"
end GenRle

/- mixed sessions on one access id (`T rle sess <element before> <w<hex>,s<offset>,r<count>,...> => <element after> <bytes read>`): the
    history is replayed on the session model `H4.RleSess` - the TRANSLATED `HCIcrle_staccess` / `HCIcrle_init`, `HCPcrle_write`,
    `HCPcrle_read`, `HCPcrle_endaccess` (and through them `HCIcrle_encode` / `HCIcrle_decode` / `HCIcrle_term`) plus the hand model of
    `HCPcrle_seek` -, started on a record with arbitrary content, as `malloc` leaves it.  `H4.Props.C05RleSess.session_roundtrip` proves
    that the element after such a session decodes to the bytes written. -/
namespace SessRle
open H4.RleSess

def parseOp (t : String) : Option Op :=
  match t.toList with
  | 'w' :: r => (parseHex (String.ofList r)).map Op.write
  | 's' :: r => (String.ofList r).toNat?.map Op.seek
  | 'r' :: r => (String.ofList r).toNat?.map Op.read
  | _ => none

def parseScript (s : String) : Option (List Op) :=
  if s == "-" then some [] else (s.splitOn ",").mapM parseOp

def bytesOf (l : List Int) : String := GenRle.hex l

/-- the record before `HCIcrle_staccess`: nothing in it is initialised (`info` is a fresh `malloc` block) -/
def garbage (file : List Int) (length : Nat) : St :=
  { st := 2, len := 77, pos := 99, last := 65, second := 65, offset := 12345, encoding := 1, buffer := List.replicate H4.Gen.Crle.RLE_BUF_SIZE 0xA5,
    file := file, fpos := 4, length := length, access := H4.Gen.Hdf.DFACC_RDWR }

def step (raw0 : List Byte) (script : String) : String :=
  match parseScript script, dec raw0 with
  | some ops, some d0 =>
    match session (garbage (ints raw0) d0.length) H4.Gen.Hdf.DFACC_WRITE ops with
    | some (f, rd) => s!"{bytesOf f} {bytesOf rd}"
    | none => "fail"
  | _, _ => "bad-op"
end SessRle

/-- engine `rle` (stateless):  `enc <hex>` => compressed bytes;  `dec <hex>` => decoded bytes | fail;
    both also run the translated C functions (`GenRle`);  `sess <hex> <script>` => element and bytes read after a mixed session -/
def stepRle (args : List String) : String :=
  match args with
  | ["enc", d] => match parseHex d with
    | some bs => GenRle.enc bs (toHex (compress bs))
    | none => "bad-op"
  | ["dec", d] => match parseHex d with
    | some bs => match dec bs with
      | some o => GenRle.dec bs o.length (toHex o)
      | none => "fail"
    | none => "bad-op"
  | ["sess", r0, script] => match parseHex r0 with
    | some raw0 => SessRle.step raw0 script
    | none => "bad-op"
  | _ => "bad-op"

end H4.Driver
