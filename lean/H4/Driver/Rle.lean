import H4.Rle
import H4.Driver.Util
namespace H4.Driver
open H4.Rle

/-- engine `rle` (stateless):  `enc <hex>` => compressed bytes;  `dec <hex>` => decoded bytes | fail -/
def stepRle (args : List String) : String :=
  match args with
  | ["enc", d] => match parseHex d with
    | some bs => toHex (compress bs)
    | none => "bad-op"
  | ["dec", d] => match parseHex d with
    | some bs => match dec bs with
      | some o => toHex o
      | none => "fail"
    | none => "bad-op"
  | _ => "bad-op"

end H4.Driver
