import H4.Codecs
import H4.NdgAttrs
import H4.Gen.Fn.Dfrle
import H4.Driver.Util
namespace H4.Driver
open H4.Codecs

/- function-level Tie A cross-run: `DFCIrle` / `DFCIunrle` as TRANSLATED from dfrle.c by gen/c2lean.py (`H4.Gen.Fn.Dfrle`) are executed on
    the same arguments as the hand-written model; a difference (or `ub` / `oof` of the translated code) is appended as ` GEN=…`
    and so shows up as a DIFF against the real C (`H4.Props.C15Fn` proves that no such difference exists). -/
namespace GenDfrle
def ints (l : List Byte) : List Int := l.map fun b => (b.toNat : Int)
/-- `none` if a cell does not hold a `uint8` value -/
def toBytes (l : List Int) : Option (List Byte) :=
  if l.all (fun x => decide (0 ≤ x ∧ x < 256)) then some (l.map fun x => UInt8.ofNat x.toNat) else none
def hex (l : List Int) : String := match toBytes l with | some b => toHex b | none => "range"
def tag (model : String) (ub oof : Bool) (gen : String) : String :=
  if ub then s!"{model} GEN=ub" else if oof then s!"{model} GEN=oof" else if gen == model then model else s!"{model} GEN={gen}"
/-- `DFCIrle(row, enc, n)` into a buffer of the size `DFputcomp` allocates (`n * 121 / 120 + 1`, pre-filled with 0xA5) -/
def enc (bs : List Byte) (model : String) : String :=
  let n := bs.length
  let s := H4.Gen.Fn.Dfrle.DFCIrle (n + 1) (ints bs) (List.replicate (n * 121 / 120 + 1) 0xA5) n
  tag model s.ub s.oof (hex (s.bufto.take s.ret.toNat))
/-- `DFCIunrle(in, out, n, 1)`; a model `fail` (the packets run past the end of `in`) must be `ub` in the translated code -/
def dec (bs : List Byte) (n : Nat) (model : String) : String :=
  let s := H4.Gen.Fn.Dfrle.DFCIunrle (bs.length + 256) (ints bs) (List.replicate n 0xA5) n 1 (List.replicate 255 0) 0 0
  if model == "fail" then (if s.ub then model else s!"{model} GEN=no-ub")
  else tag model s.ub s.oof (hex (s.bufto.take n) ++ " " ++ toString s.ret)
/-- the `DFgetcomp` row loop: `resetsave` for the first call only, static state and input position carried from call to call -/
def rowsGo (fuel : Nat) (save : List Int) (ss se : Int) (buf : List Byte) (first : Bool) (used : Nat) :
    List Nat → Option (List String × Nat) ⊕ String
  | [] => .inl (some ([], used))
  | n :: rest =>
    let s := H4.Gen.Fn.Dfrle.DFCIunrle fuel (ints buf) (List.replicate n 0xA5) n (if first then 1 else 0) save ss se
    if s.ub then .inr "ub" else if s.oof then .inr "oof"
    else match rowsGo fuel s.save s.savestart s.saveend (buf.drop s.ret.toNat) false (used + s.ret.toNat) rest with
      | .inl (some x) => .inl (some (hex (s.bufto.take n) :: x.1, x.2))
      | .inl none => .inl none
      | .inr e => .inr e
def rows (bs : List Byte) (ns : List Nat) (model : String) : String :=
  match rowsGo (bs.length + 256) (List.replicate 255 0) 0 0 bs true 0 ns with
  | .inr e => if model == "fail" && e == "ub" then model else s!"{model} GEN={e}"
  | .inl (some (rs, used)) => tag model false false (",".intercalate rs ++ " " ++ toString used)
  | .inl none => tag model false false "fail"
end GenDfrle

/-- engine `dfrle` (stateless), the real `DFCIrle`/`DFCIunrle` of dfrle.c:
    `enc <row>` => compressed bytes;
    `dec <bytes> <n>` => `<row> <used>` | fail            (one call, resetsave = 1)
    `rows <bytes> <n1,n2,…>` => `<row1>,<row2>,… <used>` | fail   (the DFgetcomp row loop: resetsave only for the first call) -/
def stepDfrle (args : List String) : String :=
  match args with
  | ["enc", d] => match parseHex d with
    | some bs => GenDfrle.enc bs (toHex (DFCIrle bs))
    | none => "bad-op"
  | ["dec", d, n] => match parseHex d, parseNat n with
    | some bs, some n => GenDfrle.dec bs n (match DFCIunrleS [] bs n true with
      | some r => toHex r.out ++ " " ++ toString r.used
      | none => "fail")
    | _, _ => "bad-op"
  | ["rows", d, ns] => match parseHex d, natList ns with
    | some bs, some ns =>
      let rec go (save buf : List Byte) (first : Bool) (used : Nat) : List Nat → Option (List String × Nat)
        | [] => some ([], used)
        | n :: rest => match DFCIunrleS save buf n first with
          | none => none
          | some r => (go r.save (buf.drop r.used) false (used + r.used) rest).map fun x => (toHex r.out :: x.1, x.2)
      GenDfrle.rows bs ns (match go [] bs true 0 ns with
      | some (rows, used) => ",".intercalate rows ++ " " ++ toString used
      | none => "fail")
    | _, _ => "bad-op"
  | _ => "bad-op"

def showSdd (s : Sdd) : String :=
  showIntList s.dims ++ " " ++ toString s.dataNt.1 ++ "/" ++ toString s.dataNt.2 ++ " " ++
    (if s.scaleNts.isEmpty then "-" else ",".intercalate (s.scaleNts.map fun t => toString t.1 ++ "/" ++ toString t.2))

def showDim (r : DimRec) : String :=
  s!"{r.xdim} {r.ydim} {r.ntTag} {r.ntRef} {r.ncomps} {r.il} {r.compTag} {r.compRef}"

/-- engine `xapi` (stateless): the shared record codecs
    `sdd dfsd|sd <ntref> <dims>` => record bytes the writer stores under DFTAG_SDD
    `sddrd sd|dfsd <bytes>` => the dimension sizes the reader extracts | fail
    `dim dfgr|mfgr <xdim> <ydim> <nttag> <ntref> <ncomps> <il> <ctag> <cref>` => 20-byte DFTAG_ID/DFTAG_LD record
    `dim8 <xdim> <ydim> <ntref> <ctag> <cref>` => DFTAG_ID record of DFR8putrig
    `dimrd mfgr|dfgr|dfr8 <bytes>` => the eight fields | fail
    `ndgattrs <sdc> <desc,desc,…> <label,…> <sdl> <sdu> <sdf>` => `<name>=<bytes> …` the character attributes of hdf_read_ndgs, in SD's order -/
def stepXapi (args : List String) : String :=
  match args with
  | ["sdd", w, nt, dims] => match parseNat nt, intList dims with
    | some nt, some dims =>
      if w == "dfsd" then toHex (encode_dfsd dims nt) else if w == "sd" then toHex (encode_mfsd dims nt) else "bad-op"
    | _, _ => "bad-op"
  | ["sddrd", rd, d] => match parseHex d with
    | some bs =>
      let r := if rd == "sd" then decode_hdfsds bs else decode_dfsd bs
      match r with
      | some s => showIntList s.dims
      | none => "fail"
    | none => "bad-op"
  | ["dim", w, x, y, t, r, n, i, ct, cr] =>
    match parseInt x, parseInt y, parseNat t, parseNat r, parseInt n, parseInt i, parseNat ct, parseNat cr with
    | some x, some y, some t, some r, some n, some i, some ct, some cr =>
      let rec_ : DimRec := ⟨x, y, t, r, n, i, ct, cr⟩
      if w == "dfgr" then toHex (encode_dfgr rec_) else if w == "mfgr" then toHex (encode_mfgr rec_) else "bad-op"
    | _, _, _, _, _, _, _, _ => "bad-op"
  | ["dim8", x, y, r, ct, cr] =>
    match parseInt x, parseInt y, parseNat r, parseNat ct, parseNat cr with
    | some x, some y, some r, some ct, some cr => toHex (encode_dfr8 x y r ct cr)
    | _, _, _, _, _ => "bad-op"
  | ["spread", w, h, xdim, ydim, d] =>
    match parseNat w, parseNat h, parseNat xdim, parseNat ydim, parseHex d with
    | some w, some h, some xdim, some ydim, some img =>
      -- the image is read contiguously to the start of the caller's buffer (rest: whatever was there), then spread
      let buf := img ++ List.replicate (xdim * ydim - img.length) 0xA5
      toHex (imageArea w h xdim (spreadRows w h xdim buf))
    | _, _, _, _, _ => "bad-op"
  | ["ndgattrs", sdc, descs, labels, sdl, sdu, sdf] =>
    let hexList (s : String) : Option (List (List UInt8)) := if s == "-" then some [] else (s.splitOn ",").mapM parseHex
    match parseHex sdc, hexList descs, hexList labels, parseHex sdl, parseHex sdu, parseHex sdf with
    | some sdc, some descs, some labels, some sdl, some sdu, some sdf =>
      let as := H4.NdgAttrs.ndgCharAttrs ⟨sdc, descs, labels, sdl, sdu, sdf⟩
      if as.isEmpty then "-" else
        " ".intercalate (as.map fun a => String.ofList (a.name.map Char.ofNat) ++ "=" ++ toHex a.value)
    | _, _, _, _, _, _ => "bad-op"
  | ["dimrd", rd, d] => match parseHex d with
    | some bs =>
      let r := if rd == "dfr8" then decode_dfr8 bs else if rd == "dfgr" then decode_dfgr bs else decode_mfgr bs
      match r with
      | some x => showDim x
      | none => "fail"
    | none => "bad-op"
  | _ => "bad-op"

end H4.Driver
