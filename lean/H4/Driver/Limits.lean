import H4.Limits
import H4.VsfldEnc
import H4.Driver.Util
import H4.Gen.Fn.Hfiledd
namespace H4.Driver
open H4.Limits

/-- state of engine `limits`: allocation state + configuration of the code under test -/
structure LimSt where
  cfg : Cfg := {}
  s : St := default
  refs : RefSt := ⟨0, []⟩      -- reference-number state of the `refhist` / `refexh` cases

private def showDD (s : St) (tag ref : Nat) : String :=
  match findDD s tag ref with
  | none => "x x"
  | some d => s!"{d.off} {d.len}"

private def parseDD (t : String) : Option DD :=
  match t.splitOn ":" with
  | [a, b, c, d] => do
    let tag ← a.toNat?; let ref ← b.toNat?; let off ← c.toInt?; let len ← d.toInt?
    pure { tag, ref, off, len }
  | _ => none

private def parseDDs (t : String) : Option (List DD) :=
  if t == "-" then some [] else (t.splitOn ",").mapM parseDD

/-- used-set descriptions of the `refs` cases: `list a,b,c` or `range n holes` (1..n in use except the holes) -/
private def usedSet (kind a b : String) : Option (Nat → Bool) :=
  match kind with
  | "list" => (natList a).map fun l => fun r => l.contains r
  | "range" => do
    let n ← a.toNat?
    let holes ← natList b
    pure fun r => decide (1 ≤ r ∧ r ≤ n) && !holes.contains r
  | _ => none

/-- descriptor runs of the `ref*` lines: `-` or comma separated `a` / `a-b` (one descriptor for every number a..b) -/
private def parseRuns (t : String) : Option (List (Nat × Nat)) :=
  if t == "-" then some [] else
  (t.splitOn ",").mapM fun it =>
    match it.splitOn "-" with
    | [a] => a.toNat?.map fun a => (a, a)
    | [a, b] => do let a ← a.toNat?; let b ← b.toNat?; pure (a, b)
    | _ => none

/-- a sorted list split into its distinct values and what is left when one occurrence of each is taken away -/
private def splitDistinct (l : List Nat) : List Nat × List Nat :=
  let rec go : List Nat → Option Nat → List Nat → List Nat → List Nat × List Nat
    | [], _, d, r => (d.reverse, r.reverse)
    | x :: xs, last, d, r => if last == some x then go xs last d (x :: r) else go xs (some x) (x :: d) r
  go l none [] []

/-- the runs of consecutive numbers of a sorted list of distinct values, as `a` / `a-b` -/
private def runStrs (l : List Nat) : List String :=
  let item (lo hi : Nat) : String := if lo == hi then toString lo else s!"{lo}-{hi}"
  let rec go : List Nat → Nat → Nat → List String → List String
    | [], lo, hi, acc => (item lo hi :: acc).reverse
    | x :: xs, lo, hi, acc => if x == hi + 1 then go xs lo x acc else go xs x x (item lo hi :: acc)
  match l with
  | [] => []
  | x :: xs => go xs x x []

/-- canonical text of a descriptor multiset: the runs of the numbers in use, then the runs of those in use at least
    twice, ... (independent of the order and of the way the runs were cut) -/
private def canonRuns (used : List (Nat × Nat)) : String :=
  let all := (used.flatMap fun p => List.range' p.1 (p.2 + 1 - p.1)).mergeSort
  let rec layers : Nat → List Nat → List String → List String
    | 0, _, acc => acc
    | fuel + 1, l, acc =>
      if l.isEmpty then acc else
      let (d, r) := splitDistinct l
      layers fuel r (acc ++ runStrs d)
  let out := layers all.length all []
  if out.isEmpty then "-" else ",".intercalate out

private def apiOf : String → Option NameApi
  | "vsname" => some .vsname | "vsclass" => some .vsclass | "vgname" => some .vgname | "vgclass" => some .vgclass
  | "field" => some .field | "sdname" => some .sdname | "dimname" => some .dimname | "attrname" => some .attrname
  | "grname" => some .grname | _ => none

/-- replay of an open/close/reset/use history; `ids` maps the harness's file numbers to the ids handed out -/
private def maxopenRun (sys : Nat) : List String → Tab → List (Nat × Nat) → List String → Option (List String)
  | [], _, _, acc => some acc.reverse
  | op :: rest, t, ids, acc =>
    let kind := op.take 1
    match (op.drop 1).toNat? with
    | none => none
    | some a =>
      if kind == "o" then
        match tabOpen sys t with
        | (t', some id) => maxopenRun sys rest t' ((a, id) :: ids.filter (·.1 != a)) (s!"s{id}" :: acc)
        | (t', none) => maxopenRun sys rest t' ids ("fail" :: acc)
      else if kind == "c" then
        match ids.lookup a with
        | none => maxopenRun sys rest t ids ("fail" :: acc)
        | some id => let (t', ok) := tabClose t id; maxopenRun sys rest t' (ids.filter (·.1 != a)) ((if ok then "ok" else "fail") :: acc)
      else if kind == "r" then
        let (t', r) := resetMax sys t (a : Int); maxopenRun sys rest t' ids (toString r :: acc)
      else if kind == "d" then
        match ids.lookup a with
        | none => maxopenRun sys rest t ids ("fail" :: acc)
        | some id => maxopenRun sys rest t ids ((if tabValid t id then "ok" else "fail") :: acc)
      else none

def stepLimits (st : LimSt) (args : List String) : LimSt × String :=
  let bad := (st, "bad-op")
  match args with
  | ["init", fa, fb, ca, e, ndds, free, blocks, dds] =>
    match e.toInt?, ndds.toNat?, free.toNat?, intList blocks, parseDDs dds with
    | some e, some ndds, some free, some blocks, some dds =>
      ({ cfg := { fixA := fa == "1", fixB := fb == "1", cache := ca == "1" }, s := { endOff := e, ndds, free, blocks, dds } }, "ok")
    | _, _, _, _, _ => bad
  | ["reserve", t, r, l] =>
    match t.toNat?, r.toNat?, l.toInt? with
    | some t, some r, some l =>
      let (s', ok) := reserve st.cfg st.s t r l
      ({ st with s := s' }, s!"{if ok then "ok" else "fail"} {showDD s' t r} {s'.endOff} {s'.free}")
    | _, _, _ => bad
  | ["append", t, r, p, n] =>
    match t.toNat?, r.toNat?, p.toInt?, n.toInt? with
    | some t, some r, some p, some n =>
      let (s', w) := append st.cfg st.s t r p n
      let rs := match w with | .fail => "fail" | .wrote k => toString k | .convert => "convert"
      ({ st with s := s' }, s!"{rs} {showDD s' t r} {s'.endOff}")
    | _, _, _, _ => bad
  | ["write", t, r, p, n] =>
    match t.toNat?, r.toNat?, p.toInt?, n.toInt? with
    | some t, some r, some p, some n =>
      let (s', w) := write st.cfg st.s t r p n
      ({ st with s := s' }, match w with | .fail => "fail" | .wrote k => toString k | .convert => "convert")
    | _, _, _, _ => bad
  | ["llwrite", fx, len, pos, n] =>
    match len.toInt?, pos.toInt?, n.toInt? with
    | some len, some pos, some n =>
      match llSeek { len, posn := 0 } pos with
      | none => (st, s!"fail {len} 0")
      | some l1 => match llWrite (fx == "1") l1 n with
        | none => (st, s!"fail {l1.len} {l1.posn}")
        | some l2 => (st, s!"{n} {l2.len} {l2.posn}")
    | _, _, _ => bad
  | ["sync"] => (st, s!"{if sync st.cfg st.s then "ok" else "fail"} {st.s.endOff}")
  | ["reopen"] =>
    let (s', ok) := reopen st.cfg st.s
    ({ st with s := s' }, if ok then s!"ok {s'.endOff}" else "fail 0")
  | ["tagnewref", kind, a] | ["tagnewref", kind, a, _] =>
    match usedSet kind a (args.getD 3 "-") with
    | some u => (st, toString (tagnewref u))
    | none => bad
  | ["newref", m, kind, a, b, extra] =>
    match m.toNat?, usedSet kind a b, natList extra with
    | some m, some u, some ex =>
      let x := newref m (fun r => u r || ex.contains r)
      -- cross-run (function-level Tie A, C20 "no wrap-around"): `Hnewref` as TRANSLATED from hfiledd.c on the same `maxref` and in-use set;
      -- `HTIfind_dd_ret[r]` = FAIL (-1) iff ref r is not in use (only consulted once `maxref` has reached 65535)
      let tbl : List Int := if m < 65535 then [] else
        let a := ex.foldl (fun (a : Array Int) r => if r < 65536 then a.set! r 0 else a)
          ((Array.range 65536).map fun r => if u r then (0 : Int) else -1)
        a.toList
      let g := H4.Gen.Fn.Hfiledd.Hnewref 65535 0 false 1 m tbl
      let gen := if g.ub then " GEN=ub" else if g.oof then " GEN=oof"
        else if g.ret != (x.1 : Int) || g.file_rec_maxref != (x.2 : Int) then s!" GEN={g.ret},{g.file_rec_maxref}" else ""
      (st, toString x.1 ++ gen)
    | _, _, _ => bad
  | ["refinit", m, runs] =>
    match m.toNat?, parseRuns runs with
    | some m, some u => ({ st with refs := ⟨m, u⟩ }, "ok")
    | _, _ => bad
  | ["refput", r, n] =>
    match r.toNat?, n.toNat? with
    | some r, some n => let s' := refPutN st.refs r n; ({ st with refs := s' }, s!"ok {s'.maxref}")
    | _, _ => bad
  | ["refdel", r, n] =>
    match r.toNat?, n.toNat? with
    | some r, some n => ({ st with refs := (List.range n).foldl (fun s _ => refDel s r) st.refs }, "ok")
    | _, _ => bad
  | ["refalloc", _api, n] =>
    match n.toNat? with
    | some n => let x := refAlloc st.refs n; ({ st with refs := x.2 }, s!"{x.1} {x.2.maxref}")
    | none => bad
  | ["refstate"] => (st, s!"{st.refs.maxref} {canonRuns st.refs.used}")
  | ["refreopen", m, runs] =>
    -- the descriptors in the file after close + open must be the ones the model has; `maxref` is recomputed by the open
    match m.toNat?, parseRuns runs with
    | some m, some u =>
      if canonRuns u == canonRuns st.refs.used then ({ st with refs := ⟨m, u⟩ }, "ok") else (st, "descriptors-differ")
    | _, _ => bad
  | ["vgins", n] =>
    match n.toNat? with
    | some n => (st, if vinsertOk n then s!"ok {n + 1}" else s!"fail {n}")
    | none => bad
  | ["fdefine", sz, o] =>
    match sz.toNat?, o.toInt? with
    | some sz, some o =>
      let ok := fdefineOk (some sz) o
      -- the translated VSfdefine / DFKNTsize on a number type of that size (CHAR8, INT16, INT32, FLOAT64), empty symbol table
      let t : Int := if sz == 1 then 4 else if sz == 2 then 22 else if sz == 4 then 24 else 6
      let g := H4.VsfldEnc.runFdefine 1 [] "F" t o
      let gen := if g.ub then " GEN=ub" else if g.oof then " GEN=oof" else if (g.ret == 0) != ok then s!" GEN=ret{g.ret}" else ""
      (st, (if ok then "ok" else "fail") ++ gen)
    | _, _ => bad
  | ["setfields", n, sizes] =>
    -- an entry is the order of a user-defined CHAR8 field `G<i>`, or the name of a predefined field (4 bytes)
    let toks := if sizes == "-" then [] else sizes.splitOn ","
    let entries : List (Option (String × Nat)) := toks.zipIdx.map fun (t, i) =>
      match t.toNat? with
      | some k => some (s!"G{i}", k)
      | none => (H4.VData.rstab.find? (·.name == t)).map fun sd => (sd.name, sd.order * sd.isize)
    match n.toNat?, entries.mapM id with
    | some n, some es => if n != es.length then bad else
      let (ok, k, iv) := setfields (es.map (·.2))
      -- the translated VSsetfields on a writable, empty vdata whose user symbols are the numeric entries
      let usym : List H4.VData.SymDef := (toks.zipIdx.filterMap fun (t, i) => t.toNat?.map fun k => (⟨s!"G{i}", 4, 1, k⟩ : H4.VData.SymDef))
      let names := es.map (·.1)
      let g := H4.VsfldEnc.runSetfields (names.length + usym.length + 10) { usym := usym } names
      let gen := if g.ub then " GEN=ub" else if g.oof then " GEN=oof"
        else if (g.ret == 0) != ok || g.vs_wlist_n != (k : Int) || g.vs_wlist_ivsize != (iv : Int) then s!" GEN=ret{g.ret}/n{g.vs_wlist_n}/ivsize{g.vs_wlist_ivsize}"
        else ""
      (st, s!"{if ok then "ok" else "fail"} {k}" ++ gen)
    | _, _ => bad
  | ["name", api, len] =>
    match apiOf api, len.toNat? with
    | some a, some len =>
      let nm : Name := List.replicate len 97
      match nameStored a nm, nameReopened a nm with
      | some s1, some s2 => (st, s!"ok {s1.length} {s2.length}")
      | _, _ => (st, "fail -1 -1")
    | _, _ => bad
  | ["sdrank", r] =>
    match r.toNat? with
    | some r => (st, if sdrankOk r then "ok" else "fail")
    | none => bad
  | ["ndds", r] =>
    match r.toInt? with
    | some r => (st, match nddsEff r with | some n => toString n | none => "fail")
    | none => bad
  | ["sdvar", c] =>
    match c.toNat? with
    | some c => (st, if sdvarOk c then "ok" else "fail")
    | none => bad
  | ["sdattr", c] =>
    match c.toNat? with
    | some c => (st, if sdattrOk c then "ok" else "fail")
    | none => bad
  | "maxopen" :: sys :: ops =>
    match sys.toNat? with
    | some sys => match maxopenRun sys ops (tabInit sys) [] [] with
      | some out => (st, " ".intercalate out)
      | none => bad
    | none => bad
  | _ => bad

end H4.Driver
