import H4.NBit
import H4.Driver.Util
namespace H4.Driver
open H4.NBit

def parseCfg (a b c d e : String) : Option Cfg := do
  let n ← a.toNat?; let s ← b.toNat?; let f ← c.toNat?; let st ← d.toNat?; let l ← e.toNat?
  pure { ntSize := n, signExt := s != 0, fillOne := f != 0, maskOff := st, maskLen := l }

/-- engine `nbit` (arguments `<nt_size> <sign_ext> <fill_one> <start_bit> <bit_len>` then):
    `enc <hex data>` => raw DFTAG_COMPRESSED bytes of an element written sequentially with the data
    `dec <hex raw> <n|sOFF,...>` => concatenated result of `Hread`s of the given lengths (`sOFF` = `Hseek` to byte OFF)
    `proj <hex data>` => whole element written then read back in one `Hread` (model of the complete path)
    `spec <hex data>` => the specification `projectAll` (no coder model involved) -/
def stepNBit (args : List String) : String :=
  match args with
  | [op, a, b, c, d, e, x] =>
    match parseCfg a b c d e, parseHex x with
    | some cfg, some bs =>
      if op == "enc" then toHex (compress cfg bs)
      else if op == "proj" then toHex ((readBack cfg (compress cfg bs) [bs.length]).flatten)
      else if op == "spec" then toHex (projectAll cfg bs.length bs)
      else "bad-op"
    | _, _ => "bad-op"
  | ["dec", a, b, c, d, e, x, l] =>
    let ops : Option (List Op) := if l == "-" then some [] else (l.splitOn ",").mapM fun t =>
      match t.toList with
      | 's' :: r => (String.ofList r).toNat?.map Op.seek
      | _ => t.toNat?.map Op.read
    match parseCfg a b c d e, parseHex x, ops with
    | some cfg, some raw, some ops => toHex ((readScript cfg raw ops).flatten)
    | _, _, _ => "bad-op"
  | _ => "bad-op"

end H4.Driver
