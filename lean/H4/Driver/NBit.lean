import H4.NBit
import H4.Gen.Fn.Cnbit
import H4.Driver.Util
namespace H4.Driver
open H4.NBit

def parseCfg (a b c d e : String) : Option Cfg := do
  let n ← a.toNat?; let s ← b.toNat?; let f ← c.toNat?; let st ← d.toNat?; let l ← e.toNat?
  pure { ntSize := n, signExt := s != 0, fillOne := f != 0, maskOff := st, maskLen := l }


/- function-level Tie A cross-run: `HCIcnbit_init` / `HCIcnbit_encode` / `HCIcnbit_decode` as TRANSLATED from cnbit.c by gen/c2lean.py
    (`H4.Gen.Fn.Cnbit`) are executed beside the hand-written model on the `T nbit` lines; a difference (or `ub` / `oof` / an unexpected
    FAIL of the translated code) is appended as ` GEN=…` and so shows up as a DIFF against the real C (`H4.Props.C05NBitFn` proves that no
    such difference exists).  The coder record is carried from call to call as `HCPcnbit_write` / `HCPcnbit_read` do; `Hbitwrite` calls
    are the pairs appended to `io_out`, `Hbitread` consumes the bit list `io_in` (the bits of the raw element, most significant first). -/
namespace GenNBit
open H4.Gen.Fn.Cnbit H4.Gen.Cnbit

/-- the `comp_coder_nbit_info_t` record (the fields the three functions use) -/
structure Rec where
  ntSize : Int
  signExt : Int
  fillOne : Int
  maskOff : Int
  maskLen : Int
  bufPos : Int := 3
  bufLen : Int := 9
  ntPos : Int := 1
  offset : Int := 77
  buffer : List Int := List.replicate NBIT_BUF_SIZE 0xBE
  maskBuf : List Int := List.replicate NBIT_MASK_SIZE 0x5A
  miOffset : List Int := List.replicate NBIT_MASK_SIZE 0x77777777
  miLength : List Int := List.replicate NBIT_MASK_SIZE 0x77777777
  miMask : List Int := List.replicate NBIT_MASK_SIZE 0x77

def b2i (b : Bool) : Int := if b then 1 else 0
def recOf (c : Cfg) : Rec := { ntSize := c.ntSize, signExt := b2i c.signExt, fillOne := b2i c.fillOne, maskOff := c.maskOff, maskLen := c.maskLen }

/-- `HCIcnbit_init` (translated) on a record holding junk -/
def init (c : Cfg) : Except String Rec :=
  let r := recOf c
  let s := HCIcnbit_init (c.ntSize + 1) r.bufPos r.bufLen r.ntPos r.offset r.maskBuf r.fillOne r.ntSize r.maskOff r.maskLen r.miOffset r.miLength r.miMask 0
  if s.ub then .error "init-ub" else if s.oof then .error "init-oof" else if s.ret != 0 then .error "init-fail"
  else .ok { r with bufPos := s.nbit_buf_pos, bufLen := s.nbit_buf_len, ntPos := s.nbit_nt_pos, offset := s.nbit_offset, maskBuf := s.nbit_mask_buf,
                    miOffset := s.nbit_mask_info_offset, miLength := s.nbit_mask_info_length, miMask := s.nbit_mask_info_mask }

def showTab (n : Nat) (r : Rec) : String :=
  s!"{showIntList (r.miOffset.take n)};{showIntList (r.miLength.take n)};{showIntList (r.miMask.take n)};{showIntList (r.maskBuf.take n)}"

def modelTab (c : Cfg) : String :=
  let mi := maskInfos c
  s!"{showNatList (mi.map (·.offset))};{showNatList (mi.map (·.length))};{showNatList (mi.map (·.mask))};{showNatList (maskBuf c)}"

def wrap (model : String) (r : Except String Unit) : String :=
  match r with
  | .ok () => model
  | .error e => s!"{model} GEN={e}"

/-- `finit`: the tables of the translated `HCIcnbit_init` are the model's; the state fields are reset; the entries above `nt_size` are 0 -/
def finit (c : Cfg) (model : String) : String := wrap model do
  let r ← init c
  if showTab c.ntSize r != model then throw s!"tab:{showTab c.ntSize r}"
  if r.bufPos != NBIT_BUF_SIZE || r.bufLen != 0 || r.ntPos != 0 || r.offset != 0 then throw "init-state"
  if (r.miLength.drop c.ntSize).any (· != 0) || (r.miOffset.drop c.ntSize).any (· != 0) || (r.miMask.drop c.ntSize).any (· != 0) then throw "init-tail"
  if r.miLength.length != NBIT_MASK_SIZE || r.maskBuf.length != NBIT_MASK_SIZE then throw "init-len"

/-- one `HCIcnbit_encode` call (translated); result: record and the `Hbitwrite` pairs of this call -/
def encCall (r : Rec) (bs : List UInt8) : Except String (Rec × List Int) :=
  let s := HCIcnbit_encode bs.length r.ntPos r.miLength r.miMask r.miOffset r.ntSize r.offset bs.length (bs.map fun b => (b.toNat : Int)) []
  if s.ub then .error "enc-ub" else if s.oof then .error "enc-oof" else if s.ret != 0 then .error "enc-fail"
  else .ok ({ r with ntPos := s.nbit_nt_pos, offset := s.nbit_offset }, s.io_out)

def encSeq : Rec → List UInt8 → List Nat → List (List Int) → Except String (Rec × List Int)
  | r, _, [], acc => .ok (r, acc.reverse.flatten)
  | r, bs, n :: ns, acc => do
    let (r', o) ← encCall r (bs.take n)
    encSeq r' (bs.drop n) ns (o :: acc)

def pairs (fs : List (Nat × Nat)) : List Int := fs.flatMap fun f => [(f.1 : Int), (f.2 : Int)]

/-- the translated encoder, called with the byte counts `lens`, makes exactly the model's `Hbitwrite` calls -/
def fenc (c : Cfg) (bs : List UInt8) (lens : List Nat) (model : String) : String := wrap model do
  let r ← init c
  let (r', o) ← encSeq r bs lens []
  let m := encode c 0 (bs.take lens.sum)
  if o != pairs m.1 then throw "enc-fields"
  if r'.ntPos != m.2 then throw "enc-ntpos"
  if r'.offset != lens.sum then throw "enc-offset"

/-- byte counts for the lines that do not say how the data was cut: whole, then 1, 2, 3, 5, 8, 13, … -/
def cuts : Nat → Nat → Nat → List Nat
  | 0, _, _ => []
  | f + 1, k, left => if left = 0 then [] else let n := min left ([1, 2, 3, 5, 0, 8, 13, 700, 1].getD (k % 9) 1); n :: cuts f (k + 1) (left - n)

def enc (c : Cfg) (bs : List UInt8) (model : String) : String :=
  let a := fenc c bs [bs.length] model
  if a != model then a else fenc c bs (cuts (bs.length + 9) 0 bs.length) model

def bitsOf (raw : List UInt8) : List Int := raw.flatMap fun b => (List.range 8).map fun i => ((b.toNat >>> (7 - i)) % 2 : Nat)

/-- one `HCIcnbit_decode(n)` call (translated) on the bits `inp` from position 0; result: record, bits consumed, return value, bytes -/
def decCall (r : Rec) (n : Nat) (inp : List Int) : Except String (Rec × Nat × Int × List Int) :=
  let s := HCIcnbit_decode (n + 1040) r.maskOff r.ntSize r.bufPos r.bufLen r.buffer r.maskBuf r.signExt r.miLength r.miOffset r.miMask r.fillOne
    r.offset n (List.replicate n 0xA5) inp 0
  if s.ub then .error "dec-ub" else if s.oof then .error "dec-oof"
  else .ok ({ r with bufPos := s.nbit_buf_pos, bufLen := s.nbit_buf_len, buffer := s.nbit_buffer, offset := s.nbit_offset }, s.io_pos.toNat, s.ret, s.buf)

/-- reads and seeks (`HCPcnbit_seek`: `Hbitseek` to the value's first bit, `buf_pos = NBIT_BUF_SIZE`) -/
def decOps (c : Cfg) (all : List Int) : Rec → List Int → List Op → List (List Int) → Except String (List Int)
  | _, _, [], acc => .ok acc.reverse.flatten
  | r, rest, .read n :: ops, acc => do
    let (r', used, ret, o) ← decCall r n rest
    if ret != 0 then throw "dec-fail"
    decOps c all r' (rest.drop used) ops (o :: acc)
  | r, _, .seek off :: ops, acc =>
    if off % c.ntSize ≠ 0 then .error "seek" else decOps c all { r with bufPos := NBIT_BUF_SIZE } (all.drop ((off / c.ntSize) * c.maskLen)) ops acc

def hexOut (l : List Int) : String :=
  if l.all (fun x => decide (0 ≤ x ∧ x < 256)) then toHex (l.map fun x => UInt8.ofNat x.toNat) else "range"

def dec (c : Cfg) (raw : List UInt8) (ops : List Op) (model : String) : String := wrap model do
  let r ← init c
  let o ← decOps c (bitsOf raw) r (bitsOf raw) ops []
  if hexOut o != model then throw "dec-data"

/-- `feof`: the model says whether a refill ran out of bits; without sign extension the C code then returns FAIL -/
def feof (c : Cfg) (raw : List UInt8) (n : Nat) (model : String) : String := wrap model do
  let r ← init c
  let (_, _, ret, _) ← decCall r n (bitsOf raw)
  if (if ret = 0 then "ok" else "fail") != model then throw s!"eof-ret:{ret}"
end GenNBit

/-- engine `nbit` (arguments `<nt_size> <sign_ext> <fill_one> <start_bit> <bit_len>` then):
    `enc <hex data>` => raw DFTAG_COMPRESSED bytes of an element written sequentially with the data
    `dec <hex raw> <n|sOFF,...>` => concatenated result of `Hread`s of the given lengths (`sOFF` = `Hseek` to byte OFF)
    `proj <hex data>` => whole element written then read back in one `Hread` (model of the complete path)
    `spec <hex data>` => the specification `projectAll` (no coder model involved)
    unit level (the static functions of cnbit.c called directly, any `nt_size` up to `NBIT_MASK_SIZE`):
    `finit` => `mask_info[0..nt_size)` (offsets;lengths;masks) and `mask_buf[0..nt_size)` after `HCIcnbit_init`
    `fenc <hex data> <n,...>` => raw bytes after `HCIcnbit_encode` calls of these sizes and `Hendbitaccess`
    `fdec <hex raw> <n,...>` => bytes delivered by `HCIcnbit_decode` calls of these sizes
    `feof <hex raw> <n>` => `ok` | `fail`: one `HCIcnbit_decode` call that runs out of data (FAIL unless sign-extending)
    `enc`, `dec`, `finit`, `fenc`, `fdec`, `feof` also run the translated C functions (`GenNBit`) -/
def stepNBit (args : List String) : String :=
  match args with
  | [op, a, b, c, d, e, x] =>
    match parseCfg a b c d e, parseHex x with
    | some cfg, some bs =>
      if op == "enc" then GenNBit.enc cfg bs (toHex (compress cfg bs))
      else if op == "proj" then toHex ((readBack cfg (compress cfg bs) [bs.length]).flatten)
      else if op == "spec" then toHex (projectAll cfg bs.length bs)
      else "bad-op"
    | _, _ => "bad-op"
  | ["dec", a, b, c, d, e, x, l] =>
    let ops : Option (List Op) := if l == "-" then some [] else (l.splitOn ",").mapM fun t =>
      match t.toList with
      | 's' :: r => (String.ofList r).toNat?.map Op.seek
      | _ => t.toNat?.map Op.read
    match parseCfg a b c d e, parseHex x, ops with
    | some cfg, some raw, some ops => GenNBit.dec cfg raw ops (toHex ((readScript cfg raw ops).flatten))
    | _, _, _ => "bad-op"
  | ["finit", a, b, c, d, e] =>
    match parseCfg a b c d e with
    | some cfg => GenNBit.finit cfg (GenNBit.modelTab cfg)
    | none => "bad-op"
  | ["fenc", a, b, c, d, e, x, l] =>
    match parseCfg a b c d e, parseHex x, natList l with
    | some cfg, some bs, some lens => GenNBit.fenc cfg bs lens (toHex (compress cfg bs))
    | _, _, _ => "bad-op"
  | ["fdec", a, b, c, d, e, x, l] =>
    match parseCfg a b c d e, parseHex x, natList l with
    | some cfg, some raw, some lens => GenNBit.dec cfg raw (lens.map .read) (toHex ((readScript cfg raw (lens.map .read)).flatten))
    | _, _, _ => "bad-op"
  | ["feof", a, b, c, d, e, x, l] =>
    match parseCfg a b c d e, parseHex x, l.toNat? with
    | some cfg, some raw, some n =>
      let d := (decode cfg { st := H4.BitIO.startRead raw, buffer := List.replicate H4.Gen.Cnbit.NBIT_BUF_SIZE 0 } n).1
      GenNBit.feof cfg raw n (if !cfg.signExt && d.fail then "fail" else "ok")
    | _, _, _ => "bad-op"
  | _ => "bad-op"

end H4.Driver
