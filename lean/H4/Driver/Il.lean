import H4.Interlace
import H4.Gen.Fn.Mfgr
import H4.Driver.Util
namespace H4.Driver
open H4.Interlace

/-! `GRIil_convert` as TRANSLATED from the current C text of mfgr.c (`H4.Gen.Fn.Mfgr`, gen/c2lean.py) is run on the same image as the
    hand-written model: the image is placed at address 0 of a flat memory, the zero-filled output buffer behind it, one guard byte at
    the end.  When the bytes at the output placement differ from the model's answer, when anything outside that placement changed, when
    the return value is not SUCCEED or the translated code reports undefined behaviour / fuel exhaustion, the answer carries a
    ` GEN=…` suffix, which the comparison with the real library's answer reports as a DIFF.  This validates the translator itself
    by differential testing against the compiled C. -/
namespace GenIl
open H4.Gen.Fn.Mfgr

def bytesI (l : List UInt8) : List Int := l.map fun b => (b.toNat : Int)
def unbytes (l : List Int) : List UInt8 := l.map fun x => UInt8.ofNat x.toNat

def conv (a b : Il) (w h nc esz : Nat) (img : List UInt8) (model : String) : String :=
  let n := w * h * nc * esz
  let mem := bytesI (img ++ List.replicate n 0 ++ [0xA5])
  let s := GRIil_convert (h + w + nc) 0 mem a.code n b.code [(w : Int), (h : Int)] nc 0 esz
  if s.ub then s!"{model} GEN=ub" else if s.oof then s!"{model} GEN=oof" else
  if s.ret != 0 then s!"{model} GEN=ret{s.ret}" else
  let out := toHex (unbytes ((s.mem.drop n).take n))
  if out != model then s!"{model} GEN={out}" else
  if s.mem.take n != mem.take n || s.mem.drop (2 * n) != mem.drop (2 * n) then s!"{model} GEN=frame" else model
end GenIl

/-- engine `il` (stateless): `conv <a> <b> <W> <H> <ncomp> <esz> <hex in>` => content of the (zero-filled) output buffer -/
def stepIl (args : List String) : String :=
  match args with
  | ["conv", a, b, w, h, nc, esz, d] =>
    match parseNat a >>= Il.ofCode, parseNat b >>= Il.ofCode, parseNat w, parseNat h, parseNat nc, parseNat esz, parseHex d with
    | some a, some b, some w, some h, some nc, some esz, some bs =>
      GenIl.conv a b w h nc esz bs (toHex (convert a b w h nc esz bs (List.replicate (w * h * nc * esz) 0)))
    | _, _, _, _, _, _, _ => "bad-op"
  | _ => "bad-op"

end H4.Driver
