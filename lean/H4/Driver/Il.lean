import H4.Interlace
import H4.Driver.Util
namespace H4.Driver
open H4.Interlace

/-- engine `il` (stateless): `conv <a> <b> <W> <H> <ncomp> <esz> <hex in>` => content of the (zero-filled) output buffer -/
def stepIl (args : List String) : String :=
  match args with
  | ["conv", a, b, w, h, nc, esz, d] =>
    match parseNat a >>= Il.ofCode, parseNat b >>= Il.ofCode, parseNat w, parseNat h, parseNat nc, parseNat esz, parseHex d with
    | some a, some b, some w, some h, some nc, some esz, some bs =>
      toHex (convert a b w h nc esz bs (List.replicate (w * h * nc * esz) 0))
    | _, _, _, _, _, _, _ => "bad-op"
  | _ => "bad-op"

end H4.Driver
