import H4.AttrSD
import H4.AttrGR
import H4.AttrVS
import H4.Driver.Util
/-! Line protocol of engine `attr` (C10): `T attr <op> <args…> => <result>`; ops are prefixed `sd.`, `gr.`, `vs.`, `vg.`, `v.`.
    Names and values are hex; optional C strings: `N` = NULL pointer, `-` = "", else hex. -/
namespace H4.Driver
open H4.Attr H4.AttrSD

structure AttrState where
  sd : AttrSD.File := {}
  gr : AttrGR.File := {}
  vs : AttrVS.File := {}

def showItem : Item → String
  | .int i => toString i
  | .hex b => toHex b
  | .null => "N"

def showAttrOut : Out → String
  | .fail => "fail"
  | .ok => "ok"
  | .bad => "bad-op"
  | .items l => if l.isEmpty then "-" else " ".intercalate (l.map showItem)

def parseOptStr (s : String) : Option (Option Bytes) :=
  if s == "N" then some none else (parseHex s).map some

def parseSdObj (s : String) : Option Obj :=
  if s == "f" then some .file
  else if s.startsWith "v" then ((s.drop 1).toString.toNat?).map .var
  else if s.startsWith "d" then ((s.drop 1).toString.toNat?).map .dim
  else none

def parseGrObj (s : String) : Option (Option Nat) :=
  if s == "g" then some none
  else if s.startsWith "i" then ((s.drop 1).toString.toNat?).map some
  else none

def sdStep (f : AttrSD.File) (args : List String) : Option (AttrSD.File × Out) :=
  match args with
  | ["sd.start", "c"] => some (create f, .ok)
  | ["sd.start", "w"] => some (openF f true, .ok)
  | ["sd.start", "r"] => some (openF f false, .ok)
  | ["sd.end"] => some (close f)
  | ["sd.create", n, nt, dims] => do some (sdCreate f (← parseHex n) (← nt.toNat?) (← natList dims))
  | ["sd.refs", first, refs] => do some (setRefs f (← first.toNat?) (← natList refs))
  | ["sd.fileinfo"] => some (sdFileInfo f)
  | ["sd.setattr", o, n, nt, c, v] => do some (sdSetAttr f (← parseSdObj o) (← parseHex n) (← nt.toNat?) (← c.toInt?) (← parseHex v))
  | ["sd.attrinfo", o, i] => do some (sdAttrInfo f (← parseSdObj o) (← i.toInt?))
  | ["sd.readattr", o, i] => do some (sdReadAttr f (← parseSdObj o) (← i.toInt?))
  | ["sd.findattr", o, n] => do some (sdFindAttr f (← parseSdObj o) (← parseHex n))
  | ["sd.setdatastrs", i, l, u, fm, c] => do
      some (sdSetDataStrs f (← i.toNat?) (← parseOptStr l) (← parseOptStr u) (← parseOptStr fm) (← parseOptStr c))
  | ["sd.getdatastrs", i, mask, len] => do some (sdGetDataStrs f (← i.toNat?) (← mask.toNat?) (← len.toNat?))
  | ["sd.setcal", i, a, b, c, d, e] => do
      some (sdSetCal f (← i.toNat?) (← parseHex a) (← parseHex b) (← parseHex c) (← parseHex d) (← parseHex e))
  | ["sd.getcal", i] => do some (sdGetCal f (← i.toNat?))
  | ["sd.setrange", i, mx, mn] => do some (sdSetRange f (← i.toNat?) (← parseHex mx) (← parseHex mn))
  | ["sd.getrange", i] => do some (sdGetRange f (← i.toNat?))
  | ["sd.setfill", i, v] => do some (sdSetFill f (← i.toNat?) (← parseHex v))
  | ["sd.getfill", i] => do some (sdGetFill f (← i.toNat?))
  | ["sd.getdimid", i, k] => do some (sdGetDimId f (← i.toNat?) (← k.toNat?))
  | ["sd.setdimname", s, n] => do some (sdSetDimName f (← s.toNat?) (← parseHex n))
  | ["sd.diminfo", s] => do some (sdDimInfo f (← s.toNat?))
  | ["sd.setdimstrs", s, l, u, fm] => do some (sdSetDimStrs f (← s.toNat?) (← parseOptStr l) (← parseOptStr u) (← parseOptStr fm))
  | ["sd.getdimstrs", s, mask, len] => do some (sdGetDimStrs f (← s.toNat?) (← mask.toNat?) (← len.toNat?))
  | ["sd.setdimscale", s, c, nt, v] => do some (sdSetDimScale f (← s.toNat?) (← c.toNat?) (← nt.toNat?) (← parseHex v))
  | ["sd.getdimscale", s] => do some (sdGetDimScale f (← s.toNat?))
  | ["sd.nametoindex", n] => do some (sdNameToIndex f (← parseHex n))
  | ["sd.nametoindices", n] => do some (sdNameToIndices f (← parseHex n))
  | ["sd.idtoref", i] => do some (sdIdToRef f (← i.toNat?))
  | ["sd.reftoindex", r] => do some (sdRefToIndex f (← r.toNat?))
  | ["sd.getinfo", i] => do some (sdGetInfo f (← i.toNat?))
  | ["sd.iscoordvar", i] => do some (sdIsCoordVar f (← i.toNat?))
  | _ => none

open H4.AttrGR in
def grStep (f : AttrGR.File) (args : List String) : Option (AttrGR.File × Out) :=
  match args with
  | ["gr.start", "c"] => some (AttrGR.start f true true, .ok)
  | ["gr.start", "w"] => some (AttrGR.start f false true, .ok)
  | ["gr.start", "r"] => some (AttrGR.start f false false, .ok)
  | ["gr.end"] => some (grEnd f)
  | ["gr.create", n] => do some (grCreate f (← parseHex n))
  | ["gr.setattr", o, n, nt, c, v] => do some (grSetAttr f (← parseGrObj o) (← parseHex n) (← nt.toNat?) (← c.toInt?) (← parseHex v))
  | ["gr.attrinfo", o, i] => do some (grAttrInfo f (← parseGrObj o) (← i.toInt?))
  | ["gr.getattr", o, i] => do some (grGetAttr f (← parseGrObj o) (← i.toInt?))
  | ["gr.findattr", o, n] => do some (grFindAttr f (← parseGrObj o) (← parseHex n))
  | ["gr.fileinfo"] => some (grFileInfo f)
  | ["gr.iminfo", i] => do some (grImInfo f (← i.toNat?))
  | _ => none

open H4.AttrVS in
def vsStep (f : AttrVS.File) (args : List String) : Option (AttrVS.File × Out) :=
  match args with
  | ["v.start", "c"] => some (AttrVS.start f true true, .ok)
  | ["v.start", "w"] => some (AttrVS.start f false true, .ok)
  | ["v.start", "r"] => some (AttrVS.start f false false, .ok)
  | ["v.end"] => some (vEnd f)
  | ["vs.create", n] => do some (vsCreate f (← n.toNat?))
  | ["vg.create"] => some (vgCreate f)
  | ["vs.attach", i, m] => do some (vsAttach f (← i.toNat?) (m == "w"))
  | ["vs.detach", i] => do some (vsDetach f (← i.toNat?))
  | ["vg.attach", i, m] => do some (vgAttach f (← i.toNat?) (m == "w"))
  | ["vg.detach", i] => do some (vgDetach f (← i.toNat?))
  | ["vs.setattr", i, fx, n, nt, c, v] => do
      some (vsSetAttr f (← i.toNat?) (← fx.toInt?) (← parseHex n) (← nt.toNat?) (← c.toInt?) (← parseHex v))
  | ["vs.nattrs", i] => do some (vsNattrs f (← i.toNat?))
  | ["vs.fnattrs", i, fx] => do some (vsFnattrs f (← i.toNat?) (← fx.toInt?))
  | ["vs.findattr", i, fx, n] => do some (vsFindAttr f (← i.toNat?) (← fx.toInt?) (← parseHex n))
  | ["vs.attrinfo", i, fx, k] => do some (vsAttrInfo f (← i.toNat?) (← fx.toInt?) (← k.toInt?))
  | ["vs.getattr", i, fx, k] => do some (vsGetAttr f (← i.toNat?) (← fx.toInt?) (← k.toInt?))
  | ["vg.setattr", i, n, nt, c, v] => do some (vgSetAttr f (← i.toNat?) (← parseHex n) (← nt.toNat?) (← c.toInt?) (← parseHex v))
  | ["vg.nattrs", i] => do some (vgNattrs f (← i.toNat?))
  | ["vg.findattr", i, n] => do some (vgFindAttr f (← i.toNat?) (← parseHex n))
  | ["vg.attrinfo", i, k] => do some (vgAttrInfo f (← i.toNat?) (← k.toInt?))
  | ["vg.getattr", i, k] => do some (vgGetAttr f (← i.toNat?) (← k.toInt?))
  | _ => none

def stepAttr (s : AttrState) (args : List String) : AttrState × String :=
  match args with
  | [] => (s, "bad-op")
  | op :: _ =>
    if op.startsWith "sd." then
      match sdStep s.sd args with
      | some (f, o) => ({ s with sd := f }, showAttrOut o)
      | none => (s, "bad-op")
    else if op.startsWith "gr." then
      match grStep s.gr args with
      | some (f, o) => ({ s with gr := f }, showAttrOut o)
      | none => (s, "bad-op")
    else
      match vsStep s.vs args with
      | some (f, o) => ({ s with vs := f }, showAttrOut o)
      | none => (s, "bad-op")

end H4.Driver
