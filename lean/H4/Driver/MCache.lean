import H4.MCache
import H4.Driver.Util
namespace H4.Driver
open H4.MCache H4.Gen.Mcache

/-- state of engine `mcache` between `T` lines (reset at every CASE): a closed cache -/
def mcacheInit : MCache.State := { maxcache := 1, npages := 0, backing := fun _ => 0, closed := true }

def mcShowIo : List Io → String
  | [] => "-"
  | l => ",".intercalate (l.map fun
    | .pgin c true => s!"i{c}"
    | .pgin c false => s!"I{c}"
    | .pgout c d true => s!"o{c}:{d}"
    | .pgout c d false => s!"O{c}:{d}")

def mcShowRet : Ret → String
  | .page d => toString d
  | .val n => toString n
  | .ok => "ok"
  | .fail => "fail"
  | .undef => "undefined"

def mcShowBkt (s : MCache.State) (pg : Nat) : String :=
  match s.pages pg with
  | some b => s!"{pg}{if b.dirty then "d" else ""}{if b.pinned then "P" else ""}"
  | none => s!"{pg}?"

def mcShowOr (l : List String) (sep : String) : String := if l.isEmpty then "-" else sep.intercalate l

/-- white-box dump compared with the harness' walk over `mp->lqh`, `mp->hqh[]`, `mp->lhqh[]` -/
def mcShowState (s : MCache.State) : String :=
  let ks := (List.range HASHSIZE).filter fun k => !(s.hqh k).isEmpty
  let hq := ks.map fun k => s!"{k}:" ++ ".".intercalate ((s.hqh k).map toString)
  let le := ks.map fun k => s!"{k}:" ++ ".".intercalate ((s.lhqh k).map fun e => s!"{e.1}/{e.2}")
  s!"cur={s.curcache} max={s.maxcache} lru={mcShowOr (s.lru.map (mcShowBkt s)) ","} hq={mcShowOr hq ";"} le={mcShowOr le ";"}"

/-- run one call with an empty log; result string `<ret> io=<callbacks>` -/
def mcDoCall (s : MCache.State) (c : Call) (withIo : Bool) : MCache.State × String :=
  let (s', r) := call { s with log := [] } c
  (s', if withIo then s!"{mcShowRet r} io={mcShowIo s'.log}" else mcShowRet r)

/-- engine `mcache` (stateful):
```
open <maxcache> <npages> <flags> <garbage> <b1,..,bn>  => ok         fresh cache over backing store b
get <pg>            => <content>|fail io=<callbacks>
write <pg> <v>      => ok|fail          client stores v in the page buffer
put <pg> <flags>    => ok|fail
sync                => ok|fail io=<callbacks>
setmax <n>          => <maxcache>
close               => ok
failin <pg> <0|1>   => ok                pgin of that page fails from now on (1) / works (0)
failout <pg> <0|1>  => ok
backing             => <b1,..,bn>
state               => cur= max= lru= hq= le=
```
callbacks: `i<chunk>` pgin ok, `I<chunk>` pgin failed, `o<chunk>:<data>` pgout ok, `O<chunk>:<data>` pgout failed -/
def stepMcache (s : MCache.State) (args : List String) : MCache.State × String :=
  match args with
  | ["open", mc, np, fl, g, b] =>
    match mc.toNat?, np.toNat?, fl.toNat?, g.toNat?, natList b with
    | some mc, some np, some fl, some g, some b =>
      (mcacheOpen mc np fl (fun pg => b.getD (pg - 1) 0) g s.inFail s.outFail, "ok")
    | _, _, _, _, _ => (s, "bad-op")
  | ["get", pg] => match pg.toNat? with
    | some pg => mcDoCall s (.get pg) true
    | none => (s, "bad-op")
  | ["write", pg, v] => match pg.toNat?, v.toNat? with
    | some pg, some v => mcDoCall s (.write pg v) false
    | _, _ => (s, "bad-op")
  | ["put", pg, fl] => match pg.toNat?, fl.toNat? with
    | some pg, some fl => mcDoCall s (.put pg fl) false
    | _, _ => (s, "bad-op")
  | ["sync"] => mcDoCall s .sync true
  | ["setmax", n] => match n.toNat? with
    | some n => mcDoCall s (.setMax n) false
    | none => (s, "bad-op")
  | ["close"] => mcDoCall s .close false
  | ["failin", pg, b] => match pg.toNat?, b.toNat? with
    | some pg, some b => ({ s with inFail := upd s.inFail pg (b != 0) }, "ok")
    | _, _ => (s, "bad-op")
  | ["failout", pg, b] => match pg.toNat?, b.toNat? with
    | some pg, some b => ({ s with outFail := upd s.outFail pg (b != 0) }, "ok")
    | _, _ => (s, "bad-op")
  | ["backing"] => (s, showNatList ((List.range' 1 s.npages).map s.backing))
  | ["state"] => (s, mcShowState s)
  | _ => (s, "bad-op")

end H4.Driver
