import H4.Handles
import H4.Driver.Util
namespace H4.Driver
open H4.Handles

/-- engine `ids` (stateful): the file table / access record model.  Handles in the trace are `f<k>` / `a<k>` = the k-th file id /
    access id the harness obtained, `x<k>` = a value that was never issued; the maps translate them to the model's atoms. -/
structure IdsSt where
  w : World := World.init
  fmap : List Nat := []
  amap : List Nat := []

private def tok (st : IdsSt) (t : String) : Nat :=
  match t.toList with
  | 'f' :: rest => st.fmap.getD ((String.ofList rest).toNat?.getD 0) 4000000000
  | 'a' :: rest => st.amap.getD ((String.ofList rest).toNat?.getD 0) 4000000001
  | _ => 4000000002

private def out (st : IdsSt) (r : World × Res) (kind : Char) : IdsSt × String :=
  match r.2 with
  | .fail => ({ st with w := r.1 }, "fail")
  | .ok => ({ st with w := r.1 }, "ok")
  | .confused => ({ st with w := r.1 }, "confused")
  | .id a =>
    if kind == 'f' then ({ st with w := r.1, fmap := st.fmap ++ [a] }, s!"f{st.fmap.length}")
    else ({ st with w := r.1, amap := st.amap ++ [a] }, s!"a{st.amap.length}")

def stepIds (st : IdsSt) (args : List String) : IdsSt × String :=
  let n (t : String) : Nat := t.toNat?.getD 0
  match args with
  | ["open", p, acc, ok] => out st (step Cfg.current st.w (.hopen (n p) (n acc) (ok != "0"))) 'f'
  | ["close", h] => out st (step Cfg.current st.w (.hclose (tok st h))) 'f'
  | ["startaccess", h, fnd, wr] => out st (step Cfg.current st.w (.startaccess (tok st h) (fnd != "0") (wr != "0"))) 'a'
  | ["endaccess", h] => out st (step Cfg.current st.w (.endaccess (tok st h))) 'a'
  | ["nextread", h, fnd] => out st (step Cfg.current st.w (.nextread (tok st h) (fnd != "0"))) 'a'
  | ["usefid", h] => out st (step Cfg.current st.w (.usefid (tok st h))) 'f'
  | ["useaid", h] => out st (step Cfg.current st.w (.useaid (tok st h))) 'a'
  | ["counts", h] =>
    match lookF Cfg.current st.w (tok st h) with
    | .file _ r => (st, s!"{r.refcount},{r.attach}")
    | _ => (st, "fail")
  | ["live"] => (st, s!"{(liveFids st.w).length},{(liveAids st.w).length},{st.w.frecs.length},{st.w.arecs.length}")
  | ["sdpack", slot, idx] =>
    -- the ids SDstart / SDselect / SDgetdimid build for netCDF slot `slot`, object index `idx`
    let f := sdFileId (n slot)
    let s := sdSdsId f (n idx)
    (st, s!"{f},{s},{sdDimId s (n idx)}")
  | ["sdunpack", id] => let u := sdidUnpack (n id); (st, s!"{u.1},{u.2.1},{u.2.2}")
  | _ => (st, "bad-op")

end H4.Driver
