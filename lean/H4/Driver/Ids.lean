import H4.Handles
import H4.Driver.Util
namespace H4.Driver
open H4.Handles

/-- engine `ids` (stateful): the file table / access record model.  Handles in the trace are `f<k>` / `a<k>` = the k-th file id /
    access id the harness obtained, `x<k>` = a value that was never issued; the maps translate them to the model's atoms. -/
structure IdsSt where
  /-- the file table (`sw.w`) and the special-information records that hold access elements of their own -/
  sw : SpWorld := SpWorld.init
  fmap : List Nat := []
  amap : List Nat := []

private def tok (st : IdsSt) (t : String) : Nat :=
  match t.toList with
  | 'f' :: rest => st.fmap.getD ((String.ofList rest).toNat?.getD 0) 4000000000
  | 'a' :: rest => st.amap.getD ((String.ofList rest).toNat?.getD 0) 4000000001
  | _ => 4000000002

private def out (st : IdsSt) (r : SpWorld × Res) (kind : Char) : IdsSt × String :=
  match r.2 with
  | .fail => ({ st with sw := r.1 }, "fail")
  | .ok => ({ st with sw := r.1 }, "ok")
  | .confused => ({ st with sw := r.1 }, "confused")
  | .id a =>
    if kind == 'f' then ({ st with sw := r.1, fmap := st.fmap ++ [a] }, s!"f{st.fmap.length}")
    else ({ st with sw := r.1, amap := st.amap ++ [a] }, s!"a{st.amap.length}")

private def spKind (t : String) : SpKind :=
  match t with
  | "L" => .linked
  | "C" => .comp
  | "K" => .chunked
  | _ => .ordinary

def stepIds (st : IdsSt) (args : List String) : IdsSt × String :=
  let n (t : String) : Nat := t.toNat?.getD 0
  match args with
  | ["open", p, acc, ok] => out st (spStep Cfg.current st.sw (.prim (.hopen (n p) (n acc) (ok != "0")))) 'f'
  | ["openbad", p, acc, stage] =>
    -- an Hopen that cannot succeed: <stage> = where it gives up (os | magic | dd)
    let stg : OpenStage := match stage with
      | "dd" => .dd
      | "magic" => .magic
      | _ => .os
    out st (spStep Cfg.current st.sw (.prim (.hopenbad (n p) (n acc) stg))) 'f'
  | ["close", h] => out st (spStep Cfg.current st.sw (.prim (.hclose (tok st h)))) 'f'
  | ["startaccess", h, fnd, wr] => out st (spStep Cfg.current st.sw (.prim (.startaccess (tok st h) (fnd != "0") (wr != "0")))) 'a'
  | ["endaccess", h] => out st (spStep Cfg.current st.sw (.prim (.endaccess (tok st h)))) 'a'
  | ["nextread", h, fnd] => out st (spStep Cfg.current st.sw (.prim (.nextread (tok st h) (fnd != "0")))) 'a'
  | ["usefid", h] => out st (spStep Cfg.current st.sw (.prim (.usefid (tok st h)))) 'f'
  | ["useaid", h] => out st (spStep Cfg.current st.sw (.prim (.useaid (tok st h)))) 'a'
  | ["startsp", h, ref, kind, wr] =>
    -- Hstartaccess on element `ref` of the series of special elements (the element exists)
    out st (spStep Cfg.current st.sw (.startsp (tok st h) (n ref) (spKind kind) true (wr != "0"))) 'a'
  | ["counts", h] =>
    match lookF Cfg.current st.sw.w (tok st h) with
    | .file _ r => (st, s!"{r.refcount},{r.attach}")
    | _ => (st, "fail")
  | ["groups"] =>
    -- use count and number of atoms of FIDGROUP and AIDGROUP, use count of DDGROUP
    (st, s!"{st.sw.w.fidg.count},{st.sw.w.fidg.live.length},{st.sw.w.aidg.count},{st.sw.w.aidg.live.length},{st.sw.w.ddUse}")
  | ["live"] => (st, s!"{(liveFids st.sw.w).length},{(liveAids st.sw.w).length},{st.sw.w.frecs.length},{st.sw.w.arecs.length}")
  | ["sdpack", slot, idx] =>
    -- the ids SDstart / SDselect / SDgetdimid build for netCDF slot `slot`, object index `idx`
    let f := sdFileId (n slot)
    let s := sdSdsId f (n idx)
    (st, s!"{f},{s},{sdDimId s (n idx)}")
  | ["sdunpack", id] => let u := sdidUnpack (n id); (st, s!"{u.1},{u.2.1},{u.2.2}")
  | _ => (st, "bad-op")

end H4.Driver
