/-! Line-protocol helpers shared by the h4model engines (DESIGN 2.3). -/
namespace H4.Driver

def hexVal (c : Char) : Option Nat :=
  if '0' ≤ c ∧ c ≤ '9' then some (c.toNat - '0'.toNat)
  else if 'a' ≤ c ∧ c ≤ 'f' then some (c.toNat - 'a'.toNat + 10)
  else if 'A' ≤ c ∧ c ≤ 'F' then some (c.toNat - 'A'.toNat + 10)
  else none

/-- "-" is the empty byte string -/
def parseHex (s : String) : Option (List UInt8) :=
  if s == "-" then some [] else
  let rec go : List Char → List UInt8 → Option (List UInt8)
    | [], acc => some acc.reverse
    | [_], _ => none
    | a :: b :: rest, acc =>
      match hexVal a, hexVal b with
      | some x, some y => go rest (UInt8.ofNat (16 * x + y) :: acc)
      | _, _ => none
  go s.toList []

def hexDigit (n : Nat) : Char :=
  if n < 10 then Char.ofNat (n + '0'.toNat) else Char.ofNat (n - 10 + 'a'.toNat)

def toHex (bs : List UInt8) : String :=
  if bs.isEmpty then "-" else
  String.ofList (bs.flatMap fun b => [hexDigit (b.toNat / 16), hexDigit (b.toNat % 16)])

def parseInt (s : String) : Option Int := s.toInt?
def parseNat (s : String) : Option Nat := s.toNat?

def natList (s : String) : Option (List Nat) :=
  if s == "-" then some [] else (s.splitOn ",").mapM (·.toNat?)

def intList (s : String) : Option (List Int) :=
  if s == "-" then some [] else (s.splitOn ",").mapM (·.toInt?)

def showNatList (l : List Nat) : String :=
  if l.isEmpty then "-" else ",".intercalate (l.map toString)

def showIntList (l : List Int) : String :=
  if l.isEmpty then "-" else ",".intercalate (l.map toString)

end H4.Driver
