import H4.HPIO
import H4.HPWorld
import H4.Driver.Util
namespace H4.Driver
open H4.HPIO

/-! The functions TRANSLATED from the current C text of hfile.c (`H4.Gen.Fn.Hfile`, gen/c2lean.py) are run beside the hand model on
    every `seek` / `read` / `write` line, from the model's state before the call and on the same fault outcome: the result tape
    they are given is what the world (`H4.HPWorld`, the stdio contract) answers under that fault, their request log is replayed by
    `serve`.  A difference in the return value, `f_cur_off`, `last_op`, the stream afterwards or the bytes delivered - or undefined
    behaviour / fuel exhaustion of the translated code, or a request log that the contract does not accept - is appended as
    ` GEN=…` and so shows up as a DIFF against the real C.  (`H4.Props.C16Fn` proves that no such difference exists.) -/
namespace GenHp
open H4.Gen.Fn.Hfile H4.HPWorld

def tag (model : String) (ub oof : Bool) (diffs : List String) : String :=
  if ub then s!"{model} GEN=ub" else if oof then s!"{model} GEN=oof" else
  if diffs.isEmpty then model else s!"{model} GEN={",".intercalate diffs}"

def cmp (name : String) (a b : Int) : List String := if a == b then [] else [s!"{name}:{a}!={b}"]

/-- comparison of the world's stream after the logged requests with the model's stream (`exactPos = false`: the position only has to
    agree when the model trusts it) -/
def cmpStream (w : Option Stream) (m : HP) (exactPos : Bool) : List String :=
  match w with
  | none => ["log-not-served"]
  | some w' =>
    (if w'.data == m.s.data then [] else ["data"]) ++
    (if w'.pos == m.s.pos || (!exactPos && m.last == .unknown) then [] else [s!"pos:{w'.pos}!={m.s.pos}"])

def seek (h : HP) (off : Nat) (fs : Option Fault) (h' : HP) (ok : Bool) (model : String) : String :=
  let s := HPseek 1 h.cur (opCode h.last) off [ansSeek fs] 0 []
  tag model s.ub s.oof
    (cmp "ret" s.ret (if ok then 0 else -1) ++ cmp "cur" s.file_rec_f_cur_off h'.cur ++ cmp "last" s.file_rec_last_op (opCode h'.last) ++
     cmpStream (serve h.s false s.io_log [] [] [fs]) h' true)

def write (h : HP) (bs : List Byte) (fs fw : Option Fault) (h' : HP) (ok : Bool) (model : String) : String :=
  let needSeek := h.last == .read || h.last == .unknown
  let tape := if needSeek then [ansSeek fs, ansWrite bs.length fw] else [ansWrite bs.length fw]
  let s := HP_write 1 (opCode h.last) h.cur (toInts bs) bs.length tape 0 [] []
  tag model s.ub s.oof
    (cmp "ret" s.ret (if ok then 0 else -1) ++ cmp "cur" s.file_rec_f_cur_off h'.cur ++ cmp "last" s.file_rec_last_op (opCode h'.last) ++
     cmpStream (serve h.s false s.io_log s.io_out [] (rwFaults needSeek fs fw)) h' true)

def read (h : HP) (n : Nat) (cache dirty endoff : Int) (fs fr : Option Fault) (h' : HP) (res : Option (List Byte)) (model : String) : String :=
  let needSeek := h.last == .write || h.last == .unknown
  -- the stream the fread meets: after the implied seek (which the world serves) or as it is
  let w1 : Stream := if needSeek then { h.s with pos := h.cur } else h.s
  let tape := (if needSeek then [ansSeek fs] else []) ++ ansRead w1 n fr
  let inp := delivered w1 n fr
  let s := HP_read 1 (opCode h.last) h.cur cache dirty endoff (List.replicate n 0) n tape 0 [] inp 0
  tag model s.ub s.oof
    (cmp "ret" s.ret (if res.isSome then 0 else -1) ++ cmp "cur" s.file_rec_f_cur_off h'.cur ++ cmp "last" s.file_rec_last_op (opCode h'.last) ++
     cmpStream (serve h.s false s.io_log [] inp (rwFaults needSeek fs fr)) h' false ++
     (match res with
      | some bs => if s.buf.take n == toInts bs then [] else ["bytes"]
      | none => []))
end GenHp

/-- engine `hp` (stateful). Faults are in the harness's "partial" mode: a failing fread/fwrite of `n` bytes still
    transfers `n/2` bytes and leaves the stream there; a failing fseek does not move.
    `read` lines carry `cache dirty f_end_off` of the file record (the zero-delivery branch of `HP_read`, model `hpReadZ`). -/
def stepHp (h : HP) (args : List String) : HP × String :=
  let flt (s : String) (p : Nat) (n : Nat) : Option Fault := if s == "F" then some { pos := p + n / 2, wrote := n / 2 } else none
  let rd (n : Nat) (fs fr : String) (cache dirty endoff : Int) : HP × String :=
    -- stream position at the time of the fread = position after the implied seek
    let p := (hpRead true h 0 (flt fs 0 0) none).1.s.pos
    let zok := decide (cache ≠ 0 ∧ dirty.toNat &&& H4.Gen.Hpio.FILE_END_DIRTY ≠ 0 ∧ (n : Int) ≤ endoff - h.cur)
    -- a fault-free short read at end of file transfers what is there (the model reports it as a failure unless `zok`)
    match hpReadZ h n zok (flt fs 0 0) (flt fr p n) with
    | (h', some bs) => (h', GenHp.read h n cache dirty endoff (flt fs 0 0) (flt fr p n) h' (some bs) (toHex bs))
    | (h', none) => (h', GenHp.read h n cache dirty endoff (flt fs 0 0) (flt fr p n) h' none "fail")
  match args with
  | ["open", d] => match parseHex d with
    | some bs => (opened bs, "ok")
    | none => (h, "bad-op")
  | ["seek", off, f] => match off.toNat? with
    | some o => let (h', ok) := hpSeek h o (flt f 0 0); (h', GenHp.seek h o (flt f 0 0) h' ok (if ok then "ok" else "fail"))
    | none => (h, "bad-op")
  | ["read", n, fs, fr] => match n.toNat? with
    | some n => rd n fs fr 0 0 0
    | none => (h, "bad-op")
  | ["read", n, fs, fr, cache, dirty, endoff] => match n.toNat?, cache.toInt?, dirty.toInt?, endoff.toInt? with
    | some n, some c, some d, some e => rd n fs fr c d e
    | _, _, _, _ => (h, "bad-op")
  | ["write", d, fs, fw] => match parseHex d with
    | some bs =>
      let p := (hpWrite true h [] (flt fs 0 0) none).1.s.pos
      let (h', ok) := hpWrite true h bs (flt fs 0 0) (flt fw p bs.length)
      (h', GenHp.write h bs (flt fs 0 0) (flt fw p bs.length) h' ok (if ok then "ok" else "fail"))
    | none => (h, "bad-op")
  | ["dump"] => (h, toHex h.s.data)
  | _ => (h, "bad-op")

end H4.Driver
