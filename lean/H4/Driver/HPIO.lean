import H4.HPIO
import H4.Driver.Util
namespace H4.Driver
open H4.HPIO

/-- engine `hp` (stateful). Faults are in the harness's "partial" mode: a failing fread/fwrite of `n` bytes still
    transfers `n/2` bytes and leaves the stream there; a failing fseek does not move. -/
def stepHp (h : HP) (args : List String) : HP × String :=
  let flt (s : String) (p : Nat) (n : Nat) : Option Fault := if s == "F" then some { pos := p + n / 2, wrote := n / 2 } else none
  match args with
  | ["open", d] => match parseHex d with
    | some bs => (opened bs, "ok")
    | none => (h, "bad-op")
  | ["seek", off, f] => match off.toNat? with
    | some o => let (h', ok) := hpSeek h o (flt f 0 0); (h', if ok then "ok" else "fail")
    | none => (h, "bad-op")
  | ["read", n, fs, fr] => match n.toNat? with
    | some n =>
      -- stream position at the time of the fread = position after the implied seek
      let p := (hpRead true h 0 (flt fs 0 0) none).1.s.pos
      -- a fault-free short read at end of file transfers what is there (the model reports it as a failure)
      match hpRead true h n (flt fs 0 0) (flt fr p n) with
      | (h', some bs) => (h', toHex bs)
      | (h', none) => (h', "fail")
    | none => (h, "bad-op")
  | ["write", d, fs, fw] => match parseHex d with
    | some bs =>
      let p := (hpWrite true h [] (flt fs 0 0) none).1.s.pos
      let (h', ok) := hpWrite true h bs (flt fs 0 0) (flt fw p bs.length)
      (h', if ok then "ok" else "fail")
    | none => (h, "bad-op")
  | ["dump"] => (h, toHex h.s.data)
  | _ => (h, "bad-op")

end H4.Driver
