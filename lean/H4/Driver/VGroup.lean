import H4.VGroup
import H4.Driver.Util
/-! Line protocol of engine `vg` (C08).  Stateful ops are parsed into `H4.VGroup.Op` and run by `H4.VGroup.step`;
    `diskrec` reads the model's copy of the DFTAG_VG element; `packrec`/`unpackrec` are the stateless codec. -/
namespace H4.Driver
open H4.VGroup

def showPairs (l : List Pair) : String :=
  if l.isEmpty then "-" else ",".intercalate (l.map fun p => s!"{p.1}:{p.2}")

def parsePairs (s : String) : Option (List Pair) :=
  if s == "-" then some [] else
  (s.splitOn ",").mapM fun e => match e.splitOn ":" with
    | [a, b] => match a.toNat?, b.toNat? with
      | some x, some y => some (x, y)
      | _, _ => none
    | _ => none

def showOut : Out → String
  | .fail => "fail"
  | .ok => "ok"
  | .bad => "bad-op"
  | .int i => toString i
  | .pairs l => showPairs l
  | .bytes b => toHex b
  | .nats l => showNatList l

def showName : Option Bytes → String
  | none => "null"
  | some b => toHex b

def parseName (s : String) : Option (Option Bytes) :=
  if s == "null" then some none else (parseHex s).map some

def parseVgOp (args : List String) : Option Op :=
  match args with
  | ["new", a, b] => do some (.new (← a.toNat?) (← b.toNat?))
  | ["attach", a, b, m] => do some (.attach (← a.toNat?) (← b.toNat?) (m == "w"))
  | ["detach", a] => do some (.detach (← a.toNat?))
  | ["setname", a, h] => do some (.setname (← a.toNat?) (← parseHex h))
  | ["setclass", a, h] => do some (.setclass (← a.toNat?) (← parseHex h))
  | ["addtagref", a, t, r] => do some (.addtagref (← a.toNat?) (← t.toNat?) (← r.toNat?))
  | ["insertvg", a, b] => do some (.insertvg (← a.toNat?) (← b.toNat?))
  | ["insertvs", a, b] => do some (.insertvs (← a.toNat?) (← b.toNat?))
  | ["deltagref", a, t, r] => do some (.deltagref (← a.toNat?) (← t.toNat?) (← r.toNat?))
  | ["setattr", a, b] => do some (.setattr (← a.toNat?) (← b.toNat?))
  | ["vdelete", a] => do some (.vdelete (← a.toNat?))
  | ["vsdelete", a] => do some (.vsdelete (← a.toNat?))
  | ["vsnew", a] => do some (.vsnew (← a.toNat?))
  | ["reopen"] => some .reopen
  | ["ntagrefs", a] => do some (.ntagrefs (← a.toNat?))
  | ["inq", a, t, r] => do some (.inq (← a.toNat?) (← t.toNat?) (← r.toNat?))
  | ["gettagrefs", a, n] => do some (.gettagrefs (← a.toNat?) (← n.toNat?))
  | ["gettagref", a, i] => do some (.gettagref (← a.toNat?) (← i.toInt?))
  | ["nrefs", a, t] => do some (.nrefs (← a.toNat?) (← t.toNat?))
  | ["getname", a] => do some (.getname (← a.toNat?))
  | ["getclass", a] => do some (.getclass (← a.toNat?))
  | ["getnamelen", a] => do some (.getnamelen (← a.toNat?))
  | ["getclasslen", a] => do some (.getclasslen (← a.toNat?))
  | ["getid", i] => do some (.getid (← i.toInt?))
  | ["getnext", a, i] => do some (.getnext (← a.toNat?) (← i.toInt?))
  | ["vsgetid", i] => do some (.vsgetid (← i.toInt?))
  | ["vlone"] => some .vlone
  | ["vslone"] => some .vslone
  | ["find", h] => do some (.find (← parseHex h))
  | ["findclass", h] => do some (.findclass (← parseHex h))
  | _ => none

def showVG (g : VG) : String :=
  s!"{showPairs g.members} {showName g.name} {showName g.cls} {g.extag} {g.exref} {g.version} {g.more} {g.flags} {showPairs g.attrs}"

def stepVg (s : File) (args : List String) : File × String :=
  match args with
  | ["diskrec", r] => match r.toNat? with
    | some r => (s, match alook r s.disk with | some b => toHex b | none => "fail")
    | none => (s, "bad-op")
  | ["config", "fixed3", b] => ({ s with fixed3 := b == "1" }, "ok")
  | ["putrec", r, h] => match r.toNat?, parseHex h with
    | some r, some b => ({ s with disk := ains r b s.disk }, "ok")
    | _, _ => (s, "bad-op")
  | ["packrec", mem, nm, cl, extag, exref, ver, more, flags, attrs] =>
    match parsePairs mem, parseName nm, parseName cl, extag.toNat?, exref.toNat?, ver.toNat?, more.toNat?, flags.toNat?, parsePairs attrs with
    | some members, some name, some cls, some extag, some exref, some version, some more, some flags, some attrs =>
      (s, toHex (vpackvgF s.fixed3 { members, name, cls, extag, exref, version, more, flags, attrs }))
    | _, _, _, _, _, _, _, _, _ => (s, "bad-op")
  | ["unpackrec", h] => match parseHex h with
    | some b => (s, match vunpackvg b with | some g => showVG g | none => "fail")
    | none => (s, "bad-op")
  | _ => match parseVgOp args with
    | some op => let (s', o) := step s op; (s', showOut o)
    | none => (s, "bad-op")

end H4.Driver
