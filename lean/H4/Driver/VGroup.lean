import H4.VGroup
import H4.Gen.Fn.Vgp
import H4.Gen.Fn.Vgp3
import H4.Driver.Util
/-! Line protocol of engine `vg` (C08).  Stateful ops are parsed into `H4.VGroup.Op` and run by `H4.VGroup.step`;
    `diskrec` reads the model's copy of the DFTAG_VG element; `packrec`/`unpackrec`/`unpackvg` are the stateless codec. -/
namespace H4.Driver
open H4.VGroup

def showPairs (l : List Pair) : String :=
  if l.isEmpty then "-" else ",".intercalate (l.map fun p => s!"{p.1}:{p.2}")

def parsePairs (s : String) : Option (List Pair) :=
  if s == "-" then some [] else
  (s.splitOn ",").mapM fun e => match e.splitOn ":" with
    | [a, b] => match a.toNat?, b.toNat? with
      | some x, some y => some (x, y)
      | _, _ => none
    | _ => none

def showOut : Out → String
  | .fail => "fail"
  | .ok => "ok"
  | .bad => "bad-op"
  | .int i => toString i
  | .pairs l => showPairs l
  | .bytes b => toHex b
  | .nats l => showNatList l

def showName : Option Bytes → String
  | none => "null"
  | some b => toHex b

def parseName (s : String) : Option (Option Bytes) :=
  if s == "null" then some none else (parseHex s).map some

def parseVgOp (args : List String) : Option Op :=
  match args with
  | ["new", a, b] => do some (.new (← a.toNat?) (← b.toNat?))
  | ["attach", a, b, m] => do some (.attach (← a.toNat?) (← b.toNat?) (m == "w"))
  | ["detach", a] => do some (.detach (← a.toNat?))
  | ["setname", a, h] => do some (.setname (← a.toNat?) (← parseHex h))
  | ["setclass", a, h] => do some (.setclass (← a.toNat?) (← parseHex h))
  | ["addtagref", a, t, r] => do some (.addtagref (← a.toNat?) (← t.toNat?) (← r.toNat?))
  | ["insertvg", a, b] => do some (.insertvg (← a.toNat?) (← b.toNat?))
  | ["insertvs", a, b] => do some (.insertvs (← a.toNat?) (← b.toNat?))
  | ["deltagref", a, t, r] => do some (.deltagref (← a.toNat?) (← t.toNat?) (← r.toNat?))
  | ["setattr", a, b] => do some (.setattr (← a.toNat?) (← b.toNat?))
  | ["vdelete", a] => do some (.vdelete (← a.toNat?))
  | ["vsdelete", a] => do some (.vsdelete (← a.toNat?))
  | ["vsnew", a] => do some (.vsnew (← a.toNat?))
  | ["reopen"] => some .reopen
  | ["ntagrefs", a] => do some (.ntagrefs (← a.toNat?))
  | ["inq", a, t, r] => do some (.inq (← a.toNat?) (← t.toNat?) (← r.toNat?))
  | ["gettagrefs", a, n] => do some (.gettagrefs (← a.toNat?) (← n.toNat?))
  | ["gettagref", a, i] => do some (.gettagref (← a.toNat?) (← i.toInt?))
  | ["nrefs", a, t] => do some (.nrefs (← a.toNat?) (← t.toNat?))
  | ["getname", a] => do some (.getname (← a.toNat?))
  | ["getclass", a] => do some (.getclass (← a.toNat?))
  | ["getnamelen", a] => do some (.getnamelen (← a.toNat?))
  | ["getclasslen", a] => do some (.getclasslen (← a.toNat?))
  | ["getid", i] => do some (.getid (← i.toInt?))
  | ["getnext", a, i] => do some (.getnext (← a.toNat?) (← i.toInt?))
  | ["vsgetid", i] => do some (.vsgetid (← i.toInt?))
  | ["vlone"] => some .vlone
  | ["vslone"] => some .vslone
  | ["find", h] => do some (.find (← parseHex h))
  | ["findclass", h] => do some (.findclass (← parseHex h))
  | _ => none

def showVG (g : VG) : String :=
  s!"{showPairs g.members} {showName g.name} {showName g.cls} {g.extag} {g.exref} {g.version} {g.more} {g.flags} {showPairs g.attrs}"

/-! `vpackvg` as TRANSLATED from the current C text of vgp.c (`H4.Gen.Fn.Vgp`, gen/c2lean.py) is run on the arguments of every
    `packrec` line: when its record, `*size`, the bytes of `buf` behind the record or the version it leaves in `vg->version`
    differ from the hand-written model (or the translated code reports undefined behaviour / fuel exhaustion) the answer
    carries a ` GEN=…` suffix, which the comparison with the real library's answer reports as a DIFF.  This validates the
    translator by differential testing against the compiled C (pattern: `GenChunk` in Driver/Chunk.lean).
    The translator treats `(i) & 0xff` on a NEGATIVE signed operand as undefined (the low byte of `UINT16ENCODE` applied to
    the `int16` fields `version` and `more`); the harness does produce such values (0x8000, 0xffff): for them the translated
    run must report `ub` — and only for them (`H4.Props.C08Fn.Pre`). -/
namespace GenVg
open H4.Gen.Fn.Vgp
def il (l : List Nat) : List Int := l.map Int.ofNat
def cstr : Option Bytes → List Int
  | none => []
  | some b => b.map (fun x => (x.toNat : Int)) ++ [0]
def toBytes (l : List Int) : Bytes := l.map fun x => UInt8.ofNat x.toNat
/-- `model` = the record of the hand-written model, `mver` = the version it leaves in memory -/
def pack (g : VG) (model : Bytes) (mver : Nat) : String :=
  let sentinel : List Int := List.replicate 4 170
  let buf : List Int := List.replicate model.length 85 ++ sentinel
  -- named arguments: the translator orders the parameters by first use in the C text
  let s := vpackvg (fuel := max g.members.length g.attrs.length + 1) (vg_nvelt := g.members.length)
    (vg_tag := il (g.members.map (·.1))) (vg_ref := il (g.members.map (·.2)))
    (vg_vgname_null := g.name.isNone) (vg_vgname := cstr g.name) (vg_vgclass_null := g.cls.isNone) (vg_vgclass := cstr g.cls)
    (vg_extag := g.extag) (vg_exref := g.exref) (vg_flags := g.flags) (vg_version := toI16 g.version) (vg_nattrs := g.attrs.length)
    (vg_alist_atag := il (g.attrs.map (·.1))) (vg_alist_aref := il (g.attrs.map (·.2))) (vg_more := toI16 g.more)
    (buf := buf) (size := [0])
  let negative := g.more % 65536 ≥ 32768 || mver % 65536 ≥ 32768
  if negative then (if s.ub then "" else " GEN=no-ub-on-negative-int16")
  else if s.ub then " GEN=ub" else if s.oof then " GEN=oof"
  else if s.buf == model.map (fun x => (x.toNat : Int)) ++ sentinel && s.size == [(model.length : Int)] && s.vg_version == toI16 mver then ""
  else s!" GEN={toHex (toBytes (s.buf.take (s.size.getD 0 0).toNat))}/{s.size}/{s.vg_version}/tail={s.buf.drop model.length}"
end GenVg

/-! `vunpackvg` as TRANSLATED from the current C text of vgp.c (`H4.Gen.Fn.Vgp3`) is run on the bytes of every `unpackvg` line, on a
    zeroed `*vg` (what `VIget_vgroup_node` hands to `VPgetinfo`) and a buffer that ENDS with the record (`len` cells).  The harness
    prints `refused` when the real call left `buf[0..len)` (the child died in a guard page) or returned FAIL; the translated run must
    then report `ub` or `ret = FAIL`, and otherwise leave the fields the real call left (` GEN=…` on any difference). -/
namespace GenVgU
open H4.Gen.Fn.Vgp3
def u16 (x : Int) : Nat := (x % 65536).toNat
def cstrOf (null : Bool) (l : List Int) : Option Bytes :=
  if null then none else some ((l.takeWhile (· ≠ 0)).map fun x => UInt8.ofNat x.toNat)
def run (b : Bytes) : vunpackvg.St :=
  vunpackvg (fuel := b.length + 1) (vg_version := 0) (vg_more := 0) (vg_nvelt := 0) (vg_msize := 0) (vg_tag_null := true) (vg_tag := [])
    (vg_ref_null := true) (vg_ref := []) (vg_vgname_null := true) (vg_vgname := []) (vg_vgclass_null := true) (vg_vgclass := [])
    (vg_extag := 0) (vg_exref := 0) (vg_flags := 0) (vg_nattrs := 0) (vg_alist_null := true) (vg_alist_atag := []) (vg_alist_aref := [])
    (buf := b.map fun x => (x.toNat : Int)) (len := b.length)
/-- the answer of the harness's `print_vgstruct` on the state the translated function leaves -/
def answer (s : vunpackvg.St) : String :=
  if s.ub || s.ret == -1 then "refused" else
  let n := s.vg_nvelt.toNat
  let g : VG := { members := ((s.vg_tag.take n).map u16).zip ((s.vg_ref.take n).map u16),
                  name := cstrOf s.vg_vgname_null s.vg_vgname, cls := cstrOf s.vg_vgclass_null s.vg_vgclass,
                  extag := u16 s.vg_extag, exref := u16 s.vg_exref, version := u16 s.vg_version, more := u16 s.vg_more,
                  flags := s.vg_flags.toNat,
                  attrs := if s.vg_nattrs ≤ 0 || s.vg_alist_null then []
                           else ((s.vg_alist_atag.take s.vg_nattrs.toNat).map u16).zip ((s.vg_alist_aref.take s.vg_nattrs.toNat).map u16) }
  showVG g
/-- the attribute count of a version-4 record with `VG_ATTR_SET` whose fields up to `nattrs` lie inside the record (found with the
    model's own primitives), when it is positive and larger than the record: the C code then allocates `nattrs` cells before it runs
    off the record; the translated run would build a list of that size, so it is skipped (the real call was refused in the guard) -/
def hugeAlloc (b : Bytes) : Bool :=
  -- a version-4 record: the C reads flags and (flags odd) nattrs and allocates nattrs cells.  When the walk to `nattrs` leaves the record,
  -- the C reads them from whatever follows (the guard page in the engine, the sentinel tail in the translated run): an arbitrary count,
  -- treated like a count larger than the record
  if b.length < 5 then false else
  match getU16 (b.drop (b.length - 5)) with
  | none => false
  | some (version, _) =>
    if toI16 version ≠ 4 then false else
    let walk : Option (Option Nat) := do
      let (n, r) ← getU16 b
      let (_, r) ← getU16s n r
      let (_, r) ← getU16s n r
      let (_, r) ← getStr r
      let (_, r) ← getStr r
      let (_, r) ← getU16 r
      let (_, r) ← getU16 r
      let (flags, r) ← getU32 r
      if flags % 2 = 0 then some none else
      let (na, _) ← getU32 r
      some (some na)
    match walk with
    | none => true
    | some none => false
    | some (some na) => na < 2147483648 && na > b.length
def unpack (b : Bytes) (model : String) : String :=
  if hugeAlloc b then "" else
  let s := run b
  let a := answer s
  if a == "refused" then (if model == "refused" then "" else " GEN=refused")
  else if s.oof then " GEN=oof"
  else if a == model then "" else s!" GEN={a}"
end GenVgU

def stepVg (s : File) (args : List String) : File × String :=
  match args with
  | ["diskrec", r] => match r.toNat? with
    | some r => (s, match alook r s.disk with | some b => toHex b | none => "fail")
    | none => (s, "bad-op")
  | ["config", "fixed3", b] => ({ s with fixed3 := b == "1" }, "ok")
  | ["putrec", r, h] => match r.toNat?, parseHex h with
    | some r, some b => ({ s with disk := ains r b s.disk }, "ok")
    | _, _ => (s, "bad-op")
  | ["packrec", mem, nm, cl, extag, exref, ver, more, flags, attrs] =>
    match parsePairs mem, parseName nm, parseName cl, extag.toNat?, exref.toNat?, ver.toNat?, more.toNat?, flags.toNat?, parsePairs attrs with
    | some members, some name, some cls, some extag, some exref, some version, some more, some flags, some attrs =>
      let g : VG := { members, name, cls, extag, exref, version, more, flags, attrs }
      let model := vpackvgF s.fixed3 g
      (s, s!"{toHex model} {packVersion g}" ++ GenVg.pack g model (packVersion g))
    | _, _, _, _, _, _, _, _, _ => (s, "bad-op")
  | ["unpackrec", h] => match parseHex h with
    | some b => (s, match vunpackvg b with | some g => showVG g | none => "fail")
    | none => (s, "bad-op")
  | ["unpackvg", h] => match parseHex h with
    | some b =>
      let model := match vunpackvg b with | some g => showVG g | none => "refused"
      (s, model ++ GenVgU.unpack b model)
    | none => (s, "bad-op")
  | _ => match parseVgOp args with
    | some op => let (s', o) := step s op; (s', showOut o)
    | none => (s, "bad-op")

end H4.Driver
