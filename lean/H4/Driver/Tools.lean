import H4.Tools
import H4.Driver.Util
import H4.Gen.Fn.Repack
import H4.Gen.Fn.Repack2
namespace H4.Driver
open H4.Tools

def hexStr (s : String) : Option Str := (parseHex s).map fun bs => bs.map fun b => Char.ofNat b.toNat

def strHex (s : Str) : String := toHex (s.map fun c => UInt8.ofNat c.toNat)

def showNames (l : List Str) : String := if l.isEmpty then "-" else ",".intercalate (l.map strHex)

/-- `<n> <arg>...` : returns the args and the remaining tokens -/
def takeArgs (toks : List String) : Option (List Str × List String) :=
  match toks with
  | n :: rest =>
    match n.toNat? with
    | some k => if k ≤ rest.length then ((rest.take k).mapM hexStr).map fun a => (a, rest.drop k) else none
    | none => none
  | [] => none

def parseObj (t : String) : Option Obj :=
  match t.splitOn "/" with
  | [k, p] =>
    match hexStr p with
    | some path => if k == "vg" then some { kind := .vg, path := path } else if k == "vs" then some { kind := .vs, path := path } else none
    | none => none
  | [k, p, rank, dims, eltsz, empty, isrec, flags, comp, info, lens] =>
    match hexStr p, rank.toNat?, natList dims, eltsz.toNat?, empty.toNat?, isrec.toNat?, flags.toNat?, comp.toInt?, info.toInt?, natList lens with
    | some path, some r, some d, some e, some em, some ir, some f, some c, some i, some l =>
      some { kind := if k == "sds" then .sds else .gr, path := path, rank := r, dims := d, eltsz := e, empty := em != 0, isrec := ir != 0,
             flags := f, comp := c, info := i, lens := l }
    | _, _, _, _, _, _, _, _, _, _ => none
  | _ => none

/-- `vg|vs/<name>/<class>/<parent index or ->` -/
def parseNode (t : String) : Option VNode :=
  match t.splitOn "/" with
  | [k, n, c, p] =>
    match hexStr n, hexStr c with
    | some name, some cls =>
      if k != "vg" && k != "vs" then none
      else if p == "-" then some { isVg := k == "vg", name := name, cls := cls, parent := none }
      else p.toNat?.map fun i => { isVg := k == "vg", name := name, cls := cls, parent := some i }
    | _, _ => none
  | _ => none

def showLens (l : List Nat) (on : Bool) : String := if on then showNatList l else "-"

def showOptions (o : Options) : String :=
  let ok := if printOptionsCheck o then "ok" else "bad"
  let cg := if o.allComp then s!"{o.compG.type},{o.compG.info}" else "0,0"
  let cr := if o.allChunk then toString o.chunkG.rank ++ (if o.chunkG.rank > 0 then ":" ++ showNatList o.chunkG.lens else "") else "0"
  let ents := o.tbl.map fun p =>
    s!" {strHex p.path}/{p.comp.type}/{p.comp.info}/{p.chunk.rank}" ++ (if p.chunk.rank > 0 then "/" ++ showNatList p.chunk.lens else "")
  s!"{ok} ac={if o.allChunk then 1 else 0} at={if o.allComp then 1 else 0} ct={cg} cr={cr} m={o.threshold} n={o.tbl.length}" ++ String.join ents

def showTile (t : List Nat × List Nat) : String := showNatList t.1 ++ ";" ++ showNatList t.2

/-! The functions TRANSLATED from the current C text of hrepack_parse.c / hrepack_utils.c (`H4.Gen.Fn.Repack`, `H4.Gen.Fn.Repack2`,
    gen/c2lean.py) are run on the same argument string as the hand-written model: when the two differ (or the translated code reports
    undefined behaviour / fuel exhaustion) the answer carries a ` GEN=…` suffix, which the comparison with the real code's answer reports
    as a DIFF.  This validates the translator (and its strcmp / strncmp / atoi / isdigit builtins) against the compiled C. -/
namespace GenRepack
/-- the `char` cells of a byte string, and its NUL -/
def cells (s : Str) : List Int := (s.map fun c => if c.toNat < 128 then (c.toNat : Int) else (c.toNat : Int) - 256) ++ [0]
def bytesOf (l : List Int) : String := toHex (l.map fun c => UInt8.ofNat (c % 256).toNat)
/-- row `i` of the object list: the cells up to its NUL -/
def row (blk : List Int) (i : Nat) : String := bytesOf ((blk.drop (i * 256)).takeWhile (· ≠ 0))
def rows (blk : List Int) (n : Int) : String :=
  if n ≤ 0 then "-" else ",".intercalate ((List.range n.toNat).map (row blk))
def tag (model : String) (ub oof : Bool) (gen : String) : String :=
  if ub then s!"{model} GEN=ub" else if oof then s!"{model} GEN=oof" else if gen == model then model else s!"{model} GEN={gen}"
def comp (s : Str) (model : String) : String :=
  let r := H4.Gen.Fn.Repack.parse_comp (s.length + 2) (cells s) [-7] (-1) (-1) 4294967295
  let ty := if r.comp_type ≥ 2147483648 then r.comp_type - 4294967296 else r.comp_type
  let n := r.n_objs.getD 0 0
  tag model r.ub r.oof (if r.retnull then "fail" else s!"ok {n} {rows r.obj_list_blk n} {ty} {r.comp_info}")
def chunk (s : Str) (model : String) : String :=
  let r := H4.Gen.Fn.Repack.parse_chunk (s.length + 2) (cells s) [-7] (List.replicate 32 (-5)) [-99]
  let n := r.n_objs.getD 0 0
  let rank := r.chunk_rank.getD 0 0
  let lens := if rank > 0 then ",".intercalate ((r.chunk_lengths.take rank.toNat).map toString) else "-"
  tag model r.ub r.oof (if r.retnull then "fail" else s!"ok {n} {rows r.obj_list_blk n} {rank} {lens}")
def reserved (s : Str) (model : String) : String :=
  let r := H4.Gen.Fn.Repack2.is_reserved 1 false (cells s)
  tag model r.ub r.oof (toString r.ret)
end GenRepack

/-- engine `repack` -/
def stepRepack (args : List String) : String :=
  match args with
  | ["parse_comp", h] =>
    match hexStr h with
    | some s => GenRepack.comp s (match parseComp s with
      | some (n, names, c) => s!"ok {n} {showNames names} {c.type} {c.info}"
      | none => "fail")
    | none => "bad-op"
  | ["parse_chunk", h] =>
    match hexStr h with
    | some s => GenRepack.chunk s (match parseChunk s with
      | some (n, names, ck) => s!"ok {n} {showNames names} {ck.rank} {showLens ck.lens (ck.rank > 0)}"
      | none => "fail")
    | none => "bad-op"
  | "options" :: rest =>
    match takeArgs rest with
    | some (a, []) => match mainLoop a {} with
      | some o => showOptions o
      | none => "usage"
    | _ => "bad-op"
  | "getinfo" :: rest =>
    match takeArgs rest with
    | some (a, [p, rank, flags, comp, info, lens]) =>
      match hexStr p, rank.toNat?, flags.toNat?, comp.toInt?, info.toInt?, natList lens with
      | some path, some r, some f, some c, some i, some l =>
        match mainLoop a {} with
        | none => "usage"
        | some o =>
          let ob : Obj := { kind := .sds, path := path, rank := r, flags := f, comp := c, info := i, lens := l }
          match optionsGetInfo o (initState ob) r path with
          | .fail => "-1"
          | .ok hv s =>
            let cc := if isChunkComp s.flags then s!"{s.ccomp} {paramOf s.ccomp s.cparm}" else "0 0"
            s!"{hv} {s.flags} {s.comp} {paramOf s.comp s.info} {showLens s.lens (s.flags % 2 == 1)} {cc}"
      | _, _, _, _, _, _ => "bad-op"
    | _ => "bad-op"
  | ["tiles", buf, esz, dims] =>
    match buf.toNat?, esz.toNat?, natList dims with
    | some b, some e, some d =>
      let sm := (smSize b e d).1
      let ts := tiles d sm
      showNatList sm ++ String.join ((ts.take 40).map fun t => " " ++ showTile t) ++ s!" n={ts.length}"
    | _, _, _ => "bad-op"
  | "run" :: rest =>
    match takeArgs rest with
    | some (a, m :: objs) =>
      match m.toNat?, objs.mapM parseObj with
      | some k, some os =>
        if k != os.length then "bad-op" else
        match runStatus a os with
        | .ok => "ok" | .fail => "fail" | .usage => "usage"
      | _, _ => "bad-op"
    | _ => "bad-op"
  | "decide" :: rest =>
    match takeArgs rest with
    | some (a, [obj]) =>
      match parseObj obj, mainLoop a {} with
      | some ob, some o =>
        match decide_ o ob with
        | .ok l => s!"{l.flags} {l.comp} {l.info} {showLens l.lens (l.flags % 2 == 1)} {if l.isrec then 1 else 0}"
        | .fail => "fail"
      | _, _ => "bad-op"
    | _ => "bad-op"
  | ["reserved", h] =>
    match hexStr h with
    | some c => GenRepack.reserved c (if isReserved c then "1" else "0")
    | none => "bad-op"
  | "keep" :: n :: rest =>
    match n.toNat?, rest.mapM parseNode with
    | some k, some ns => if k != ns.length then "bad-op" else
      if ns.isEmpty then "-" else String.join ((keptFlags ns).map fun b => if b then "1" else "0")
    | _, _ => "bad-op"
  | _ => "bad-op"

end H4.Driver

namespace H4.Driver
open H4.Tools

def parseNT (s : String) : Option NT :=
  match s with
  | "i8" => some .i8 | "u8" => some .u8 | "i16" => some .i16 | "u16" => some .u16
  | "i32" => some .i32 | "u32" => some .u32 | "f32" => some .f32 | "f64" => some .f64
  | _ => none

/-- one element of an `adiff` / `hdiff` line: an integer (floating-point types: eighths; `-0` is the float -0.0), or for the
    floating-point types `nan` (any NaN bit pattern), `inf`, `-inf` -/
def parseFV (isFloat : Bool) (s : String) : Option FV :=
  if s == "nan" then (if isFloat then some .nan else none)
  else if s == "inf" then (if isFloat then some .pinf else none)
  else if s == "-inf" then (if isFloat then some .ninf else none)
  else if s == "-0" then some (.fin 0)
  else s.toInt?.map .fin

def fvList (isFloat : Bool) (s : String) : Option (List FV) :=
  if s == "-" then some [] else (s.splitOn ",").mapM (parseFV isFloat)

def isFloatNT : NT → Bool
  | .f32 | .f64 => true
  | _ => false

def hexNames (s : String) : Option (List Str) :=
  if s == "-" then some [] else (s.splitOn ",").mapM hexStr


def parseImpFmt : String → Option ImpFmt
  | "text" => some .text | "fp32" => some .fp32 | "fp64" => some .fp64 | "in32" => some .in32
  | "in16" => some .in16 | "in08" => some .in08 | "hdf" => some .hdf | _ => none

/-- `-` no option, `n` = `-n`, `t<TYPE>` = `-t <TYPE>` -/
def parseImpOpt : String → Option (Option ImpOut)
  | "-" => some none | "n" => some (some .fp64) | "tFP32" => some (some .fp32) | "tFP64" => some (some .fp64)
  | "tINT32" => some (some .int32) | "tINT16" => some (some .int16) | "tINT8" => some (some .int8) | _ => none

def parseImpFile (s : String) : Option ImpFile :=
  match s.splitOn "/" with
  | [f, o, np, nr, nc] =>
    match parseImpFmt f, parseImpOpt o, np.toInt?, nr.toInt?, nc.toInt? with
    | some f, some o, some np, some nr, some nc => some { fmt := f, opt := o, np := np, nr := nr, nc := nc }
    | _, _, _, _, _ => none
  | _ => none

def showImpOut : ImpOut → String
  | .fp32 => "f32" | .fp64 => "f64" | .int32 => "i32" | .int16 => "i16" | .int8 => "i8"

/-- engine `tools` -/
def stepTools (args : List String) : String :=
  match args with
  | ["differs", t, tl, pr, a, b] =>
    match parseNT t, tl.toInt?, pr.toInt?, a.toInt?, b.toInt? with
    | some t, some tl, some pr, some a, some b => if differs t { tl8 := tl, pr8 := pr } a b then "1" else "0"
    | _, _, _, _, _ => "bad-op"
  | ["adiff", t, tl, pr, me, l1, l2] =>
    match parseNT t, tl.toInt?, pr.toInt?, me.toNat? with
    | some t, some tl, some pr, some me =>
      match fvList (isFloatNT t) l1, fvList (isFloatNT t) l2 with
      | some l1, some l2 =>
        let r := arrayDiffV t { tl8 := tl, pr8 := pr, maxErr := me } l1 l2
        s!"{r.1} {r.2}"
      | _, _ => "bad-op"
    | _, _, _, _ => "bad-op"
  | ["hdiff", t, tl, pr, me, l1, l2] =>
    match parseNT t, tl.toInt?, pr.toInt?, me.toNat? with
    | some t, some tl, some pr, some me =>
      match fvList (isFloatNT t) l1, fvList (isFloatNT t) l2 with
      | some l1, some l2 =>
        let r := arrayDiffV t { tl8 := tl, pr8 := pr, maxErr := me } l1 l2
        s!"{exitCode (fun _ => r.1) [['d']] [['d']] 0 0} {r.2}"
      | _, _ => "bad-op"
    | _, _, _, _ => "bad-op"
  | ["match", n1, n2] =>
    match hexNames n1, hexNames n2 with
    | some l1, some l2 =>
      let t := matchTable l1 l2
      if t.isEmpty then "-" else " ".intercalate (t.map fun e => s!"{strHex e.1}/{if e.2.1 then 1 else 0}{if e.2.2 then 1 else 0}")
    | _, _ => "bad-op"
  | ["import_shape", np, nr, nc] =>
    match np.toInt?, nr.toInt?, nc.toInt? with
    | some np, some nr, some nc =>
      match importShape np nr nc with
      | some d => showIntList d
      | none => "fail"
    | _, _, _ => "bad-op"
  | ["import_run", tf, files] =>
    match tf.toNat?, (files.splitOn ",").mapM parseImpFile with
    | some tf, some fs =>
      match importRun {} fs with
      | none => "fail"
      | some rs =>
        if tf = 0 ∨ rs.isEmpty then "ok -"
        else "ok " ++ " ".intercalate (rs.map fun r => s!"{showImpOut r.ty}:{"x".intercalate (r.shape.map toString)}")
    | _, _ => "bad-op"
  | ["dumpcell", dims, k] =>
    match natList dims, k.toNat? with
    | some d, some k => match (dumpIndices d)[k]? with
      | some c => showNatList c
      | none => "none"
    | _, _ => "bad-op"
  | _ => "bad-op"

end H4.Driver
