import H4.VData
import H4.Format
import H4.Gen.Fn.Vio
import H4.VsfldEnc
import H4.Gen.Fn.Vio3
import H4.Gen.Vs
import H4.Driver.Util
namespace H4.Driver
open H4.VData

/-- state of engine `vs`: one Vdata and the process-wide static `Vtbufsize` of vrw.c -/
structure VsState where
  v : VS := {}
  vtb : Nat := 0

def fnv64 (b : Buf) : UInt64 :=
  b.foldl (fun h x => (h ^^^ x.toUInt64) * 1099511628211) 14695981039346656037

def hex64 (x : UInt64) : String :=
  String.ofList ((List.range 16).map fun i => hexDigit ((x >>> (UInt64.ofNat (60 - 4 * i))).toNat % 16))

/-- the byte pattern of `writepat` (the harness uses the same formula) -/
def patBuf (n seed : Nat) : Buf :=
  Array.ofFn (n := n) fun i => UInt8.ofNat (seed + i.val * 7 + i.val / 256 * 13 + i.val / 65536 * 101)

def optStr (s : String) : Option String := if s == "*" then none else some s

def bufHex (b : Buf) : String := toHex b.toList

def showFields (w : WList) : String :=
  if w.fields.isEmpty then "-" else
  ",".intercalate (w.fields.map fun f => s!"{f.name}:{f.type}:{f.order}:{f.isize}:{f.esize}")

/-! `packvs`: the `DFTAG_VH` record of `H4.Format.vpackvs` for a hand-built VDATA.  `vpackvs` as TRANSLATED from the current C text
    of vio.c (`H4.Gen.Fn.Vio`, gen/c2lean.py) is run on the same arguments: when its record, `*size` or the bytes of `buf` behind
    the record differ from the hand-written model (or the translated code reports undefined behaviour / fuel exhaustion) the
    answer carries a ` GEN=…` suffix, which the comparison with the real library's answer reports as a DIFF (pattern: `GenChunk`
    in Driver/Chunk.lean).  This validates the translator by differential testing against the compiled C. -/
namespace GenVs
open H4.Gen.Fn.Vio
def il (l : List Nat) : List Int := l.map Int.ofNat
def cstr (b : List UInt8) : List Int := b.map (fun x => (x.toNat : Int)) ++ [0]
def toBytes (l : List Int) : List UInt8 := l.map fun x => UInt8.ofNat x.toNat

def parseField (s : String) : Option H4.Format.VField :=
  match s.splitOn ":" with
  | [t, i, o, d, n] => do some ⟨← t.toInt?, ← i.toNat?, ← o.toNat?, ← d.toNat?, ← parseHex n⟩
  | _ => none
def parseFields (s : String) : Option (List H4.Format.VField) :=
  if s == "-" then some [] else (s.splitOn ",").mapM parseField
def parseAttr (s : String) : Option H4.Format.VAttr :=
  match s.splitOn ":" with
  | [f, t, r] => do some ⟨← f.toInt?, ← t.toNat?, ← r.toNat?⟩
  | _ => none
def parseAttrs (s : String) : Option (List H4.Format.VAttr) :=
  if s == "-" then some [] else (s.splitOn ",").mapM parseAttr

def pack (v : H4.Format.VH) (model : List UInt8) : String :=
  let sentinel : List Int := List.replicate 4 170
  let buf : List Int := List.replicate model.length 85 ++ sentinel
  -- named arguments: the translator orders the parameters by first use in the C text
  let s := vpackvs (fuel := max v.fields.length v.attrs.length + 1) (vs_interlace := v.interlace) (vs_nvertices := v.nvert)
    (vs_wlist_ivsize := v.ivsize) (vs_wlist_n := v.fields.length) (vs_wlist_type := v.fields.map (·.type))
    (vs_wlist_isize := il (v.fields.map (·.isize))) (vs_wlist_off := il (v.fields.map (·.off)))
    (vs_wlist_order := il (v.fields.map (·.order))) (vs_wlist_name := v.fields.map (fun f => cstr f.name))
    (vs_vsname := cstr v.name) (vs_vsclass := cstr v.cls) (vs_extag := v.extag) (vs_exref := v.exref) (vs_version := v.version)
    (vs_more := v.more) (vs_flags := v.flags) (vs_nattrs := v.attrs.length) (vs_alist_findex := v.attrs.map (·.findex))
    (vs_alist_atag := il (v.attrs.map (·.atag))) (vs_alist_aref := il (v.attrs.map (·.aref))) (buf := buf) (size := [0])
  if s.ub then " GEN=ub" else if s.oof then " GEN=oof"
  else if s.buf == model.map (fun x => (x.toNat : Int)) ++ sentinel && s.size == [(model.length : Int)] then ""
  else s!" GEN={toHex (toBytes (s.buf.take (s.size.getD 0 0).toNat))}/{s.size.getD 0 0}/tail={toHex (toBytes (s.buf.drop model.length))}"
end GenVs

/-! `fdefine` / `setfields`: `VSfdefine` and `VSsetfields` as TRANSLATED from the current C text of vsfld.c (`H4.Gen.Fn.Vsfld`, with
    `DFKNTsize` of `H4.Gen.Fn.Dfconv`) are run beside the model on the C image of the model's vdata (`H4.VsfldEnc`: the tokens the
    model's `scanattrs` delivers stand for the C `scanattrs`, which is outside the translated text).  A different answer or vdata, or
    undefined behaviour / fuel exhaustion in the translated code, is reported as ` GEN=…` (a DIFF against the real library). -/
namespace GenVsfld
open H4.VsfldEnc

def fdefine (usym : List SymDef) (name : String) (t order : Nat) (model : Option (List SymDef)) : String :=
  if name.isEmpty || name.contains ',' then "" else
  let s := runFdefine (usym.length + 1) usym name t order
  if s.ub then " GEN=ub" else if s.oof then " GEN=oof" else
  match model with
  | some u' =>
    if s.ret == 0 && s.vs_nusym == (u'.length : Int) && s.vs_usym_name == nameRows u' && s.vs_usym_type == typeCol u' &&
       s.vs_usym_isize == isizeCol u' && s.vs_usym_order == orderCol u' then "" else s!" GEN=ret{s.ret}/nusym{s.vs_nusym}"
  | none =>
    if s.ret == -1 && s.vs_nusym == (usym.length : Int) && s.vs_usym_name == nameRows usym && s.vs_usym_type == typeCol usym &&
       s.vs_usym_isize == isizeCol usym && s.vs_usym_order == orderCol usym then "" else s!" GEN=ret{s.ret}/nusym{s.vs_nusym}"

def setfields (v : VS) (names : List String) (v' : VS) (ok : Bool) : String :=
  let s := runSetfields (names.length + v.usym.length + v.w.fields.length + 10) v names
  if s.ub then " GEN=ub" else if s.oof then " GEN=oof" else
  if s.ret != (if ok then 0 else -1) then s!" GEN=ret{s.ret}" else
  if sameVdata v' s then "" else s!" GEN=vdata(n={s.vs_wlist_n},ivsize={s.vs_wlist_ivsize},rlist={s.vs_rlist_n})"
end GenVsfld
/-! `unpackvs`: `vunpackvs` as TRANSLATED from the current C text of vio.c (`H4.Gen.Fn.Vio3`) is run on the bytes of the line, on a zeroed
    `*vs` (what `VSIget_vdata_node` hands to `VSPgetinfo`: every pointer NULL, `vsname` / `vsclass` = 65 zero bytes) and a buffer that
    ENDS with the record (`len` cells).  `map_from_old_types` is the generated table `H4.Gen.Vs.MAP_OLD_TYPES` (identity outside 0..15);
    `DFKNTsize` only feeds `wlist.esize`, which the harness does not print.  The harness prints `refused` when the real call left
    `buf[0..len)` (the child died in a guard page) or returned FAIL: the translated run then reports `ub` or `ret = FAIL`.  The ANSWER of
    the driver is the translated function's.  The hand-written reader `H4.Format.vunpackvs` is stricter (exact length, field names
    without NUL are not required, …): where it accepts the record and `H4.Props.C07Fn3.Pre` holds, theorem `vunpackvs_refines` says what
    the translated run leaves; the driver recomputes that and appends ` MODEL=…` on a difference. -/
namespace GenVsU
open H4.Gen.Fn.Vio3
def mapOld (x : Int) : Int := if 0 ≤ x ∧ x < 16 then (H4.Gen.Vs.MAP_OLD_TYPES.getD x.toNat 0 : Nat) else x
def run (b : List UInt8) : vunpackvs.St :=
  vunpackvs mapOld (fun _ => 0) (fuel := b.length + 1) (vs_version := 0) (vs_more := 0) (vs_interlace := 0) (vs_nvertices := 0)
    (vs_wlist_ivsize := 0) (vs_wlist_n := 0) (vs_wlist_bptr_null := true) (vs_wlist_type_null := true) (vs_wlist_off_null := true)
    (vs_wlist_isize_null := true) (vs_wlist_order_null := true) (vs_wlist_esize_null := true) (vs_wlist_name_null := true)
    (vs_wlist_bptr := []) (vs_wlist_type := 0) (vs_wlist_off := 0) (vs_wlist_isize := 0) (vs_wlist_order := 0) (vs_wlist_esize := 0)
    (vs_wlist_name := []) (vs_vsname := List.replicate 65 0) (vs_vsclass := List.replicate 65 0) (vs_extag := 0) (vs_exref := 0)
    (vs_flags := 0) (vs_nattrs := 0) (vs_alist_null := true) (vs_alist_findex := []) (vs_alist_atag := []) (vs_alist_aref := [])
    (buf := b.map fun x => (x.toNat : Int)) (len := b.length)
def cstrHex (l : List Int) : String := toHex ((l.takeWhile (· ≠ 0)).map fun x => UInt8.ofNat x.toNat)
def showRow (l : List (Int × Int × Int × Int × String)) (attrs : List (Int × Int × Int)) (h : List String) (t : List String) : String :=
  let fs := if l.isEmpty then "-" else ",".intercalate (l.map fun (ty, is, off, ord, nm) => s!"{ty}:{is}:{off}:{ord}:{nm}")
  let as := if attrs.isEmpty then "-" else ",".intercalate (attrs.map fun (f, a, r) => s!"{f}:{a}:{r}")
  " ".intercalate (h ++ [fs] ++ t ++ [as])
/-- the line the harness prints for the state the translated function leaves -/
def answer (s : vunpackvs.St) : String :=
  if s.ub || s.ret == -1 then "refused" else
  let n := s.vs_wlist_n.toNat
  let cell (base : Int) (i : Nat) : Int := s.vs_wlist_bptr.getD (base.toNat + i) 0
  let fields := if s.vs_wlist_n ≤ 0 || s.vs_wlist_type_null then [] else
    (List.range n).map fun i => (cell s.vs_wlist_type i, cell s.vs_wlist_isize i, cell s.vs_wlist_off i, cell s.vs_wlist_order i,
      cstrHex (s.vs_wlist_name.getD i []))
  let na := s.vs_nattrs.toNat
  let attrs := if s.vs_nattrs ≤ 0 || s.vs_alist_null then [] else
    (List.range na).map fun i => (s.vs_alist_findex.getD i 0, s.vs_alist_atag.getD i 0, s.vs_alist_aref.getD i 0)
  showRow fields attrs [toString s.vs_interlace, toString s.vs_nvertices, toString s.vs_wlist_ivsize]
    [cstrHex s.vs_vsname, cstrHex s.vs_vsclass, toString s.vs_extag, toString s.vs_exref, toString s.vs_version, toString s.vs_more,
     toString s.vs_flags]
/-- what theorem `vunpackvs_refines` says about a record the hand-written reader accepts (`none`: its hypothesis `Pre` fails) -/
def expected (v : H4.Format.VH) : Option String :=
  let cs (b : List UInt8) : List UInt8 := b.takeWhile (· ≠ 0)
  let pre := v.version ≤ 4 && v.fields.all (fun f => f.name.length < 32768) && v.name.length < 32768 && v.cls.length < 32768 &&
    (cs v.name).length < 65 && (cs v.cls).length < 65 && (v.flags % 2 = 0 || v.attrs.length < 2147483648)
  if !pre then none else
  let fields := v.fields.map fun f => ((if v.version ≤ 2 then mapOld f.type else f.type), (f.isize : Int), (f.off : Int), (f.order : Int), toHex (cs f.name))
  let attrs := if v.version = 4 ∧ v.flags % 2 = 1 then v.attrs.map fun a => (a.findex, (a.atag : Int), (a.aref : Int)) else []
  some (showRow fields attrs [toString v.interlace, toString v.nvert, toString v.ivsize]
    [toHex (cs v.name), toHex (cs v.cls), toString v.extag, toString v.exref, toString v.version, toString v.more,
     toString (if v.version = 4 then v.flags else 0)])
/-- a version-4 record with `VS_ATTR_SET` whose fields up to `nattrs` lie inside the record, with a positive `nattrs` larger than the
    record: the C code allocates `nattrs` cells before it runs off the record; the translated run would build a list of that size, so it
    is skipped (the real call was refused in the guard, or by the allocator) -/
def hugeAlloc (b : List UInt8) : Bool :=
  let g16 (p : Nat) : Option Nat := if p + 2 ≤ b.length then some ((b.getD p 0).toNat * 256 + (b.getD (p + 1) 0).toNat) else none
  let str (p : Nat) : Option Nat := do let l ← g16 p; if l ≥ 32768 then none else some (p + 2 + l)
  let na : Option Nat := do
    if b.length < 5 then none
    let version ← g16 (b.length - 5)
    if version ≠ 4 then none
    let n ← g16 8
    if n ≥ 32768 then none
    let p ← (List.range n).foldlM (fun p _ => str p) (10 + 8 * n)
    let p ← str p
    let p ← str p
    let fl ← g16 (p + 10)
    if fl % 2 = 0 then none
    -- `nattrs` itself lies (partly) behind the record: the C reads it from whatever follows (the guard page in the engine, the sentinel
    -- tail in the translated run) - an arbitrary count: treated like a count larger than the record
    match g16 (p + 12), g16 (p + 14) with
    | some hi, some lo => some (hi * 65536 + lo)
    | _, _ => some (b.length + 1)
  match na with
  | some na => na < 2147483648 && na > b.length
  | none => false
def unpack (b : List UInt8) : String :=
  if hugeAlloc b then "refused" else
  let s := run b
  let a := answer s
  if a != "refused" && s.oof then "oof" else
  match (H4.Format.vunpackvs b).bind expected with
  | some e => if a == e then a else s!"{a} MODEL={e}"
  | none => a
end GenVsU

def stepVs (st : VsState) (args : List String) : VsState × String :=
  let v := st.v
  match args with
  | ["packvs", il, nv, ivs, fields, nm, cl, extag, exref, ver, more, flags, attrs] =>
    match il.toInt?, nv.toInt?, ivs.toNat?, GenVs.parseFields fields, parseHex nm, parseHex cl, extag.toNat?, exref.toNat?, ver.toInt?,
        more.toInt?, flags.toNat?, GenVs.parseAttrs attrs with
    | some il, some nv, some ivs, some fields, some nm, some cl, some extag, some exref, some ver, some more, some flags, some attrs =>
      let h : H4.Format.VH := ⟨il, nv, ivs, fields, nm, cl, extag, exref, ver, more, flags, attrs⟩
      let model := H4.Format.vpackvs h
      (st, toHex model ++ GenVs.pack h model)
    | _, _, _, _, _, _, _, _, _, _, _, _ => (st, "bad-op")
  | ["unpackvs", h] => match parseHex h with
    | some b => (st, GenVsU.unpack b)
    | none => (st, "bad-op")
  | ["vtbuf", n] => ({ st with vtb := n.toNat?.getD 0 }, "ok")
  | ["fdefine", name, t, order] =>
    match parseNat t, parseNat order with
    | some t, some order =>
      match v.fdefine name t order with
      | some v' => ({ st with v := v' }, "ok" ++ GenVsfld.fdefine v.usym name t order (some v'.usym))
      | none => (st, "fail" ++ GenVsfld.fdefine v.usym name t order none)
    | _, _ => (st, "bad-op")
  | ["setinterlace", il] =>
    match parseNat il >>= v.setInterlace with
    | some v' => ({ st with v := v' }, "ok")
    | none => (st, "fail")
  | ["setfields", names] =>
    let (v', ok) := v.setFields names
    let gen := match scanattrs names with
      | some toks => GenVsfld.setfields v toks v' ok
      | none => ""
    ({ st with v := v' }, (if ok then "ok" else "fail") ++ gen)
  | ["info"] =>
    (st, s!"{v.nvertices} {v.interlace} {v.w.ivsize} {intSizeOf v.w} {v.w.n} {showFields v.w}")
  | ["sizeof", names] =>
    (st, match v.sizeof (optStr names) with | some n => toString n | none => "fail")
  | ["seek", k] =>
    match parseNat k with
    | some k => match v.seek k with
      | some v' => ({ st with v := v' }, toString k)
      | none => (st, "fail")
    | none => (st, "bad-op")
  | ["write", n, il, d] =>
    match parseNat n, parseNat il, parseHex d with
    | some n, some il, some bs =>
      match v.write st.vtb bs.toArray n il with
      | some (v', vtb) => ({ v := v', vtb := vtb }, s!"{n} {v'.nvertices} {vtb}")
      | none => (st, "fail")
    | _, _, _ => (st, "bad-op")
  | ["writepat", n, il, nbytes, seed] =>
    match parseNat n, parseNat il, parseNat nbytes, parseNat seed with
    | some n, some il, some nbytes, some seed =>
      match v.write st.vtb (patBuf nbytes seed) n il with
      | some (v', vtb) => ({ v := v', vtb := vtb }, s!"{n} {v'.nvertices} {vtb}")
      | none => (st, "fail")
    | _, _, _, _ => (st, "bad-op")
  | ["read", n, il, bufsz] =>
    match parseNat n, parseNat il, parseNat bufsz with
    | some n, some il, some bufsz =>
      match v.read st.vtb bufsz n il with
      | (some (buf, v'), vtb) => ({ v := v', vtb := vtb }, s!"{bufHex buf} {vtb}")
      | (none, vtb) => ({ st with vtb := vtb }, "fail")
    | _, _, _ => (st, "bad-op")
  | ["readsum", n, il, bufsz] =>
    match parseNat n, parseNat il, parseNat bufsz with
    | some n, some il, some bufsz =>
      match v.read st.vtb bufsz n il with
      | (some (buf, v'), vtb) => ({ v := v', vtb := vtb }, s!"{hex64 (fnv64 buf)} {vtb}")
      | (none, vtb) => ({ st with vtb := vtb }, "fail")
    | _, _, _ => (st, "bad-op")
  | ["raw"] => (st, bufHex v.store)
  | ["rawsum"] => (st, s!"{v.store.size} {hex64 (fnv64 v.store)}")
  -- VSdetach: a writer's symbol table is discarded; the next VSattach starts at position 0
  | ["detach"] => ({ st with v := { v with usym := if v.writable then [] else v.usym, pos := 0 } }, "ok")
  | ["attach", m] => ({ st with v := { v with writable := m == "w", pos := 0 } }, "ok")
  -- Vend/Hclose/Hopen/Vstart: the VDATA node is rebuilt from the stored VH: no read list
  | ["reopen"] => ({ st with v := { v with rlist := [], usym := [], pos := 0 } }, "ok")
  | ["fpack", pt, fib, nrec, fields, bufh, fbh] =>
    match parseNat pt, parseNat nrec, parseHex bufh, (fbh.splitOn "/").mapM parseHex with
    | some pt, some nrec, some buf, some fbs =>
      match vsfpack v.w pt (optStr fib) buf.toArray nrec (optStr fields) (fbs.map (·.toArray)) with
      | some (b, fbs') => (st, s!"{bufHex b} {"/".intercalate (fbs'.map bufHex)}")
      | none => (st, "fail")
    | _, _, _, _ => (st, "bad-op")
  | _ => (st, "bad-op")

end H4.Driver
