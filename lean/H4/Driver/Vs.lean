import H4.VData
import H4.Driver.Util
namespace H4.Driver
open H4.VData

/-- state of engine `vs`: one Vdata and the process-wide static `Vtbufsize` of vrw.c -/
structure VsState where
  v : VS := {}
  vtb : Nat := 0

def fnv64 (b : Buf) : UInt64 :=
  b.foldl (fun h x => (h ^^^ x.toUInt64) * 1099511628211) 14695981039346656037

def hex64 (x : UInt64) : String :=
  String.ofList ((List.range 16).map fun i => hexDigit ((x >>> (UInt64.ofNat (60 - 4 * i))).toNat % 16))

/-- the byte pattern of `writepat` (the harness uses the same formula) -/
def patBuf (n seed : Nat) : Buf :=
  Array.ofFn (n := n) fun i => UInt8.ofNat (seed + i.val * 7 + i.val / 256 * 13 + i.val / 65536 * 101)

def optStr (s : String) : Option String := if s == "*" then none else some s

def bufHex (b : Buf) : String := toHex b.toList

def showFields (w : WList) : String :=
  if w.fields.isEmpty then "-" else
  ",".intercalate (w.fields.map fun f => s!"{f.name}:{f.type}:{f.order}:{f.isize}:{f.esize}")

def stepVs (st : VsState) (args : List String) : VsState × String :=
  let v := st.v
  match args with
  | ["vtbuf", n] => ({ st with vtb := n.toNat?.getD 0 }, "ok")
  | ["fdefine", name, t, order] =>
    match parseNat t, parseNat order with
    | some t, some order =>
      match v.fdefine name t order with
      | some v' => ({ st with v := v' }, "ok")
      | none => (st, "fail")
    | _, _ => (st, "bad-op")
  | ["setinterlace", il] =>
    match parseNat il >>= v.setInterlace with
    | some v' => ({ st with v := v' }, "ok")
    | none => (st, "fail")
  | ["setfields", names] =>
    let (v', ok) := v.setFields names
    ({ st with v := v' }, if ok then "ok" else "fail")
  | ["info"] =>
    (st, s!"{v.nvertices} {v.interlace} {v.w.ivsize} {intSizeOf v.w} {v.w.n} {showFields v.w}")
  | ["sizeof", names] =>
    (st, match v.sizeof (optStr names) with | some n => toString n | none => "fail")
  | ["seek", k] =>
    match parseNat k with
    | some k => match v.seek k with
      | some v' => ({ st with v := v' }, toString k)
      | none => (st, "fail")
    | none => (st, "bad-op")
  | ["write", n, il, d] =>
    match parseNat n, parseNat il, parseHex d with
    | some n, some il, some bs =>
      match v.write st.vtb bs.toArray n il with
      | some (v', vtb) => ({ v := v', vtb := vtb }, s!"{n} {v'.nvertices} {vtb}")
      | none => (st, "fail")
    | _, _, _ => (st, "bad-op")
  | ["writepat", n, il, nbytes, seed] =>
    match parseNat n, parseNat il, parseNat nbytes, parseNat seed with
    | some n, some il, some nbytes, some seed =>
      match v.write st.vtb (patBuf nbytes seed) n il with
      | some (v', vtb) => ({ v := v', vtb := vtb }, s!"{n} {v'.nvertices} {vtb}")
      | none => (st, "fail")
    | _, _, _, _ => (st, "bad-op")
  | ["read", n, il, bufsz] =>
    match parseNat n, parseNat il, parseNat bufsz with
    | some n, some il, some bufsz =>
      match v.read st.vtb bufsz n il with
      | (some (buf, v'), vtb) => ({ v := v', vtb := vtb }, s!"{bufHex buf} {vtb}")
      | (none, vtb) => ({ st with vtb := vtb }, "fail")
    | _, _, _ => (st, "bad-op")
  | ["readsum", n, il, bufsz] =>
    match parseNat n, parseNat il, parseNat bufsz with
    | some n, some il, some bufsz =>
      match v.read st.vtb bufsz n il with
      | (some (buf, v'), vtb) => ({ v := v', vtb := vtb }, s!"{hex64 (fnv64 buf)} {vtb}")
      | (none, vtb) => ({ st with vtb := vtb }, "fail")
    | _, _, _ => (st, "bad-op")
  | ["raw"] => (st, bufHex v.store)
  | ["rawsum"] => (st, s!"{v.store.size} {hex64 (fnv64 v.store)}")
  -- VSdetach: a writer's symbol table is discarded; the next VSattach starts at position 0
  | ["detach"] => ({ st with v := { v with usym := if v.writable then [] else v.usym, pos := 0 } }, "ok")
  | ["attach", m] => ({ st with v := { v with writable := m == "w", pos := 0 } }, "ok")
  -- Vend/Hclose/Hopen/Vstart: the VDATA node is rebuilt from the stored VH: no read list
  | ["reopen"] => ({ st with v := { v with rlist := [], usym := [], pos := 0 } }, "ok")
  | ["fpack", pt, fib, nrec, fields, bufh, fbh] =>
    match parseNat pt, parseNat nrec, parseHex bufh, (fbh.splitOn "/").mapM parseHex with
    | some pt, some nrec, some buf, some fbs =>
      match vsfpack v.w pt (optStr fib) buf.toArray nrec (optStr fields) (fbs.map (·.toArray)) with
      | some (b, fbs') => (st, s!"{bufHex b} {"/".intercalate (fbs'.map bufHex)}")
      | none => (st, "fail")
    | _, _, _, _ => (st, "bad-op")
  | _ => (st, "bad-op")

end H4.Driver
