import H4.DD
import H4.DDConfig
import H4.Driver.Util
import H4.Gen.Fn.Bitvect2
import H4.Gen.Fn.Hfiledd
import H4.Limits
/-! Line-protocol glue for engine `dd` (harness/e_dd.c). State = the open file (or none), and the bit vector of the unit-level
    `bv*` ops (bitvect.c: answered by the hand model `H4.Bitvect` and cross-run with the functions translated from the C text). -/
namespace H4.Driver
open H4.DD H4.Gen.Hdf

structure DDState where
  cfg : Cfg := H4.DD.currentCfg
  file : Option File := none
  bv : Option H4.Bitvect.BV := none
  deriving Inhabited

end H4.Driver
/-! helpers of engine `dd` (own namespace: other drivers have a `showRes` etc. too) -/
namespace H4.Driver.DDEng
open H4.DD H4.Gen.Hdf

def showDD (d : DD) : String := s!"{d.tag}/{d.ref}/{d.off}/{d.len}"

def showRes : Res → String
  | .ok => "ok" | .fail => "fail" | .num n => toString n | .unsupported => "unsupported"

def showBool (b : Bool) : String := if b then "ok" else "fail"

def showBlocks (bs : List Block) : String :=
  " ".intercalate (bs.map fun b =>
    s!"B {b.myoff},{b.next},{if b.dirty then 1 else 0},{b.dds.length}:" ++ ";".intercalate (b.dds.map showDD))

/-- in-memory mirror, as the harness reads it out of `filerec_t` -/
def showState (s : File) : String :=
  let nb : Int := match s.nullBlk with | none => -1 | some b => b
  s!"c={if s.cache then 1 else 0} d={if s.fdirty then 1 else 0} mr={s.maxref} nb={nb} ni={(s.nullNext : Int) - 1} fe={s.fEnd} " ++ showBlocks s.blocks

/-- disk image of the blocks that are clean in memory (a dirty block's bytes are about to be overwritten) -/
def showDisk (s : File) : String :=
  let rec go : List Block → List DBlock → List String
    | b :: bs, d :: ds =>
      (if b.dirty then s!"D {b.myoff},dirty"
       else s!"D {d.myoff},{d.ndds},{d.next}:" ++ ";".intercalate (d.dds.map showDD)) :: go bs ds
    | _, _ => []
  " ".intercalate (go s.blocks s.disk)

def parseDir (s : String) : Option Dir := if s == "f" then some .fwd else if s == "b" then some .bwd else none

/-- `HLcreate(file_id, tag, ref, block_length, number_blocks)` + `Hendaccess`, as a sequence of directory operations
    (hblocks.c: HLcreate, HLInewlink). Only the DD-level footprint is replayed. -/
def hlcreate (cfg : Cfg) (s : File) (tag ref : Nat) (nblk : Nat) : Res × File :=
  if isSpecial tag ∨ mkSpecial tag = DFTAG_NULL then (.fail, s) else
  let specialTag := mkSpecial tag
  -- search for identical dd
  let pre : Option (Res × File) ⊕ (File × Bool) :=
    match htpSelect s tag ref with
    | none => .inr (s, false)
    | some p =>
      let d := getDD s.blocks p
      if isSpecial d.tag then .inl (some (.fail, s))
      else if d.off = INVALID_OFFSET ∨ d.len = INVALID_LENGTH then
        let x := htpDelete cfg s p
        if x.1 then .inr (x.2, false) else .inl (some (.fail, x.2))
      else
        -- existing data becomes the first linked block
        let (nr, s) := htagnewref cfg s DFTAG_LINKED
        let (ok, s) := hdupdd cfg s DFTAG_LINKED nr tag ref
        if !ok then .inl (some (.fail, s)) else
        -- HTPdelete(data_id): the position of the old descriptor is unchanged by the dup
        let x := htpDelete cfg s p
        if x.1 then .inr (x.2, true) else .inl (some (.fail, x.2))
  match pre with
  | .inl (some r) => r
  | .inl none => (.fail, s)
  | .inr (s, _) =>
    let (linkRef, s) := htagnewref cfg s DFTAG_LINKED
    -- Hstartaccess(special_tag, ref, DFACC_ALL); Hwrite(16 bytes); Hendaccess
    match hstartaccess cfg s specialTag ref true with
    | (.ok p newElem, s) =>
      let s := if newElem then hsetlength s p 16 else s
      -- HLInewlink: Hstartwrite(DFTAG_LINKED, link_ref, 2 + 2 * number_blocks); Hwrite; Hendaccess
      let (r, s) := hputelement cfg s DFTAG_LINKED linkRef (2 + 2 * (nblk : Int))
      (match r with | .num _ => .ok | _ => .fail, s)
    | (_, s) => (.fail, s)

end H4.Driver.DDEng

/-! unit level of engine `dd`: `bv_set` / `bv_get` / `bv_find_next_zero` as TRANSLATED from `hdf/src/bitvect.c` (`H4.Gen.Fn.Bitvect2`, regenerated on
    every run) are executed on the same arguments as the hand model `H4.Bitvect`; a difference (or `ub` / `oof`) is appended to the model's answer as
    ` GEN=…`, i.e. it shows up as a DIFF against the real C.  The translated functions get the C fields of the model's CURRENT vector; `bvfill`
    threads its own C state through the whole run of `bv_set` calls. -/
namespace H4.Driver.GenBV
open H4.Bitvect H4.Gen.Fn.Bitvect2

def cells (l : List Nat) : List Int := l.map Int.ofNat

/-- buffer as the harness prints it: hex, trailing zero bytes trimmed, `-` when nothing is left; a cell that is not a byte is shown as `[v]` -/
def showCells (l : List Int) : String :=
  let t := (l.reverse.dropWhile (· == 0)).reverse
  if t.isEmpty then "-" else
  String.join (t.map fun c => if 0 ≤ c ∧ c < 256 then String.ofList [hexDigit (c.toNat / 16), hexDigit (c.toNat % 16)] else s!"[{c}]")

def showBV (ret : Int) (b : BV) : String := s!"{ret} {b.bitsUsed} {b.arraySize} {b.lastZero} {showCells (cells b.buf)}"

/-- the model's answer; when the translated function disagrees the answer is marked at BOTH ends (the checker shows only the head of a long line) -/
def tag (model : String) (ub oof : Bool) (gen : String) : String :=
  if ub then s!"GEN=ub {model} GEN=ub" else if oof then s!"GEN=oof {model} GEN=oof" else if gen == model then model else s!"GEN-DIFFERS {model} GEN=[{gen}]"

def set (b : BV) (bit val : Int) (model : String) : String :=
  let s := bv_set 0 false b.bitsUsed b.arraySize (cells b.buf) b.lastZero bit val
  tag model s.ub s.oof s!"{s.ret} {s.b_bits_used} {s.b_array_size} {s.b_last_zero} {showCells s.b_buffer}"

def get (b : BV) (bit : Int) (model : String) : String :=
  let s := bv_get 0 false false b.bitsUsed (cells b.buf) bit
  tag model s.ub s.oof (toString s.ret)

def find (b : BV) (model : String) : String :=
  let s := bv_find_next_zero (b.arraySize + 1) false false b.bitsUsed b.lastZero (cells b.buf) b.arraySize
  tag model s.ub s.oof s!"{s.ret} {s.b_bits_used} {s.b_array_size} {s.b_last_zero} {showCells s.b_buffer}"

/-- `for (i = a; i < e; i++) if (bv_set(b, i, v) == FAIL) r = FAIL;` on the translated `bv_set` -/
def fill (b : BV) (a n : Nat) (val : Int) (model : String) : String :=
  let rec go : Nat → Int → Int × Int × Int × List Int × Int × Bool × Bool → Int × Int × Int × List Int × Int × Bool × Bool
    | 0, _, st => st
    | k + 1, i, (bu, as, lz, buf, r, ub, oof) =>
      let s := bv_set 0 false bu as buf lz i val
      go k (i + 1) (s.b_bits_used, s.b_array_size, s.b_last_zero, s.b_buffer, if s.ret = -1 then -1 else r, ub || s.ub, oof || s.oof)
  let (bu, as, lz, buf, r, ub, oof) := go n a (b.bitsUsed, b.arraySize, b.lastZero, cells b.buf, 0, false, false)
  tag model ub oof s!"{r} {bu} {as} {lz} {showCells buf}"

def null (model : String) : String :=
  let s1 := bv_set 0 true 0 0 [] 0 3 1
  let s2 := bv_get 0 true true 0 [] 3
  let s3 := bv_find_next_zero 0 true true 0 0 [] 0
  tag model (s1.ub || s2.ub || s3.ub) (s1.oof || s2.oof || s3.oof) s!"{s1.ret} {s2.ret} {s3.ret}"

end H4.Driver.GenBV
/-! unit level 2 of engine `dd`: `Hnewref` / `Htagnewref` and the DD-block codec loops of `HTPsync` / `HTPstart` as TRANSLATED from
    `hdf/src/hfiledd.c` (`H4.Gen.Fn.Hfiledd`, regenerated on every run) are executed on the inputs of the `uref` / `ublk` lines and on the model
    state of the `newref` / `tagnewref` lines; a difference to the hand model's answer (or `ub` / `oof`) is appended as ` GEN=…`.
    The callee tables the translated functions take: `HTIfind_dd_ret[r]` = FAIL (-1) iff no live descriptor has ref `r`;
    `HTIregister_tag_ref_ret` = all SUCCEED (the harness prints `ublk dec` only for files it could open). -/
namespace H4.Driver.GenRef
open H4.DD H4.Bitvect H4.Gen.Fn.Hfiledd H4.Driver.GenBV

/-- the table of `HTIfind_dd(…, DFTAG_WILDCARD, r, …)` answers for the refs in use `refs` -/
def findTable (refs : List Nat) : List Int :=
  let a := refs.foldl (fun (a : Array Int) r => if r < 65536 then a.set! r 0 else a) (Array.replicate 65536 (-1))
  a.toList

/-- `Hnewref` on `maxref` and the refs in use; `model` = "<ret> <maxref after>" -/
def newref (maxref : Nat) (refs : List Nat) (model : String) : String :=
  let s := Hnewref 65535 0 false 1 maxref (if maxref < 65535 then [] else findTable refs)
  tag model s.ub s.oof s!"{s.ret} {s.file_rec_maxref}"

/-- the vector `HTIregister_tag_ref` builds for a tag: `bv_new(-1)`, bit 0, then the refs in registration order -/
def bvOf (refs : List Nat) : BV := refs.foldl (fun b r => b.set r true) (BV.new.set 0 true)

/-- `Htagnewref` on the node of the tag (`none`: `tbbtdfind` finds nothing); `model` = "<ret>" -/
def tagnewref (tg : Nat) (bv : Option BV) (model : String) : String :=
  match bv with
  | none =>
    let s := Htagnewref 0 0 tg false 1 true false false 0 0 [] 0
    tag model s.ub s.oof s!"{s.ret}"
  | some b =>
    let s := Htagnewref (b.arraySize + 1) 0 tg false 1 false false false b.bitsUsed b.lastZero (cells b.buf) b.arraySize
    tag model (s.ub || decide (s.base_tag ≠ (baseTag tg : Nat))) s.oof s!"{s.ret}"

def parseDDs (s : String) : Option (List DD) :=
  if s == "-" then some [] else
  (s.splitOn ",").mapM fun e => match e.splitOn "." with
    | [t, r, o, l] => match t.toNat?, r.toNat?, o.toInt?, l.toInt? with
      | some t, some r, some o, some l => some ⟨t, r, o, l⟩
      | _, _, _, _ => none
    | _ => none

def showDDs (l : List DD) : String :=
  if l.isEmpty then "-" else ",".intercalate (l.map fun d => s!"{d.tag}.{d.ref}.{d.off}.{d.len}")

def hexOf (l : List Int) : String :=
  if l.isEmpty then "-" else
  String.join (l.map fun c => if 0 ≤ c ∧ c < 256 then String.ofList [hexDigit (c.toNat / 16), hexDigit (c.toNat % 16)] else s!"[{c}]")

/-- the bytes of a block: the model's `encodeDD`s against the translated loop of `HTPsync` (what it hands to `HP_write`) -/
def enc (ds : List DD) : String :=
  let model := hexOf ((ds.flatMap encodeDD).map Int.ofNat)
  let n := ds.length
  let s := HTPsync_ddlist n (ds.map fun d => (d.tag : Int)) (ds.map fun d => (d.ref : Int)) (ds.map (·.off)) (ds.map (·.len))
    (List.replicate (12 * n) 170) n 0 []
  tag model s.ub (s.oof || s.gto) (hexOf s.io_out)

/-- the records of a block: the model's `decodeDDs` (and the `maxref` fold of `HTPstart`) against the translated loop of `HTPstart` -/
def dec (mr : Int) (B : List Nat) : String :=
  let n := B.length / 12
  let ds := decodeDDs n B
  let m := ds.foldl (fun m d => if m < d.ref then d.ref else m) 0
  let model := s!"{showDDs ds} {if mr < 0 then (-1 : Int) else (m : Int)}"
  let junk := List.replicate n (170 : Int)
  let s := HTPstart_ddlist n junk junk junk junk 0 (List.replicate (12 * n) 170) n 0 0 (B.map Int.ofNat) 0 (List.replicate n 0)
  let got : List DD := (List.range n).map fun k =>
    ⟨(s.ddcurr_ddlist_tag.getD k 0).toNat, (s.ddcurr_ddlist_ref.getD k 0).toNat, s.ddcurr_ddlist_offset.getD k 0, s.ddcurr_ddlist_length.getD k 0⟩
  tag model s.ub (s.oof || s.gto) s!"{showDDs got} {if mr < 0 then (-1 : Int) else s.file_rec_maxref}"

end H4.Driver.GenRef
namespace H4.Driver
open H4.DD H4.Gen.Hdf H4.Driver.DDEng

/-- the unit-level ops of engine `dd` on `Hnewref` / `Htagnewref` / the DD-block codec (hfiledd.c), independent of the open file:
    `uref newref maxref refs` · `uref tagnewref tag refs` · `ublk enc dds` · `ublk dec mr hex` -/
def stepRef (args : List String) : Option String :=
  match args with
  | ["uref", "newref", mr, refs] => match mr.toNat?, natList refs with
    | some mr, some refs =>
      let a := refs.foldl (fun (a : Array Bool) r => if r < 65536 then a.set! r true else a) (Array.replicate 65536 false)
      let x := H4.Limits.newref mr (fun r => a.getD r false)
      some (GenRef.newref mr refs s!"{x.1} {x.2}")
    | _, _ => some "bad-op"
  | ["uref", "tagnewref", tg, refs] => match tg.toNat?, natList refs with
    | some tg, some refs =>
      if refs.isEmpty then some (GenRef.tagnewref tg none "1")
      else
        let b := GenRef.bvOf refs
        some (GenRef.tagnewref tg (some b) (toString (tagnewrefValue Cfg.fixed b.findNextZero.1)))
    | _, _ => some "bad-op"
  | ["ublk", "enc", dds] => match GenRef.parseDDs dds with
    | some ds => some (GenRef.enc ds)
    | none => some "bad-op"
  | ["ublk", "dec", mr, hex] => match mr.toInt?, parseHex hex with
    | some mr, some bs => some (GenRef.dec mr (bs.map (·.toNat)))
    | _, _ => some "bad-op"
  | _ => none

/-- the unit-level ops of engine `dd` on the bit vector (bitvect.c): `bvnew` · `bvset bit value` · `bvfill a e value` · `bvget bit` · `bvfind` · `bvnull` -/
def stepBV (st : DDState) (args : List String) : Option (DDState × String) :=
  open H4.Bitvect in
  match args, st.bv with
  | ["bvnew"], _ => some ({ st with bv := some BV.new }, GenBV.showBV 0 BV.new)
  | ["bvnull"], _ => some (st, GenBV.null "-1 -1 -1")
  | ["bvset", bit, v], some b => match bit.toInt?, v.toInt? with
    | some bit, some v =>
      if bit < 0 then some (st, GenBV.set b bit v (GenBV.showBV (-1) b))
      else
        let b' := b.set bit.toNat (v != 0)
        some ({ st with bv := some b' }, GenBV.set b bit v (GenBV.showBV 0 b'))
    | _, _ => some (st, "bad-op")
  | ["bvfill", a, e, v], some b => match a.toNat?, e.toNat?, v.toInt? with
    | some a, some e, some v =>
      let b' := (List.range (e - a)).foldl (fun b i => b.set (a + i) (v != 0)) b
      some ({ st with bv := some b' }, GenBV.fill b a (e - a) v (GenBV.showBV 0 b'))
    | _, _, _ => some (st, "bad-op")
  | ["bvget", bit], some b => match bit.toInt? with
    | some bit => some (st, GenBV.get b bit (if bit < 0 then "-1" else toString (b.get bit.toNat)))
    | none => some (st, "bad-op")
  | ["bvfind"], some b =>
    let r := b.findNextZero
    some ({ st with bv := some r.2 }, GenBV.find b (GenBV.showBV r.1 r.2))
  | [op], none => if op.startsWith "bv" then some (st, "no-vector") else none
  | op :: _, none => if op.startsWith "bv" then some (st, "no-vector") else none
  | _, _ => none

def stepDD (st : DDState) (args : List String) : DDState × String :=
  match stepRef args with
  | some r => (st, r)
  | none =>
  match stepBV st args with
  | some r => r
  | none =>
  match args, st.file with
  | ["cfg", bits], _ =>
    let b (i : Nat) : Bool := (bits.toList.getD i '0') == '1'
    ({ st with cfg := ⟨b 0, b 1, b 2, b 3, b 4, b 5⟩ }, "ok")
  | ["open", n], _ => match n.toNat? with
    | some n => ({ st with file := some (hopenCreate st.cfg n) }, "ok")
    | none => (st, "bad-op")
  | _, none => (st, "closed")
  | ["put", t, r, l], some s => match t.toNat?, r.toNat?, l.toInt? with
    | some t, some r, some l => let x := hputelement st.cfg s t r l; ({ st with file := some x.2 }, showRes x.1)
    | _, _, _ => (st, "bad-op")
  | ["sw", t, r, l], some s => match t.toNat?, r.toNat?, l.toInt? with
    | some t, some r, some l => let x := hstartwriteEnd st.cfg s t r l; ({ st with file := some x.2 }, showRes x.1)
    | _, _, _ => (st, "bad-op")
  | ["append", t, r, l], some s => match t.toNat?, r.toNat?, l.toInt? with
    | some t, some r, some l => let x := happend st.cfg s t r l; ({ st with file := some x.2 }, showRes x.1)
    | _, _, _ => (st, "bad-op")
  | ["del", t, r], some s => match t.toNat?, r.toNat? with
    | some t, some r => let x := hdeldd st.cfg s t r; ({ st with file := some x.2 }, showBool x.1)
    | _, _ => (st, "bad-op")
  | ["dup", t, r, ot, or'], some s => match t.toNat?, r.toNat?, ot.toNat?, or'.toNat? with
    | some t, some r, some ot, some or' =>
      let x := hdupdd st.cfg s t r ot or'; ({ st with file := some x.2 }, showBool x.1)
    | _, _, _, _ => (st, "bad-op")
  | ["filldup", t, a, b, ot, or'], some s => match t.toNat?, a.toNat?, b.toNat?, ot.toNat?, or'.toNat? with
    | some t, some a, some b, some ot, some or' =>
      -- `for (i = a; i <= b; i++) Hdupdd(fid, t, i, ot, or)`
      let rec go : Nat → Nat → File → Bool → File × Bool
        | 0, _, s, ok => (s, ok)
        | n + 1, i, s, ok => if !ok then (s, ok) else
          let x := hdupdd st.cfg s t i ot or'
          go n (i + 1) x.2 x.1
      let x := go (b + 1 - a) a s true
      ({ st with file := some x.1 }, showBool x.2)
    | _, _, _, _, _ => (st, "bad-op")
  | ["reuse", t, r], some s => match t.toNat?, r.toNat? with
    | some t, some r => let x := hdreuse s t r; ({ st with file := some x.2 }, showBool x.1)
    | _, _ => (st, "bad-op")
  | ["find", stg, sr, ft, fr, d], some s => match stg.toNat?, sr.toNat?, ft.toNat?, fr.toNat?, parseDir d with
    | some stg, some sr, some ft, some fr, some d =>
      let x := hfind s stg sr ft fr d
      ({ st with file := some x.2 }, match x.1 with | some dd => showDD dd | none => "fail")
    | _, _, _, _, _ => (st, "bad-op")
  | ["iter", stg, sr, d, mx], some s => match stg.toNat?, sr.toNat?, parseDir d, mx.toNat? with
    | some stg, some sr, some d, some mx =>
      let l := iterFind s stg sr d mx 0 0
      (st, if l.isEmpty then "-" else ",".intercalate (l.map showDD))
    | _, _, _, _ => (st, "bad-op")
  | ["number", t], some s => match t.toNat? with
    | some t => (st, toString (hnumber st.cfg s t).1)
    | none => (st, "bad-op")
  | ["odd_first_mismatch", t], some s => match t.toNat? with
    -- a fact about the block layout: some block has an odd number of descriptors and its first one does not match
    -- `t` (exactly when the unfixed `HTIcount_dd` reads past the block)
    | some t => (st, if (hnumber Cfg.asIs s t).2 then "1" else "0")
    | none => (st, "bad-op")
  | ["exist", t, r], some s => match t.toNat?, r.toNat? with
    | some t, some r => let x := hexist s t r; ({ st with file := some x.2 }, showBool x.1)
    | _, _ => (st, "bad-op")
  | ["length", t, r], some s => match t.toNat?, r.toNat? with
    | some t, some r => let x := hinquire st.cfg s t r
      ({ st with file := some x.2.2 }, match x.1 with | some d => (if d.len = -1 then "fail" else toString d.len) | none => if x.2.1 then "unsupported" else "fail")
    | _, _ => (st, "bad-op")
  | ["offset", t, r], some s => match t.toNat?, r.toNat? with
    | some t, some r => let x := hinquire st.cfg s t r
      ({ st with file := some x.2.2 }, match x.1 with | some d => (if d.off = -1 then "fail" else toString d.off) | none => if x.2.1 then "unsupported" else "fail")
    | _, _ => (st, "bad-op")
  | ["newref"], some s =>
    let x := hnewref s
    -- cross-run: the translated `Hnewref` on the model's `maxref` and the refs of its live descriptors ("<ret> <maxref>" compared, `ret` shown)
    let g := GenRef.newref s.maxref (s.live.map (·.ref)) s!"{x.1} {x.2.maxref}"
    ({ st with file := some x.2 }, if g == s!"{x.1} {x.2.maxref}" then toString x.1 else g)
  | ["tagnewref", t], some s => match t.toNat? with
    | some t =>
      let x := htagnewref st.cfg s t
      -- cross-run: the translated `Htagnewref` on the bit vector the model's tag tree holds for `BASETAG(t)`
      ({ st with file := some x.2 }, if st.cfg.fixF7 then GenRef.tagnewref t (tget s.tags (baseTag t)) (toString x.1) else toString x.1)
    | none => (st, "bad-op")
  | ["cache", c], some s => ({ st with file := some (hcache s (c != "0")) }, "ok")
  | ["sync"], some s => ({ st with file := some (hsync s) }, "ok")
  | ["reopen"], some s => match hreopen st.cfg s with
    | some s' => ({ st with file := some s' }, "ok")
    | none => ({ st with file := none }, "fail")
  | ["hlcreate", t, r, nb], some s => match t.toNat?, r.toNat?, nb.toNat? with
    | some t, some r, some nb => let x := hlcreate st.cfg s t r nb; ({ st with file := some x.2 }, showRes x.1)
    | _, _, _ => (st, "bad-op")
  | ["state"], some s => (st, showState s)
  | ["disk"], some s => (st, showDisk s)
  | ["ub"], some s => (st, if s.ub then "1" else "0")
  | _, _ => (st, "bad-op")

end H4.Driver
