import H4.Atom
import H4.Driver.Util
namespace H4.Driver
open H4.Atom

/-- an `atom_t` printed by C as a signed decimal -> its 32-bit pattern -/
def atomOfInt (i : Int) : Nat := (i % 4294967296).toNat

/-- 32-bit pattern -> the signed decimal C prints for an `atom_t` -/
def atomToInt (a : Nat) : Int := if a ≥ 2147483648 then (a : Int) - 4294967296 else a

def showRes : Res → String
  | .status r => if r == 0 then "ok" else "fail"
  | .atom a => if a == H4.Gen.Atom.FAIL_ATOM then "fail" else toString (atomToInt a)
  | .obj o => if o == NULL then "fail" else toString o
  | .grp g => if g == H4.Gen.Atom.BADGROUP then "fail" else toString g

/-- engine `atom` (stateful, reset at every CASE):
    `init <grp> <hash_size>` | `destroy <grp>` => ok|fail;  `register <grp> <obj>` => <atom>|fail;
    `object <atom>` | `remove <atom>` | `search <grp> <m> <r>` => <obj>|fail (NULL);  `group <atom>` => <grp>|fail;
    `shutdown` => ok.   Atoms are signed 32-bit decimals, objects are pointer values in decimal. -/
def parseAtomOp (args : List String) : Option Op :=
  match args with
  | ["init", g, h] => do some (.init (← parseInt g) (← parseNat h))
  | ["destroy", g] => do some (.destroy (← parseInt g))
  | ["register", g, o] => do some (.register (← parseInt g) (← parseNat o))
  | ["object", a] => do some (.object (atomOfInt (← parseInt a)))
  | ["group", a] => do some (.group (atomOfInt (← parseInt a)))
  | ["remove", a] => do some (.remove (atomOfInt (← parseInt a)))
  | ["search", g, m, r] => do some (.search (← parseInt g) (← parseNat m) (← parseNat r))
  | ["shutdown"] => some .shutdown
  | _ => none

def stepAtom (s : State) (args : List String) : State × String :=
  match parseAtomOp args with
  | some op => let (s', r) := step s op; (s', showRes r)
  | none => (s, "bad-op")

end H4.Driver
