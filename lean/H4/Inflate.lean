/-! # zlib / deflate reader (RFC 1950, RFC 1951) for the independent format reader (C02)

The deflate coder of HDF4 (`hdf/src/cdeflate.c`) stores a zlib stream (`deflateInit` / `inflateInit`) under
`DFTAG_COMPRESSED`.  This is a plain, total (fuel-bounded) decoder written from the two RFCs in the style of zlib's
`contrib/puff`: stored, fixed-Huffman and dynamic-Huffman blocks, canonical Huffman decoding bit by bit, the zlib header
check and the Adler-32 trailer.  It is NOT proved against an encoder (zlib is not modelled); it is an independent
implementation whose output is compared with the library's `Hread` on every deflate element (engine `fmt`), and the
Adler-32 of the output is checked against the stream's own trailer.  Core-only. -/
namespace H4.Inflate

/-- bit reader: `pos` counts bits from the start of `data`, least significant bit of each byte first -/
structure BitR where
  data : ByteArray
  pos : Nat

def BitR.bit (r : BitR) : Option (Nat × BitR) :=
  let i := r.pos / 8
  if h : i < r.data.size then
    some (((r.data[i]).toNat >>> (r.pos % 8)) % 2, { r with pos := r.pos + 1 })
  else none

/-- `n` bits, first bit read = least significant -/
def BitR.bits : Nat → BitR → Option (Nat × BitR)
  | 0, r => some (0, r)
  | n+1, r => do
    let (b, r) ← r.bit
    let (v, r) ← BitR.bits n r
    some (b + 2 * v, r)

/-- canonical Huffman code: number of codes of each length 0..15, symbols ordered by (length, symbol) -/
structure Huff where
  count : Array Nat
  symbol : Array Nat

def maxBits : Nat := 15

/-- `construct` of puff.c; `none` for an over-subscribed set of lengths -/
def mkHuff (lengths : List Nat) : Option Huff := Id.run do
  let mut count : Array Nat := Array.replicate (maxBits + 1) 0
  for l in lengths do
    if l ≤ maxBits then count := count.modify l (· + 1)
  -- over-subscription check
  let mut left : Int := 1
  let mut okk := true
  for len in [1:maxBits + 1] do
    left := left * 2 - (count[len]! : Int)
    if left < 0 then okk := false
  if !okk then return none
  -- offsets of each length in the symbol table
  let mut offs : Array Nat := Array.replicate (maxBits + 2) 0
  for len in [1:maxBits + 1] do
    offs := offs.set! (len + 1) (offs[len]! + count[len]!)
  let mut symbol : Array Nat := Array.replicate lengths.length 0
  let mut s := 0
  for l in lengths do
    if l ≠ 0 ∧ l ≤ maxBits then
      symbol := symbol.set! offs[l]! s
      offs := offs.modify l (· + 1)
    s := s + 1
  return some ⟨count, symbol⟩

/-- `decode` of puff.c: one symbol, reading bit by bit -/
def decodeSym (h : Huff) (r : BitR) : Option (Nat × BitR) :=
  let rec go : Nat → Nat → Nat → Nat → Nat → BitR → Option (Nat × BitR)
    | 0, _, _, _, _, _ => none
    | fuel+1, len, code, first, index, r =>
      if len > maxBits then none else
      match r.bit with
      | none => none
      | some (b, r) =>
        let code := code + b
        let cnt := h.count[len]!
        if code < first + cnt then some (h.symbol[index + (code - first)]!, r)
        else go fuel (len + 1) ((code) * 2) ((first + cnt) * 2) (index + cnt) r
  go (maxBits + 1) 1 0 0 0 r

def lenBase : Array Nat := #[3, 4, 5, 6, 7, 8, 9, 10, 11, 13, 15, 17, 19, 23, 27, 31, 35, 43, 51, 59, 67, 83, 99, 115, 131, 163, 195, 227, 258]
def lenExtra : Array Nat := #[0, 0, 0, 0, 0, 0, 0, 0, 1, 1, 1, 1, 2, 2, 2, 2, 3, 3, 3, 3, 4, 4, 4, 4, 5, 5, 5, 5, 0]
def distBase : Array Nat := #[1, 2, 3, 4, 5, 7, 9, 13, 17, 25, 33, 49, 65, 97, 129, 193, 257, 385, 513, 769, 1025, 1537, 2049, 3073, 4097, 6145,
  8193, 12289, 16385, 24577]
def distExtra : Array Nat := #[0, 0, 0, 0, 1, 1, 2, 2, 3, 3, 4, 4, 5, 5, 6, 6, 7, 7, 8, 8, 9, 9, 10, 10, 11, 11, 12, 12, 13, 13]

/-- copy `len` bytes from `dist` back, byte by byte (the ranges may overlap) -/
def copyBack : Nat → Nat → ByteArray → ByteArray
  | 0, _, out => out
  | len+1, dist, out => copyBack len dist (out.push (out[out.size - dist]!))

/-- `codes` of puff.c: literal/length and distance symbols until end-of-block (256); fuel = remaining input bits + 1 -/
def codes (lit dist : Huff) : Nat → BitR → ByteArray → Option (BitR × ByteArray)
  | 0, _, _ => none
  | fuel+1, r, out =>
    match decodeSym lit r with
    | none => none
    | some (sym, r) =>
      if sym < 256 then codes lit dist fuel r (out.push (UInt8.ofNat sym))
      else if sym = 256 then some (r, out)
      else
        let k := sym - 257
        if k ≥ 29 then none else
        match r.bits lenExtra[k]! with
        | none => none
        | some (e, r) =>
          let len := lenBase[k]! + e
          match decodeSym dist r with
          | none => none
          | some (ds, r) =>
            if ds ≥ 30 then none else
            match r.bits distExtra[ds]! with
            | none => none
            | some (de, r) =>
              let d := distBase[ds]! + de
              if d > out.size then none
              else codes lit dist fuel r (copyBack len d out)

def fixedLit : Option Huff :=
  mkHuff (List.replicate 144 8 ++ List.replicate 112 9 ++ List.replicate 24 7 ++ List.replicate 8 8)
def fixedDist : Option Huff := mkHuff (List.replicate 30 5)

def clOrder : List Nat := [16, 17, 18, 0, 8, 7, 9, 6, 10, 5, 11, 4, 12, 3, 13, 2, 14, 1, 15]

/-- code lengths of a dynamic block (symbols 16, 17, 18 repeat); fuel bounds the number of symbols read -/
def readLengths (cl : Huff) (total : Nat) : Nat → BitR → List Nat → Option (List Nat × BitR)
  | 0, _, _ => none
  | fuel+1, r, acc =>
    if acc.length ≥ total then (if acc.length = total then some (acc, r) else none) else
    match decodeSym cl r with
    | none => none
    | some (sym, r) =>
      if sym < 16 then readLengths cl total fuel r (acc ++ [sym])
      else if sym = 16 then
        match acc.getLast?, r.bits 2 with
        | some prev, some (e, r) => readLengths cl total fuel r (acc ++ List.replicate (3 + e) prev)
        | _, _ => none
      else if sym = 17 then
        match r.bits 3 with
        | some (e, r) => readLengths cl total fuel r (acc ++ List.replicate (3 + e) 0)
        | none => none
      else
        match r.bits 7 with
        | some (e, r) => readLengths cl total fuel r (acc ++ List.replicate (11 + e) 0)
        | none => none

def readN (n width : Nat) : Nat → BitR → Option (List Nat × BitR)
  | 0, r => some ([], r)
  | k+1, r => do
    let (v, r) ← r.bits width
    let (vs, r) ← readN n width k r
    some (v :: vs, r)

def dynamicBlock (r : BitR) (out : ByteArray) : Option (BitR × ByteArray) := do
  let (hlit, r) ← r.bits 5
  let (hdist, r) ← r.bits 5
  let (hclen, r) ← r.bits 4
  let nlen := hlit + 257
  let ndist := hdist + 1
  let ncode := hclen + 4
  if nlen > 286 ∨ ndist > 30 then none
  let (cls, r) ← readN ncode 3 ncode r
  let clLens := (List.range 19).map fun s =>
    match (clOrder.zip cls).find? (fun p => p.1 == s) with
    | some (_, l) => l
    | none => 0
  let cl ← mkHuff clLens
  let (lens, r) ← readLengths cl (nlen + ndist) (nlen + ndist + 1) r []
  if lens.getD 256 0 = 0 then none
  let lit ← mkHuff (lens.take nlen)
  let dist ← mkHuff (lens.drop nlen)
  codes lit dist (8 * r.data.size + 1 - r.pos + 1) r out

def storedBlock (r : BitR) (out : ByteArray) : Option (BitR × ByteArray) :=
  let p := (r.pos + 7) / 8
  if p + 4 ≤ r.data.size then
    let len := (r.data[p]!).toNat + 256 * (r.data[p + 1]!).toNat
    let nlen := (r.data[p + 2]!).toNat + 256 * (r.data[p + 3]!).toNat
    if len + nlen ≠ 65535 then none
    else if p + 4 + len ≤ r.data.size then
      some ({ r with pos := 8 * (p + 4 + len) }, out ++ r.data.extract (p + 4) (p + 4 + len))
    else none
  else none

/-- all blocks of a raw deflate stream; fuel = number of input bits (each block reads at least 3) -/
def blocks : Nat → BitR → ByteArray → Option (BitR × ByteArray)
  | 0, _, _ => none
  | fuel+1, r, out =>
    match r.bits 1 with
    | none => none
    | some (last, r) =>
      match r.bits 2 with
      | none => none
      | some (ty, r) =>
        let res :=
          if ty = 0 then storedBlock r out
          else if ty = 1 then
            match fixedLit, fixedDist with
            | some l, some d => codes l d (8 * r.data.size + 1 - r.pos + 1) r out
            | _, _ => none
          else if ty = 2 then dynamicBlock r out
          else none
        match res with
        | none => none
        | some (r, out) => if last = 1 then some (r, out) else blocks fuel r out

def adler32 (a : ByteArray) : Nat := Id.run do
  let mut s1 := 1
  let mut s2 := 0
  for x in a do
    s1 := (s1 + x.toNat) % 65521
    s2 := (s2 + s1) % 65521
  return s2 * 65536 + s1

/-- a zlib stream (RFC 1950): header, deflate blocks, Adler-32 of the uncompressed data (big endian).
    Bytes after the trailer are ignored (a rewritten element keeps its old length). -/
def zlibDecode (z : ByteArray) : Except String ByteArray :=
  if z.size < 6 then .error "zlib stream shorter than header and trailer" else
  let cmf := (z[0]!).toNat
  let flg := (z[1]!).toNat
  if cmf % 16 ≠ 8 then .error s!"zlib compression method {cmf % 16}"
  else if (cmf * 256 + flg) % 31 ≠ 0 then .error "zlib header check"
  else if (flg / 32) % 2 = 1 then .error "zlib preset dictionary"
  else
    match blocks (8 * z.size) ⟨z, 16⟩ ByteArray.empty with
    | none => .error "deflate stream malformed or truncated"
    | some (r, out) =>
      let p := (r.pos + 7) / 8
      if p + 4 > z.size then .error "zlib trailer missing"
      else
        let want := (((z[p]!).toNat * 256 + (z[p + 1]!).toNat) * 256 + (z[p + 2]!).toNat) * 256 + (z[p + 3]!).toNat
        if adler32 out ≠ want then .error "Adler-32 of the expanded data does not match the trailer"
        else .ok out

end H4.Inflate
